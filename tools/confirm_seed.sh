#!/bin/sh
# usage: tools/confirm_seed.sh <seed-dir> <crate> [features]
# Confirms a seeded change in a clean scratch worktree of /repo (never in /repo itself):
#   suite passes with the patch; demo FAILS with the patch and PASSES without it.
# Prints one line: CONFIRMED / NOT-CONFIRMED with the three results.
set -u
d=$(cd "$1" && pwd); crate=$2; feats=${3:-}
wt=/var/tmp/confirm-wt
[ -d $wt ] || git -C /repo worktree add --detach $wt HEAD >/dev/null 2>&1
cd $wt && git checkout -q --detach $(git -C /repo rev-parse HEAD) && git checkout -q -- . && git clean -fdq source
export CARGO_NET_OFFLINE=true
git apply "$d/patch.diff" || { echo "$(basename $d) NOT-CONFIRMED patch does not apply"; exit 1; }
suite=$(cargo test --workspace --no-fail-fast --offline 2>&1 | grep "^test result" | awk '{p+=$4; f+=$6} END {print p" passed "f" failed"}')
tdir=source/$crate/tests; mkdir -p $tdir; cp "$d/demo.rs" $tdir/zz_seed_demo.rs
fa=""; [ -n "$feats" ] && fa="--features $feats"
with=$(cargo test -p $crate $fa --offline --test zz_seed_demo 2>&1 | grep -E "^test result|error(\[|:)" | head -2 | tr '\n' ' ')
git apply -R "$d/patch.diff"
without=$(cargo test -p $crate $fa --offline --test zz_seed_demo 2>&1 | grep -E "^test result|error(\[|:)" | head -2 | tr '\n' ' ')
rm -f $tdir/zz_seed_demo.rs
ok=NOT-CONFIRMED
case "$suite" in *" 0 failed") case "$with" in *FAILED*) case "$without" in *"test result: ok"*) ok=CONFIRMED;; esac;; esac;; esac
echo "$(basename $d) $ok | suite with patch: $suite | demo with: $with | demo without: $without"
