#!/bin/sh
# usage: tools/run_seeded_all.sh < list   (lines: <seeded-dir> <prop> [<prop>...])
# Applies each seeded patch to /repo in turn, runs the quick checks named on the line, reverts.
cd "$(dirname "$0")/.."
git -C /repo diff --quiet || { echo "/repo has local changes; refusing"; exit 2; }
while read dir props; do
  [ -z "$dir" ] && continue
  git -C /repo apply "$(pwd)/seeded/$dir/patch.diff" || { echo "$dir: patch does not apply"; continue; }
  for p in $props; do
    out=$(./check "$p" --tier quick 2>&1); rc=$?
    line=$(echo "$out" | grep -E "^VIOLATION|^OK" | tail -1)
    if [ $rc -ne 0 ]; then echo "$dir DETECTED by $p: $line"; else echo "$dir MISSED by $p: $line"; fi
  done
  git -C /repo checkout -- .
done
./check C13 --tier quick >/dev/null 2>&1   # rebuild the harness against the clean tree
echo "done; /repo clean: $(git -C /repo status --short | wc -l) changes"
