#!/bin/sh
# usage: tools/run_neutral.sh <dir-with-patch.diff>
# Applies a PROPERTY-PRESERVING change to /repo, runs all 20 quick checks, reverts. Every check must stay quiet:
# a VIOLATION here is a false alarm of the machinery (or the change is not neutral after all) and must be investigated.
set -u
cd "$(dirname "$0")/.."
dir=$(cd "$1" && pwd)
git -C /repo diff --quiet || { echo "/repo has local changes; refusing"; exit 2; }
git -C /repo apply "$dir/patch.diff" || { echo "patch does not apply"; exit 2; }
tools/run_all.sh quick 5 2>&1 | sort | sed "s|^|$(basename $dir) |"
git -C /repo checkout -- .
git -C /repo clean -fdq source 2>/dev/null
./check C13 --tier quick >/dev/null 2>&1
echo "reverted: $(git -C /repo status --short | wc -l) changes left"
