#!/bin/sh
# usage: tools/run_seeded.sh <seeded-dir> <prop> [<prop>...]
# Applies seeded/<dir>/patch.diff to /repo, runs the quick checks of the given properties, reverts.
# Prints one line per property: DETECTED / MISSED. Never leaves /repo modified.
set -u
cd "$(dirname "$0")/.."
dir=$1; shift
git -C /repo diff --quiet || { echo "/repo has local changes; refusing"; exit 2; }
git -C /repo apply "$(pwd)/$dir/patch.diff" || { echo "patch does not apply"; exit 2; }
for p in "$@"; do
  out=$(./check "$p" --tier quick 2>&1); rc=$?
  line=$(echo "$out" | grep -E "^VIOLATION|^OK" | tail -1)
  if [ $rc -ne 0 ]; then echo "DETECTED $p: $line"; else echo "MISSED $p: $line"; fi
done
git -C /repo checkout -- .
# rebuild the harness against the clean tree so later runs start from a consistent binary
./check C13 --tier quick >/dev/null 2>&1
echo "reverted"
