#!/bin/bash
# usage: tools/par_regress.sh <list-file> [workers]
#   list lines:  seeded/<dir> <prop> [<prop>...]      -> expects DETECTED (rc != 0) for every prop
#                neutral/<dir> <prop> [<prop>...]     -> expects QUIET (rc == 0) for every prop ("all" = the 20 checks)
# Regression of the machinery itself, in PARALLEL: every worker gets its own copy of /verif (committed HEAD plus
# build output) and its own detached worktree of /repo, so nothing here touches /repo or the registered checks
# (which always read /repo). Results: one line per (patch, property) on stdout. Workers are removed afterwards.
set -u
list=$(cd "$(dirname "$1")" && pwd)/$(basename "$1"); W=${2:-6}
V=/verif; base=/var/tmp/pw
all="C01 C02 C03 C04 C05 C06 C07 C08 C09 C10 C11 C12 C13 C14 C15 C16 C17 C18 C19 C20"
mk() { k=$1; d=$base$k; rm -rf $d; mkdir -p $d
  git -C /repo worktree add --detach $d/repo HEAD >/dev/null 2>&1
  cp /repo/Cargo.lock $d/repo/Cargo.lock 2>/dev/null     # untracked in /repo, needed for offline builds
  rsync -a --exclude .git --exclude replays --exclude work $V/ $d/verif/
  sed -i "s|/repo/source|$d/repo/source|g" $d/verif/harness/Cargo.toml $d/verif/harness_alloc/Cargo.toml
  ( cd $d/verif && VERIF_REPO=$d/repo ./check C13 --tier quick >/dev/null 2>&1 ) ; }
worker() { k=$1; d=$base$k
  awk -v k=$k -v w=$W 'NF && (NR-1)%w==k' "$list" | while read patch props; do
    [ "$props" = "all" ] && props=$all
    git -C $d/repo checkout -q -- . ; git -C $d/repo clean -fdq source
    case $patch in
      mut:*)   # a mechanical mutant (tools/mutate.py): only interesting if the repository's own suite lets it through
        pdir=${patch#mut:}
        if ! git -C $d/repo apply $pdir/patch.diff 2>/dev/null; then echo "$patch PATCH-DOES-NOT-APPLY"; continue; fi
        suite=$(cd $d/repo && CARGO_NET_OFFLINE=true timeout 900 cargo test --workspace --no-fail-fast --offline 2>&1 | grep -E "^test result|^error" | awk '/^error/ {e=1} /^test result/ {f+=$6} END {if (e) print "build-error"; else print f" failed"}')
        if [ "$suite" != "0 failed" ]; then echo "$patch KILLED-BY-SUITE ($suite)"; continue; fi
        hit=""
        for p in $props; do
          out=$(cd $d/verif && VERIF_REPO=$d/repo ./check $p --tier quick 2>&1)
          line=$(echo "$out" | grep -E "^(VIOLATION|OK)" | tail -1 | sed "s|$d||g" | cut -c1-110)
          case "$line" in VIOLATION*) hit="$hit $p";; esac
        done
        if [ -n "$hit" ]; then echo "$patch DETECTED-BY$hit"; else echo "$patch SURVIVED $(head -1 $pdir/desc.txt)"; fi
        continue;;
    esac
    if ! git -C $d/repo apply $V/$patch/patch.diff 2>/dev/null; then echo "$patch PATCH-DOES-NOT-APPLY"; continue; fi
    for p in $props; do
      out=$(cd $d/verif && VERIF_REPO=$d/repo ./check $p --tier quick 2>&1); rc=$?
      line=$(echo "$out" | grep -E "^(VIOLATION|OK|Traceback|harness build|.*Error)" | tail -1 | sed "s|$d||g" | cut -c1-120)
      case $patch in
        seeded/*) case "$line" in VIOLATION*) echo "$patch $p DETECTED $line";; OK*) echo "$patch $p MISSED $line";; *) echo "$patch $p BROKEN-RUN rc=$rc $line";; esac;;
        *) case "$line" in OK*) echo "$patch $p QUIET";; VIOLATION*) echo "$patch $p FALSE-ALARM $line";; *) echo "$patch $p BROKEN-RUN rc=$rc $line";; esac;;
      esac
    done
  done
  git -C /repo worktree remove --force $d/repo >/dev/null 2>&1; rm -rf $d; }
for k in $(seq 0 $((W-1))); do mk $k & done; wait
for k in $(seq 0 $((W-1))); do worker $k & done; wait
git -C /repo worktree prune
