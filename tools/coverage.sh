#!/bin/sh
# usage: tools/coverage.sh [tier]     (not part of any registered check; a measurement aid)
# Builds the harness with -Cinstrument-coverage (nightly toolchain: its llvm-tools match), runs the generator and
# evaluator of every property's stream, and prints line coverage of /repo/source/*/src per file plus the
# lines never executed. Everything lives under /var/tmp/pcverif-cov and is removed at the end.
set -e
tier=${1:-quick}
W=/var/tmp/pcverif-cov; rm -rf $W; mkdir -p $W/run
T=$(dirname "$(rustc +nightly --print target-libdir)")/bin
cd "$(dirname "$0")/../harness"
LLVM_PROFILE_FILE=$W/run/build-%p.profraw CARGO_NET_OFFLINE=true CARGO_TARGET_DIR=$W/target \
  RUSTFLAGS="--cfg postcard_verif -Cinstrument-coverage" cargo +nightly build --release --offline >/dev/null 2>&1
B=$W/target/release/pcverif
for p in C01 C02 C03 C04 C05 C06 C07 C08 C09 C10 C11 C12 C13 C14 C15 C16 C17 C18 C19 C20; do
  LLVM_PROFILE_FILE=$W/run/gen-$p.profraw $B gen $p $tier 20260929 > $W/run/ops-$p.txt 2>/dev/null
  LLVM_PROFILE_FILE=$W/run/ev-$p.profraw $B eval $p $W/run/orc-$p.txt < $W/run/ops-$p.txt >/dev/null 2>&1 || true
done
$T/llvm-profdata merge -sparse $W/run/ev-*.profraw -o $W/all.profdata
$T/llvm-cov report $B -instr-profile=$W/all.profdata 2>/dev/null | grep "repo/source" | awk '{printf "%-62s lines %5s missed %4s (%s)\n",$1,$8,$9,$10}'
echo "--- lines never executed (debug_assert lines are compiled out in release):"
for f in $(cd /repo/source && ls */src/*.rs */src/*/*.rs 2>/dev/null); do
  $T/llvm-cov show $B -instr-profile=$W/all.profdata /repo/source/$f 2>/dev/null | grep -E "^ +[0-9]+\| +0\|" | grep -v debug_assert | sed "s|^|$f:|" | cut -c1-160
done
rm -rf $W
