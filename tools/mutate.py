#!/usr/bin/env python3
"""tools/mutate.py <outdir> <count> [seed] — mechanical first-order mutants of /repo's anchored sources (a sanity sweep
for the checks, next to the hand-made seeded changes): relational / arithmetic / boolean operator and constant
replacements on code lines outside tests. Writes <outdir>/m<k>/patch.diff + desc.txt. Nothing is applied to /repo."""
import os, re, sys, random, subprocess, difflib
REPO = "/repo"
FILES = ["source/postcard/src/varint.rs", "source/postcard/src/ser/serializer.rs", "source/postcard/src/de/deserializer.rs",
         "source/postcard/src/ser/flavors.rs", "source/postcard/src/de/flavors.rs", "source/postcard/src/de/mod.rs",
         "source/postcard/src/ser/mod.rs", "source/postcard/src/accumulator.rs", "source/postcard/src/max_size.rs",
         "source/postcard/src/fixint.rs", "source/postcard-schema/src/schema/owned.rs", "source/postcard-schema/src/schema/fmt.rs",
         "source/postcard-schema/src/key/hash.rs", "source/postcard-schema/src/key/mod.rs", "source/postcard-derive/src/max_size.rs",
         "source/postcard-derive/src/schema.rs", "source/postcard-dyn/src/ser.rs", "source/postcard-dyn/src/de.rs",
         "source/postcard-schema/src/impls/builtins_nostd.rs"]
OPS = [(r" < ", " <= "), (r" <= ", " < "), (r" > ", " >= "), (r" >= ", " > "), (r" == ", " != "), (r" != ", " == "),
       (r" \+ 1\b", " + 2"), (r" \+ 1\b", ""), (r" - 1\b", ""), (r" - 1\b", " - 2"), (r" \+ ", " - "), (r" - ", " + "),
       (r" && ", " || "), (r" \|\| ", " && "), (r"0x7F", "0x3F"), (r"0x80", "0x40"), (r"<< 7", "<< 8"), (r">> 7", ">> 8"),
       (r"\b254\b", "253"), (r"0xFF\b", "0xFE"), (r"\b7\b", "8"), (r"\b1\b", "0"), (r"\b0\b", "1"), (r"\btrue\b", "false"),
       (r"\bfalse\b", "true"), (r"\.wrapping_add\(", ".wrapping_sub("), (r"\bOk\(None\)", "Ok(Some(Default::default()))"),
       (r"\?;", ";"), (r" \* ", " + "), (r" \^ ", " | "), (r" \| ", " & "), (r" & ", " | "), (r"\bmin\(", "max("), (r"\bmax\(", "min(")]

def code_lines(text):
    """indices of lines that are code outside #[cfg(test)] modules, comments, attributes and doc examples"""
    out, depth_test, in_test = [], None, False
    lines = text.split("\n")
    brace = 0
    pending_test = False
    for i, l in enumerate(lines):
        st = l.strip()
        if st.startswith("#[cfg(test)]"): pending_test = True
        opens, closes = l.count("{"), l.count("}")
        if pending_test and "mod " in st and "{" in st:
            in_test, depth_test, pending_test = True, brace, False
        brace += opens - closes
        if in_test:
            if brace <= depth_test: in_test = False
            continue
        if not st or st.startswith(("//", "#[", "#!", "use ", "pub use ", "///", "//!", "*", "/*")): continue
        if "assert" in st or "debug_assert" in st or "verif_" in st: continue
        out.append(i)
    return out

def main():
    outdir, count = sys.argv[1], int(sys.argv[2])
    rnd = random.Random(int(sys.argv[3]) if len(sys.argv) > 3 else 1)
    cands = []
    for f in FILES:
        p = os.path.join(REPO, f)
        text = subprocess.run(["git", "-C", REPO, "show", "HEAD:" + f], stdout=subprocess.PIPE).stdout.decode()
        lines = text.split("\n")
        for i in code_lines(text):
            code = lines[i].split("//")[0]
            for pat, rep in OPS:
                for m in re.finditer(pat, code):
                    cands.append((f, i, m.start(), m.end(), rep, pat))
    rnd.shuffle(cands)
    # spread over files: at most count/6 per file
    per, chosen = {}, []
    for c in cands:
        if per.get(c[0], 0) >= max(3, count // 6): continue
        per[c[0]] = per.get(c[0], 0) + 1
        chosen.append(c)
        if len(chosen) >= count: break
    for k, (f, i, a, b, rep, pat) in enumerate(chosen):
        text = subprocess.run(["git", "-C", REPO, "show", "HEAD:" + f], stdout=subprocess.PIPE).stdout.decode()
        lines = text.split("\n")
        new = lines[:]
        new[i] = lines[i][:a] + rep + lines[i][b:]
        diff = "".join(difflib.unified_diff([x + "\n" for x in lines], [x + "\n" for x in new], "a/" + f, "b/" + f))
        d = os.path.join(outdir, "m%03d" % k); os.makedirs(d, exist_ok=True)
        open(os.path.join(d, "patch.diff"), "w").write(diff)
        open(os.path.join(d, "desc.txt"), "w").write("%s:%d  %r -> %r\n  - %s\n  + %s\n" % (f, i + 1, pat, rep, lines[i].strip(), new[i].strip()))
    print(len(chosen), "mutants written to", outdir)

if __name__ == "__main__":
    main()
