#!/bin/sh
# usage: tools/run_all.sh [tier] [parallelism]   — runs every claimed property's check, prints one line each with wall time
cd "$(dirname "$0")/.."
tier=${1:-quick}; par=${2:-5}
# build once up front so the parallel runs only find warm builds
./check C13 --tier quick >/dev/null 2>&1
for i in 01 02 03 04 05 06 07 08 09 10 11 12 13 14 15 16 17 18 19 20; do echo C$i; done | \
  xargs -P "$par" -I{} sh -c 's=$(date +%s); out=$(./check {} --tier '"$tier"' 2>&1); rc=$?; e=$(date +%s); echo "{} rc=$rc $((e-s))s $(echo "$out" | grep -E "^(OK|VIOLATION|KNOWN)" | tr "\n" ";" | cut -c1-300)"'
