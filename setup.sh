#!/bin/sh
# Build the framework from files on disk only (offline): Lean model + proofs + driver, Rust harness.
set -e
cd "$(dirname "$0")"
export CARGO_NET_OFFLINE=true
mkdir -p work evidence replays
( cd lean && lake build Postcard pcmodel )
( cd harness && cargo build --release --offline )
( cd harness_alloc && cargo build --release --offline )
echo "setup ok"
