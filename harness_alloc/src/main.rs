//! pcverif_alloc eval : reads op lines on stdin, answers the ones it knows in the SAME format as the main
//! harness (so the same model answers apply), `skip` for the rest.
//!   fix <le|be> <type> <int>     fixint adapters (C13)
//!   schemaof <rty>               <T as Schema>::SCHEMA for types whose impls live in builtins_alloc / nostd (C14)
//!   rt <ty> <val> / de <ty> <hex>  through to_allocvec / to_slice / to_vec / from_bytes / take_from_bytes (C01, C03)
#[path = "../../harness/src/sexp.rs"]
mod sexp;
#[path = "../../harness/src/dval.rs"]
mod dval;
#[path = "../../harness/src/schema.rs"]
#[allow(dead_code)]
mod schema;
#[allow(dead_code)]
mod prng {
    // the generators in schema.rs are not used here; only `show` is
    pub struct Rng(pub u64);
    impl Rng {
        pub fn new(s: u64) -> Self { Rng(s) }
        pub fn next(&mut self) -> u64 { self.0 = self.0.wrapping_mul(6364136223846793005).wrapping_add(1442695040888963407); self.0 >> 11 }
        pub fn below(&mut self, n: u64) -> u64 { if n == 0 { 0 } else { self.next() % n } }
        pub fn range(&mut self, lo: u64, hi: u64) -> u64 { lo + self.below(hi - lo + 1) }
        pub fn chance(&mut self, a: u64, b: u64) -> bool { self.below(b) < a }
        pub fn pick<'a, T>(&mut self, xs: &'a [T]) -> &'a T { &xs[self.below(xs.len() as u64) as usize] }
        pub fn bytes(&mut self, n: usize) -> Vec<u8> { (0..n).map(|_| self.next() as u8).collect() }
    }
}
use dval::{with_ty, DTy, DVal, DynVal};
use postcard_schema::schema::owned::OwnedDataModelType as O;
use postcard_schema::Schema;
use serde::{Deserialize, Serialize};
use sexp::hex;
use std::io::{BufRead, Write};

fn err_name(e: &postcard::Error) -> &'static str {
    use postcard::Error::*;
    match e {
        WontImplement => "wont-implement", NotYetImplemented => "not-yet-implemented", SerializeBufferFull => "buffer-full",
        SerializeSeqLengthUnknown => "seq-length-unknown", DeserializeUnexpectedEnd => "unexpected-end", DeserializeBadVarint => "bad-varint",
        DeserializeBadBool => "bad-bool", DeserializeBadChar => "bad-char", DeserializeBadUtf8 => "bad-utf8", DeserializeBadOption => "bad-option",
        DeserializeBadEnum => "bad-enum", DeserializeBadEncoding => "bad-encoding", DeserializeBadCrc => "bad-crc", SerdeSerCustom => "ser-custom",
        SerdeDeCustom => "custom", CollectStrError => "collect-str", _ => "unknown-error",
    }
}

macro_rules! fixstruct {
    ($le:ident, $be:ident, $t:ty) => {
        #[derive(Serialize, Deserialize, PartialEq, Debug)]
        struct $le { #[serde(with = "postcard::fixint::le")] x: $t }
        #[derive(Serialize, Deserialize, PartialEq, Debug)]
        struct $be { #[serde(with = "postcard::fixint::be")] x: $t }
    };
}
fixstruct!(LeU16, BeU16, u16); fixstruct!(LeU32, BeU32, u32); fixstruct!(LeU64, BeU64, u64); fixstruct!(LeU128, BeU128, u128);
fixstruct!(LeI16, BeI16, i16); fixstruct!(LeI32, BeI32, i32); fixstruct!(LeI64, BeI64, i64); fixstruct!(LeI128, BeI128, i128);

fn fix_eval(order: &str, ty: &str, x: &str) -> Option<String> {
    macro_rules! run {
        ($t:ty, $le:ident, $be:ident) => {{
            let v: $t = x.parse().ok()?;
            let (bytes, back_ok) = if order == "le" {
                let b = postcard::to_allocvec(&$le { x: v }).ok()?;
                let mut buf = [0u8; 32];
                let same = postcard::to_slice(&$le { x: v }, &mut buf).ok().map(|s| s.to_vec()) == Some(b.clone()) && postcard::to_vec::<_, 32>(&$le { x: v }).ok().map(|s| s.to_vec()) == Some(b.clone());
                let back = postcard::take_from_bytes::<$le>(&[&b[..], &[0x99][..]].concat()).map(|(s, r)| s.x == v && r == [0x99]).unwrap_or(false);
                (b, back && same)
            } else {
                let b = postcard::to_allocvec(&$be { x: v }).ok()?;
                let mut buf = [0u8; 32];
                let same = postcard::to_slice(&$be { x: v }, &mut buf).ok().map(|s| s.to_vec()) == Some(b.clone()) && postcard::to_vec::<_, 32>(&$be { x: v }).ok().map(|s| s.to_vec()) == Some(b.clone());
                let back = postcard::take_from_bytes::<$be>(&[&b[..], &[0x99][..]].concat()).map(|(s, r)| s.x == v && r == [0x99]).unwrap_or(false);
                (b, back && same)
            };
            if !back_ok {
                return Some("FAIL fixint value does not decode back / entry points disagree (alloc configuration)".into());
            }
            Some(format!("ok {}", hex(&bytes)))
        }};
    }
    match ty {
        "u16" => run!(u16, LeU16, BeU16), "u32" => run!(u32, LeU32, BeU32), "u64" => run!(u64, LeU64, BeU64), "u128" => run!(u128, LeU128, BeU128),
        "i16" => run!(i16, LeI16, BeI16), "i32" => run!(i32, LeI32, BeI32), "i64" => run!(i64, LeI64, BeI64), "i128" => run!(i128, LeI128, BeI128),
        _ => None,
    }
}

#[derive(Serialize, Schema)] struct Point { x: i32, y: i32 }

fn schema_table() -> Vec<(&'static str, String)> {
    extern crate alloc;
    use alloc::collections::{BTreeMap, BTreeSet};
    let s = |o: &'static postcard_schema::schema::DataModelType| schema::show(&O::from(o));
    macro_rules! e { ($v:ident, $n:expr, $t:ty) => { $v.push(($n, s(<$t as Schema>::SCHEMA))); }; }
    let mut v = Vec::new();
    e!(v, "(vec u8)", Vec<u8>); e!(v, "(vec (option u16))", Vec<Option<u16>>); e!(v, "(vec (vec i32))", Vec<Vec<i32>>); e!(v, "(vec (tuple u8 string))", Vec<(u8, String)>);
    e!(v, "string", String); e!(v, "(option (option string))", Option<Option<String>>);
    e!(v, "(btreemap string u32)", BTreeMap<String, u32>); e!(v, "(btreemap u16 string)", BTreeMap<u16, String>); e!(v, "(btreemap u8 (vec bool))", BTreeMap<u8, Vec<bool>>);
    e!(v, "(btreemap string (btreemap string i8))", BTreeMap<String, BTreeMap<String, i8>>); e!(v, "(btreemap (tuple u8 u8) bool)", BTreeMap<(u8, u8), bool>);
    e!(v, "(btreeset u32)", BTreeSet<u32>); e!(v, "(btreeset (tuple u8 i8))", BTreeSet<(u8, i8)>); e!(v, "(btreeset string)", BTreeSet<String>);
    e!(v, "(result u8 string)", Result<u8, String>); e!(v, "(result unit (vec u8))", Result<(), Vec<u8>>);
    e!(v, "(vec (dstruct Point (named (x i32) (y i32))))", Vec<Point>); e!(v, "(btreemap string (dstruct Point (named (x i32) (y i32))))", BTreeMap<String, Point>);
    e!(v, "u8", u8); e!(v, "i128", i128); e!(v, "(tuple u8 i16 string)", (u8, i16, String)); e!(v, "(array u16 32)", [u16; 32]); e!(v, "(range u16)", core::ops::Range<u16>);
    e!(v, "(rangeinc i64)", core::ops::RangeInclusive<i64>); e!(v, "(rangefrom u8)", core::ops::RangeFrom<u8>); e!(v, "(rangeto char)", core::ops::RangeTo<char>);
    e!(v, "odmt", O); e!(v, "(vec odmt)", Vec<O>);
    v
}

fn de_answer(r: &Result<(DVal, Vec<u8>), &'static str>) -> String {
    match r {
        Ok((v, rest)) => format!("ok {} rest={}", v, hex(rest)),
        Err(k) => format!("err {}", k),
    }
}

fn eval_line(line: &str) -> String {
    let xs = match sexp::parse_line(line) { Some(x) if !x.is_empty() => x, _ => return "skip".into() };
    let op = match xs[0].atom() { Some(o) => o.to_string(), None => return "skip".into() };
    let args = &xs[1..];
    let r = std::panic::catch_unwind(std::panic::AssertUnwindSafe(|| -> Option<String> {
        match op.as_str() {
            "fix" => fix_eval(args.first()?.atom()?, args.get(1)?.atom()?, args.get(2)?.atom()?),
            "schemaof" => {
                let key = line.trim_start_matches("schemaof").trim();
                schema_table().into_iter().find(|(n, _)| *n == key).map(|(_, s)| format!("ok {}", s))
            }
            "de" => {
                let t = DTy::from_sexp(args.first()?)?;
                let bytes = sexp::unhex(args.get(1)?.atom()?)?;
                let take = with_ty(&t, || postcard::take_from_bytes::<DynVal>(&bytes).map(|(v, r)| (v.0, r.to_vec())).map_err(|e| err_name(&e)));
                let from = with_ty(&t, || postcard::from_bytes::<DynVal>(&bytes).map(|v| v.0).map_err(|e| err_name(&e)));
                match (&take, &from) {
                    (Ok((v, _)), Ok(v2)) if v == v2 => {}
                    (Err(a), Err(b)) if a == b => {}
                    _ => return Some("FAIL from_bytes and take_from_bytes disagree (alloc configuration)".into()),
                }
                Some(de_answer(&take))
            }
            "rt" => {
                let t = DTy::from_sexp(args.first()?)?;
                let v = DVal::from_sexp(args.get(1)?)?;
                let a = postcard::to_allocvec(&v).map_err(|e| err_name(&e));
                if let Ok(b) = &a {
                    let mut buf = vec![0u8; b.len()];
                    if postcard::to_slice(&v, &mut buf).ok().map(|s| s.to_vec()).as_ref() != Some(b) || postcard::to_extend(&v, Vec::new()).ok().as_ref() != Some(b) {
                        return Some("FAIL to_slice / to_extend differ from to_allocvec (alloc configuration)".into());
                    }
                    let mut ext = b.clone();
                    ext.extend_from_slice(&[0xDE, 0xAD]);
                    let back = with_ty(&t, || postcard::take_from_bytes::<DynVal>(&ext).map(|(v, r)| (v.0, r.to_vec())).map_err(|e| err_name(&e)));
                    match back {
                        Ok((v2, rest)) if v2 == v && rest == [0xDE, 0xAD] => {}
                        other => return Some(format!("FAIL round-trip (alloc configuration): {:?}", other.map(|(v, r)| (v.to_string(), hex(&r))))),
                    }
                }
                Some(match a { Ok(b) => format!("ok {}", hex(&b)), Err(e) => format!("err {}", e) })
            }
            _ => None,
        }
    }));
    match r {
        Ok(Some(a)) => a,
        Ok(None) => "skip".into(),
        Err(_) => "FAIL panic (alloc configuration)".into(),
    }
}

fn real_main() {
    std::panic::set_hook(Box::new(|_| {}));
    let args: Vec<String> = std::env::args().collect();
    if args.get(1).map(|s| s.as_str()) == Some("schemaops") {
        for (n, _) in schema_table() { println!("schemaof {}", n); }
        return;
    }
    let stdin = std::io::stdin();
    let stdout = std::io::stdout();
    let mut w = std::io::BufWriter::new(stdout.lock());
    for line in stdin.lock().lines() {
        let line = line.unwrap();
        writeln!(w, "{}", eval_line(&line)).unwrap();
    }
    w.flush().unwrap();
}

fn main() {
    let t = std::thread::Builder::new().stack_size(4 << 30).spawn(real_main).expect("spawn");
    if t.join().is_err() { std::process::exit(101); }
}
