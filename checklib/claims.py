"""What MANIFEST.json claims per property (text written by hand, kept next to the code)."""
HOOK_COMMITS = ["1502a4c", "1229305"]

GENERIC_NOTE = ("Trusted: Lean 4.33 kernel, axioms {propext, Classical.choice, Quot.sound}; the hand-written model is tied to "
                "/repo only by the differential correspondence run in this check (sampling + exhaustive small domains); "
                "serde/libcore/external crates are modelled, not verified; harness, s-expression codecs and driver are trusted.")

CLAIMS = {
    "C01": {
        "text": "Theorem `roundtrip`: for EVERY value v of EVERY type shape t over the 29 serde kinds (mutual structural induction, no bound on depth or size), dec t (enc v ++ rest) = ok (v, rest); `roundtrip_all_pairs` lifts it to the slice / heapless / growable encoders x from_bytes / take_from_bytes; varint, zig-zag, UTF-8 and LE lemmas are proved for all inputs. The model (enc/dec mirror serializer.rs / deserializer.rs clause by clause) is tied to the code by running every encode and decode entry point of the real crate on generated cases and diffing with the model.",
        "note": GENERIC_NOTE + " Reader/writer transports are run with whole-buffer schedules here (chunking/faults: C11).",
    },
    "C02": {
        "text": "Theorem `enc_eq_spec`: for every well-typed value the model encoder equals Spec.encode, an independent transcription of spec/src/wire-format.md (no fuel, no widths); `encVarint_eq_spec`, `varint_minimal`/`permitted_canonical` (canonical = minimal length), `zigzag_eq_spec`, `leBytes_eq_spec`, `seq_unknown_len`, `collect_str_eq`, `enc_name_irrelevant`. Each run compares the real encoder's bytes with Spec.encode computed by the Lean driver (byte-exact), incl. usize varints up to usize::MAX via announced lengths, unknown lengths and Display-collected strings.",
        "note": GENERIC_NOTE + " Spec/Wire.lean is trusted to transcribe the document (its table rows are checked as examples).",
    },
    "C03": {
        "text": "Theorem `dec_ok_iff`: for every type and byte string, dec t bs = ok (v, r) IFF a prefix of bs is an encoding the specification permits for (t, v) (`Permitted`, a mutual inductive relation transcribed from the wire-format document, incl. non-minimal varints within max length and range: `decVarint_ok_iff`); `rest_irrelevant`, `permitted_prefix_free` (unique decodability), `strict_prefix_unexpected_end` (every strict prefix of a valid message fails with unexpected-end), `dec_error_kinds` + the per-rule iff theorems for bad-bool / bad-option / bad-utf8 / bad-char / bad-varint. Tied to the code by all-short-inputs sweeps and structured corruptions through every decode entry point. The char defect found this way is repaired in /repo (fix: commit b4dd962) and the model mirrors the repaired decoder.",
        "note": GENERIC_NOTE + " Error kinds the property does not name (serde custom, wont-implement) are projected to `other` before comparison.",
    },
    "C05": {
        "text": "Theorems `to_slice_threshold` / `to_hvec_threshold`: serialising into a slice / fixed-capacity vector succeeds IFF capacity >= (enc v).length and then returns exactly enc v; `prefix_and_tail` (output at the front, rest of the buffer untouched; on failure only a prefix of the encoding was written, memory length unchanged), `slice_feed_overflow` (cursor never leaves the buffer on any call sequence), `size_exact`, `alloc_never_fails`; COBS/CRC framings: `cobs_flavor_eq_spec_slice/_hvec`, `cobs_flavor_no_panic_slice/_hvec`, `crc_frame_logged`. Tied to the code by every capacity 0..L+2 for plain/COBS/10 CRC framings over slice (between canaries) and heapless storage.",
        "note": GENERIC_NOTE + " PARTIAL: real out-of-bounds writes are runtime behaviour; the theorems are about the cursor/index arithmetic of the model and the harness observes canary zones.",
    },
    "C06": {
        "text": "Theorems `cobs_flavor_eq_spec(_lawful/_slice/_hvec/_bytes)`: the back-patching Cobs<B> flavour over any lawful indexable storage outputs exactly Spec.cobsEncode m ++ [0] (reference COBS, independent transcription) for EVERY message; `enc_u8_no_overflow` (the u8 counters never wrap), `frame_no_interior_zero`, `frame_one_zero`, `frame_length` (= n + 1 + #full 254-blocks <= n + n/254 + 1, equality for zero-free messages), `decode_encode` (in-place crate decoder inverts it), `take_frames`, `take_frames_iter` (frame-at-a-time decoding of k frames returns each value and the exact remainder, with or without the last sentinel).",
        "note": GENERIC_NOTE + " The cobs 0.2.3 crate is modelled in full and compared exhaustively on short messages each run.",
    },
    "C07": {
        "text": "Theorems `cobs_de_total` (the in-place decoder never indexes out of range: dst_used <= src_used <= len; from_bytes_cobs / take_from_bytes_cobs never panic), `cobs_de_eq_spec` (bad-encoding IFF a code byte points past the end of the frame (`malformed_iff`), otherwise exactly plain decoding of the reference COBS-decoded payload of the first frame), `remainder_after_sentinel` (remainder = everything after the first zero), `writes_confined` (bytes at/after the frame end untouched, length unchanged) — for EVERY byte string.",
        "note": GENERIC_NOTE + " PARTIAL: real memory safety is observed through canary zones, the theorems are index-level.",
    },
    "C08": {
        "text": "Theorem `acc_delivers`: for EVERY capacity, decoder, byte stream and EVERY way of cutting it into chunks (stated over an arbitrary chunk list; also from an arbitrary pre-filled buffer), if every zero-terminated segment (with sentinel) and the tail fit, the documented feed loop reports exactly one outcome per zero byte, in order, equal to decoding the segment in isolation, never OverFull, never a panic, and the buffer ends as the unterminated tail; `acc_delivers_chunking_irrelevant`; `feed_conserves` (consumed ++ remainder = chunk, per call). Tied to the code by all 2^(len-1) chunkings of short streams with every FeedResult and the buffer (hook) compared after every call.",
        "note": GENERIC_NOTE + " Frame decoding is an abstract parameter of the theorems (covers every target type).",
    },
    "C09": {
        "text": "Theorems `feed_total`/`run_total` (no panic, no out-of-range index for ANY stream and chunking), `idx_le_n` (invariant), `reset_after_zero` (initial state after every zero byte, from any state), `overflow_reported(_from)` (an over-long segment yields OverFull as the first outcome, no later than the call consuming its sentinel), `resync` (a fitting frame after any garbage and a zero is delivered intact under every chunking), `drain_terminates` (the documented loop needs <= 2*len+1 calls for every capacity >= 1) and `drain_diverges_zero` (why capacity 0 is excluded).",
        "note": GENERIC_NOTE,
    },
    "C10": {
        "text": "Theorems `crc_frame(_serialize/_logged)` (output = plain encoding ++ little-endian checksum of exactly those bytes, any lawful storage), `crc_roundtrip`, `crc_sound` (whenever CRC-checked decoding succeeds the consumed bytes are followed by their correct checksum) with corollaries `checksum_corruption_rejected`, and — for the Rocksoft bitwise CRC at ANY width with odd polynomial — `burst_detected` / `bitflip_detected` / `window_detected` lifted to frames as `payload_burst_rejected` / `payload_bitflip_rejected` (every burst <= width in the algorithm's bit order that leaves the decoded length unchanged is rejected). The crate's table-driven CRC is tied to the bitwise model by catalogue check values (kernel-evaluated) and per-run comparison.",
        "note": GENERIC_NOTE + " The crc crate is modelled (Rocksoft), not verified.",
    },
    "C16": {
        "text": "Theorems `hashers_agree` (const/borrowed hasher = owned hasher on every schema and path; the two hand-duplicated copies are modelled separately with their own tag literals), `hash_eq_spec(_owned)` (= 64-bit FNV-1a over path ++ documented tag-and-name stream, LE digest), `type_name_irrelevant(_in_context)`, `fnv_step_injective`, `single_byte_sensitive(_digest)` with corollaries `path_byte_sensitive`, `leaf_kind_sensitive`, `field_name_byte_sensitive`, `variant_name_byte_sensitive`; `tags_pairwise_distinct`. PARTIAL (`key_sensitive_partial`): the blanket 'keys change when a name / order / kind changes' is FALSE of the code — three stream collisions are proved (`key_collision_name_framing`, `stream_collision_field_order`, `stream_collision_tuple_framing`), reproduced on the real crate each run and listed in known_findings.json.",
        "note": GENERIC_NOTE + " Sensitivity beyond single-byte stream changes is sampled (single-node mutations), not proved.",
    },
    "C15": {
        "text": "Theorems `tables_equal`/`data_tables_equal` (the two separately modelled serde variant-index tables of DataModelType and OwnedDataModelType agree on all 26+4 kinds, and are injective), `conv_id` (the arm-by-arm From conversion preserves kind, names, order, nesting), `punning(_val)` (borrowed and owned forms serialise to identical serde values and bytes), `owned_roundtrip_closed` / `borrowed_owned_roundtrip_closed` (for EVERY well-formed schema tree the bytes of the static schema deserialise, with any remainder untouched, to exactly the owned conversion), `serOwned_injective`. Tied to the code by probing all 30 variants of both enums plus random trees through the real Serialize/Deserialize impls each run.",
        "note": GENERIC_NOTE,
    },
    "C19": {
        "text": "Theorems `fmt_total`, `discover_total` (on the repaired code never a panic), `discover_panics_iff` (the UNREPAIRED walk panics exactly when a usize/isize/schema node is reachable — the defect found and fixed in /repo, fix: 5cca30a), `discover_exact`/`discoverSet_exact` (the collected set is exactly the schema itself plus every schema nested anywhere inside it, duplicate-free), `render_mentions` (+ struct/enum/field/variant variants: every declared name occurs as a contiguous substring of the top-level rendering), `render_tuple` (array-vs-tuple rule). Tied to the code by comparing renderings byte-for-byte and discovered sets (sorted) on all kinds and random trees.",
        "note": GENERIC_NOTE,
    },
    "C04": {
        "text": "Theorems `dec_total` (decoding never panics, for every type and byte string), `dec_consumes_prefix`/`dec_rest_length_le`/`dec_reads_only_prefix` (the cursor only moves forward inside the input; the result depends only on the consumed prefix), `borrow_position_str/_bytes/_tuple` + `tuple_component_position` (a borrowed payload sits in the input right after its length varint, components occupy consecutive sub-ranges), `wont_implement` (any/identifier/ignored are refused), `hint_le_remaining`/`prealloc_bound`/`prealloc_bytes_le` (the pre-allocation a sequence visitor makes is bounded by the remaining input bytes whatever length the input claims), `dec_minBytes`/`elements_lt_consumed`/`elements_le_bytes`/`str_payload_le` (element counts and payload lengths are bounded by the input length for element types occupying >= 1 byte). PARTIAL: real out-of-bounds reads and real allocation are observed at run time (guard pages on both sides of the input and around the reader scratch buffer, counting allocator on 10 concrete heap types with adversarial length prefixes up to u64::MAX), not proved.",
        "note": GENERIC_NOTE + " Memory safety of the unsafe pointer code and allocator behaviour are runtime facts outside any executable model; serde's cautious() and Vec growth are modelled.",
    },
    "C12": {
        "text": "Theorem `max_size_sound`: for EVERY type built from the MaxSize impls (all built-ins, heapless containers at any capacity, derived structs and enums with any number of variants, nested to any depth) and EVERY value inhabiting it (incl. the NonZero / capacity restrictions), (enc v).length <= maxSize m — induction over the type grammar using `varint_len_le_size` and `varint_len_le_discriminant`; `max_size_tight(_witness)`: for integers, floats, bool, char, arrays, tuples, options, ranges, refs, fixed-capacity strings/vectors, Result and structs thereof an explicit witness attains the maximum; `denum128_not_tight` documents that derived enums over-approximate (count, not count-1); `inhabits_iff_hasTy` guards the value predicate. The constants are tied to the code by reading T::POSTCARD_MAX_SIZE of 66 built-in instantiations and seed-generated derive programs each run.",
        "note": GENERIC_NOTE + " const-evaluation overflow is a compile error in Rust and is not modelled (Nat arithmetic).",
    },
    "C13": {
        "text": "Theorems `fixint_le` / `fixint_be` (the adapter's encoding is exactly the little-/big-endian bytes of the integer's two's-complement bit pattern), `fixint_length` (exactly size_of bytes whatever the magnitude), `fixint_never_varint(_unsigned/_signed)` (never equal to the varint encoding), `fixint_roundtrip_le/_be` (decoding returns the original integer with the remainder intact) for all widths 16..128, both signs, every in-range value.",
        "note": GENERIC_NOTE,
    },
    "C11": {
        "text": "A flavour-generic decoder model `decG` (same flavour calls in the same order as deserializer.rs) is proved to refine the list-level decoder over the pointer-level Slice model (`decG_slice_eq_dec`, `slice_reads_in_bounds`) and related to it over the reader flavour: `reader_equiv` (a fresh reader decodes exactly the value slice decoding gives, is advanced by exactly the message length and not one byte more, uses exactly `need v` scratch bytes, in slots that are disjoint, increasing and inside the scratch buffer: `slots_disjoint`), `reader_value_eq_slice`, `reader_consecutive` (k messages back to back decode in turn), `scratch_too_small`, `reader_fault`, `reader_eof` (error, not panic, not a wrong value), `fromIo_total`; writer: `writer_bytes` (= enc v), `writer_fault` (failure at offset k: error after exactly the first k bytes, a prefix), `writer_no_fault_needed`, `writer_always_prefix`. Tied to the code with scheduled Read/Write impls for std::io and embedded-io 0.6.",
        "note": GENERIC_NOTE + " read_exact / write_all are external and modelled by their contract; OS readers/writers are schedules.",
    },
    "C20": {
        "text": "Theorems `crcSer_over_any` (over ANY inner flavour the CRC modifier forwards the same bytes byte-wise and then the checksum), `crc_over`, `cobs_over`, and the headline `crc_then_cobs` (+ `_alloc/_hvec/_slice`): for every lawful indexable storage, checksum-then-COBS output is exactly Spec.cobsEncode (enc v ++ LE checksum) ++ [0]; `unstack` / `stack_roundtrip` (COBS-decode then CRC-checked decode recovers the value and the remainder); `user_flavor_sees_plain(_stack)` (a user flavour receives exactly emit v, in order; with the default try_extend exactly the bytes of enc v one by one; under the CRC modifier enc v ++ checksum).",
        "note": GENERIC_NOTE,
    },
    "C14": {
        "text": "Spec: `conforms : CallTree -> Schema -> Bool` (kinds, field names and order, variant index/name/kind, arity, element types; the schema-of-schema kind decided by reconstructing the schema value) and a schema-driven reader `schemaParse` that knows nothing but the schema. Theorems: `schema_reader(_bytes)` — EVERY conforming call tree's encoding is parsed by the reader, consuming it exactly (the 'consequently' clause, incl. the .schema kind); `schema_conforms` — for a model of every built-in Schema impl and of #[derive(Schema)] (RTy grammar: all impl rows incl. heapless/uuid/chrono/nalgebra/Key/schema-of-schema, derive forms unit/newtype/tuple/named, enums) and of what serde / serde-derive emit for the same types, every value's call tree conforms to the type's schema (induction over the type grammar); `schema_describes_serialize` combines both. A genuine defect found this way (raw identifiers: the derive named r#type as \"r#type\", serde as \"type\"; `raw_field_never_conforms`) is repaired in /repo (fix: 736e5a6). Tied to the code on REAL data: recorded call trees, real SCHEMA constants and real bytes of ~150 concrete types are checked against the Lean spec each run.",
        "note": GENERIC_NOTE + " serde's and third-party Serialize impls are modelled; the run-time check uses recorded real call trees, so a wrong model of serde cannot mask a real mismatch.",
    },
}

_PENDING = "not claimed yet: the technique applies (see DESIGN.md §6); model/correspondence for this property is still being built in this session"
NOT_APPLICABLE = [{"property_id": p, "reason": _PENDING} for p in
                  ["C04", "C11", "C12", "C13", "C14", "C15", "C17", "C18", "C19", "C20"] if p not in CLAIMS]
