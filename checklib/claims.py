"""What MANIFEST.json claims per property (text written by hand, kept next to the code)."""
HOOK_COMMITS = ["1502a4c", "1229305"]

GENERIC_NOTE = ("Trusted: Lean 4.33 kernel, axioms {propext, Classical.choice, Quot.sound}; the hand-written model is tied to "
                "/repo only by the differential correspondence run in this check (sampling + exhaustive small domains); "
                "serde/libcore/external crates are modelled, not verified; harness, s-expression codecs and driver are trusted.")

CLAIMS = {
    "C01": {
        "text": "Theorem `roundtrip`: for EVERY value v of EVERY type shape t over the 29 serde kinds (mutual structural induction, no bound on depth or size), dec t (enc v ++ rest) = ok (v, rest); `roundtrip_all_pairs` lifts it to the slice / heapless / growable encoders x from_bytes / take_from_bytes; varint, zig-zag, UTF-8 and LE lemmas are proved for all inputs. The model (enc/dec mirror serializer.rs / deserializer.rs clause by clause) is tied to the code by running every encode and decode entry point of the real crate on generated cases and diffing with the model.",
        "note": GENERIC_NOTE + " Reader/writer transports are run with whole-buffer schedules here (chunking/faults: C11).",
    },
    "C02": {
        "text": "Theorem `enc_eq_spec`: for every well-typed value the model encoder equals Spec.encode, an independent transcription of spec/src/wire-format.md (no fuel, no widths); `encVarint_eq_spec`, `varint_minimal`/`permitted_canonical` (canonical = minimal length), `zigzag_eq_spec`, `leBytes_eq_spec`, `seq_unknown_len`, `collect_str_eq`, `enc_name_irrelevant`. Each run compares the real encoder's bytes with Spec.encode computed by the Lean driver (byte-exact), incl. usize varints up to usize::MAX via announced lengths, unknown lengths and Display-collected strings.",
        "note": GENERIC_NOTE + " Spec/Wire.lean is trusted to transcribe the document (its table rows are checked as examples).",
    },
}

NOT_APPLICABLE = []
