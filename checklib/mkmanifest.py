#!/usr/bin/env python3
"""Regenerates /verif/MANIFEST.json from checklib/props.py + checklib/claims.py."""
import json, os, sys
ROOT = os.path.dirname(os.path.dirname(os.path.abspath(__file__)))
sys.path.insert(0, ROOT)
from checklib.props import PROPS
from checklib.claims import CLAIMS, NOT_APPLICABLE, HOOK_COMMITS

BASELINE = "cd /repo && cargo test --workspace --no-fail-fast --offline"
man = {
    "version": 1,
    "setup_cmd": "./setup.sh",
    "hooks": {
        "guard": "postcard_verif",
        "enable": "RUSTFLAGS / harness/.cargo/config.toml: --cfg postcard_verif (harness builds only)",
        "baseline_off_cmd": BASELINE,
        "source_commits": HOOK_COMMITS,
        "add_only": True,
    },
    "engines": [{
        "name": "lean-model+correspondence",
        "path": "check",
        "serves_properties": sorted(CLAIMS),
        "kind_free_text": "Lean 4 theorems about a hand-written executable model (lean/), tied to /repo on every run by a differential correspondence check (harness/ calls the real crates in-process; lean_exe pcmodel answers the same op lines)",
    }],
    "checks": [],
    "not_applicable": NOT_APPLICABLE,
    "notes": "See DESIGN.md. VERIF_STRICT=1 compares the real crate with the model answer by answer (all projections of DESIGN 0.7 off); seeds VERIF_SEED=1..5,77 were run on the unchanged tree. known_findings.json lists genuine defects recorded rather than repaired and the repaired ones (fixed:).",
}
for pid in sorted(CLAIMS):
    c = CLAIMS[pid]
    assert pid in PROPS, pid
    man["checks"].append({
        "property_id": pid,
        "quick_cmd": "./check %s --tier quick" % pid,
        "thorough_cmd": "./check %s --tier thorough" % pid,
        "evidence_file": "/verif/evidence/%s.json" % pid,
        "replay_cmd_template": "./check %s --replay {path}" % pid,
        "engine": "lean-model+correspondence",
        "level_claimed": {"category": "proof", "text": c["text"], "design_ref": c.get("design_ref", "DESIGN.md §6 " + pid)},
        "level_note": c["note"],
        "technique": c.get("technique", "Lean 4 kernel-checked theorems over an executable model + differential correspondence with the real crate"),
    })
json.dump(man, open(os.path.join(ROOT, "MANIFEST.json"), "w"), indent=1)
print("wrote MANIFEST.json with", len(man["checks"]), "checks")
