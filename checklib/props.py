"""Per-property configuration of ./check: generator streams, projections onto what
the property constrains, the rule that makes a case non-trivial, trusted base."""
import re

COMMON_TB = [
    "Lean 4.33.0 kernel (leanchecker re-check in thorough runs); axioms allowed: propext, Classical.choice, Quot.sound",
    "hand-written Lean model of the Rust source (lean/Postcard/Model), tied to /repo only by this run's differential correspondence (harness/ vs pcmodel)",
    "the Rust harness (harness/src), the s-expression codecs on both sides, this driver",
]
SERDE_TB = "serde trait plumbing, serde's impls for std types and serde-derive output are MODELLED (which calls a type makes; visitors pull exactly len elements; out-of-range variant index = custom error)"
CORE_TB = "libcore behaviour MODELLED: core::str::from_utf8, char::encode_utf8, f32/f64 to_bits/from_bits (bit preserving), integer casts"

def _enc_len(a):
    return (len(a) - 4) // 2 if a.startswith("ok x") else -1

def _head(op):
    # first token after the op name, without parens
    parts = op.split(" ", 2)
    return parts[1].lstrip("(") if len(parts) > 1 else ""

def _c03_project(op, a):
    # C03 names: unexpected-end, bad-varint, bad-bool, bad-option, bad-utf8, bad-char; everything else is "other"
    if a.startswith("err "):
        k = a[4:].strip()
        if k not in ("unexpected-end", "bad-varint", "bad-bool", "bad-option", "bad-utf8", "bad-char"):
            return "err other"
    return a

PROPS = {
    "C01": {
        "gens": ["C01"],
        "rule": "op lines `rt <type> <value>` generated from one PRNG seed: exhaustive bool/u8/i8 (+u16/i16/char in thorough), per-width boundary sets, float classes, length/variant-index boundaries, the 29-kind corpus, random type trees (depth<=5) with well-typed values; every encode entry point (to_allocvec/stdvec/slice/vec/extend/io/size) and every decode entry point (from_bytes/take_from_bytes/from_io) is run per case; non-trivial = distinct op line whose encoding is >= 2 bytes",
        "nontrivial": lambda op, a: _enc_len(a) >= 2,
        "classify": lambda op, a: ("rt", _head(op), a.split(" ", 1)[0]),
        "diff_is_witness": False,
        "exhaustive": {"quick": ["bool", "u8", "i8"], "thorough": ["bool", "u8", "i8", "u16", "i16", "char (all 1,112,064 scalars)"]},
        "trusted_base": COMMON_TB + [SERDE_TB, CORE_TB],
        "assumptions": ["usize = 64 bits (host)", "reader/writer transports exercised with whole-buffer schedules here; chunked schedules and faults are C11"],
    },
    "C02": {
        "gens": ["C02"],
        "rule": "op lines `spec <value>` (the C01 value stream without types), `serann` (announced seq/map lengths incl. unknown and every u64 varint boundary up to usize::MAX), `collect` (Display values written in random chunkings); the model answers from Spec.encode — the independent encoder transcribed from spec/src/wire-format.md; non-trivial = distinct op line whose answer is an error or >= 2 bytes",
        "nontrivial": lambda op, a: _enc_len(a) >= 2 or a.startswith("err"),
        "classify": lambda op, a: (op.split(" ", 1)[0], _head(op), a.split(" ", 1)[0]),
        "diff_is_witness": True,
        "exhaustive": {"quick": ["bool", "u8", "i8"], "thorough": ["bool", "u8", "i8", "u16", "i16", "char"]},
        "trusted_base": COMMON_TB + [SERDE_TB, CORE_TB, "Spec/Wire.lean is a faithful transcription of spec/src/wire-format.md (pinned by the document's own table rows as examples)"],
        "assumptions": ["usize = 64 bits (host)"],
    },
    "C03": {
        "gens": ["C03"],
        "rule": "op lines `de <type> <bytes>`: all byte strings of length <= 2 against 28 leaf/small types (strided in quick), max-length varints with every last byte per width, all u16 strings of length 3 (strided in quick), adversarial UTF-8 for char/str, and for random shapes: valid encodings, their strict prefixes, byte/bit corruptions, varint re-paddings, huge length prefixes, random bytes; compared on accept/reject, value, remainder and the error kinds the property names (others projected to `other`); non-trivial = distinct op line with >= 1 input byte",
        "nontrivial": lambda op, a: not op.endswith(" x"),
        "project": _c03_project,
        "classify": lambda op, a: ("de", _head(op), " ".join(a.split(" ", 2)[:2]) if a.startswith("err") else "ok"),
        "diff_is_witness": True,
        "exhaustive": {"quick": ["all 1-byte inputs x 28 types"], "thorough": ["all inputs of length <= 2 x 28 types", "all 3-byte inputs x u16"]},
        "trusted_base": COMMON_TB + [SERDE_TB, CORE_TB, "Spec/Permitted.lean is a faithful transcription of the wire format's acceptance rules"],
        "assumptions": ["usize = 64 bits (host)", "types with sequences of zero-width elements are excluded from corrupted-length cases (decoding time is proportional to the claimed length by construction)"],
    },
}
