"""Per-property configuration of ./check: generator streams, projections onto what
the property constrains, the rule that makes a case non-trivial, trusted base."""
import re, os
# VERIF_STRICT=1: every projection introduced by the neutral rounds (DESIGN 0.7) is switched off and the real crate is
# compared with the model answer by answer - the setting under which the tie was established on the unchanged tree
STRICT = os.environ.get("VERIF_STRICT") == "1"

COMMON_TB = [
    "comparisons are projected onto what the property text fixes (DESIGN 0.7: unnamed error kinds, buffer contents after a failure, scratch use, call structure are not compared); where a clause is decided by a harness oracle instead of agreement with the model, that oracle is trusted; VERIF_STRICT=1 restores the answer-by-answer comparison and passes on the unchanged tree",
    "Lean 4.33.0 kernel (leanchecker re-check in thorough runs); axioms allowed: propext, Classical.choice, Quot.sound",
    "hand-written Lean model of the Rust source (lean/Postcard/Model), tied to /repo only by this run's differential correspondence (harness/ vs pcmodel)",
    "the Rust harness (harness/src; built with overflow-checks and debug-assertions, `poison` calls before every op, buffers at rotating alignments), the alternate-configuration harness (harness_alloc: alloc + heapless, no use-std) where the property has an alt_config, the s-expression codecs on both sides, this driver",
]
SERDE_TB = "serde trait plumbing, serde's impls for std types and serde-derive output are MODELLED (which calls a type makes; visitors pull exactly len elements; out-of-range variant index = custom error)"
CORE_TB = "libcore behaviour MODELLED: core::str::from_utf8, char::encode_utf8, f32/f64 to_bits/from_bits (bit preserving), integer casts"

def _enc_len(a):
    return (len(a) - 4) // 2 if a.startswith("ok x") else -1

def _head(op):
    # first token after the op name, without parens
    parts = op.split(" ", 2)
    return parts[1].lstrip("(") if len(parts) > 1 else ""

def _c03_project(op, a):
    # C03 names: unexpected-end, bad-varint, bad-bool, bad-option, bad-utf8, bad-char; everything else is "other"
    if a.startswith("err "):
        k = a[4:].strip()
        if k not in ("unexpected-end", "bad-varint", "bad-bool", "bad-option", "bad-utf8", "bad-char"):
            return "err other"
    return a

def _c03_project_keep_wont(op, a):
    if a.startswith("err "):
        k = a[4:].strip()
        if k not in ("unexpected-end", "bad-varint", "bad-bool", "bad-option", "bad-utf8", "bad-char", "wont-implement"):
            return "err other"
    return a

import re as _re
_C18_IMPL = _re.compile(r" used=(\d+) sw=(\d+)$")
_C18_MODEL = _re.compile(r" cost=(\d+) mwp=([01]) w=(\d+)$")

def c18_project(op, a):
    """C18 constrains: no panic, allocation bounded, and whatever the encoder accepts decodes again and re-encodes to
    the same bytes - all three decided by the harness oracle / the joint allocation rule on every op. WHICH inputs
    are accepted, and what a decode of arbitrary bytes yields, is constrained only on C17's domain (real values;
    compared there). So `dynser` / `dynde` answers are not compared with the model's beyond `FAIL` (false alarm on
    a neutral codec that refuses duplicate field names, demands null for unit kinds, decodes NaN as null ...)."""
    if STRICT:
        return _C18_MODEL.sub("", _C18_IMPL.sub("", a)) if op.startswith("dynde ") else a
    if a.startswith("FAIL"):
        return a
    if op.startswith(("dynser ", "dynde ")):
        return "answered"
    return a

def c18_joint(op, impl, model, stats):
    """dynde: real allocation (counting allocator, bytes) against the model's count `allocDyn` and the
    proved bound `allocDyn <= w * (len + 1)` (theorem dyn_alloc_bound, for schemas with mwp=1).
    - model side, re-checked on every case: cost <= w * (len + 1) whenever mwp = 1 (an instance of the theorem
      evaluated by the driver: a failure means the driver and the proved definitions have come apart);
    - successful decode: used <= 4096 + S + 512 * cost, S = 768*sw + 64*sw^2 + (len+1)*128*sw, constants of the SCHEMA times at most the input length (sw = its node count;
      struct / variant levels cost a map node each and the enum arms clone the variant's sub-schema)  (a serde_json Value is 32 bytes, a BTreeMap leaf ~632 bytes for
      >= 3 counted units, Vec growth at most doubles; the constant is schema-independent);
    - failed decode: used <= 4096 + 512 * cost + 512 * len (the model does not count what a failing sub-decode
      had already allocated, e.g. a map key before its value fails; those bytes are input bytes)."""
    if not op.startswith("dynde "): return None
    mi, mm = _C18_IMPL.search(impl), _C18_MODEL.search(model)
    if not mi or not mm: return None
    used, sw, cost, mwp, w = int(mi.group(1)), int(mi.group(2)), int(mm.group(1)), int(mm.group(2)), int(mm.group(3))
    # schema-only constant: one map node and the field names per struct / variant level, and the sub-schema
    # clones of the enum arms (quadratic for nested enums); independent of the input
    hexarg0 = op.rsplit(" ", 1)[-1]
    n0 = (len(hexarg0) - 1) // 2 if hexarg0.startswith("x") else 0
    # (the clone happens once per decoded enum value, each consuming at least its index byte)
    schema_const = 768 * sw + 64 * sw * sw + (n0 + 1) * 128 * sw
    hexarg = op.rsplit(" ", 1)[-1]
    n = (len(hexarg) - 1) // 2 if hexarg.startswith("x") else 0
    stats["dynde_cases"] = stats.get("dynde_cases", 0) + 1
    stats["max_used_per_cost_unit"] = max(stats.get("max_used_per_cost_unit", 0), round((max(used - 4096 - schema_const, 0)) / (cost + 1), 1))
    stats["max_cost_over_bound_pct"] = max(stats.get("max_cost_over_bound_pct", 0), round(100.0 * cost / (w * (n + 1)), 1) if mwp else 0)
    if mwp:
        stats["mwp_cases"] = stats.get("mwp_cases", 0) + 1
        if cost > w * (n + 1):
            return "model allocation count %d exceeds the proved bound w*(len+1) = %d*(%d+1)" % (cost, w, n)
    ok = impl.startswith("ok ")
    limit = 4096 + schema_const + 512 * cost + (0 if ok else 512 * n)
    if used > limit:
        cls = "finding:dyn-seq-zero-width-alloc " if not mwp else ""
        return "%sdecoding %d input bytes allocated %d bytes; model count %d (limit %d)" % (cls, n, used, cost, limit)
    return None

_C12_MODEL = _re.compile(r"^ok (\d+) exact=(\d+) listed=([01]) pop=([01]) wf=([01])$")

def c12_project(op, a):
    """`maxsize`: the property constrains the constant only through `encMax <= N` (and `=` for the listed tight
    kinds) - theorem c12_decided_by_encMax - not through the way the code computes it; the numbers are compared
    by the joint rule below, not by equality with the model's mirror of the code (false alarm on a neutral
    change that sizes an enum's discriminant from its largest index instead of its variant count; DESIGN 0.4)."""
    if STRICT:
        return (a.split(" exact=")[0] if a.startswith("ok ") else a)
    if op.startswith("maxsize ") and a.startswith("ok "):
        return "ok"
    return a

def c12_joint(op, impl, model, stats):
    """N = the real T::POSTCARD_MAX_SIZE; model: maxSize (mirror of the code), encMax (exact supremum, proved).
    violation iff N < encMax (some value - exactWitness - does not fit: bound_iff_encMax_le), or the type is of a
    kind the property lists as tight and N > encMax (not attained)."""
    if STRICT: return None
    if not op.startswith("maxsize "): return None
    mm = _C12_MODEL.match(model)
    if not mm or not impl.startswith("ok "): return None
    try: n = int(impl[3:].strip())
    except ValueError: return None
    msz, exact, listed, pop, wf = (int(mm.group(i)) for i in range(1, 6))
    stats["maxsize_types"] = stats.get("maxsize_types", 0) + 1
    if n != msz: stats["constant_differs_from_code_mirror"] = stats.get("constant_differs_from_code_mirror", 0) + 1
    if listed: stats["listed_tight_types"] = stats.get("listed_tight_types", 0) + 1
    if not wf: return None
    if n < exact:
        return "POSTCARD_MAX_SIZE = %d but the longest encoding of a value of this type has %d bytes (model: encMax; witness: exactWitness)%s" % (
            n, exact, "" if pop else " [type has an uninhabited component: encMax may not be attained]")
    if listed and n != exact:
        return "POSTCARD_MAX_SIZE = %d is not attained: the longest encoding of this tight kind has %d bytes" % (n, exact)
    return None

def io_project(op, a):
    """reader / writer transports (C11, also inside C04 / C13): the property says a failing transport or a too-small
    scratch buffer 'produces an error'; no kind is named and how far a failing writer got is only required to be a
    prefix (harness oracle)."""
    if STRICT:
        return a
    if op.startswith(("rio ", "deseq ")):
        return re.sub(r"\berr [a-z-]+", "err", a)
    if op.startswith("wio ") and a.startswith("err "):
        return "err"
    return a

def io_equiv(op, impl, model):
    """`rio` / `deseq`: the model mirrors the unchanged code's scratch use (str / bytes / char / float payloads). An
    implementation may use LESS scratch (e.g. read floats byte-wise): it then succeeds where the model runs out, and
    hands back more. The harness oracle has already checked every value it decoded against slice decoding, the
    consumed byte count and the slot geometry, so: equal up to the point where the MODEL fails and the
    implementation goes on; at the end, the same number of bytes delivered and at least as much scratch left."""
    if STRICT:
        return False
    if not op.startswith(("rio ", "deseq ")) or impl.startswith("FAIL") or model.startswith("FAIL"):
        return False
    a, b = impl.split(" | "), model.split(" | ")
    for k in range(max(len(a), len(b))):
        x = a[k] if k < len(a) else None
        y = b[k] if k < len(b) else None
        if x == y:
            continue
        if y is not None and y.startswith("err") and x is not None and x.startswith("ok "):
            return True          # the implementation needed less scratch than the model of the unchanged code
        mx = re.match(r"(fin )?delivered=(\d+) scratchleft=(\d+)$", x or "")
        my = re.match(r"(fin )?delivered=(\d+) scratchleft=(\d+)$", y or "")
        if mx and my and mx.group(2) == my.group(2) and int(mx.group(3)) >= int(my.group(3)):
            continue
        return False
    return True

_TYPE_NAME = re.compile(r"\((struct|enum) x[0-9a-f]*")
def c14_project(op, a):
    """`schemaof`: the TYPE's own name is not among what C14 lists (kinds, field names and order, variant names and
    indices, arity, element types) - serde calls Range<T> "Range" - so struct / enum type names are erased before the
    model's impl tables are compared with the real SCHEMA (false alarm on a neutral renaming of the range schemas)."""
    if STRICT:
        return a
    if op.startswith("schemaof "):
        return _TYPE_NAME.sub(lambda m: "(" + m.group(1) + " x", a)
    return a

def _acc_overlong(op):
    """does the history of an `acc <N> <type> <chunk>*` op contain a segment that does not fit (with its sentinel)?"""
    parts = op.split(" ")
    try:
        n = int(parts[1])
    except (IndexError, ValueError):
        return False
    hexes = [x[1:] for x in parts if x.startswith("x")]
    stream = bytes.fromhex("".join(hexes))
    segs = stream.split(b"\x00")
    tail = segs.pop() if segs else b""
    return any(len(sg) + 1 > n for sg in segs) or len(tail) > n

def c09_project(op, a):
    """C09 fixes, for an over-long segment, only: OverFull before its sentinel is passed, initial state after every
    zero byte, the next fitting frame delivered intact, progress, no panic - all decided by the harness oracle from
    WHERE in the stream each call ended. Which other results are reported while the over-long segment goes by (the
    unchanged code treats its tail as a frame of its own) is not constrained, so histories with an over-long segment
    are not compared event by event (false alarm on a neutral 'skip the rest of an over-long frame' accumulator)."""
    if STRICT:
        return a
    if a.startswith("FAIL"):
        return a
    if op.startswith("accrep "):
        last = [e for e in a.split(" ; ") if e.startswith("S ")]
        return "accrep last-success=" + (last[-1].split(" rem=")[0] if last else "none")
    if op.startswith("acc ") and _acc_overlong(op):
        return "acc (over-long segment: events not compared)"
    return a

def c19_project(op, a):
    """`fmt`: the property demands that rendering terminates and mentions the names (harness oracle); the exact
    text, and the helper `is_prim`, are not constrained (false alarm on a neutral change of spacing / `(T,)`)."""
    if STRICT:
        return a
    if op.startswith("fmt ") and a.startswith("ok "):
        return "ok"
    return a

def c05_project(op, a):
    """a Display-collected value is not 'ordinary': which error kind its storage failure is reported as is not
    named by the property; bounded-buffer contents after a failure are never compared (see check)."""
    a = a.split(" mem=")[0] if a.startswith("err") else a
    if op.startswith("collectcap ") and a.startswith("err ") and not STRICT:
        return "err"
    return a

def bytes_witness(op, a, b):
    """the property fixes the exact OUTPUT BYTES (CRC frame = encoding ++ checksum; stacked flavours = composed
    transformations; fixint = the integer's LE / BE bytes) and the model's answer is that specification (theorems
    crc_frame, crc_then_cobs, fixint_le / _be): an input on which both sides produce bytes and the bytes differ is a
    failing input, not just a broken correspondence"""
    return a.startswith("ok x") and b.startswith("ok x")

def c20_project(op, a):
    """`rec`: the property lets the encoder choose between push and extend ("through whichever of its push/extend
    methods the encoder chooses"), so only the concatenated payload, in order, is compared - not the call structure
    (false alarm on a neutral change that sends one-byte varints through try_push; DESIGN 0.4)."""
    if STRICT:
        return a
    if op.startswith("rec ") and a.startswith("ok"):
        return "ok " + "".join(c[2:] for c in a[2:].split())
    return a

PROPS = {
    "C01": {
        "alt_config": {"ops": ["rt"], "stride": 3},
        "gens": ["C01"],
        "rule": "enums with ONE accepted discriminant anywhere in u32 (`rtsp`: 18 indices incl. 2^28, 2^31, u32::MAX x 4 variant shapes); zero-sized Rust types with non-empty encodings in hand-written seq / map impls, heapless vectors, arrays, tuples, derived types (`realrt`, harness/src/zst.rs); SCALE LADDER (sizes 15..1025 around every power of two; thorough to 4097): nesting depth for each wrapper kind and mixed, element / field / variant counts, string and byte lengths, several bodies per value; (every decode also runs with the OWNED hints deserialize_string / deserialize_byte_buf and must give the same result); op lines `rt <type> <value>` generated from one PRNG seed: exhaustive bool/u8/i8 (+u16/i16/char in thorough), per-width boundary sets, float classes, length/variant-index boundaries, the 29-kind corpus, random type trees (depth<=5) with well-typed values; every encode entry point (to_allocvec/stdvec/slice/vec/extend/io/size) and every decode entry point (from_bytes/take_from_bytes/from_io) is run per case; non-trivial = distinct op line whose encoding is >= 2 bytes",
        "nontrivial": lambda op, a: _enc_len(a) >= 2,
        "classify": lambda op, a: ("rt", _head(op), a.split(" ", 1)[0]),
        "diff_is_witness": False,
        "exhaustive": {"quick": ["bool", "u8", "i8"], "thorough": ["bool", "u8", "i8", "u16", "i16", "char (all 1,112,064 scalars)"]},
        "trusted_base": COMMON_TB + [SERDE_TB, CORE_TB],
        "assumptions": ["usize = 64 bits (host)", "reader/writer transports exercised with whole-buffer schedules here; chunked schedules and faults are C11"],
    },
    "C02": {
        "gens": ["C02"],
        "rule": "the `realrt` corpus (real Rust values incl. zero-sized types with non-empty encodings: bytes vs the model's encoding of the RECORDED call tree); sparse / wide enum discriminants; SCALE LADDER (sizes 15..1025 around every power of two; thorough to 4097): nesting depth for each wrapper kind and mixed, element / field / variant counts, string and byte lengths, several bodies per value; Display piece patterns incl. pieces longer than 64 bytes after short ones; op lines `spec <value>` (the C01 value stream without types), `serann` (announced seq/map lengths incl. unknown and every u64 varint boundary up to usize::MAX), `collect` (Display values written in random chunkings); the model answers from Spec.encode — the independent encoder transcribed from spec/src/wire-format.md; non-trivial = distinct op line whose answer is an error or >= 2 bytes",
        "nontrivial": lambda op, a: _enc_len(a) >= 2 or a.startswith("err"),
        "classify": lambda op, a: (op.split(" ", 1)[0], _head(op), a.split(" ", 1)[0]),
        "diff_is_witness": True,
        "exhaustive": {"quick": ["bool", "u8", "i8"], "thorough": ["bool", "u8", "i8", "u16", "i16", "char"]},
        "trusted_base": COMMON_TB + [SERDE_TB, CORE_TB, "Spec/Wire.lean is a faithful transcription of spec/src/wire-format.md (pinned by the document's own table rows as examples)"],
        "assumptions": ["usize = 64 bits (host)"],
    },
    "C03": {
        "alt_config": {"ops": ["de"], "stride": 25},
        "gens": ["C03"],
        "rule": "`desp`: enums with one accepted discriminant anywhere in u32 - valid, truncated, every byte corrupted, neighbouring discriminants; SCALE LADDER (sizes 15..1025 around every power of two; thorough to 4097): nesting depth for each wrapper kind and mixed, element / field / variant counts, string and byte lengths, several bodies per value; each scale value as valid encoding, with a trailing byte, cut short, and with one flipped bit; op lines `de <type> <bytes>`: all byte strings of length <= 2 against 28 leaf/small types (strided in quick), max-length varints with every last byte per width, all u16 strings of length 3 (strided in quick), adversarial UTF-8 for char/str, and for random shapes: valid encodings, their strict prefixes, byte/bit corruptions, varint re-paddings, huge length prefixes, random bytes; compared on accept/reject, value, remainder and the error kinds the property names (others projected to `other`); non-trivial = distinct op line with >= 1 input byte",
        "nontrivial": lambda op, a: not op.endswith(" x"),
        "project": _c03_project,
        "classify": lambda op, a: ("de", _head(op), " ".join(a.split(" ", 2)[:2]) if a.startswith("err") else "ok"),
        "diff_is_witness": True,
        "exhaustive": {"quick": ["all 1-byte inputs x 28 types"], "thorough": ["all inputs of length <= 2 x 28 types", "all 3-byte inputs x u16"]},
        "trusted_base": COMMON_TB + [SERDE_TB, CORE_TB, "Spec/Permitted.lean is a faithful transcription of the wire format's acceptance rules"],
        "assumptions": ["usize = 64 bits (host)", "types with sequences of zero-width elements are excluded from corrupted-length cases (decoding time is proportional to the claimed length by construction)"],
    },
    "C05": {
        "gens": ["C05"],
        "rule": "header-only values (an index / length / tag followed by nothing) at every capacity; the `size` op also measures std::net / uuid values (is_human_readable must be false behind serialized_size); `flavseq <slice|hvec> <cap> <plain|cobs> <p:HH|e:HEX>*`: storage flavours driven through the public Flavor API with arbitrary push / extend sequences past buffer-full (compared up to the first error; finalize after an error must not panic on the plain storages; canaries); `collectcap <framing> <storage> <cap> <piece>*`: a collect_str value whose Display writes the pieces, into bounded storage at every capacity (model: collectStrWith; error kind and buffer contents compared); op lines `sercap <framing> <storage> <cap> <value>` for every capacity 0..L+2 (L = complete output length; 8 capacities around L for long outputs), framing in {plain, cobs, 10 CRC algorithms}, storage in {slice between canary zones, heapless const-generic capacities}, plus `size <value>`; harness oracle: success iff cap >= L, bytes = unbounded output, at the front, rest of buffer untouched, canaries intact; non-trivial = distinct op line with cap within 2 of L",
        "nontrivial": lambda op, a: True,
        "project": c05_project,
        "classify": lambda op, a: tuple(op.split(" ", 3)[:3]) + (a.split(" ", 2)[0] + (" " + a.split(" ", 2)[1] if a.startswith("err") else ""),),
        "diff_is_witness": False,
        "trusted_base": COMMON_TB + [SERDE_TB, "heapless::Vec push/extend_from_slice atomicity MODELLED", "real out-of-bounds writes are observed through canary zones around the buffer, not proved (the list model cannot express them)"],
        "assumptions": ["values are 'ordinary' (no collect_str payload failing mid-way)"],
    },
    "C06": {
        "gens": ["C06"],
        "rule": "every frame also WITHOUT its sentinel through from_bytes_cobs and take_from_bytes_cobs; values with two / three string and byte bodies at every alignment around the first two COBS block boundaries (`cobsval`, `sercap cobs`); `cobsspec <msg>` (real Cobs<AllocVec> vs Spec.cobsEncode ++ [0]) for ALL messages of length <= 6 (9 in thorough) over {00,01,02,FF}, run lengths 253..255/507..509/761..763 with zeros around them, random messages; `cobsenc` through the public Flavor API of Cobs<Slice|HVec|AllocVec> incl. too-small storage; `cobsval` (to_slice_cobs/to_vec_cobs/to_allocvec_cobs/to_stdvec_cobs agree, frame has one zero, decodes back); `cobsframes` buffers of 1..6 frames with/without last sentinel and with trailing bytes; non-trivial = distinct op line whose message/frame has >= 2 bytes",
        "nontrivial": lambda op, a: len(op) > 14,
        "diff_is_witness": True,
        "exhaustive": {"quick": ["all 5,461 messages of length <= 6 over {00,01,02,FF}"], "thorough": ["all 349,525 messages of length <= 9 over {00,01,02,FF}"]},
        "trusted_base": COMMON_TB + [SERDE_TB, "the cobs 0.2.3 crate is MODELLED in full (EncoderState, decode_raw!)", "Spec/Cobs.lean transcribes the COBS definition"],
        "assumptions": [],
    },
    "C07": {
        "gens": ["C07"],
        "rule": "every long frame also UNTERMINATED (input ends where the sentinel would be, incl. right after a full 0xFF block); long first frames: payload length next to multiples of 254, in both accepted encodings (with / without the empty closing block), decoded as types whose length prefix claims -2..+2 around what the payload holds; `cobsde <type> <bytes>`: from_bytes_cobs and take_from_bytes_cobs on ALL byte strings of length <= 5 (7 in thorough) over {00,01,02,03,FF} x 4 target types, valid frames with every truncation and every position corrupted, random bytes, long 0xFF-code frames; buffers sit between canary zones and the bytes at/after the sentinel are compared before/after; non-trivial = distinct op line with >= 1 input byte",
        "nontrivial": lambda op, a: not op.endswith(" x"),
        "diff_is_witness": True,
        "exhaustive": {"quick": ["all 3,906 strings of length <= 5 over {00,01,02,03,FF} x 4 types"], "thorough": ["all 97,656 strings of length <= 7 x 4 types"]},
        "trusted_base": COMMON_TB + [SERDE_TB, "the cobs 0.2.3 crate decode_raw! is MODELLED as an index loop over one list", "real memory safety observed through canaries, not proved"],
        "assumptions": [],
    },
    "C08": {
        "gens": ["C08"],
        "rule": "every history also with feed and feed_ref MIXED on one accumulator (alternating both ways and an irregular pattern) - must equal feed alone; accumulators of capacity 255..1024 with frames of 250..514 payload bytes (whole, cut at block-relevant positions, byte by byte, back to back, behind garbage); (empty chunks are inserted into some histories and handed to feed once); `acc <N> <type> <chunk>*`: streams of valid/corrupt/empty/garbage segments (every segment fits) x EVERY one of the 2^(len-1) chunkings of streams of length <= 8 (13 in thorough) x capacities {longest, longest+1, 64} x 6 target types, plus long random histories; both feed and feed_ref; every FeedResult, remainder and the buffered bytes after every call are compared; harness oracle: one result per zero byte = isolated decoding, conservation; non-trivial = distinct op line with >= 2 chunks",
        "nontrivial": lambda op, a: op.count(" x") >= 2,
        "diff_is_witness": False,
        "exhaustive": {"quick": ["all chunkings of 60 streams of length <= 8"], "thorough": ["all chunkings of 400 streams of length <= 13"]},
        "trusted_base": COMMON_TB + [SERDE_TB, "hook CobsAccumulator::verif_buffered exposes buf[..idx]", "decoding of a frame is an abstract parameter decF in the theorems; in the driver it is the COBS+plain decoder model"],
        "assumptions": ["'fits the capacity' = segment including its sentinel <= N, unterminated tail <= N (DESIGN §8)"],
    },
    "C09": {
        "gens": ["C09"],
        "project": c09_project,
        "rule": "chunks that OPEN with runs of 1..33 zero bytes while a frame body is pending; unterminated tails that fill the buffer exactly; every history also with feed and feed_ref MIXED on one accumulator; accumulators of capacity 255..1024 with long frames incl. capacities too small for them; (empty chunks are inserted into some histories and handed to feed once); as C08 but with over-long segments, garbage and capacities equal to, one/two less than and one more than the longest segment, and capacities 1 and 2; harness oracle: no panic, loop terminates within 2*len+2 calls, buffer empty after a zero, over-long first segment reported OverFull, fitting frame after a zero delivered intact; non-trivial = distinct op line with >= 2 chunks",
        "nontrivial": lambda op, a: op.count(" x") >= 2,
        "diff_is_witness": False,
        "trusted_base": COMMON_TB + [SERDE_TB, "hook CobsAccumulator::verif_buffered exposes buf[..idx]"],
        "assumptions": ["capacity >= 1 (the documented loop diverges for N = 0: theorem drain_diverges_zero)"],
    },
    "C10": {
        "gens": ["C10"],
        "rule": "`crcio <alg> <scratch> <ty> <frame>`: the deserialising CrcModifier over a BYTE READER (hand-built stack) at every amount of scratch, valid and damaged frames: accepted only if the slice entry point accepts the same frame with the same value; (for the two 32-bit algorithms the crate-root wrappers to_slice_crc32 / to_vec_crc32 / to_stdvec_crc32 / to_allocvec_crc32 / from_bytes_crc32 / take_from_bytes_crc32 are cross-checked against the flavour-level entry points in every crcser / crcde op; long str/bytes bodies 15..300 bytes with truncations and tail bit flips); `crcraw` (crc crate vs the Rocksoft bitwise model, 10 catalogue algorithms, widths 8/12/16/32/64/82), `crcser` (to_slice/to_vec/to_allocvec agree; frame = plain ++ LE checksum), `crcde` (valid, extended, every truncation, random damage), `crcdex`: per sampled frame EVERY single-bit flip of the frame and burst patterns <= width at every bit offset of the payload in the algorithm's own bit order must not be accepted with unchanged decoded length; non-trivial = distinct op line",
        "nontrivial": lambda op, a: True,
        "diff_is_witness": bytes_witness,
        "trusted_base": COMMON_TB + [SERDE_TB, "the crc 3.4 crate is MODELLED as the Rocksoft parametric bitwise algorithm (pinned to crc-catalog check values by kernel-evaluated examples, compared with the crate each run)", "the de CrcModifier is modelled method by method (Model/CrcDe.lean) and PROVED equal to the derived list-level model (takeFromBytesCrcG_eq); crc::Digest::update over a slice = byte by byte is MODELLED"],
        "assumptions": ["bursts are contiguous in the algorithm's own bit order (LSB-first within bytes when refin) (DESIGN §8)"],
    },
    "C16": {
        "derive_programs": {"quick": 30, "thorough": 200},
        "derive_kind": "schema",
        "gens": ["C16"],
        "rule": "`keyty <idx> <path> <schema>`: the public constructor Key::for_path::<T> for a registry of concrete types (std/heapless/uuid/chrono/nalgebra impls, hand-derived corpus, seed-generated derive programs), at run time and evaluated at compile time, against Key::for_owned_schema_path and the model's documented stream; Key::const_cmp / from_bytes / to_bytes / == consistency; `fnvraw <bytes>`: the public Fnv1a64Hasher (one / split updates, Default, digest / digest_bytes) against FNV-1a 64; paths of every length 0..70 and around 255 / 4096; `key <path> <schema>`: both hashers (const via hook verif_hash_static on a leaked &'static tree, owned, owned-of-From-conversion, Key::for_owned_schema_path) must agree and equal the model (= FNV-1a over the documented stream, theorem hash_eq_spec) on EVERY node kind x 5 path classes (recovers both tag tables through the API), the crate's stability vector, random trees; `keydiff`/`keypath`: single-node mutations (type name must not change the key; field/variant name, order, element kind, path must); non-trivial = distinct op line",
        "nontrivial": lambda op, a: True,
        "diff_is_witness": True,
        "exhaustive": {"quick": ["all 26 node kinds + 4 struct-data + 4 variant-data kinds x 5 paths"], "thorough": ["same"]},
        "trusted_base": COMMON_TB + ["hook fnv1a64::verif_hash_static exposes the const hasher for arbitrary static schemas", "Spec/Fnv.lean transcribes FNV-1a-64 and the tag table documented in key/hash.rs"],
        "assumptions": ["universal key sensitivity is false of any 64-bit hash; proved for single-byte stream changes, sampled beyond (DESIGN §8)"],
    },
    "C15": {
        "gens": ["C15"],
        "rule": "(before every op line `poison_schema` decodes a 2600-deep owned schema value and a truncated one: no per-thread state may survive); scale schemas (depth to 513, thorough 1025; width to 300 / 1025) and opaque names (r#-prefixed, whitespace, NUL, dots, 31..300 bytes); `pun <schema>`: the borrowed form (a leaked &'static tree built by hand, not via From) and its owned conversion are serialised with the real crate, compared with each other (oracle) and with the model's serde-derive encoding; the bytes (+ trailing bytes) are deserialised as OwnedDataModelType and compared with the conversion; `deowned <bytes>`: the owned deserialiser on valid / truncated / corrupted / short arbitrary bytes vs the model's decOwned; every one of the 26 node kinds + 4+4 data kinds is probed each run, plus random trees (depth <= 6, fan-out <= 5, names empty/ASCII/multi-byte); non-trivial = distinct op line",
        "nontrivial": lambda op, a: True,
        "diff_is_witness": False,
        "exhaustive": {"quick": ["all 30 variants of both schema enums"], "thorough": ["same"]},
        "trusted_base": COMMON_TB + [SERDE_TB, "serde-derive's enum/struct encoding of the two schema families is MODELLED (two separately written variant-index tables)"],
        "assumptions": [],
    },
    "C19": {
        "gens": ["C19"],
        "project": c19_project,
        "rule": "names that look like generic instantiations (`Result<T, E>`), with braces, commas, quotes; scale schemas (depth to 257 / 300, width to 257 / 513); (the `fmt` answer also carries `fmt::is_prim`, compared with the model's isPrim); `fmt <schema>` (to_pseudocode / Display, compared as bytes) and `discover <schema>` (all_used_types as a sorted list) on every node kind incl. usize/isize/schema, array-vs-tuple cases, random trees; oracle: no panic, set contains the schema itself, rendering mentions every declared name; non-trivial = distinct op line",
        "nontrivial": lambda op, a: True,
        "diff_is_witness": False,
        "trusted_base": COMMON_TB + ["HashSet is MODELLED as a duplicate-free list compared after sorting", "String formatting of usize MODELLED as decimal digits"],
        "assumptions": ["the model mirrors the REPAIRED discover_tys (fix: commit 5cca30a); `discover_panics_iff` characterises the unrepaired code"],
    },
    "C04": {
        "gens": ["C04"],
        "rule": "the `alloc` table includes OwnedBytes (a visitor that asks for deserialize_byte_buf); `deseq`: ONE Deserializer::from_flavor(IOReader / EIOReader) decodes several values and is used AGAIN after a value failed (scratch exhausted, fault, malformed), then finalized - compared up to the first error, afterwards borrowed slots and the returned scratch must stay inside the buffer (guard pages) and disjoint; (the C03 stream incl. its scale cases under guard pages; the `alloc` op additionally runs each concrete heap type through 8 framed decoders - five CRC widths incl. the crate-root crc32 wrappers, from_bytes_cobs, take_from_bytes_cobs - under the counting allocator); `deg <type> <bytes>`: the C03 adversarial stream (subsampled) decoded with the input copied flush against PROT_NONE pages on the right and on the left (a read outside the input is a SIGSEGV attributed to the op line), through the slice path and the reader path (scratch buffer also guarded, three scratch sizes), with every borrowed str/bytes checked to lie inside the input right after its length prefix, ordered and disjoint, and every sequence size hint <= input length; `alloc <concrete type> <bytes>`: 10 heap-allocating Rust types (Vec<u8/u64/u128>, String, Vec<String>, Vec<Vec<u16>>, ...) decoded from adversarial length prefixes up to u64::MAX under a counting allocator with bound K_T*len+1024; any/identifier/ignored requests; non-trivial = distinct op line with >= 1 input byte",
        "nontrivial": lambda op, a: not op.endswith(" x"),
        "project": lambda op, a: io_project(op, _c03_project_keep_wont(op, a)),
        "equiv": io_equiv,
        "diff_is_witness": True,
        "trusted_base": COMMON_TB + [SERDE_TB, CORE_TB, "PARTIAL: real memory safety and real allocation are runtime behaviour observed by the harness (guard pages, counting allocator), the theorems are about the cursor arithmetic, remainder/prefix structure and size-hint logic of the model", "serde's size_hint::cautious and Vec growth are MODELLED (Model/SizeHint.lean)"],
        "assumptions": ["allocation bound claimed for element types occupying >= 1 wire byte; map pre-allocation (MapAccess::size_hint returns the claimed length, capped by serde at 1 MiB) is outside the property's statement and not checked"],
    },
    "C12": {
        "gens": ["C12"],
        "project": c12_project,
        "joint": c12_joint,
        "derive_programs": {"quick": 40, "thorough": 300},
        "rule": "`maxprobe <type>`: an opportunistic catalogue of ~25 core / std types WITHOUT a MaxSize impl today (Duration, Bound, Wrapping, Reverse, Saturating, Cell, Mutex, atomics, std::net, tuples of arity 7-12): if the crate ever declares a maximum for one, extreme values are measured against it; DECIDED per type by the joint rule N >= encMax (= for the kinds the property lists as tight), encMax = the proved exact supremum; heapless::Vec<(), N> for N at every varint-width boundary up to 2^22; derive programs always contain 127/128/129/130-variant enums (all-unit and widest-last); `maxsize <type description>`: T::POSTCARD_MAX_SIZE of a concrete Rust type vs the model's maxSize, for 66 built-in instantiations (every impl: ints, NonZero*, floats, bool, char, unit, PhantomData, Option, Result, arrays, tuples 1..6, the four ranges, refs/Box/Rc/Arc, heapless Vec/String at capacities 0,1,127,128,16383,16384, hand-written derives incl. generics) plus random #[derive(MaxSize)] programs generated from the seed with the WORKSPACE derive (structs unit/tuple/named, enums with 0,1,2,..,127,128,129 variants, nested); harness oracle per type: every candidate (one per variant, extremes of every field) and 24 random values encode within the constant, a buffer of that size suffices, and for the tight kinds the constant is attained; non-trivial = distinct type",
        "nontrivial": lambda op, a: True,
        "diff_is_witness": False,
        "trusted_base": COMMON_TB + [SERDE_TB, "proc-macro machinery around the derive is MODELLED (only its field/variant arithmetic)", "postcard's `experimental-derive` feature resolves to the registry's postcard-derive 0.1.2 (outside /repo); the checks use the workspace derive source/postcard-derive"],
        "assumptions": ["usize = 64 bits"],
    },
    "C13": {
        "alt_config": {"ops": ["fix"]},
        "gens": ["C13"],
        "rule": "a TRANSIENT reader fault at every offset inside every fixint (from_io / from_eio with ample scratch must fail, never assemble a value around the gap); every `fix` case also goes through to_slice / to_vec / to_io / serialized_size and from_bytes / from_io / from_eio with an EMPTY scratch buffer (whole and 1-byte reads) / COBS / CRC; `fix <le|be> <type> <int>`: a struct field with #[serde(with = postcard::fixint::le|be)] for all 8 types x 2 orders: boundary sets, every single-byte-nonzero pattern, random values, u16/i16 strided (entire domain in thorough); oracle: bytes = to_le_bytes/to_be_bytes, decodes back with the remainder intact; non-trivial = distinct op line",
        "nontrivial": lambda op, a: True,
        "diff_is_witness": bytes_witness,
        "exhaustive": {"quick": [], "thorough": ["u16 and i16, both byte orders"]},
        "trusted_base": COMMON_TB + [SERDE_TB, "serde's [u8; N] impl (tuple of N u8) and #[serde(with)] plumbing MODELLED"],
        "assumptions": [],
    },
    "C11": {
        "gens": ["C11"],
        "project": io_project,
        "equiv": io_equiv,
        "rule": "`deseq` (one Deserializer over a reader used again after a failed value); writers implement write_vectored NATIVELY (short vectored writes); `rio <adapter>tr`: TRANSIENT reader faults (one error, then the data continues) at every offset; writer adapters std | stdzero (a full sink answers Ok(0)) | stdintr (Interrupted results in between) | eio; random-schedule readers also interleave Interrupted; `wio <std|eio> <failAt> <schedule> <value>`: to_io / to_eio through a byte writer that accepts data in whole, 1-byte or seeded random short pieces and fails at EVERY absolute byte offset 0..L+1 of the encoding; `rio <std|eio> <fault> <scratch> <schedule> <count> <type> <stream>`: from_io / from_eio decoding 1..5 consecutive messages from one reader delivering whole / random short reads, with scratch sizes 0..need+1, a fault injected at every byte offset of the transfer, trailing bytes, one-message-too-many (EOF) and truncated streams; the scratch buffer sits against an inaccessible page; harness oracle: bytes handed to the writer are a prefix of the plain encoding, reader value = slice value, reader advanced by exactly the message length, borrowed data inside the scratch buffer, disjoint and ordered; non-trivial = distinct op line",
        "nontrivial": lambda op, a: True,
        "diff_is_witness": False,
        "trusted_base": COMMON_TB + [SERDE_TB, CORE_TB, "std::io / embedded-io read_exact and write_all are MODELLED (all-or-error; partial read/write schedules inside them are invisible by their contract) and exercised with scheduled Read/Write impls", "embedded-io 0.6 adapter only (0.4 and 0.6 are mutually exclusive features of the crate; 0.4 shares the same source text)"],
        "assumptions": ["a failed try_take_n loses its scratch slot; unobservable through from_io (which never finalizes after an error)"],
    },
    "C20": {
        "gens": ["C20"],
        "project": c20_project,
        "rule": "every encode entry point is handed a value that can be serialised only ONCE; block-boundary values (zero-free runs of 249..256 / 503..510 bytes, bodies of 13..129 bytes around powers of two) through `cobsval` and every stack; `stack crccobs <storage> <cap> <alg> <type> <value>`: serialize_with_flavor(v, CrcModifier::new(Cobs::try_new(storage)?, digest)) for storage in {growable, slice between canaries, heapless} x 4 CRC widths, ample and too-small capacity; harness oracle: output = COBS frame of (plain ++ LE checksum) computed independently, reference-COBS-decoding then CRC-checked decoding recovers the value; `rec override|default <value>`: a recording user flavour with and without a try_extend override (call log compared with emit v / byte-wise pushes; payloads concatenate to the plain encoding); plus the single-layer stacks via `sercap`; non-trivial = distinct op line",
        "nontrivial": lambda op, a: True,
        "diff_is_witness": bytes_witness,
        "trusted_base": COMMON_TB + [SERDE_TB, "cobs and crc crates MODELLED (see C06, C10)"],
        "assumptions": ["CrcModifier has no IndexMut, so COBS-inside-CRC is the only two-modifier stack the crate admits"],
    },
    "C14": {
        "alt_config": {"ops": [], "schemaops": True},
        "gens": ["C14"],
        "project": c14_project,
        "derive_programs": {"quick": 30, "thorough": 200},
        "derive_kind": "schema",
        "rule": "an opportunistic catalogue of ~30 core / std types WITHOUT a Schema impl today: as soon as one exists, recorded call trees of real values are checked against the real SCHEMA (`conf`); corpus incl. enums with explicit non-monotone discriminants, raw identifiers, ManyOpts / ManyRows at 127..1025 elements; `schemaof <type description>`: the model's impl tables and derive model (`schemaOf`) vs the real `T::SCHEMA` for ~120 described types (every impl row, hand-written derives incl. raw identifiers, seed-generated derive programs); `conf <call tree> <schema> <bytes>`: REAL data recorded when the stream is generated — for ~150 concrete Rust types (every built-in Schema impl: ints, NonZero*, floats, char, str/String/PathBuf, unit, tuples 1..6, arrays, slices/Vec/sets, maps incl. non-string keys, Option, Result, references, ranges, heapless 0.7/0.8, uuid, chrono DateTime<Utc/FixedOffset>, nalgebra matrices, Key, DataModelType/OwnedDataModelType; hand-written derives: unit/newtype/tuple/named, zero-field forms, generic, lifetime-carrying, nested, raw identifiers; seed-generated #[derive(Schema)] programs) and candidate + random values each: the exact serde call tree from a recording serializer (is_human_readable = false), T::SCHEMA, and postcard's bytes. The Lean driver evaluates the specification on them: conforms(tree, schema), the schema-driven reader consuming the bytes exactly, enc(erase tree) = bytes; non-trivial = distinct op line",
        "nontrivial": lambda op, a: True,
        "diff_is_witness": True,
        "trusted_base": COMMON_TB + [SERDE_TB, "Spec/Conforms.lean (conforms, schemaParse) is the reading of 'conforms to the schema' this check commits to: kinds, field names and order, variant index/name/kind, arity, element types; struct/enum TYPE names are not compared", "the recording serializer of the harness"],
        "assumptions": ["no serde attributes that change a type's representation (the schema derive does not claim to see them)"],
    },
    "C17": {
        "gens": ["C17"],
        "derive_programs": {"quick": 30, "thorough": 200},
        "derive_kind": "schema",
        "rule": "corpus incl. sequences of named-field structs of zero-width fields (Ticks, TicksLast) and two different enums of the same name and arity in one schema (TwoStates); corpus incl. ManyOpts / ManyRows (127..1025 elements, mostly None), explicit-discriminant enums; `dynagree <schema> <json> <bytes>`: REAL data of the C14 corpus (~150 concrete Rust types with Schema + Serialize: every integer width, chars, strings, byte slices, options, sequences, tuples and arrays of arity 0/1/n, structs of all four forms incl. zero-field ones, enums with all four variant forms, nested, string-keyed maps, the schema-of-schema kind, seed-generated derive programs) and candidate + random values, filtered to the property's scope by the harness (recorded call tree: integers within i64/u64, finite floats, string-keyed ascending maps, no Some(x) with JSON null): T::SCHEMA, serde_json::to_value(v), postcard::to_allocvec(v); the real to_stdvec_dyn / from_slice_dyn answers are compared with the model's and (oracle) with the static bytes / the JSON; non-trivial = distinct op line",
        "nontrivial": lambda op, a: True,
        "diff_is_witness": False,
        "trusted_base": COMMON_TB + [SERDE_TB, "serde_json (Value, Number, Map = BTreeMap, to_value / from_value) is MODELLED (Model/Json.lean, JsonOf.lean)", "IEEE conversions are a parameter `FloatOps` of the model (hypotheses `FloatOk` in the theorems), instantiated with Lean's hardware Float/Float32 in the driver"],
        "assumptions": ["64-bit target"],
    },
    "C18": {
        "gens": ["C18"],
        "project": c18_project,
        "joint": c18_joint,
        "rule": "scale schemas (depth to 257 / 300, width to 300 / 513) with type-correct JSON, wide enums with the variant forced to 126..130, 254..257 and the last, sequences of 127..1025 elements half null; structural near-miss JSON; `dynser <schema> <json>` on every node kind (incl. char, usize/isize, 128-bit, nested options, non-string-keyed maps, schema-of-schema) and random schemas x type-correct / near-miss / unrelated JSON; oracle: no panic, and whatever is accepted decodes again and re-encodes to the same bytes (failures classified as the listed findings only when the schema has the listed shape); `dynde <schema> <bytes>` on valid encodings, truncations, corruptions, random bytes, adversarial length prefixes under the counting allocator (harness bound 512*len+4096; joint rule with the model: measured bytes <= 4096 + 512*allocDyn (+512*len when decoding fails), and allocDyn <= allocW'*(len+1) re-evaluated per case whenever minWidthPos holds; the zero-width-element class is the listed finding, probed with a 2^16 claim); non-trivial = distinct op line",
        "nontrivial": lambda op, a: True,
        "diff_is_witness": False,
        "trusted_base": COMMON_TB + ["serde_json MODELLED", "PARTIAL: real allocation is observed with a counting allocator; `allocDyn` is a cost model (number of Values / String bytes / map entries) bounded by theorem for every schema whose Seq elements have positive width; the factor 512 bytes per counted unit relating it to real bytes is an empirical constant (measured maximum printed as joint_stats.max_used_per_cost_unit), not a theorem", "stack depth is outside the model: decoding a schema VALUE nested ~30k deep overflows the real stack (observed, not checked)"],
        "assumptions": ["64-bit target", "schemas with sequences of zero-width elements get no corrupted-length inputs beyond the explicit probe (time proportional to the claim by construction)"],
    },
}
