//! s-expression codec of the line protocol (harness side). Grammar: DESIGN.md §14.
#[derive(Debug, Clone, PartialEq)]
pub enum Sexp {
    Atom(String),
    List(Vec<Sexp>),
}

pub fn parse_line(s: &str) -> Option<Vec<Sexp>> {
    let mut toks: Vec<String> = Vec::new();
    let mut cur = String::new();
    for c in s.chars() {
        match c {
            '(' | ')' => {
                if !cur.is_empty() {
                    toks.push(std::mem::take(&mut cur));
                }
                toks.push(c.to_string());
            }
            ' ' | '\n' | '\r' | '\t' => {
                if !cur.is_empty() {
                    toks.push(std::mem::take(&mut cur));
                }
            }
            _ => cur.push(c),
        }
    }
    if !cur.is_empty() {
        toks.push(cur);
    }
    let mut stack: Vec<Vec<Sexp>> = vec![Vec::new()];
    for t in toks {
        if t == "(" {
            stack.push(Vec::new());
        } else if t == ")" {
            let l = stack.pop()?;
            stack.last_mut()?.push(Sexp::List(l));
        } else {
            stack.last_mut()?.push(Sexp::Atom(t));
        }
    }
    if stack.len() != 1 {
        return None;
    }
    stack.pop()
}

pub fn hex(bs: &[u8]) -> String {
    let mut s = String::with_capacity(1 + bs.len() * 2);
    s.push('x');
    for b in bs {
        s.push_str(&format!("{:02x}", b));
    }
    s
}

pub fn unhex(s: &str) -> Option<Vec<u8>> {
    let s = s.strip_prefix('x')?;
    if s.len() % 2 != 0 {
        return None;
    }
    let b = s.as_bytes();
    let mut out = Vec::with_capacity(s.len() / 2);
    for i in (0..b.len()).step_by(2) {
        let h = (b[i] as char).to_digit(16)?;
        let l = (b[i + 1] as char).to_digit(16)?;
        out.push((h * 16 + l) as u8);
    }
    Some(out)
}

impl Sexp {
    pub fn atom(&self) -> Option<&str> {
        match self {
            Sexp::Atom(s) => Some(s),
            _ => None,
        }
    }
    pub fn list(&self) -> Option<&[Sexp]> {
        match self {
            Sexp::List(l) => Some(l),
            _ => None,
        }
    }
}
