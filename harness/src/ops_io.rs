//! Ops and generators for C11 (reader / writer transports).
//!   wio <std|eio> <failAt|none> <sched> <val>
//!        serialise through a byte writer that accepts data in random short pieces (seed <sched>)
//!        and fails when asked to accept the byte with absolute index failAt
//!   rio <std|eio> <fault|none> <scratch> <sched> <count> <ty> <hex-stream>
//!        decode <count> consecutive messages of type <ty> from a reader that delivers short reads
//!        (seed <sched>) and fails once <fault> bytes have been delivered; scratch buffer of <scratch> bytes
use crate::core_ops::*;
use crate::dval::{with_ty, DTy, DVal, DynVal, BORROWS};
use crate::gen::*;
use crate::guard::Pages;
use crate::prng::Rng;
use crate::sexp::{hex, unhex, Sexp};
use crate::Ctx;

pub struct SchedWriter {
    pub written: Vec<u8>,
    pub fail_at: Option<usize>,
    pub rng: Rng,
    pub whole: bool,
    /// how a std writer reports that it is full at `fail_at`: an error (false) or `Ok(0)` like `&mut [u8]` (true)
    pub zero: bool,
    /// sprinkle `ErrorKind::Interrupted` results (which `write_all` must retry) between the real calls
    pub interrupts: bool,
    /// `flush` fails (with one of several error kinds)
    pub flush_fails: bool,
}

/// error kinds are opaque to postcard: every failure of the transport is a failure of the call
pub fn some_error_kind(k: usize) -> std::io::ErrorKind {
    use std::io::ErrorKind::*;
    [Other, WouldBlock, TimedOut, BrokenPipe, WriteZero, UnexpectedEof, InvalidData, ConnectionReset, OutOfMemory, Unsupported][k % 10]
}
impl SchedWriter {
    fn accept(&mut self, buf: &[u8]) -> Result<usize, ()> {
        if buf.is_empty() {
            return Ok(0);
        }
        let pos = self.written.len();
        let mut n = if self.whole { buf.len() } else { 1 + self.rng.below(buf.len() as u64) as usize };
        if let Some(k) = self.fail_at {
            if pos >= k {
                return Err(());
            }
            n = n.min(k - pos);
        }
        self.written.extend_from_slice(&buf[..n]);
        Ok(n)
    }
}
impl std::io::Write for SchedWriter {
    fn write(&mut self, buf: &[u8]) -> std::io::Result<usize> {
        if self.interrupts && self.rng.chance(1, 3) {
            return Err(std::io::Error::new(std::io::ErrorKind::Interrupted, "try again"));
        }
        match self.accept(buf) {
            Ok(n) => Ok(n),
            Err(()) if self.zero => Ok(0),
            Err(()) => Err(std::io::Error::new(some_error_kind(self.written.len() + buf.len()), "injected")),
        }
    }
    /// a NATIVE vectored write, as sockets, files and pipes have: accepts the scheduled number of bytes across
    /// the buffers (a short vectored write may end in the middle of any of them)
    fn write_vectored(&mut self, bufs: &[std::io::IoSlice<'_>]) -> std::io::Result<usize> {
        if self.interrupts && self.rng.chance(1, 3) {
            return Err(std::io::Error::new(std::io::ErrorKind::Interrupted, "try again"));
        }
        let all: Vec<u8> = bufs.iter().flat_map(|b| b.iter().copied()).collect();
        match self.accept(&all) {
            Ok(n) => Ok(n),
            Err(()) if self.zero => Ok(0),
            Err(()) => Err(std::io::Error::new(some_error_kind(self.written.len() + all.len()), "injected")),
        }
    }
    fn flush(&mut self) -> std::io::Result<()> {
        if self.flush_fails {
            return Err(std::io::Error::new(some_error_kind(self.written.len()), "injected flush failure"));
        }
        Ok(())
    }
}
/// an injected embedded-io failure; its KIND rotates with the position (Interrupted, TimedOut, Other ...):
/// embedded-io's `read_exact` / `write_all` retry nothing, so whatever the kind, the call has failed
#[derive(Debug)]
pub struct Injected(pub usize);
impl embedded_io::Error for Injected {
    fn kind(&self) -> embedded_io::ErrorKind {
        use embedded_io::ErrorKind::*;
        [Interrupted, Other, TimedOut, Interrupted, BrokenPipe, InvalidData, Interrupted, OutOfMemory][self.0 % 8]
    }
}
pub struct EioW(pub SchedWriter);
impl embedded_io::ErrorType for EioW {
    type Error = Injected;
}
impl embedded_io::Write for EioW {
    fn write(&mut self, buf: &[u8]) -> Result<usize, Injected> {
        { let k = self.0.written.len(); self.0.accept(buf).map_err(|_| Injected(k)) }
    }
    fn flush(&mut self) -> Result<(), Injected> {
        if self.0.flush_fails {
            return Err(Injected(self.0.written.len()));
        }
        Ok(())
    }
}

pub struct SchedReader {
    pub data: Vec<u8>,
    pub pos: usize,
    pub fault: Option<usize>,
    pub rng: Rng,
    pub whole: bool,
    pub one: bool,
    /// the fault is TRANSIENT: the reader reports an error once (WouldBlock / TimedOut ... - any kind but
    /// Interrupted) when it reaches `fault`, and keeps delivering data afterwards. `read_exact` must still
    /// fail, so decoding must still report an error - never a value assembled around the gap
    pub transient: bool,
}
impl SchedReader {
    fn deliver(&mut self, buf: &mut [u8]) -> Result<usize, ()> {
        if buf.is_empty() {
            return Ok(0);
        }
        if let Some(k) = self.fault {
            if self.pos >= k {
                if self.transient {
                    self.fault = None;
                }
                return Err(());
            }
        }
        let avail = self.data.len() - self.pos;
        if avail == 0 {
            return Ok(0); // EOF
        }
        let mut n = buf.len().min(avail);
        if self.one {
            n = 1;
        } else if !self.whole {
            n = 1 + self.rng.below(n as u64) as usize;
        }
        if let Some(k) = self.fault {
            n = n.min(k - self.pos);
        }
        buf[..n].copy_from_slice(&self.data[self.pos..self.pos + n]);
        self.pos += n;
        Ok(n)
    }
}
impl std::io::Read for SchedReader {
    fn read(&mut self, buf: &mut [u8]) -> std::io::Result<usize> {
        // random schedules also interleave `Interrupted` results, which a reader must simply retry
        if !self.whole && !self.one && self.rng.chance(1, 5) {
            return Err(std::io::Error::new(std::io::ErrorKind::Interrupted, "try again"));
        }
        let k = self.pos + buf.len();
        self.deliver(buf).map_err(|_| std::io::Error::new(some_error_kind(k), "injected"))
    }
}
pub struct EioR(pub SchedReader);
impl embedded_io::ErrorType for EioR {
    type Error = Injected;
}
impl embedded_io::Read for EioR {
    fn read(&mut self, buf: &mut [u8]) -> Result<usize, Injected> {
        { let k = self.0.pos; self.0.deliver(buf).map_err(|_| Injected(k)) }
    }
}

fn opt_num(x: &Sexp) -> Option<Option<usize>> {
    let a = x.atom()?;
    if a == "none" {
        Some(None)
    } else {
        Some(Some(a.parse().ok()?))
    }
}

pub fn eval(ctx: &mut Ctx, op: &str, args: &[Sexp]) -> Option<String> {
    match op {
        "wio" => {
            let adapter = args.first()?.atom()?;
            let fail_at = opt_num(args.get(1)?)?;
            let sched: u64 = args.get(2)?.atom()?.parse().ok()?;
            let v = DVal::from_sexp(args.get(3)?)?;
            // adapters: std | stdzero (a full sink answers Ok(0)) | stdintr (Interrupted results in between) | eio
            let w = SchedWriter { written: Vec::new(), fail_at, rng: Rng::new(sched), whole: sched == 0, zero: adapter == "stdzero", interrupts: adapter == "stdintr", flush_fails: adapter.ends_with("ff") };
            let plain = postcard::to_allocvec(&v).ok();
            let r: Result<(Result<(), &'static str>, Vec<u8>), ()> = guard(|| {
                if adapter.starts_with("std") {
                    let mut w = w;
                    let r = postcard::to_io(&v, &mut w).map(|_| ()).map_err(|e| err_name(&e));
                    (r, w.written)
                } else {
                    let mut w = EioW(w);
                    let r = postcard::to_eio(&v, &mut w).map(|_| ()).map_err(|e| err_name(&e));
                    (r, w.0.written)
                }
            });
            Some(match r {
                Err(()) => "FAIL panic while writing through a byte writer".into(),
                Ok((res, written)) => {
                    if let Some(p) = &plain {
                        if !p.starts_with(&written) {
                            ctx.oracle_fail("bytes handed to the writer are not a prefix of the plain encoding".into());
                        }
                        if res.is_ok() && written != *p {
                            ctx.oracle_fail("writer path succeeded but did not produce exactly the plain encoding".into());
                        }
                        let flush_fails = adapter.ends_with("ff");
                        if res.is_err() && !flush_fails && fail_at.map(|k| k >= p.len()).unwrap_or(true) {
                            ctx.oracle_fail("writer path failed although the writer never failed".into());
                        }
                        if res.is_ok() && flush_fails {
                            ctx.oracle_fail("writer path reported success although the final flush failed".into());
                        }
                    }
                    match res {
                        Ok(()) => format!("ok {}", hex(&written)),
                        Err(e) => format!("err {} written={}", e, hex(&written)),
                    }
                }
            })
        }
        "deseq" => {
            // deseq <std|eio> <fault|none> <scratch> <sched> <hex-stream> <ty>*
            // ONE Deserializer::from_flavor(IOReader::new(reader, scratch)) decodes several values in a row and is
            // USED AGAIN after a value has failed (scratch exhausted, reader fault, malformed input), then
            // finalized. Compared with the model up to the first error; afterwards the harness observes safety
            // only: no panic, no write outside the scratch buffer (guard pages), borrowed data inside it and
            // pairwise disjoint, the scratch handed back by finalize disjoint from every borrowed slot (C04 / C11)
            let adapter = args.first()?.atom()?;
            let fault = opt_num(args.get(1)?)?;
            let scratch_len: usize = args.get(2)?.atom()?.parse().ok()?;
            let sched: u64 = args.get(3)?.atom()?.parse().ok()?;
            let stream = unhex(args.get(4)?.atom()?)?;
            let mut tys = Vec::new();
            for a in &args[5..] {
                tys.push(DTy::from_sexp(a)?);
            }
            if adapter == "slice" {
                // the slice flavour: Deserializer::from_bytes(input), several values, finalize = the remainder;
                // the input sits flush against a guard page, so any over-read is a fault attributed to this line
                let pages = Pages::new(&stream, true);
                let input: &[u8] = pages.slice();
                let (ibase, ilen) = (input.as_ptr() as usize, input.len());
                let r: Result<Result<String, String>, ()> = guard(|| {
                    let mut out = String::from("deseq");
                    let mut de = postcard::Deserializer::from_bytes(input);
                    let mut failed = false;
                    for t in &tys {
                        BORROWS.with(|b| b.borrow_mut().clear());
                        match with_ty(t, || <DynVal as serde::Deserialize>::deserialize(&mut de)) {
                            Ok(v) => {
                                if !failed {
                                    out.push_str(&format!(" | ok {}", v.0));
                                }
                                let bad = BORROWS.with(|b| b.borrow().iter().any(|(p, l, _)| *l > 0 && (*p < ibase || p + l > ibase + ilen)));
                                if bad {
                                    return Err("borrowed data lies outside the input".to_string());
                                }
                            }
                            Err(e) => {
                                if !failed {
                                    out.push_str(&format!(" | err {} | posterr", err_name(&e)));
                                    failed = true;
                                }
                            }
                        }
                    }
                    match de.finalize() {
                        Ok(rest) => {
                            let (p, l) = (rest.as_ptr() as usize, rest.len());
                            if p < ibase || p + l != ibase + ilen {
                                return Err("the remainder returned by finalize is not a suffix of the input".to_string());
                            }
                            if !failed {
                                out.push_str(&format!(" | fin rest={}", hex(rest)));
                            }
                        }
                        Err(_) => {
                            if !failed {
                                out.push_str(" | fin err");
                            }
                        }
                    }
                    Ok(out)
                });
                return Some(match r {
                    Err(()) => "FAIL panic while one Deserializer over a slice was used for several values".into(),
                    Ok(Err(e)) => {
                        ctx.oracle_fail(e.clone());
                        format!("FAIL {}", e)
                    }
                    Ok(Ok(s)) => s,
                });
            }
            let mut scratch_pages = Pages::new(&vec![0xEEu8; scratch_len], true);
            let sbase = scratch_pages.slice().as_ptr() as usize;
            let rd = SchedReader { data: stream.clone(), pos: 0, fault, rng: Rng::new(sched), whole: sched == 0, one: sched == 1, transient: false };
            fn slots_ok(slots: &[(usize, usize)], rest: Option<(usize, usize)>, sbase: usize, slen: usize) -> Option<String> {
                let mut all: Vec<(usize, usize)> = slots.iter().copied().filter(|(_, l)| *l > 0).collect();
                for (p, l) in &all {
                    if *p < sbase || p + l > sbase + slen {
                        return Some("borrowed data lies outside the scratch buffer".into());
                    }
                }
                if let Some((p, l)) = rest {
                    if l > 0 && (p < sbase || p + l > sbase + slen) {
                        return Some("the scratch returned by finalize lies outside the scratch buffer".into());
                    }
                    if l > 0 {
                        all.push((p, l));
                    }
                }
                all.sort();
                for w in all.windows(2) {
                    if w[0].0 + w[0].1 > w[1].0 {
                        return Some("borrowed slots / returned scratch overlap after a failed value on the same Deserializer".into());
                    }
                }
                None
            }
            macro_rules! run {
                ($flav:expr, $pos:expr) => {{
                    let mut out = String::from("deseq");
                    let mut de = postcard::Deserializer::from_flavor($flav);
                    let mut failed = false;
                    let mut slots: Vec<(usize, usize)> = Vec::new();
                    let mut kept: Vec<(DVal, DVal)> = Vec::new();
                    for t in &tys {
                        BORROWS.with(|b| b.borrow_mut().clear());
                        match with_ty(t, || <DynVal as serde::Deserialize>::deserialize(&mut de)) {
                            Ok(v) => {
                                if !failed {
                                    out.push_str(&format!(" | ok {}", v.0));
                                }
                                BORROWS.with(|b| slots.extend(b.borrow().iter().map(|(p, l, _)| (*p, *l))));
                                // keep the decoded value (it borrows from the scratch) and a deep copy taken NOW
                                kept.push((v.0.clone(), v.0));
                            }
                            Err(e) => {
                                if !failed {
                                    out.push_str(&format!(" | err {} | posterr", err_name(&e)));
                                    failed = true;
                                }
                            }
                        }
                    }
                    match de.finalize() {
                        Ok((rd, rest)) => {
                            if !failed {
                                out.push_str(&format!(" | fin delivered={} scratchleft={}", $pos(&rd), rest.len()));
                            }
                            if let Some(e) = slots_ok(&slots, Some((rest.as_ptr() as usize, rest.len())), sbase, scratch_len) {
                                return Err(e);
                            }
                        }
                        Err(_) => {
                            if !failed {
                                out.push_str(" | fin err");
                            }
                            if let Some(e) = slots_ok(&slots, None, sbase, scratch_len) {
                                return Err(e);
                            }
                        }
                    }
                    Ok(out)
                }};
            }
            let r: Result<Result<String, String>, ()> = guard(|| {
                let scratch: &mut [u8] = scratch_pages.slice_mut();
                if adapter.starts_with("std") {
                    run!(postcard::de_flavors::io::io::IOReader::new(rd, scratch), |r: &SchedReader| r.pos)
                } else {
                    run!(postcard::de_flavors::io::eio::EIOReader::new(EioR(rd), scratch), |r: &EioR| r.0.pos)
                }
            });
            Some(match r {
                Err(()) => "FAIL panic while one Deserializer over a byte reader was used for several values".into(),
                Ok(Err(e)) => {
                    ctx.oracle_fail(e.clone());
                    format!("FAIL {}", e)
                }
                Ok(Ok(s)) => s,
            })
        }
        "rio" => {
            let adapter = args.first()?.atom()?;
            let fault = opt_num(args.get(1)?)?;
            let scratch_len: usize = args.get(2)?.atom()?.parse().ok()?;
            let sched: u64 = args.get(3)?.atom()?.parse().ok()?;
            let count: usize = args.get(4)?.atom()?.parse().ok()?;
            let t = DTy::from_sexp(args.get(5)?)?;
            let stream = unhex(args.get(6)?.atom()?)?;
            let mut scratch_pages = Pages::new(&vec![0xEEu8; scratch_len], true);
            let sbase = scratch_pages.slice().as_ptr() as usize;
            let rd = SchedReader { data: stream.clone(), pos: 0, fault, rng: Rng::new(sched), whole: sched == 0, one: sched == 1, transient: adapter.ends_with("tr") };
            let r = guard(|| with_ty(&t, || {
                let mut out = String::from("rio");
                let mut scratch: &mut [u8] = scratch_pages.slice_mut();
                let mut slice_cursor = 0usize; // slice decoding of the same stream, message by message
                if adapter.starts_with("std") {
                    let mut rd = rd;
                    for _ in 0..count {
                        BORROWS.with(|b| b.borrow_mut().clear());
                        let scratch_left = scratch.len();
                        let before = rd.pos;
                        match postcard::from_io::<DynVal, _>((rd, scratch)) {
                            Ok((v, (rd2, rest))) => {
                                rd = rd2;
                                out.push_str(&format!(" | ok {}", v.0));
                                scratch = rest;
                                if let Some(e) = post_ok(&t, &v.0, &stream, &mut slice_cursor, rd.pos - before, sbase, scratch_len) {
                                    return Err(e);
                                }
                            }
                            Err(e) => {
                                out.push_str(&format!(" | err {}", err_name(&e)));
                                if let Some(w) = must_succeed(&t, &stream, slice_cursor, fault, scratch_left) {
                                    return Err(w);
                                }
                                return Ok(out);
                            }
                        }
                    }
                    out.push_str(&format!(" | delivered={} scratchleft={}", rd.pos, scratch.len()));
                } else {
                    let mut rd = EioR(rd);
                    for _ in 0..count {
                        BORROWS.with(|b| b.borrow_mut().clear());
                        let scratch_left = scratch.len();
                        let before = rd.0.pos;
                        match postcard::from_eio::<DynVal, _>((rd, scratch)) {
                            Ok((v, (rd2, rest))) => {
                                rd = rd2;
                                out.push_str(&format!(" | ok {}", v.0));
                                scratch = rest;
                                if let Some(e) = post_ok(&t, &v.0, &stream, &mut slice_cursor, rd.0.pos - before, sbase, scratch_len) {
                                    return Err(e);
                                }
                            }
                            Err(e) => {
                                out.push_str(&format!(" | err {}", err_name(&e)));
                                if let Some(w) = must_succeed(&t, &stream, slice_cursor, fault, scratch_left) {
                                    return Err(w);
                                }
                                return Ok(out);
                            }
                        }
                    }
                    out.push_str(&format!(" | delivered={} scratchleft={}", rd.0.pos, scratch.len()));
                }
                Ok(out)
            }));
            Some(match r {
                Err(()) => "FAIL panic while reading through a byte reader".into(),
                Ok(Err(e)) => {
                    ctx.oracle_fail(e.clone());
                    format!("FAIL {}", e)
                }
                Ok(Ok(s)) => s,
            })
        }
        _ => None,
    }
}

/// oracle after a successful reader decode: same value as slice decoding, consumed exactly the
/// message's bytes, borrowed data inside the scratch buffer, disjoint, in order
fn post_ok(t: &DTy, v: &DVal, stream: &[u8], cursor: &mut usize, consumed: usize, sbase: usize, slen: usize) -> Option<String> {
    let bs = BORROWS.with(|b| std::mem::take(&mut *b.borrow_mut()));
    match with_ty(t, || postcard::take_from_bytes::<DynVal>(&stream[*cursor..])) {
        Ok((v2, rest)) => {
            let used = stream.len() - *cursor - rest.len();
            if v2.0 != *v {
                return Some("reader decoding gives a different value than slice decoding".into());
            }
            if used != consumed {
                return Some(format!("reader consumed {} bytes but the message is {} bytes", consumed, used));
            }
            *cursor += used;
        }
        Err(_) => return Some("reader decoding succeeded where slice decoding fails".into()),
    }
    let mut prev = 0usize;
    for (p, l, _) in bs {
        if p < sbase || p + l > sbase + slen {
            return Some("borrowed data lies outside the scratch buffer".into());
        }
        if p - sbase < prev {
            return Some("borrowed slots overlap".into());
        }
        prev = p - sbase + l;
    }
    None
}

/// the reader path failed: it had to succeed if slice decoding of the same bytes succeeds, the
/// scratch buffer is large enough and neither a fault nor the end of the stream lies inside the message
fn must_succeed(t: &DTy, stream: &[u8], cursor: usize, fault: Option<usize>, scratch_left: usize) -> Option<String> {
    match with_ty(t, || postcard::take_from_bytes::<DynVal>(&stream[cursor..])) {
        Ok((v, rest)) => {
            let end = stream.len() - rest.len();
            if need(&v.0) <= scratch_left && fault.map(|k| k >= end).unwrap_or(true) {
                Some(format!("the reader path failed on a message that slice decoding accepts (bytes {}..{}, scratch {} >= need {})", cursor, end, scratch_left, need(&v.0)))
            } else {
                None
            }
        }
        Err(_) => None,
    }
}

/// scratch bytes a value needs through the reader: str/bytes/char payloads and floats
pub fn need(v: &DVal) -> usize {
    match v {
        DVal::Str(s) => s.len(),
        DVal::Bytes(b) => b.len(),
        DVal::Char(c) => c.len_utf8(),
        DVal::F32(_) => 4,
        DVal::F64(_) => 8,
        DVal::Some(x) | DVal::NStruct(x) | DVal::NVar(_, x) => need(x),
        DVal::Seq(xs) | DVal::Tuple(xs) | DVal::TStruct(xs) | DVal::TVar(_, xs) | DVal::Map(xs) | DVal::Struct(xs) | DVal::SVar(_, xs) => xs.iter().map(need).sum(),
        _ => 0,
    }
}

/// one Deserializer over a byte reader, several values in a row, used again after a value failed
pub fn gen_deseq(r: &mut Rng, thorough: bool, out: &mut Vec<String>) {
    let n = if thorough { 3000 } else { 300 };
    let pool = [
        DTy::Str,
        DTy::Bytes,
        DTy::F64,
        DTy::U(8),
        DTy::Char,
        DTy::F32,
        DTy::Tuple(vec![DTy::Str, DTy::U(16)]),
        DTy::Option(Box::new(DTy::Bytes)),
        DTy::U(32),
    ];
    for i in 0..n {
        let k = 2 + r.below(5) as usize;
        let tys: Vec<DTy> = (0..k).map(|_| pool[r.below(pool.len() as u64) as usize].clone()).collect();
        let vals: Vec<DVal> = tys.iter().map(|t| gen_val(r, t, false)).collect();
        let mut stream = Vec::new();
        for v in &vals {
            match postcard::to_allocvec(v) {
                Ok(b) => stream.extend(b),
                Err(_) => {}
            }
        }
        let needs: Vec<usize> = vals.iter().map(need).collect();
        let total: usize = needs.iter().sum();
        let adapter = if i % 2 == 0 { "std" } else { "eio" };
        let tystr = tys.iter().map(|t| t.to_string()).collect::<Vec<_>>().join(" ");
        // scratch sizes at which exactly one of the middle values does not fit while later ones do
        let mut scr = vec![total, total + 3, 0, 1];
        let mut acc = 0usize;
        for nd in &needs {
            if *nd > 0 {
                scr.push(acc + nd - 1);
                scr.push(acc + nd / 2);
            }
            acc += nd;
        }
        scr.sort();
        scr.dedup();
        for sc in scr {
            out.push(format!("deseq {} none {} {} {} {}", adapter, sc, r.below(3), hex(&stream), tystr));
        }
        // the same through ONE Deserializer::from_bytes over the slice: whole, with trailing bytes, and below
        out.push(format!("deseq slice none 0 0 {} {}", hex(&stream), tystr));
        let mut ext = stream.clone();
        ext.extend(r.bytes(3));
        out.push(format!("deseq slice none 0 0 {} {}", hex(&ext), tystr));
        // reader faults inside the stream, and malformed / truncated input in the middle
        if !stream.is_empty() {
            let f = r.below(stream.len() as u64) as usize;
            out.push(format!("deseq {} {} {} {} {} {}", adapter, f, total, r.below(3), hex(&stream), tystr));
            let mut c = stream.clone();
            let kx = r.below(c.len() as u64) as usize;
            c[kx] = r.next() as u8;
            out.push(format!("deseq {} none {} {} {} {}", adapter, total, 1, hex(&c), tystr));
            out.push(format!("deseq {} none {} {} {} {}", adapter, total, 1, hex(&stream[..kx]), tystr));
            out.push(format!("deseq slice none 0 0 {} {}", hex(&c), tystr));
            out.push(format!("deseq slice none 0 0 {} {}", hex(&stream[..kx]), tystr));
        }
    }
}

pub fn gen_c11(r: &mut Rng, thorough: bool, out: &mut Vec<String>) {
    gen_deseq(r, thorough, out);
    // header-only values (an index / length / tag and nothing after it) against a writer failing at every offset
    for (k, (_, v)) in header_only_vals().into_iter().enumerate() {
        let l = postcard::to_allocvec(&v).map(|b| b.len()).unwrap_or(1);
        if l > 4 {
            continue;
        }
        let adapter = if k % 2 == 0 { "std" } else { "eio" };
        for f in 0..=l {
            out.push(format!("wio {} {} {} {}", adapter, f, k % 3, v));
        }
        out.push(format!("wio {}ff none 0 {}", adapter, v));
    }
    let n = if thorough { 4000 } else { 250 };
    for i in 0..n {
        let t = loop {
            let t = gen_ty(r, 1 + (i % 4) as u32);
            if !has_zero_width_seq(&t) {
                break t;
            }
        };
        let k = 1 + (i % 5);
        let vals: Vec<DVal> = (0..k).map(|_| gen_val(r, &t, false)).collect();
        let encs: Vec<Vec<u8>> = match vals.iter().map(|v| postcard::to_allocvec(v)).collect::<Result<Vec<_>, _>>() {
            Ok(e) => e,
            Err(_) => continue,
        };
        let stream: Vec<u8> = encs.concat();
        if stream.len() > 400 {
            continue;
        }
        let total_need: usize = vals.iter().map(need).sum();
        let adapter = if i % 2 == 0 { "std" } else { "eio" };
        // writer: every failure offset of the first message, three acceptance schedules
        let v0 = &vals[0];
        let l0 = encs[0].len();
        for sched in [0u64, 1, 7 + i as u64] {
            out.push(format!("wio {} none {} {}", adapter, sched, v0));
        }
        for k in 0..=l0 + 1 {
            out.push(format!("wio {} {} {} {}", adapter, k, r.below(3), v0));
            if adapter == "std" {
                out.push(format!("wio stdzero {} {} {}", k, r.below(3), v0));
                out.push(format!("wio stdintr {} {} {}", k, 1 + r.below(50), v0));
            }
        }
        if adapter == "std" {
            out.push(format!("wio stdintr none {} {}", 3 + i as u64, v0));
        }
        // a sink that accepts everything and then fails the final flush (std: with varying error kinds)
        out.push(format!("wio {}ff none {} {}", adapter, i % 3, v0));
        // reader: schedules x scratch sizes 0..need+1 x fault at every offset
        for sched in [0u64, 1, 11 + i as u64] {
            out.push(format!("rio {} none {} {} {} {} {}", adapter, total_need + 1, sched, k, t, hex(&stream)));
        }
        let mut scr: Vec<usize> = if total_need <= 24 { (0..=total_need + 1).collect() } else { vec![0, 1, total_need / 2, total_need - 1, total_need, total_need + 1] };
        scr.dedup();
        for s in scr {
            out.push(format!("rio {} none {} {} {} {} {}", adapter, s, r.below(4), k, t, hex(&stream)));
        }
        let faults: Vec<usize> = if stream.len() <= 40 { (0..=stream.len() + 1).collect() } else { (0..stream.len() + 2).step_by(7).collect() };
        for f in faults {
            out.push(format!("rio {} {} {} {} {} {} {}", adapter, f, total_need, r.below(4), k, t, hex(&stream)));
            // the same fault, TRANSIENT (one error, then the reader carries on), with ample scratch
            out.push(format!("rio {}tr {} {} {} {} {} {}", adapter, f, total_need + 16, r.below(4), k, t, hex(&stream)));
        }
        // trailing bytes on the stream must be left unread; asking for one message too many hits EOF
        let mut ext = stream.clone();
        ext.extend(r.bytes(3));
        out.push(format!("rio {} none {} {} {} {} {}", adapter, total_need, 1, k, t, hex(&ext)));
        out.push(format!("rio {} none {} {} {} {} {}", adapter, total_need + 64, 1, k + 1, t, hex(&stream)));
        // truncated stream
        if !stream.is_empty() {
            let cut = r.below(stream.len() as u64) as usize;
            out.push(format!("rio {} none {} {} {} {} {}", adapter, total_need, 1, k, t, hex(&stream[..cut])));
        }
    }
}
