//! Zero-sized Rust types whose ENCODING is not empty, in every container position (C01 / C02).
//! `size_of::<T>() == 0` says nothing about the wire: a field-less single-variant enum writes its variant index,
//! a marker type may write a constant. Containers here hand `&T` to the serializer directly
//! (`serialize_element(&T)`), as heapless::Vec and hand-written impls do (serde's `collect_seq` hands `&&T`).
use crate::ops_c14::{real_fn, RealFn};
use crate::prng::Rng;
use crate::samples::Samples;
use serde::de::{self, Deserializer, MapAccess, SeqAccess, Visitor};
use serde::ser::{SerializeMap, SerializeSeq, Serializer};
use serde::{Deserialize, Serialize};

/// zero-sized; serialises as `unit_variant("ZOnly", 0, "Only")` = one byte 0x00
#[derive(Serialize, Deserialize, Clone, Copy, Debug, PartialEq, Eq, PartialOrd, Ord)]
pub enum ZOnly {
    Only,
}
/// zero-sized; serialises as the constant u8 0x5A
#[derive(Clone, Copy, Debug, PartialEq, Eq, PartialOrd, Ord)]
pub struct ZMark;
impl Serialize for ZMark {
    fn serialize<S: Serializer>(&self, s: S) -> Result<S::Ok, S::Error> {
        s.serialize_u8(0x5A)
    }
}
impl<'de> Deserialize<'de> for ZMark {
    fn deserialize<D: Deserializer<'de>>(d: D) -> Result<Self, D::Error> {
        match u8::deserialize(d)? {
            0x5A => Ok(ZMark),
            _ => Err(de::Error::custom("not the marker")),
        }
    }
}
/// zero-sized; serialises as a one-character string
#[derive(Clone, Copy, Debug, PartialEq, Eq, PartialOrd, Ord)]
pub struct ZTag;
impl Serialize for ZTag {
    fn serialize<S: Serializer>(&self, s: S) -> Result<S::Ok, S::Error> {
        s.serialize_str("t")
    }
}
impl<'de> Deserialize<'de> for ZTag {
    fn deserialize<D: Deserializer<'de>>(d: D) -> Result<Self, D::Error> {
        match String::deserialize(d)?.as_str() {
            "t" => Ok(ZTag),
            _ => Err(de::Error::custom("not the tag")),
        }
    }
}

/// a sequence whose Serialize impl is written by hand: `serialize_seq(Some(len))`, then `serialize_element(&T)`
#[derive(Clone, Debug, PartialEq)]
pub struct SeqOf<T>(pub Vec<T>);
impl<T: Serialize> Serialize for SeqOf<T> {
    fn serialize<S: Serializer>(&self, s: S) -> Result<S::Ok, S::Error> {
        let mut q = s.serialize_seq(Some(self.0.len()))?;
        for x in self.0.iter() {
            q.serialize_element::<T>(x)?;
        }
        q.end()
    }
}
impl<'de, T: Deserialize<'de>> Deserialize<'de> for SeqOf<T> {
    fn deserialize<D: Deserializer<'de>>(d: D) -> Result<Self, D::Error> {
        struct V<T>(core::marker::PhantomData<T>);
        impl<'de, T: Deserialize<'de>> Visitor<'de> for V<T> {
            type Value = SeqOf<T>;
            fn expecting(&self, f: &mut core::fmt::Formatter) -> core::fmt::Result {
                write!(f, "a sequence")
            }
            fn visit_seq<A: SeqAccess<'de>>(self, mut a: A) -> Result<SeqOf<T>, A::Error> {
                let mut out = Vec::new();
                while let Some(x) = a.next_element::<T>()? {
                    out.push(x);
                }
                Ok(SeqOf(out))
            }
        }
        d.deserialize_seq(V(core::marker::PhantomData))
    }
}
/// a map written by hand: `serialize_map(Some(len))`, `serialize_key(&K)`, `serialize_value(&V)`
#[derive(Clone, Debug, PartialEq)]
pub struct MapOf<K, V>(pub Vec<(K, V)>);
impl<K: Serialize, V: Serialize> Serialize for MapOf<K, V> {
    fn serialize<S: Serializer>(&self, s: S) -> Result<S::Ok, S::Error> {
        let mut q = s.serialize_map(Some(self.0.len()))?;
        for (k, v) in self.0.iter() {
            q.serialize_key::<K>(k)?;
            q.serialize_value::<V>(v)?;
        }
        q.end()
    }
}
impl<'de, K: Deserialize<'de>, V: Deserialize<'de>> Deserialize<'de> for MapOf<K, V> {
    fn deserialize<D: Deserializer<'de>>(d: D) -> Result<Self, D::Error> {
        struct Vis<K, V>(core::marker::PhantomData<(K, V)>);
        impl<'de, K: Deserialize<'de>, V: Deserialize<'de>> Visitor<'de> for Vis<K, V> {
            type Value = MapOf<K, V>;
            fn expecting(&self, f: &mut core::fmt::Formatter) -> core::fmt::Result {
                write!(f, "a map")
            }
            fn visit_map<A: MapAccess<'de>>(self, mut a: A) -> Result<MapOf<K, V>, A::Error> {
                let mut out = Vec::new();
                while let Some(kv) = a.next_entry::<K, V>()? {
                    out.push(kv);
                }
                Ok(MapOf(out))
            }
        }
        d.deserialize_map(Vis(core::marker::PhantomData))
    }
}

/// derived types whose fields are zero-sized but not zero-width
#[derive(Serialize, Deserialize, Clone, Debug, PartialEq)]
pub struct ZFields {
    pub a: ZOnly,
    pub b: ZMark,
    pub c: u8,
    pub d: ZTag,
}
#[derive(Serialize, Deserialize, Clone, Debug, PartialEq)]
pub struct ZTuple(pub ZOnly, pub ZMark);
#[derive(Serialize, Deserialize, Clone, Debug, PartialEq)]
pub struct ZNew(pub ZMark);
#[derive(Serialize, Deserialize, Clone, Debug, PartialEq)]
pub enum ZE {
    U,
    N(ZOnly),
    T(ZOnly, ZMark),
    S { m: ZMark, t: ZTag },
}

macro_rules! const_samples {
    ($($t:ty => $v:expr),* $(,)?) => { $( impl Samples for $t {
        fn max_sample() -> Self { $v }
        fn rand(_: &mut Rng) -> Self { $v }
    } )* };
}
const_samples!(ZOnly => ZOnly::Only, ZMark => ZMark, ZTag => ZTag, ZTuple => ZTuple(ZOnly::Only, ZMark), ZNew => ZNew(ZMark));
impl Samples for ZFields {
    fn max_sample() -> Self {
        ZFields { a: ZOnly::Only, b: ZMark, c: 255, d: ZTag }
    }
    fn rand(r: &mut Rng) -> Self {
        ZFields { a: ZOnly::Only, b: ZMark, c: r.next() as u8, d: ZTag }
    }
}
impl Samples for ZE {
    fn max_sample() -> Self {
        ZE::S { m: ZMark, t: ZTag }
    }
    fn rand(r: &mut Rng) -> Self {
        Self::candidates()[r.below(4) as usize].clone()
    }
    fn candidates() -> Vec<Self> {
        vec![ZE::U, ZE::N(ZOnly::Only), ZE::T(ZOnly::Only, ZMark), ZE::S { m: ZMark, t: ZTag }]
    }
}
impl<T: Samples + Clone> Samples for SeqOf<T> {
    fn max_sample() -> Self {
        SeqOf(vec![T::max_sample(); 3])
    }
    fn rand(r: &mut Rng) -> Self {
        SeqOf((0..r.below(6)).map(|_| T::rand(r)).collect())
    }
    fn candidates() -> Vec<Self> {
        vec![SeqOf(vec![]), SeqOf(vec![T::max_sample()]), SeqOf(vec![T::max_sample(); 3]), SeqOf(vec![T::max_sample(); 130])]
    }
}
impl<K: Samples + Clone, V: Samples + Clone> Samples for MapOf<K, V> {
    fn max_sample() -> Self {
        MapOf(vec![(K::max_sample(), V::max_sample()); 2])
    }
    fn rand(r: &mut Rng) -> Self {
        MapOf((0..r.below(5)).map(|_| (K::rand(r), V::rand(r))).collect())
    }
    fn candidates() -> Vec<Self> {
        vec![MapOf(vec![]), MapOf(vec![(K::max_sample(), V::max_sample())]), MapOf(vec![(K::max_sample(), V::max_sample()); 4])]
    }
}

/// registry entries (decoded through every decode entry point, re-encoded, compared with the model's encoding
/// of the RECORDED call tree)
pub fn zst_real_fns() -> Vec<RealFn> {
    vec![
        real_fn::<ZOnly>(),
        real_fn::<ZMark>(),
        real_fn::<ZTag>(),
        real_fn::<ZFields>(),
        real_fn::<ZTuple>(),
        real_fn::<ZNew>(),
        real_fn::<ZE>(),
        real_fn::<Option<ZOnly>>(),
        real_fn::<(ZOnly, ZMark)>(),
        real_fn::<(ZMark, u8, ZTag)>(),
        real_fn::<[ZOnly; 3]>(),
        real_fn::<[ZMark; 2]>(),
        real_fn::<Vec<ZOnly>>(),
        real_fn::<Vec<ZMark>>(),
        real_fn::<SeqOf<ZOnly>>(),
        real_fn::<SeqOf<ZMark>>(),
        real_fn::<SeqOf<ZTag>>(),
        real_fn::<SeqOf<ZFields>>(),
        real_fn::<SeqOf<u8>>(),
        real_fn::<SeqOf<()>>(),
        real_fn::<MapOf<ZOnly, ZMark>>(),
        real_fn::<MapOf<ZMark, u16>>(),
        real_fn::<MapOf<u8, ZTag>>(),
        real_fn::<heapless::Vec<ZOnly, 4>>(),
        real_fn::<heapless::Vec<ZMark, 3>>(),
        real_fn::<heapless08::Vec<ZOnly, 4>>(),
        real_fn::<heapless08::Vec<ZTag, 2>>(),
        real_fn::<Result<ZOnly, ZMark>>(),
    ]
}
