//! Values of concrete Rust types chosen to maximise the encoded size (C12),
//! plus random values; implemented for the built-in MaxSize types here and for
//! the generated derive programs in generated.rs.
use crate::prng::Rng;
use core::marker::PhantomData;
use core::num::*;
use core::ops::{Range, RangeFrom, RangeInclusive, RangeTo};

pub trait Samples: Sized {
    /// a value whose encoding is as long as the type allows
    fn max_sample() -> Self;
    fn rand(r: &mut Rng) -> Self;
    /// candidates among which the longest encoding is attained (enums: one per variant)
    fn candidates() -> Vec<Self> {
        vec![Self::max_sample()]
    }
}

macro_rules! ints {
    ($($t:ty),*) => { $( impl Samples for $t {
        fn max_sample() -> Self { <$t>::MAX }
        fn rand(r: &mut Rng) -> Self { match r.below(4) { 0 => <$t>::MAX, 1 => <$t>::MIN, 2 => 0 as $t, _ => r.u128() as $t } }
        fn candidates() -> Vec<Self> { vec![<$t>::MAX, <$t>::MIN] }
    } )* };
}
ints!(u8, u16, u32, u64, u128, usize, i8, i16, i32, i64, i128, isize);

macro_rules! nonzeros {
    ($($t:ty, $p:ty);*) => { $( impl Samples for $t {
        fn max_sample() -> Self { <$t>::new(<$p>::MAX).unwrap() }
        fn rand(r: &mut Rng) -> Self { <$t>::new((r.u128() as $p) | 1).unwrap() }
        fn candidates() -> Vec<Self> { vec![<$t>::new(<$p>::MAX).unwrap(), <$t>::new(<$p>::MIN | 1).unwrap(), <$t>::new(if <$p>::MIN == 0 { 1 } else { <$p>::MIN }).unwrap()] }
    } )* };
}
nonzeros!(NonZeroU8, u8; NonZeroU16, u16; NonZeroU32, u32; NonZeroU64, u64; NonZeroU128, u128; NonZeroUsize, usize;
          NonZeroI8, i8; NonZeroI16, i16; NonZeroI32, i32; NonZeroI64, i64; NonZeroI128, i128; NonZeroIsize, isize);

impl Samples for bool {
    fn max_sample() -> Self { true }
    fn rand(r: &mut Rng) -> Self { r.chance(1, 2) }
}
impl Samples for f32 {
    fn max_sample() -> Self { f32::MAX }
    fn rand(r: &mut Rng) -> Self { f32::from_bits(r.next() as u32) }
}
impl Samples for f64 {
    fn max_sample() -> Self { f64::MIN }
    fn rand(r: &mut Rng) -> Self { f64::from_bits(r.next()) }
}
impl Samples for char {
    fn max_sample() -> Self { '\u{10FFFF}' }
    fn rand(r: &mut Rng) -> Self { crate::gen::gen_char(r) }
    fn candidates() -> Vec<Self> { vec!['\u{10FFFF}', '\u{10000}', '\u{FFFF}', 'a'] }
}
impl Samples for () {
    fn max_sample() -> Self {}
    fn rand(_: &mut Rng) -> Self {}
}
impl<T> Samples for PhantomData<T> {
    fn max_sample() -> Self { PhantomData }
    fn rand(_: &mut Rng) -> Self { PhantomData }
}
impl<T: Samples> Samples for Option<T> {
    fn max_sample() -> Self { Some(T::max_sample()) }
    fn rand(r: &mut Rng) -> Self { if r.chance(1, 3) { None } else { Some(T::rand(r)) } }
    fn candidates() -> Vec<Self> { let mut v: Vec<Self> = T::candidates().into_iter().map(Some).collect(); v.push(None); v }
}
impl<T: Samples, E: Samples> Samples for Result<T, E> {
    fn max_sample() -> Self { Ok(T::max_sample()) }
    fn rand(r: &mut Rng) -> Self { if r.chance(1, 2) { Ok(T::rand(r)) } else { Err(E::rand(r)) } }
    fn candidates() -> Vec<Self> {
        let mut v: Vec<Self> = T::candidates().into_iter().map(Ok).collect();
        v.extend(E::candidates().into_iter().map(Err));
        v
    }
}
impl<T: Samples, const N: usize> Samples for [T; N] {
    fn max_sample() -> Self { core::array::from_fn(|_| T::max_sample()) }
    fn rand(r: &mut Rng) -> Self { core::array::from_fn(|_| T::rand(r)) }
    fn candidates() -> Vec<Self> {
        let n = T::candidates().len();
        (0..n).map(|i| core::array::from_fn(|_| T::candidates().swap_remove(i))).collect()
    }
}
impl<T: Samples> Samples for Box<T> {
    fn max_sample() -> Self { Box::new(T::max_sample()) }
    fn rand(r: &mut Rng) -> Self { Box::new(T::rand(r)) }
    fn candidates() -> Vec<Self> { T::candidates().into_iter().map(Box::new).collect() }
}
impl<T: Samples + 'static> Samples for &'static T {
    fn max_sample() -> Self { Box::leak(Box::new(T::max_sample())) }
    fn rand(r: &mut Rng) -> Self { Box::leak(Box::new(T::rand(r))) }
    fn candidates() -> Vec<Self> { T::candidates().into_iter().map(|x| &*Box::leak(Box::new(x))).collect() }
}
impl<T: Samples> Samples for Range<T> {
    fn max_sample() -> Self { T::max_sample()..T::max_sample() }
    fn rand(r: &mut Rng) -> Self { T::rand(r)..T::rand(r) }
    fn candidates() -> Vec<Self> { let n = T::candidates().len(); (0..n).map(|i| T::candidates().swap_remove(i)..T::candidates().swap_remove(i)).collect() }
}
impl<T: Samples> Samples for RangeInclusive<T> {
    fn max_sample() -> Self { T::max_sample()..=T::max_sample() }
    fn rand(r: &mut Rng) -> Self { T::rand(r)..=T::rand(r) }
    fn candidates() -> Vec<Self> { let n = T::candidates().len(); (0..n).map(|i| T::candidates().swap_remove(i)..=T::candidates().swap_remove(i)).collect() }
}
impl<T: Samples> Samples for RangeFrom<T> {
    fn max_sample() -> Self { T::max_sample().. }
    fn rand(r: &mut Rng) -> Self { T::rand(r).. }
    fn candidates() -> Vec<Self> { T::candidates().into_iter().map(|x| x..).collect() }
}
impl<T: Samples> Samples for RangeTo<T> {
    fn max_sample() -> Self { ..T::max_sample() }
    fn rand(r: &mut Rng) -> Self { ..T::rand(r) }
    fn candidates() -> Vec<Self> { T::candidates().into_iter().map(|x| ..x).collect() }
}
impl<T: Samples, const N: usize> Samples for heapless::Vec<T, N> {
    fn max_sample() -> Self { (0..N).map(|_| T::max_sample()).collect() }
    fn rand(r: &mut Rng) -> Self { let n = r.below(N as u64 + 1).min(300) as usize; (0..n).map(|_| T::rand(r)).collect() }
    fn candidates() -> Vec<Self> {
        let n = T::candidates().len();
        let mut v: Vec<Self> = (0..n).map(|i| (0..N).map(|_| T::candidates().swap_remove(i)).collect()).collect();
        v.push(heapless::Vec::new());
        v
    }
}
impl<const N: usize> Samples for heapless::String<N> {
    fn max_sample() -> Self { let mut s = heapless::String::new(); for _ in 0..N { let _ = s.push('a'); } s }
    fn rand(r: &mut Rng) -> Self {
        let mut s = heapless::String::new();
        for _ in 0..r.below(N as u64 + 1).min(300) { if s.push(crate::gen::gen_char(r)).is_err() { break; } }
        s
    }
    fn candidates() -> Vec<Self> {
        let mut multi = heapless::String::new();
        while multi.push('\u{e9}').is_ok() {}
        vec![Self::max_sample(), multi, heapless::String::new()]
    }
}
macro_rules! tuples {
    ($( ($($n:ident),+) );*) => { $( impl<$($n: Samples),+> Samples for ($($n,)+) {
        fn max_sample() -> Self { ($($n::max_sample(),)+) }
        fn rand(r: &mut Rng) -> Self { ($($n::rand(r),)+) }
    } )* };
}
tuples!((A); (A, B); (A, B, C); (A, B, C, D); (A, B, C, D, E); (A, B, C, D, E, F));

// ---------------------------------------------------------------- more impls (C14 corpus)
use std::collections::{BTreeMap, BTreeSet, HashMap, HashSet};

impl Samples for String {
    fn max_sample() -> Self { "h\u{e9}llo \u{1F600}".into() }
    fn rand(r: &mut Rng) -> Self { crate::gen::gen_string(r, false) }
    fn candidates() -> Vec<Self> { vec![String::new(), "a".into(), Self::max_sample()] }
}
impl Samples for &'static str {
    fn max_sample() -> Self { "static str \u{4e16}" }
    fn rand(r: &mut Rng) -> Self { Box::leak(crate::gen::gen_string(r, false).into_boxed_str()) }
    fn candidates() -> Vec<Self> { vec!["", "x", Self::max_sample()] }
}
impl Samples for std::path::PathBuf {
    fn max_sample() -> Self { "/tmp/some/\u{e9}/path.txt".into() }
    fn rand(r: &mut Rng) -> Self { format!("/p{}/q", r.below(1000)).into() }
    fn candidates() -> Vec<Self> { vec!["".into(), Self::max_sample()] }
}
fn small_len(r: &mut Rng) -> usize { [0usize, 1, 1, 2, 3, 5][r.below(6) as usize] }
impl<T: Samples> Samples for Vec<T> {
    fn max_sample() -> Self { (0..3).map(|_| T::max_sample()).collect() }
    fn rand(r: &mut Rng) -> Self { let n = small_len(r); (0..n).map(|_| T::rand(r)).collect() }
    fn candidates() -> Vec<Self> { vec![vec![], vec![T::max_sample()], Self::max_sample()] }
}
impl<T: Samples + 'static> Samples for &'static [T] {
    fn max_sample() -> Self { Box::leak(Vec::<T>::max_sample().into_boxed_slice()) }
    fn rand(r: &mut Rng) -> Self { Box::leak(Vec::<T>::rand(r).into_boxed_slice()) }
    fn candidates() -> Vec<Self> { Vec::<T>::candidates().into_iter().map(|v| &*Box::leak(v.into_boxed_slice())).collect() }
}
impl<T: Samples + Ord> Samples for BTreeSet<T> {
    fn max_sample() -> Self { [T::max_sample()].into_iter().collect() }
    fn rand(r: &mut Rng) -> Self { let n = small_len(r); (0..n).map(|_| T::rand(r)).collect() }
    fn candidates() -> Vec<Self> { vec![BTreeSet::new(), Self::max_sample()] }
}
impl<T: Samples + Eq + std::hash::Hash> Samples for HashSet<T> {
    fn max_sample() -> Self { [T::max_sample()].into_iter().collect() }
    fn rand(r: &mut Rng) -> Self { let n = small_len(r); (0..n).map(|_| T::rand(r)).collect() }
    fn candidates() -> Vec<Self> { vec![HashSet::new(), Self::max_sample()] }
}
impl<K: Samples + Ord, V: Samples> Samples for BTreeMap<K, V> {
    fn max_sample() -> Self { [(K::max_sample(), V::max_sample())].into_iter().collect() }
    fn rand(r: &mut Rng) -> Self { let n = small_len(r); (0..n).map(|_| (K::rand(r), V::rand(r))).collect() }
    fn candidates() -> Vec<Self> { vec![BTreeMap::new(), Self::max_sample()] }
}
impl<K: Samples + Eq + std::hash::Hash, V: Samples> Samples for HashMap<K, V> {
    fn max_sample() -> Self { [(K::max_sample(), V::max_sample())].into_iter().collect() }
    fn rand(r: &mut Rng) -> Self { let n = small_len(r); (0..n).map(|_| (K::rand(r), V::rand(r))).collect() }
    fn candidates() -> Vec<Self> { vec![HashMap::new(), Self::max_sample()] }
}
impl<T: Samples, const N: usize> Samples for heapless08::Vec<T, N> {
    fn max_sample() -> Self { (0..N).map(|_| T::max_sample()).collect() }
    fn rand(r: &mut Rng) -> Self { let n = r.below(N as u64 + 1).min(8) as usize; (0..n).map(|_| T::rand(r)).collect() }
    fn candidates() -> Vec<Self> { vec![heapless08::Vec::new(), Self::max_sample()] }
}
impl<const N: usize> Samples for heapless08::String<N> {
    fn max_sample() -> Self { let mut s = heapless08::String::new(); for _ in 0..N { let _ = s.push('a'); } s }
    fn rand(r: &mut Rng) -> Self {
        let mut s = heapless08::String::new();
        for _ in 0..r.below(N as u64 + 1).min(12) { if s.push(crate::gen::gen_char(r)).is_err() { break; } }
        s
    }
    fn candidates() -> Vec<Self> { vec![heapless08::String::new(), Self::max_sample()] }
}
impl Samples for uuid::Uuid {
    fn max_sample() -> Self { uuid::Uuid::from_bytes([0xFF; 16]) }
    fn rand(r: &mut Rng) -> Self { let b = r.bytes(16); uuid::Uuid::from_bytes(b.try_into().unwrap()) }
    fn candidates() -> Vec<Self> { vec![uuid::Uuid::nil(), Self::max_sample()] }
}
impl Samples for chrono::DateTime<chrono::Utc> {
    fn max_sample() -> Self { chrono::DateTime::from_timestamp(4_102_444_800, 999_999_999).unwrap() }
    fn rand(r: &mut Rng) -> Self { chrono::DateTime::from_timestamp(r.below(4_000_000_000) as i64 - 1_000_000_000, r.below(1_000_000_000) as u32).unwrap() }
    fn candidates() -> Vec<Self> { vec![chrono::DateTime::from_timestamp(0, 0).unwrap(), Self::max_sample()] }
}
impl Samples for chrono::DateTime<chrono::FixedOffset> {
    fn max_sample() -> Self { chrono::DateTime::<chrono::Utc>::max_sample().with_timezone(&chrono::FixedOffset::east_opt(5 * 3600 + 1800).unwrap()) }
    fn rand(r: &mut Rng) -> Self { chrono::DateTime::<chrono::Utc>::rand(r).with_timezone(&chrono::FixedOffset::west_opt(r.below(12 * 3600) as i32).unwrap()) }
}
impl<T: Samples + nalgebra::Scalar, const R: usize, const C: usize> Samples for nalgebra::SMatrix<T, R, C> {
    fn max_sample() -> Self { nalgebra::SMatrix::from_fn(|_, _| T::max_sample()) }
    fn rand(r: &mut Rng) -> Self { nalgebra::SMatrix::from_fn(|_, _| T::rand(r)) }
}
impl Samples for postcard_schema::key::Key {
    fn max_sample() -> Self { postcard_schema::key::Key::for_path::<Vec<(u8, String)>>("topic/max") }
    fn rand(r: &mut Rng) -> Self { let p = format!("p{}", r.next()); postcard_schema::key::Key::for_path::<u32>(&p) }
}
impl Samples for postcard_schema::schema::owned::OwnedDataModelType {
    fn max_sample() -> Self { let mut r = Rng::new(77); crate::schema::gen_schema(&mut r, 4, 3) }
    fn rand(r: &mut Rng) -> Self { crate::schema::gen_schema(r, 3, 3) }
    fn candidates() -> Vec<Self> { crate::schema::all_kinds() }
}
impl Samples for &'static postcard_schema::schema::DataModelType {
    fn max_sample() -> Self { crate::schema::leak(&Samples::max_sample()) }
    fn rand(r: &mut Rng) -> Self { crate::schema::leak(&crate::schema::gen_schema(r, 3, 3)) }
    fn candidates() -> Vec<Self> { crate::schema::all_kinds().iter().map(crate::schema::leak).collect() }
}
