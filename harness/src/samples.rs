//! Values of concrete Rust types chosen to maximise the encoded size (C12),
//! plus random values; implemented for the built-in MaxSize types here and for
//! the generated derive programs in generated.rs.
use crate::prng::Rng;
use core::marker::PhantomData;
use core::num::*;
use core::ops::{Range, RangeFrom, RangeInclusive, RangeTo};

pub trait Samples: Sized {
    /// a value whose encoding is as long as the type allows
    fn max_sample() -> Self;
    fn rand(r: &mut Rng) -> Self;
    /// candidates among which the longest encoding is attained (enums: one per variant)
    fn candidates() -> Vec<Self> {
        vec![Self::max_sample()]
    }
}

macro_rules! ints {
    ($($t:ty),*) => { $( impl Samples for $t {
        fn max_sample() -> Self { <$t>::MAX }
        fn rand(r: &mut Rng) -> Self { match r.below(4) { 0 => <$t>::MAX, 1 => <$t>::MIN, 2 => 0 as $t, _ => r.u128() as $t } }
        fn candidates() -> Vec<Self> { vec![<$t>::MAX, <$t>::MIN] }
    } )* };
}
ints!(u8, u16, u32, u64, u128, usize, i8, i16, i32, i64, i128, isize);

macro_rules! nonzeros {
    ($($t:ty, $p:ty);*) => { $( impl Samples for $t {
        fn max_sample() -> Self { <$t>::new(<$p>::MAX).unwrap() }
        fn rand(r: &mut Rng) -> Self { <$t>::new((r.u128() as $p) | 1).unwrap() }
        fn candidates() -> Vec<Self> { vec![<$t>::new(<$p>::MAX).unwrap(), <$t>::new(<$p>::MIN | 1).unwrap(), <$t>::new(if <$p>::MIN == 0 { 1 } else { <$p>::MIN }).unwrap()] }
    } )* };
}
nonzeros!(NonZeroU8, u8; NonZeroU16, u16; NonZeroU32, u32; NonZeroU64, u64; NonZeroU128, u128; NonZeroUsize, usize;
          NonZeroI8, i8; NonZeroI16, i16; NonZeroI32, i32; NonZeroI64, i64; NonZeroI128, i128; NonZeroIsize, isize);

impl Samples for bool {
    fn max_sample() -> Self { true }
    fn rand(r: &mut Rng) -> Self { r.chance(1, 2) }
}
impl Samples for f32 {
    fn max_sample() -> Self { f32::MAX }
    fn rand(r: &mut Rng) -> Self { f32::from_bits(r.next() as u32) }
}
impl Samples for f64 {
    fn max_sample() -> Self { f64::MIN }
    fn rand(r: &mut Rng) -> Self { f64::from_bits(r.next()) }
}
impl Samples for char {
    fn max_sample() -> Self { '\u{10FFFF}' }
    fn rand(r: &mut Rng) -> Self { crate::gen::gen_char(r) }
    fn candidates() -> Vec<Self> { vec!['\u{10FFFF}', '\u{10000}', '\u{FFFF}', 'a'] }
}
impl Samples for () {
    fn max_sample() -> Self {}
    fn rand(_: &mut Rng) -> Self {}
}
impl<T> Samples for PhantomData<T> {
    fn max_sample() -> Self { PhantomData }
    fn rand(_: &mut Rng) -> Self { PhantomData }
}
impl<T: Samples> Samples for Option<T> {
    fn max_sample() -> Self { Some(T::max_sample()) }
    fn rand(r: &mut Rng) -> Self { if r.chance(1, 3) { None } else { Some(T::rand(r)) } }
    fn candidates() -> Vec<Self> { let mut v: Vec<Self> = T::candidates().into_iter().map(Some).collect(); v.push(None); v }
}
impl<T: Samples, E: Samples> Samples for Result<T, E> {
    fn max_sample() -> Self { Ok(T::max_sample()) }
    fn rand(r: &mut Rng) -> Self { if r.chance(1, 2) { Ok(T::rand(r)) } else { Err(E::rand(r)) } }
    fn candidates() -> Vec<Self> {
        let mut v: Vec<Self> = T::candidates().into_iter().map(Ok).collect();
        v.extend(E::candidates().into_iter().map(Err));
        v
    }
}
impl<T: Samples, const N: usize> Samples for [T; N] {
    fn max_sample() -> Self { core::array::from_fn(|_| T::max_sample()) }
    fn rand(r: &mut Rng) -> Self { core::array::from_fn(|_| T::rand(r)) }
    fn candidates() -> Vec<Self> {
        let n = T::candidates().len();
        (0..n).map(|i| core::array::from_fn(|_| T::candidates().swap_remove(i))).collect()
    }
}
impl<T: Samples> Samples for Box<T> {
    fn max_sample() -> Self { Box::new(T::max_sample()) }
    fn rand(r: &mut Rng) -> Self { Box::new(T::rand(r)) }
    fn candidates() -> Vec<Self> { T::candidates().into_iter().map(Box::new).collect() }
}
impl<T: Samples + 'static> Samples for &'static T {
    fn max_sample() -> Self { Box::leak(Box::new(T::max_sample())) }
    fn rand(r: &mut Rng) -> Self { Box::leak(Box::new(T::rand(r))) }
    fn candidates() -> Vec<Self> { T::candidates().into_iter().map(|x| &*Box::leak(Box::new(x))).collect() }
}
impl<T: Samples> Samples for Range<T> {
    fn max_sample() -> Self { T::max_sample()..T::max_sample() }
    fn rand(r: &mut Rng) -> Self { T::rand(r)..T::rand(r) }
    fn candidates() -> Vec<Self> { let n = T::candidates().len(); (0..n).map(|i| T::candidates().swap_remove(i)..T::candidates().swap_remove(i)).collect() }
}
impl<T: Samples> Samples for RangeInclusive<T> {
    fn max_sample() -> Self { T::max_sample()..=T::max_sample() }
    fn rand(r: &mut Rng) -> Self { T::rand(r)..=T::rand(r) }
    fn candidates() -> Vec<Self> { let n = T::candidates().len(); (0..n).map(|i| T::candidates().swap_remove(i)..=T::candidates().swap_remove(i)).collect() }
}
impl<T: Samples> Samples for RangeFrom<T> {
    fn max_sample() -> Self { T::max_sample().. }
    fn rand(r: &mut Rng) -> Self { T::rand(r).. }
    fn candidates() -> Vec<Self> { T::candidates().into_iter().map(|x| x..).collect() }
}
impl<T: Samples> Samples for RangeTo<T> {
    fn max_sample() -> Self { ..T::max_sample() }
    fn rand(r: &mut Rng) -> Self { ..T::rand(r) }
    fn candidates() -> Vec<Self> { T::candidates().into_iter().map(|x| ..x).collect() }
}
impl<T: Samples, const N: usize> Samples for heapless::Vec<T, N> {
    fn max_sample() -> Self { (0..N).map(|_| T::max_sample()).collect() }
    fn rand(r: &mut Rng) -> Self { let n = r.below(N as u64 + 1).min(300) as usize; (0..n).map(|_| T::rand(r)).collect() }
    fn candidates() -> Vec<Self> {
        let n = T::candidates().len();
        let mut v: Vec<Self> = (0..n).map(|i| (0..N).map(|_| T::candidates().swap_remove(i)).collect()).collect();
        v.push(heapless::Vec::new());
        v
    }
}
impl<const N: usize> Samples for heapless::String<N> {
    fn max_sample() -> Self { let mut s = heapless::String::new(); for _ in 0..N { let _ = s.push('a'); } s }
    fn rand(r: &mut Rng) -> Self {
        let mut s = heapless::String::new();
        for _ in 0..r.below(N as u64 + 1).min(300) { if s.push(crate::gen::gen_char(r)).is_err() { break; } }
        s
    }
    fn candidates() -> Vec<Self> {
        let mut multi = heapless::String::new();
        while multi.push('\u{e9}').is_ok() {}
        vec![Self::max_sample(), multi, heapless::String::new()]
    }
}
macro_rules! tuples {
    ($( ($($n:ident),+) );*) => { $( impl<$($n: Samples),+> Samples for ($($n,)+) {
        fn max_sample() -> Self { ($($n::max_sample(),)+) }
        fn rand(r: &mut Rng) -> Self { ($($n::rand(r),)+) }
    } )* };
}
tuples!((A); (A, B); (A, B, C); (A, B, C, D); (A, B, C, D, E); (A, B, C, D, E, F));
