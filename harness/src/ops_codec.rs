//! Ops and generators for the plain codec properties C01, C02, C03 (and the
//! `de` stream shared with C04).
//!
//!   rt <ty> <val>            C01: bytes of every encode entry point; oracle = round trip
//!   spec <val>               C02: bytes, compared with Spec.encode by the model driver
//!   serann <seq|map> <N|none> <val>*   C02: announced length (unknown → error)
//!   collect <hex>*           C02: a Display value written in the given chunks
//!   de <ty> <hex>            C03: every decode entry point on arbitrary bytes
use crate::core_ops::*;
use crate::dval::{has_ty, DTy, DVal};
use crate::gen::*;
use crate::prng::Rng;
use crate::sexp::{hex, unhex, Sexp};
use crate::Ctx;

fn ser_answer(r: Result<Result<Vec<u8>, &'static str>, String>) -> String {
    match r {
        Ok(Ok(b)) => format!("ok {}", hex(&b)),
        Ok(Err(k)) => format!("err {}", k),
        Err(d) => format!("FAIL {}", d),
    }
}

pub fn eval(ctx: &mut Ctx, op: &str, args: &[Sexp]) -> Option<String> {
    match op {
        "rt" => {
            let t = DTy::from_sexp(args.first()?)?;
            let v = DVal::from_sexp(args.get(1)?)?;
            if !has_ty(&v, &t) {
                return Some("bad-op".into());
            }
            let r = ser_all(&v);
            // oracle (C01): take_from_bytes(bytes ++ rest) == (v, rest) through every decode entry point
            if let Ok(Ok(bytes)) = &r {
                for rest in [&[][..], &[0xAA, 0x00, 0x80][..]] {
                    let mut inp = bytes.clone();
                    inp.extend_from_slice(rest);
                    match de_all(&t, &inp) {
                        Ok(Ok((v2, r2))) if v2 == v && r2 == rest => {}
                        other => ctx.oracle_fail(format!("round-trip: decode of encode gave {:?}", other.map(|x| x.map(|(v, r)| (v.to_string(), hex(&r)))))),
                    }
                }
            } else {
                ctx.oracle_fail(format!("round-trip: a well-typed value failed to serialise: {:?}", r));
            }
            Some(ser_answer(r))
        }
        "spec" => {
            let v = DVal::from_sexp(args.first()?)?;
            Some(ser_answer(ser_all(&v)))
        }
        "serann" => {
            let kind = args.first()?.atom()?;
            let n = args.get(1)?.atom()?;
            let n = if n == "none" { None } else { Some(n.parse::<u64>().ok()?) };
            let vs: Option<Vec<DVal>> = args[2..].iter().map(DVal::from_sexp).collect();
            let v = if kind == "seq" { DVal::SeqAnn(n, vs?) } else { DVal::MapAnn(n, vs?) };
            Some(ser_answer(ser_all(&v)))
        }
        "collectit" => {
            // a Serialize impl that hands an iterator to collect_seq / collect_map
            let is_map = args.first()?.atom()? == "map";
            let lo: u64 = args.get(1)?.atom()?.parse().ok()?;
            let hi = args.get(2)?.atom()?;
            let hi = if hi == "none" { None } else { Some(hi.parse::<u64>().ok()?) };
            let vs: Option<Vec<DVal>> = args[3..].iter().map(DVal::from_sexp).collect();
            let vs = vs?;
            let r = ser_all(&DVal::Collect(is_map, lo, hi, vs.clone()));
            // oracle (C02): a length not known up front (size_hint not exact) is refused, never mis-framed
            let n = if is_map { vs.len() / 2 } else { vs.len() };
            match &r {
                Ok(Ok(_)) if hi != Some(lo) => ctx.oracle_fail("a sequence/map of unknown length was written instead of being refused".into()),
                Ok(Ok(b)) if lo as usize == n => {
                    let plain = ser_all(&if is_map { DVal::Map(vs.clone()) } else { DVal::Seq(vs.clone()) });
                    if plain != Ok(Ok(b.clone())) {
                        ctx.oracle_fail("collect_seq/collect_map of an exact-size iterator differs from the plain sequence encoding".into());
                    }
                }
                _ => {}
            }
            Some(ser_answer(r))
        }
        "collect" => {
            let mut cs = Vec::new();
            for a in args {
                cs.push(String::from_utf8(unhex(a.atom()?)?).ok()?);
            }
            Some(ser_answer(ser_all(&DVal::Display(cs))))
        }
        "rtsp" => {
            // rtsp <idx> <variant shape> <value>: round trip of an enum with ONE accepted discriminant
            // anywhere in the u32 range (a hand-written Deserialize impl with sparse / wide discriminants)
            let idx: u32 = args.first()?.atom()?.parse().ok()?;
            let t = DTy::EnumAt(idx, Box::new(DTy::from_sexp(args.get(1)?)?));
            let v = DVal::from_sexp(args.get(2)?)?;
            if !has_ty(&v, &t) {
                return Some("bad-op".into());
            }
            let r = ser_all(&v);
            if let Ok(Ok(bytes)) = &r {
                for rest in [&[][..], &[0xAA, 0x00, 0x80][..]] {
                    let mut inp = bytes.clone();
                    inp.extend_from_slice(rest);
                    match de_all(&t, &inp) {
                        Ok(Ok((v2, r2))) if v2 == v && r2 == rest => {}
                        other => ctx.oracle_fail(format!("round-trip (discriminant {}): decode of encode gave {:?}", idx, other.map(|x| x.map(|(v, r)| (v.to_string(), hex(&r)))))),
                    }
                }
            } else {
                ctx.oracle_fail(format!("round-trip: a well-typed value failed to serialise: {:?}", r));
            }
            Some(ser_answer(r))
        }
        "desp" => {
            let idx: u32 = args.first()?.atom()?.parse().ok()?;
            let t = DTy::EnumAt(idx, Box::new(DTy::from_sexp(args.get(1)?)?));
            let bytes = unhex(args.get(2)?.atom()?)?;
            Some(match de_all(&t, &bytes) {
                Ok(r) => de_answer(&r),
                Err(d) => format!("FAIL {}", d),
            })
        }
        "de" => {
            let t = DTy::from_sexp(args.first()?)?;
            let bytes = unhex(args.get(1)?.atom()?)?;
            Some(match de_all(&t, &bytes) {
                Ok(r) => de_answer(&r),
                Err(d) => format!("FAIL {}", d),
            })
        }
        _ => None,
    }
}

// ------------------------------------------------------------------ generators

fn emit_rt(out: &mut Vec<String>, t: &DTy, v: &DVal) {
    out.push(format!("rt {} {}", t, v));
}

/// sizes around every power-of-two boundary a counter, staging buffer or block size could sit at
pub fn ladder(thorough: bool) -> Vec<usize> {
    let mut v = vec![0usize, 1, 2, 3, 7, 8, 9, 15, 16, 17, 31, 32, 33, 63, 64, 65, 127, 128, 129, 253, 254, 255, 256, 257, 258, 300, 511, 512, 513, 1023, 1024, 1025];
    if thorough {
        v.extend([2047, 2048, 2049, 4095, 4096, 4097]);
    }
    v
}

fn wrap_ty(kind: usize, t: DTy) -> DTy {
    match kind {
        0 => DTy::Option(Box::new(t)),
        1 => DTy::NStruct(Box::new(t)),
        2 => DTy::Seq(Box::new(t)),
        3 => DTy::Tuple(vec![t]),
        4 => DTy::TStruct(vec![t]),
        5 => DTy::Struct(vec![t]),
        6 => DTy::Enum(vec![DTy::Unit, DTy::NStruct(Box::new(t))]),
        _ => DTy::Map(Box::new(DTy::Unit), Box::new(t)),
    }
}
fn wrap_val(kind: usize, v: DVal) -> DVal {
    match kind {
        0 => DVal::Some(Box::new(v)),
        1 => DVal::NStruct(Box::new(v)),
        2 => DVal::Seq(vec![v]),
        3 => DVal::Tuple(vec![v]),
        4 => DVal::TStruct(vec![v]),
        5 => DVal::Struct(vec![v]),
        6 => DVal::NVar(1, Box::new(v)),
        _ => DVal::Map(vec![DVal::Unit, v]),
    }
}

/// values at SCALE: nesting depth and element / field / variant counts on the ladder. Nothing in the
/// format depends on these sizes, so nothing in the implementation may either.
pub fn scale_cases(r: &mut Rng, thorough: bool) -> Vec<(DTy, DVal)> {
    let mut out = Vec::new();
    let lad = ladder(thorough);
    // nesting depth: one wrapper kind repeated, and all kinds alternating
    for &d in lad.iter().filter(|d| **d >= 15) {
        for kind in 0..9usize {
            if !thorough && d > 300 && kind % 3 != d % 3 {
                continue;
            }
            let (mut t, mut v) = (DTy::U(8), DVal::U(8, 7));
            for level in 0..d {
                let k = if kind == 8 { level % 8 } else { kind };
                t = wrap_ty(k, t);
                v = wrap_val(k, v);
            }
            out.push((t, v));
        }
        // a None at the bottom of d Options, a unit variant at the bottom of d newtype variants
        let (mut t, mut v) = (DTy::Option(Box::new(DTy::U(8))), DVal::None);
        for _ in 0..d {
            t = wrap_ty(0, t);
            v = wrap_val(0, v);
        }
        out.push((t, v));
    }
    // element counts
    for &n in lad.iter().filter(|n| **n >= 31) {
        let half_none: Vec<DVal> = (0..n).map(|i| if i % 2 == 0 { DVal::None } else { DVal::Some(Box::new(DVal::U(8, i as u128 % 251))) }).collect();
        out.push((DTy::Seq(Box::new(DTy::Option(Box::new(DTy::U(8))))), DVal::Seq(half_none)));
        out.push((DTy::Seq(Box::new(DTy::Option(Box::new(DTy::U(8))))), DVal::Seq(vec![DVal::None; n])));
        out.push((DTy::Seq(Box::new(DTy::U(16))), DVal::Seq((0..n).map(|i| DVal::U(16, (i * 37) as u128 % 65536)).collect())));
        out.push((DTy::Seq(Box::new(DTy::Unit)), DVal::Seq(vec![DVal::Unit; n])));
        out.push((DTy::Str, DVal::Str((0..n).map(|i| (b'a' + (i % 26) as u8) as char).collect())));
        out.push((DTy::Bytes, DVal::Bytes((0..n).map(|i| (i % 256) as u8).collect())));
        out.push((DTy::Bytes, DVal::Bytes((0..n).map(|i| 1 + (i % 255) as u8).collect())));
        out.push((DTy::Tuple(vec![DTy::U(8); n]), DVal::Tuple((0..n).map(|i| DVal::U(8, i as u128 % 256)).collect())));
        // (the harness has 4096 distinct field / variant names)
        if n <= 4096 {
            out.push((DTy::Struct(vec![DTy::Bool; n]), DVal::Struct((0..n).map(|i| DVal::Bool(i % 3 == 0)).collect())));
        }
        let mut kv = Vec::new();
        for i in 0..n {
            kv.push(DVal::Str(format!("k{}", i)));
            kv.push(if i % 5 == 0 { DVal::None } else { DVal::Some(Box::new(DVal::U(8, i as u128 % 256))) });
        }
        out.push((DTy::Map(Box::new(DTy::Str), Box::new(DTy::Option(Box::new(DTy::U(8))))), DVal::Map(kv)));
        // the last variant of an n-variant enum, of each variant kind
        if n >= 1 && n <= 4096 {
            let vt = |i: usize| match i % 4 { 0 => DTy::Unit, 1 => DTy::NStruct(Box::new(DTy::U(8))), 2 => DTy::Tuple(vec![DTy::U(8), DTy::Bool]), _ => DTy::Struct(vec![DTy::I(16)]) };
            let t = DTy::Enum((0..n).map(vt).collect());
            for i in [n - 1, n.saturating_sub(2), n / 2] {
                let v = match i % 4 { 0 => DVal::UVar(i as u32), 1 => DVal::NVar(i as u32, Box::new(DVal::U(8, 9))), 2 => DVal::TVar(i as u32, vec![DVal::U(8, 1), DVal::Bool(true)]), _ => DVal::SVar(i as u32, vec![DVal::I(16, -2)]) };
                out.push((t.clone(), v));
            }
        }
        // several string / byte bodies in one value, lengths straddling the boundary
        let a = r.range(0, 3) as usize;
        out.push((DTy::Tuple(vec![DTy::Str, DTy::Bytes, DTy::U(8)]), DVal::Tuple(vec![DVal::Str("s".repeat(n.saturating_sub(a))), DVal::Bytes(vec![0x5A; n + a]), DVal::U(8, 7)])));
    }
    out
}

pub fn gen_c01(r: &mut Rng, thorough: bool, out: &mut Vec<String>) {
    for (t, v) in scale_cases(r, thorough) {
        emit_rt(out, &t, &v);
    }
    // enums with one accepted discriminant anywhere in the u32 range (1- to 5-byte index varints)
    for (i, vt, v) in enum_at_cases(r) {
        out.push(format!("rtsp {} {} {}", i, vt, v));
    }
    // exhaustive small domains
    for b in [false, true] {
        emit_rt(out, &DTy::Bool, &DVal::Bool(b));
    }
    for n in 0..=255u128 {
        emit_rt(out, &DTy::U(8), &DVal::U(8, n));
        emit_rt(out, &DTy::I(8), &DVal::I(8, n as i128 - 128));
    }
    if thorough {
        for n in 0..=65535u128 {
            emit_rt(out, &DTy::U(16), &DVal::U(16, n));
            emit_rt(out, &DTy::I(16), &DVal::I(16, n as i128 - 32768));
        }
        for c in 0..=0x10FFFFu32 {
            if let Some(c) = char::from_u32(c) {
                emit_rt(out, &DTy::Char, &DVal::Char(c));
            }
        }
    } else {
        for n in (0..=65535u128).step_by(97) {
            emit_rt(out, &DTy::U(16), &DVal::U(16, n));
            emit_rt(out, &DTy::I(16), &DVal::I(16, n as i128 - 32768));
        }
        for c in (0..=0x10FFFFu32).step_by(1009) {
            if let Some(c) = char::from_u32(c) {
                emit_rt(out, &DTy::Char, &DVal::Char(c));
            }
        }
    }
    // boundary sets
    for w in WIDTHS {
        for n in u_boundaries(w) {
            emit_rt(out, &DTy::U(w), &DVal::U(w, n));
        }
        for n in i_boundaries(w) {
            emit_rt(out, &DTy::I(w), &DVal::I(w, n));
        }
    }
    for c in CHAR_BOUNDS {
        emit_rt(out, &DTy::Char, &DVal::Char(char::from_u32(c).unwrap()));
    }
    for b in F32_CLASSES {
        emit_rt(out, &DTy::F32, &DVal::F32(b));
    }
    for b in F64_CLASSES {
        emit_rt(out, &DTy::F64, &DVal::F64(b));
    }
    for _ in 0..200 {
        // NaN payloads / subnormals
        let m = r.next();
        emit_rt(out, &DTy::F32, &DVal::F32(0x7f80_0000 | (m as u32 & 0x807f_ffff)));
        emit_rt(out, &DTy::F64, &DVal::F64(0x7ff0_0000_0000_0000 | (m & 0x800f_ffff_ffff_ffff)));
        emit_rt(out, &DTy::F32, &DVal::F32(m as u32 & 0x807f_ffff));
    }
    for (t, v) in kind_corpus() {
        emit_rt(out, &t, &v);
    }
    // strings / sequences / maps at length boundaries
    for n in [0usize, 1, 127, 128, 16383, 16384] {
        emit_rt(out, &DTy::Str, &DVal::Str("a".repeat(n)));
        emit_rt(out, &DTy::Str, &DVal::Str("\u{e9}".repeat(n / 2)));
        emit_rt(out, &DTy::Bytes, &DVal::Bytes(vec![0u8; n]));
        if n <= 128 || thorough {
            emit_rt(out, &DTy::Seq(Box::new(DTy::U(8))), &DVal::Seq(vec![DVal::U(8, 7); n]));
            emit_rt(out, &DTy::Seq(Box::new(DTy::Unit)), &DVal::Seq(vec![DVal::Unit; n]));
            let mut kv = Vec::new();
            for i in 0..n {
                kv.push(DVal::U(16, i as u128));
                kv.push(DVal::Bool(i % 2 == 0));
            }
            emit_rt(out, &DTy::Map(Box::new(DTy::U(16)), Box::new(DTy::Bool)), &DVal::Map(kv));
        }
    }
    // variant indices
    for n in [1usize, 2, 127, 128, 129, 300] {
        let t = DTy::Enum((0..n).map(|i| if i % 2 == 0 { DTy::Unit } else { DTy::NStruct(Box::new(DTy::U(8))) }).collect());
        for i in [0, n - 1, n / 2] {
            let v = if i % 2 == 0 { DVal::UVar(i as u32) } else { DVal::NVar(i as u32, Box::new(DVal::U(8, 1))) };
            emit_rt(out, &t, &v);
        }
    }
    // random type trees with random well-typed values
    let n = if thorough { 300_000 } else { 12_000 };
    for i in 0..n {
        let depth = 1 + (i % 5) as u32;
        let t = gen_ty(r, depth);
        let v = gen_val(r, &t, i % 50 == 0);
        emit_rt(out, &t, &v);
    }
}

pub fn gen_c02(r: &mut Rng, thorough: bool, out: &mut Vec<String>) {
    let mut c01 = Vec::new();
    gen_c01(r, thorough, &mut c01);
    for l in c01 {
        if !l.starts_with("rt ") {
            continue;
        }
        // "rt <ty> <val>" → "spec <val>": drop the type (first s-expression after the op)
        let rest = &l[3..];
        let mut depth = 0i32;
        let mut end = 0;
        for (i, ch) in rest.char_indices() {
            match ch {
                '(' => depth += 1,
                ')' => depth -= 1,
                ' ' if depth == 0 => {
                    end = i;
                    break;
                }
                _ => {}
            }
        }
        out.push(format!("spec {}", &rest[end + 1..]));
    }
    for (_, _, v) in enum_at_cases(r) {
        out.push(format!("spec {}", v));
    }
    // big variant indices (serializer side only)
    for i in [0u32, 127, 128, 16383, 16384, 2097151, 2097152, u32::MAX - 1, u32::MAX] {
        out.push(format!("spec {}", DVal::UVar(i)));
        out.push(format!("spec {}", DVal::NVar(i, Box::new(DVal::U(8, 1)))));
        out.push(format!("spec {}", DVal::TVar(i, vec![DVal::U(16, 300)])));
        out.push(format!("spec {}", DVal::SVar(i, vec![DVal::I(16, -300)])));
    }
    // usize varint through announced lengths, up to usize::MAX
    for kind in ["seq", "map"] {
        out.push(format!("serann {} none", kind));
        out.push(format!("serann {} none (u8 1) (u8 2)", kind));
        for n in u_boundaries(64) {
            out.push(format!("serann {} {}", kind, n));
            out.push(format!("serann {} {} (u16 300) (bool 1)", kind, n));
        }
        for _ in 0..200 {
            out.push(format!("serann {} {}", kind, gen_u(r, 64)));
        }
    }
    // iterators handed to collect_seq / collect_map: exact, inexact, unbounded size hints
    for kind in ["seq", "map"] {
        for (lo, hi, n) in [(0u64, Some(0u64), 0usize), (2, Some(2), 2), (0, Some(4), 2), (2, Some(4), 2), (1, None, 2), (0, None, 0), (3, Some(3), 3), (0, Some(3), 3), (127, Some(128), 2), (128, Some(128), 128)] {
            let mut s = format!("collectit {} {} {}", kind, lo, hi.map_or("none".to_string(), |h| h.to_string()));
            let cnt = if kind == "map" { 2 * n } else { n };
            for i in 0..cnt {
                s.push_str(&format!(" (u16 {})", 100 * i + 7));
            }
            out.push(s);
        }
    }
    for _ in 0..60 {
        let n = r.range(0, 5);
        let lo = r.range(0, n);
        let hi = match r.below(3) { 0 => None, 1 => Some(n), _ => Some(n + r.range(0, 3)) };
        let kind = if r.chance(1, 2) { "seq" } else { "map" };
        let mut s = format!("collectit {} {} {}", kind, if r.chance(1, 2) { n } else { lo }, hi.map_or("none".to_string(), |h| h.to_string()));
        let cnt = if kind == "map" { 2 * n } else { n };
        for _ in 0..cnt {
            s.push_str(&format!(" {}", gen_val(r, &DTy::U(16), false)));
        }
        out.push(s);
    }
    // Display-collected strings
    out.push("collect".into());
    out.push("collect x".into());
    for _ in 0..300 {
        let k = r.range(1, 5);
        let mut s = String::from("collect");
        for _ in 0..k {
            s.push(' ');
            let big = r.chance(1, 20);
            s.push_str(&hex(gen_string(r, big).as_bytes()));
        }
        out.push(s);
    }
    out.push(format!("collect {} {}", hex("a".repeat(127).as_bytes()), hex(b"b")));
    out.push(format!("collect {}", hex("a".repeat(16384).as_bytes())));
}

/// re-pad a varint at the start of `bytes` (if the first varint ends within `max` bytes)
fn repad(bytes: &[u8], extra: usize) -> Option<Vec<u8>> {
    let end = bytes.iter().position(|b| b & 0x80 == 0)?;
    let mut out = bytes[..end].to_vec();
    out.push(bytes[end] | 0x80);
    for _ in 1..extra {
        out.push(0x80);
    }
    out.push(0x00);
    out.extend_from_slice(&bytes[end + 1..]);
    Some(out)
}

pub fn leaf_tys() -> Vec<DTy> {
    let mut v = vec![DTy::Bool, DTy::F32, DTy::F64, DTy::Char, DTy::Str, DTy::Bytes, DTy::Unit, DTy::UStruct];
    for w in WIDTHS {
        v.push(DTy::U(w));
        v.push(DTy::I(w));
    }
    v.push(DTy::Option(Box::new(DTy::U(8))));
    v.push(DTy::Option(Box::new(DTy::Bool)));
    v.push(DTy::Seq(Box::new(DTy::U(8))));
    v.push(DTy::Seq(Box::new(DTy::Bool)));
    v.push(DTy::Enum(vec![DTy::Unit, DTy::NStruct(Box::new(DTy::U(8)))]));
    v.push(DTy::Map(Box::new(DTy::U(8)), Box::new(DTy::Bool)));
    v.push(DTy::Any);
    v.push(DTy::Identifier);
    v.push(DTy::Ignored);
    v
}

pub fn gen_c03(r: &mut Rng, thorough: bool, out: &mut Vec<String>) {
    let leafs = leaf_tys();
    // all byte strings of length ≤ 2 against every leaf kind
    for t in &leafs {
        out.push(format!("de {} x", t));
        for a in 0..=255u8 {
            out.push(format!("de {} {}", t, hex(&[a])));
        }
        let step = if thorough { 1 } else { 5 };
        for a in (0..=255u16).step_by(step) {
            for b in (0..=255u16).step_by(step) {
                out.push(format!("de {} {}", t, hex(&[a as u8, b as u8])));
            }
        }
    }
    // varint paddings / overflow per width: max-length encodings with every last byte
    for w in [16u8, 32, 64, 128] {
        let max = (w as usize + 6) / 7;
        for t in [DTy::U(w), DTy::I(w)] {
            for last in 0..=255u8 {
                let mut b = vec![0xFFu8; max - 1];
                b.push(last);
                out.push(format!("de {} {}", t, hex(&b)));
                let mut b = vec![0x80u8; max - 1];
                b.push(last);
                b.push(0x55);
                out.push(format!("de {} {}", t, hex(&b)));
            }
            for n in 1..=max + 2 {
                let mut b = vec![0x80u8; n];
                out.push(format!("de {} {}", t, hex(&b)));
                b.push(0);
                out.push(format!("de {} {}", t, hex(&b)));
                b.pop();
                b.push(1);
                out.push(format!("de {} {}", t, hex(&b)));
            }
        }
    }
    // 16-bit varint reader: all strings of length ≤ 3 (thorough) or strided
    let step = if thorough { 1 } else { 7 };
    for a in (0..=255u16).step_by(step) {
        for b in (0..=255u16).step_by(step) {
            for c in (0..=255u16).step_by(if thorough { 1 } else { 17 }) {
                out.push(format!("de u16 {}", hex(&[a as u8, b as u8, c as u8])));
            }
        }
    }
    // chars / strings: adversarial UTF-8
    let bad_utf8: Vec<Vec<u8>> = vec![
        vec![0x80], vec![0xBF], vec![0xC0, 0x80], vec![0xC1, 0xBF], vec![0xC2], vec![0xC2, 0x41], vec![0xE0, 0x80, 0x80],
        vec![0xE0, 0x9F, 0xBF], vec![0xE0, 0xA0, 0x80], vec![0xED, 0xA0, 0x80], vec![0xED, 0x9F, 0xBF], vec![0xED, 0xBF, 0xBF],
        vec![0xEF, 0xBF, 0xBF], vec![0xF0, 0x80, 0x80, 0x80], vec![0xF0, 0x8F, 0xBF, 0xBF], vec![0xF0, 0x90, 0x80, 0x80],
        vec![0xF4, 0x8F, 0xBF, 0xBF], vec![0xF4, 0x90, 0x80, 0x80], vec![0xF5, 0x80, 0x80, 0x80], vec![0xFF], vec![0xE2, 0x82],
        vec![0xF0, 0x9F, 0x98], vec![0x61, 0x62], vec![0x61, 0xC3, 0xA9], vec![0xC3, 0xA9, 0x61], vec![0xC3, 0xA9, 0xC3, 0xA9],
        vec![0x61, 0x62, 0x63, 0x64], vec![0x61, 0x62, 0x63, 0x64, 0x65], vec![],
    ];
    for s in &bad_utf8 {
        for t in [DTy::Char, DTy::Str] {
            for lenadj in [-1i64, 0, 1] {
                let l = s.len() as i64 + lenadj;
                if l < 0 {
                    continue;
                }
                let mut b = vec![l as u8];
                b.extend_from_slice(s);
                out.push(format!("de {} {}", t, hex(&b)));
                b.push(0x7);
                out.push(format!("de {} {}", t, hex(&b)));
            }
        }
    }
    for l in 0..=9u8 {
        let mut b = vec![l];
        b.extend(std::iter::repeat(0x61).take(l as usize));
        out.push(format!("de char {}", hex(&b)));
        let mut b = vec![0x80 | l, 0x00];
        b.extend(std::iter::repeat(0x61).take(l as usize));
        out.push(format!("de char {}", hex(&b)));
    }
    // structured: valid encodings with prefixes / corruptions / re-paddings / random bytes
    let n = if thorough { 60_000 } else { 2_500 };
    for i in 0..n {
        let t = gen_ty(r, 1 + (i % 4) as u32);
        if has_zero_width_seq(&t) {
            continue; // a corrupted length would make decoding loop for 2^k steps by construction
        }
        let v = gen_val(r, &t, false);
        let bytes = match postcard::to_allocvec(&v) {
            Ok(b) => b,
            Err(_) => continue,
        };
        if bytes.len() > 300 {
            continue;
        }
        out.push(format!("de {} {}", t, hex(&bytes)));
        let mut ext = bytes.clone();
        ext.extend_from_slice(&r.bytes(3));
        out.push(format!("de {} {}", t, hex(&ext)));
        // every strict prefix
        for k in 0..bytes.len() {
            if bytes.len() <= 24 || k % 5 == 0 || k + 3 >= bytes.len() {
                out.push(format!("de {} {}", t, hex(&bytes[..k])));
            }
        }
        // single-byte corruptions and single-bit flips
        for _ in 0..4.min(bytes.len()) {
            let k = r.below(bytes.len() as u64) as usize;
            let mut c = bytes.clone();
            c[k] = r.next() as u8;
            out.push(format!("de {} {}", t, hex(&c)));
            let mut c = bytes.clone();
            c[k] ^= 1 << r.below(8);
            out.push(format!("de {} {}", t, hex(&c)));
        }
        for extra in [1usize, 2, 9] {
            if let Some(p) = repad(&bytes, extra) {
                out.push(format!("de {} {}", t, hex(&p)));
            }
        }
        // adversarial length prefix
        if i % 3 == 0 {
            let mut c = vec![0xFF, 0xFF, 0xFF, 0xFF, 0xFF, 0xFF, 0xFF, 0xFF, 0xFF, 0x01];
            c.extend_from_slice(&bytes);
            out.push(format!("de {} {}", t, hex(&c)));
        }
        let rn = r.range(0, 12) as usize;
        let rb = r.bytes(rn);
        out.push(format!("de {} {}", t, hex(&rb)));
    }
    // values at scale (deep nesting, long sequences, many fields / variants): the valid encoding, with
    // trailing bytes, cut short, and damaged
    for (i, (t, v)) in scale_cases(r, thorough).into_iter().enumerate() {
        if has_zero_width_seq(&t) {
            continue;
        }
        let bytes = match postcard::to_allocvec(&v) {
            Ok(b) => b,
            Err(_) => continue,
        };
        out.push(format!("de {} {}", t, hex(&bytes)));
        if i % 2 == 0 || thorough {
            let mut ext = bytes.clone();
            ext.push(0x01);
            out.push(format!("de {} {}", t, hex(&ext)));
            if !bytes.is_empty() {
                out.push(format!("de {} {}", t, hex(&bytes[..bytes.len() - 1])));
                out.push(format!("de {} {}", t, hex(&bytes[..bytes.len() / 2])));
                let k = r.below(bytes.len() as u64) as usize;
                let mut c = bytes.clone();
                c[k] ^= 1 << r.below(8);
                out.push(format!("de {} {}", t, hex(&c)));
            }
        }
    }
    // sparse / wide enum discriminants: valid encodings, every truncation, every byte corrupted, a re-padded
    // index, and the neighbouring discriminants (which the one-discriminant visitor refuses)
    for (i, vt, v) in enum_at_cases(r) {
        let bytes = match postcard::to_allocvec(&v) {
            Ok(b) => b,
            Err(_) => continue,
        };
        out.push(format!("desp {} {} {}", i, vt, hex(&bytes)));
        let mut ext = bytes.clone();
        ext.extend_from_slice(&[0x80, 0x01]);
        out.push(format!("desp {} {} {}", i, vt, hex(&ext)));
        for k in 0..bytes.len() {
            out.push(format!("desp {} {} {}", i, vt, hex(&bytes[..k])));
            let mut c = ext.clone();
            c[k] ^= 1 << (k % 8);
            out.push(format!("desp {} {} {}", i, vt, hex(&c)));
        }
        out.push(format!("desp {} {} {}", i.wrapping_add(1), vt, hex(&bytes)));
        out.push(format!("desp {} {} {}", i.wrapping_sub(1), vt, hex(&bytes)));
    }
}
