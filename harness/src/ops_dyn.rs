//! Ops and generators for the dynamic codec properties C17, C18.
//!   dynagree <schema> <json> <hex>   C17: REAL data of a concrete Rust type T and one value v:
//!        T::SCHEMA, serde_json::to_value(v), postcard::to_allocvec(v). Answer: what the dynamic
//!        encoder makes of (schema, json) and what the dynamic decoder makes of (schema, bytes).
//!   dynser <schema> <json>           C18: dynamic encoding of arbitrary JSON; oracle: whatever is
//!        accepted decodes again and re-encodes to the same bytes
//!   dynde <schema> <hex>             C18: dynamic decoding of arbitrary bytes under the counting allocator
use crate::core_ops::guard;
use crate::guard::{ALLOCATED, ALLOC_LIMIT};
use crate::prng::Rng;
use crate::record::{record, record_hr, Ct};
use crate::samples::Samples;
use crate::schema::{gen_schema, parse, show};
use crate::sexp::{hex, unhex, Sexp};
use crate::Ctx;
use postcard_dyn::{from_slice_dyn, to_stdvec_dyn};
use postcard_schema::schema::owned::{OwnedData, OwnedDataModelType as O};
use postcard_schema::Schema;
use serde::Serialize;
use serde_json::{Map, Number, Value};
use std::sync::atomic::Ordering;

pub fn show_json(v: &Value) -> String {
    match v {
        Value::Null => "null".into(),
        Value::Bool(true) => "true".into(),
        Value::Bool(false) => "false".into(),
        Value::Number(n) => {
            if let Some(u) = n.as_u64() {
                format!("(u {})", u)
            } else if let Some(i) = n.as_i64() {
                format!("(i {})", i)
            } else {
                format!("(f {:016x})", n.as_f64().unwrap_or(0.0).to_bits())
            }
        }
        Value::String(s) => format!("(s {})", hex(s.as_bytes())),
        Value::Array(xs) => format!("(a{})", xs.iter().map(|x| format!(" {}", show_json(x))).collect::<String>()),
        Value::Object(m) => format!("(o{})", m.iter().map(|(k, x)| format!(" ({} {})", hex(k.as_bytes()), show_json(x))).collect::<String>()),
    }
}

pub fn parse_json(x: &Sexp) -> Option<Value> {
    match x {
        Sexp::Atom(a) => match a.as_str() {
            "null" => Some(Value::Null),
            "true" => Some(Value::Bool(true)),
            "false" => Some(Value::Bool(false)),
            _ => None,
        },
        Sexp::List(l) => {
            let head = l.first()?.atom()?;
            let args = &l[1..];
            match head {
                "u" => Some(Value::Number(Number::from(args.first()?.atom()?.parse::<u64>().ok()?))),
                "i" => Some(Value::Number(Number::from(args.first()?.atom()?.parse::<i64>().ok()?))),
                "f" => Some(Value::Number(Number::from_f64(f64::from_bits(u64::from_str_radix(args.first()?.atom()?, 16).ok()?))?)),
                "s" => Some(Value::String(String::from_utf8(unhex(args.first()?.atom()?)?).ok()?)),
                "a" => Some(Value::Array(args.iter().map(parse_json).collect::<Option<Vec<_>>>()?)),
                "o" => {
                    let mut m = Map::new();
                    for kv in args {
                        let kv = kv.list()?;
                        m.insert(String::from_utf8(unhex(kv.first()?.atom()?)?).ok()?, parse_json(kv.get(1)?)?);
                    }
                    Some(Value::Object(m))
                }
                _ => None,
            }
        }
    }
}

fn err_kind<E: std::fmt::Debug>(e: &E) -> &'static str {
    // the crate does not export its error enums; they derive Debug
    match format!("{:?}", e).as_str() {
        "SchemaMismatch" => "schema-mismatch",
        "ShouldSupportButDont" => "should-support-but-dont",
        "Unsupported" => "unsupported",
        "UnexpectedEndOfData" => "unexpected-end",
        _ => "unknown-error",
    }
}

fn do_ser(s: &O, j: &Value) -> Result<Result<Vec<u8>, &'static str>, ()> {
    guard(|| to_stdvec_dyn(s, j).map_err(|e| err_kind(&e)))
}
fn do_de(s: &O, b: &[u8]) -> Result<Result<Value, &'static str>, ()> {
    guard(|| from_slice_dyn(s, b).map_err(|e| err_kind(&e)))
}
fn ser_str(r: &Result<Result<Vec<u8>, &'static str>, ()>) -> String {
    match r {
        Err(()) => "panic".into(),
        Ok(Ok(b)) => format!("ok {}", hex(b)),
        Ok(Err(e)) => format!("err {}", e),
    }
}
fn de_str(r: &Result<Result<Value, &'static str>, ()>) -> String {
    match r {
        Err(()) => "panic".into(),
        Ok(Ok(j)) => format!("ok {}", show_json(j)),
        Ok(Err(e)) => format!("err {}", e),
    }
}

/// number of nodes of a schema plus the bytes of its field / variant names
fn schema_weight(s: &O) -> usize {
    fn data(d: &OwnedData) -> usize {
        match d {
            OwnedData::Unit => 1,
            OwnedData::Newtype(t) => schema_weight(t),
            OwnedData::Tuple(ts) => 1 + ts.iter().map(schema_weight).sum::<usize>(),
            OwnedData::Struct(fs) => 1 + fs.iter().map(|f| 1 + f.name.len() / 16 + schema_weight(&f.ty)).sum::<usize>(),
        }
    }
    match s {
        O::Option(t) | O::Seq(t) => 1 + schema_weight(t),
        O::Tuple(ts) => 1 + ts.iter().map(schema_weight).sum::<usize>(),
        O::Map { key, val } => 1 + schema_weight(key) + schema_weight(val),
        O::Struct { data: d, .. } => 1 + data(d),
        O::Enum { variants, .. } => 1 + variants.iter().map(|v| 1 + v.name.len() / 16 + data(&v.data)).max().unwrap_or(0),
        _ => 1,
    }
}

/// can a value of this kind have the JSON form `null` (so that Option over it is ambiguous)?
fn null_hazard(s: &O) -> bool {
    match s {
        O::Unit | O::Option(_) => true,
        O::Struct { data: OwnedData::Unit, .. } => true,
        O::Struct { data: OwnedData::Newtype(t), .. } => null_hazard(t),
        _ => false,
    }
}
fn has_option_null_hazard(s: &O) -> bool {
    fn data(d: &OwnedData) -> bool {
        match d {
            OwnedData::Unit => false,
            OwnedData::Newtype(t) => has_option_null_hazard(t),
            OwnedData::Tuple(ts) => ts.iter().any(has_option_null_hazard),
            OwnedData::Struct(fs) => fs.iter().any(|f| has_option_null_hazard(&f.ty)),
        }
    }
    match s {
        O::Option(t) => null_hazard(t) || has_option_null_hazard(t),
        O::Seq(t) => has_option_null_hazard(t),
        O::Tuple(ts) => ts.iter().any(has_option_null_hazard),
        O::Map { key, val } => has_option_null_hazard(key) || has_option_null_hazard(val),
        O::Struct { data: d, .. } => data(d),
        O::Enum { variants, .. } => variants.iter().any(|v| data(&v.data)),
        _ => false,
    }
}
fn min_width(s: &O) -> usize {
    fn data(d: &OwnedData) -> usize {
        match d {
            OwnedData::Unit => 0,
            OwnedData::Newtype(t) => min_width(t),
            OwnedData::Tuple(ts) => ts.iter().map(min_width).sum(),
            OwnedData::Struct(fs) => fs.iter().map(|f| min_width(&f.ty)).sum(),
        }
    }
    match s {
        O::Unit => 0,
        O::Tuple(ts) => ts.iter().map(min_width).sum(),
        O::Struct { data: d, .. } => data(d),
        O::F32 => 4,
        O::F64 => 8,
        _ => 1,
    }
}
fn has_zero_width_seq(s: &O) -> bool {
    fn data(d: &OwnedData) -> bool {
        match d {
            OwnedData::Unit => false,
            OwnedData::Newtype(t) => has_zero_width_seq(t),
            OwnedData::Tuple(ts) => ts.iter().any(has_zero_width_seq),
            OwnedData::Struct(fs) => fs.iter().any(|f| has_zero_width_seq(&f.ty)),
        }
    }
    match s {
        O::Seq(t) => min_width(t) == 0 || has_zero_width_seq(t),
        O::Option(t) => has_zero_width_seq(t),
        O::Tuple(ts) => ts.iter().any(has_zero_width_seq),
        O::Map { val, .. } => has_zero_width_seq(val),
        O::Struct { data: d, .. } => data(d),
        O::Enum { variants, .. } => variants.iter().any(|v| data(&v.data)),
        _ => false,
    }
}
fn has_dup_names(s: &O) -> bool {
    fn fields(fs: &[postcard_schema::schema::owned::OwnedNamedField]) -> bool {
        let mut n: Vec<&str> = fs.iter().map(|f| &*f.name).collect();
        n.sort();
        n.windows(2).any(|w| w[0] == w[1]) || fs.iter().any(|f| has_dup_names(&f.ty))
    }
    fn data(d: &OwnedData) -> bool {
        match d {
            OwnedData::Unit => false,
            OwnedData::Newtype(t) => has_dup_names(t),
            OwnedData::Tuple(ts) => ts.iter().any(has_dup_names),
            OwnedData::Struct(fs) => fields(fs),
        }
    }
    match s {
        O::Option(t) | O::Seq(t) => has_dup_names(t),
        O::Tuple(ts) => ts.iter().any(has_dup_names),
        O::Map { key, val } => has_dup_names(key) || has_dup_names(val),
        O::Struct { data: d, .. } => data(d),
        O::Enum { variants, .. } => {
            let mut n: Vec<&str> = variants.iter().map(|v| &*v.name).collect();
            n.sort();
            n.windows(2).any(|w| w[0] == w[1]) || variants.iter().any(|v| data(&v.data))
        }
        _ => false,
    }
}

/// every map in the schema is keyed by strings (the only maps a JSON object can represent)
fn string_keyed(s: &O) -> bool {
    fn data(d: &OwnedData) -> bool {
        match d {
            OwnedData::Unit => true,
            OwnedData::Newtype(t) => string_keyed(t),
            OwnedData::Tuple(ts) => ts.iter().all(string_keyed),
            OwnedData::Struct(fs) => fs.iter().all(|f| string_keyed(&f.ty)),
        }
    }
    match s {
        O::Map { key, val } => **key == O::String && string_keyed(val),
        O::Option(t) | O::Seq(t) => string_keyed(t),
        O::Tuple(ts) => ts.iter().all(string_keyed),
        O::Struct { data: d, .. } => data(d),
        O::Enum { variants, .. } => variants.iter().all(|v| data(&v.data)),
        _ => true,
    }
}

/// is the JSON form of this recorded value unambiguous (the scope of C17)?
fn faithful(c: &Ct) -> bool {
    fn nullish(c: &Ct) -> bool {
        match c {
            Ct::Unit | Ct::UStruct(_) | Ct::None => true,
            Ct::Some(x) | Ct::NStruct(_, x) => nullish(x),
            Ct::F32(b) => !f32::from_bits(*b).is_finite(),
            Ct::F64(b) => !f64::from_bits(*b).is_finite(),
            _ => false,
        }
    }
    match c {
        Ct::U(_, n) => *n <= u64::MAX as u128,
        Ct::I(_, n) => *n >= i64::MIN as i128 && *n <= u64::MAX as i128,
        Ct::F32(b) => f32::from_bits(*b).is_finite(),
        Ct::F64(b) => f64::from_bits(*b).is_finite(),
        Ct::Some(x) => !nullish(x) && faithful(x),
        Ct::NStruct(_, x) | Ct::NVar(_, _, _, x) => faithful(x),
        Ct::Seq(xs) | Ct::Tuple(xs) | Ct::TStruct(_, xs) | Ct::TVar(_, _, _, xs) => xs.iter().all(faithful),
        Ct::Map(kvs) => {
            let keys: Vec<&Ct> = kvs.iter().step_by(2).collect();
            keys.iter().all(|k| matches!(k, Ct::Str(_)))
                && keys.windows(2).all(|w| match (w[0], w[1]) {
                    (Ct::Str(a), Ct::Str(b)) => a.as_bytes() < b.as_bytes(),
                    _ => false,
                })
                && kvs.iter().all(faithful)
        }
        Ct::Struct(_, fs) | Ct::SVar(_, _, _, fs) => fs.iter().all(|(_, x)| faithful(x)),
        _ => true,
    }
}

pub fn eval(ctx: &mut Ctx, op: &str, args: &[Sexp]) -> Option<String> {
    match op {
        "dynagree" => {
            let s = parse(args.first()?)?;
            let j = parse_json(args.get(1)?)?;
            let bytes = unhex(args.get(2)?.atom()?)?;
            let a = do_ser(&s, &j);
            let b = do_de(&s, &bytes);
            let class = if args.get(3).and_then(|x| x.atom()) == Some("hr-divergent") { "finding:dyn-human-readable-type " } else { "" };
            // the op line was generated only for values whose JSON form is unambiguous
            if a != Ok(Ok(bytes.clone())) {
                ctx.oracle_fail(format!("{}dynamic encoding of the value's JSON gives {} instead of the static bytes", class, ser_str(&a)));
            }
            if b != Ok(Ok(j.clone())) {
                ctx.oracle_fail(format!("{}dynamic decoding of the static bytes gives {} instead of the value's JSON", class, de_str(&b)));
            }
            Some(format!("ser={} de={}", ser_str(&a), de_str(&b)))
        }
        "dynser" => {
            let s = parse(args.first()?)?;
            let j = parse_json(args.get(1)?)?;
            let a = do_ser(&s, &j);
            if a.is_err() {
                ctx.oracle_fail("dynamic encoding panicked".into());
            }
            if let Ok(Ok(bytes)) = &a {
                // whatever encoding accepts, decoding succeeds and re-encodes to the same bytes
                let back = do_de(&s, bytes);
                let again = match &back {
                    Ok(Ok(j2)) => Some(do_ser(&s, j2)),
                    _ => None,
                };
                if again != Some(Ok(Ok(bytes.clone()))) {
                    let what = format!("accepted JSON encodes to {} but decoding gives {} and re-encoding {}", hex(bytes), de_str(&back), again.map(|r| ser_str(&r)).unwrap_or("-".into()));
                    if has_option_null_hazard(&s) {
                        ctx.oracle_fail(format!("finding:dyn-option-null-hazard {}", what));
                    } else if has_dup_names(&s) {
                        ctx.oracle_fail(format!("finding:dyn-duplicate-names {}", what));
                    } else {
                        ctx.oracle_fail(what);
                    }
                }
            }
            Some(ser_str(&a))
        }
        "dynde" => {
            let s = parse(args.first()?)?;
            let bytes = unhex(args.get(1)?.atom()?)?;
            ALLOC_LIMIT.store(ALLOCATED.load(Ordering::Relaxed) + (3usize << 30), Ordering::Relaxed);
            let before = ALLOCATED.load(Ordering::Relaxed);
            let b = do_de(&s, &bytes);
            let used = ALLOCATED.load(Ordering::Relaxed) - before;
            ALLOC_LIMIT.store(usize::MAX, Ordering::Relaxed);
            if b.is_err() {
                ctx.oracle_fail("dynamic decoding panicked".into());
            }
            // a serde_json::Value is 32 bytes; Vec growth doubles; strings/keys copy input bytes; every struct /
            // variant level of the SCHEMA costs one map node and its field names whatever the input holds:
            // a constant that depends on the schema only, plus a constant multiple of the input length
            // (the enum arms also CLONE the variant's sub-schema before recursing: for nested enums that is
            // quadratic in the schema size — still a constant of the schema, independent of the input)
            let sw = schema_weight(&s);
            // and they do so once per decoded enum value, each of which consumes at least its index byte: the
            // factor in front of the input length depends on the schema as well
            if used > 4096 + 512 * bytes.len() + (bytes.len() + 1) * 128 * sw + 768 * sw + 64 * sw * sw {
                let what = format!("decoding {} input bytes allocated {} bytes", bytes.len(), used);
                if has_zero_width_seq(&s) {
                    ctx.oracle_fail(format!("finding:dyn-seq-zero-width-alloc {}", what));
                } else {
                    ctx.oracle_fail(what);
                }
            }
            Some(format!("{} used={} sw={}", de_str(&b), used, sw))
        }
        _ => None,
    }
}

// ------------------------------------------------------------------ generators
pub fn agree_lines<T: Schema + Serialize + Samples>(r: &mut Rng, nrand: usize, out: &mut Vec<String>) {
    let schema = O::from(T::SCHEMA);
    let mut vals = T::candidates();
    if !vals.is_empty() {
        for _ in 0..nrand {
            vals.push(T::rand(r));
        }
    }
    for v in &vals {
        let ct = match record(v) {
            Ok(c) => c,
            Err(_) => continue,
        };
        if !faithful(&ct) || !string_keyed(&schema) {
            continue;
        }
        // a type whose Serialize branches on is_human_readable() (uuid) shows serde_json a different
        // call tree than postcard: classified, so that the oracle can name the known finding
        let hr_divergent = record_hr(v).map(|c| c != ct).unwrap_or(true);
        let (j, bytes) = match (serde_json::to_value(v), postcard::to_allocvec(v)) {
            (Ok(j), Ok(b)) => (j, b),
            _ => continue,
        };
        if bytes.len() > 2000 {
            continue;
        }
        out.push(format!("dynagree {} {} {}{}", show(&schema), show_json(&j), hex(&bytes), if hr_divergent { " hr-divergent" } else { "" }));
    }
}

pub fn gen_json(r: &mut Rng, depth: u32) -> Value {
    match r.below(if depth == 0 { 7 } else { 10 }) {
        0 => Value::Null,
        1 => Value::Bool(r.chance(1, 2)),
        2 => Value::Number(Number::from(crate::gen::gen_u(r, 64) as u64)),
        3 => Value::Number(Number::from(crate::gen::gen_i(r, 64) as i64)),
        4 => Number::from_f64(f64::from_bits(r.next())).map(Value::Number).unwrap_or(Value::Null),
        5 => Value::String(crate::gen::gen_string(r, false)),
        6 => Value::Number(Number::from(r.below(300))),
        7 | 8 => Value::Array((0..r.below(4)).map(|_| gen_json(r, depth - 1)).collect()),
        _ => {
            let mut m = Map::new();
            for _ in 0..r.below(4) {
                m.insert(crate::schema::gen_name(r), gen_json(r, depth - 1));
            }
            Value::Object(m)
        }
    }
}

/// a JSON value of the right shape for the schema (type-correct), with occasional near misses
thread_local! {
    static FORCE_VARIANT: std::cell::Cell<Option<usize>> = const { std::cell::Cell::new(None) };
    /// deep chains: exactly one element per sequence / map level (a random fan-out would be exponential)
    static SINGLETONS: std::cell::Cell<bool> = const { std::cell::Cell::new(false) };
}

pub fn gen_json_for(r: &mut Rng, s: &O, miss: bool) -> Value {
    if miss && r.chance(1, 12) {
        return gen_json(r, 1);
    }
    fn data(r: &mut Rng, d: &OwnedData, miss: bool) -> Value {
        match d {
            OwnedData::Unit => Value::Null,
            OwnedData::Newtype(t) => gen_json_for(r, t, miss),
            OwnedData::Tuple(ts) => Value::Array(ts.iter().map(|t| gen_json_for(r, t, miss)).collect()),
            OwnedData::Struct(fs) => Value::Object(fs.iter().map(|f| (f.name.to_string(), gen_json_for(r, &f.ty, miss))).collect()),
        }
    }
    let int = |r: &mut Rng, w: u8, signed: bool| -> Value {
        if signed {
            let x = crate::gen::gen_i(r, w.min(64));
            Value::Number(Number::from(x as i64))
        } else {
            Value::Number(Number::from(crate::gen::gen_u(r, w.min(64)) as u64))
        }
    };
    match s {
        O::Bool => Value::Bool(r.chance(1, 2)),
        O::I8 => int(r, 8, true), O::I16 => int(r, 16, true), O::I32 => int(r, 32, true), O::I64 | O::Isize => int(r, 64, true),
        O::I128 => if r.chance(1, 3) { Value::Number(Number::from(r.next() | (1 << 63))) } else { int(r, 64, true) },
        O::U8 => int(r, 8, false), O::U16 => int(r, 16, false), O::U32 => int(r, 32, false), O::U64 | O::Usize | O::U128 => int(r, 64, false),
        O::F32 => {
            // the last f64 that still rounds to f32::MAX, the first that rounds to infinity, and their neighbours
            let edge = f64::from_bits(0x47EF_FFFF_F000_0000); // 2^128 - 2^103
            let choices = [f64::from(f32::from_bits(r.next() as u32 & 0x7f7f_ffff)), 1e300, -1e39, 0.1, f64::from(f32::MAX), 3.5e38,
                edge, -edge, f64::from_bits(edge.to_bits() - 1), f64::from_bits(edge.to_bits() + 1), f64::from_bits(0x47F0_0000_0000_0000), f64::from_bits(0x47EF_FFFF_FFFF_FFFF),
                f64::from(f32::MIN_POSITIVE) / 2.0, f64::from_bits(1), 1.0e-46, -0.0];
            Number::from_f64(*r.pick(&choices)).map(Value::Number).unwrap_or(Value::Null)
        }
        O::F64 => Number::from_f64(f64::from_bits(r.next())).map(Value::Number).unwrap_or(Value::Number(Number::from(0))),
        O::Char => Value::String(if r.chance(1, 6) { crate::gen::gen_string(r, false) } else { crate::gen::gen_char(r).to_string() }),
        O::String => Value::String(crate::gen::gen_string(r, false)),
        O::ByteArray => Value::Array((0..r.below(5)).map(|_| Value::Number(Number::from(r.below(if miss { 300 } else { 256 })))).collect()),
        O::Option(t) => if r.chance(1, 3) { Value::Null } else { gen_json_for(r, t, miss) },
        O::Unit => Value::Null,
        O::Seq(t) => {
            let n = if SINGLETONS.with(|c| c.get()) { 1 } else { r.below(4) };
            Value::Array((0..n).map(|_| gen_json_for(r, t, miss)).collect())
        }
        O::Tuple(ts) => Value::Array(ts.iter().map(|t| gen_json_for(r, t, miss)).collect()),
        O::Map { val, .. } => {
            let mut m = Map::new();
            let n = if SINGLETONS.with(|c| c.get()) { 1 } else { r.below(4) };
            for _ in 0..n {
                m.insert(crate::schema::gen_name(r), gen_json_for(r, val, miss));
            }
            Value::Object(m)
        }
        O::Struct { data: d, .. } => data(r, d, miss),
        O::Enum { variants, .. } => {
            if variants.is_empty() {
                return Value::Null;
            }
            // FORCE_VARIANT (set by the generator for wide enums) picks the variant instead of the PRNG
            let forced = FORCE_VARIANT.with(|c| c.take());
            let v = &variants[forced.filter(|i| *i < variants.len()).unwrap_or_else(|| r.below(variants.len() as u64) as usize)];
            match &v.data {
                OwnedData::Unit => Value::String(v.name.to_string()),
                d => {
                    let mut m = Map::new();
                    m.insert(v.name.to_string(), data(r, d, miss));
                    Value::Object(m)
                }
            }
        }
        O::Schema => serde_json::to_value(gen_schema(r, 2, 2)).unwrap_or(Value::Null),
    }
}

/// one structural near-miss somewhere in the tree: array arity, object keys (renamed / missing / extra),
/// enum forms (object form of a unit variant, string form of a data variant, unknown variant)
pub fn perturb(r: &mut Rng, j: &mut Value) {
    // descend with probability 1/2 while there is somewhere to go
    match j {
        Value::Array(xs) if !xs.is_empty() && r.chance(1, 2) => {
            let k = r.below(xs.len() as u64) as usize;
            return perturb(r, &mut xs[k]);
        }
        Value::Object(m) if !m.is_empty() && r.chance(1, 2) => {
            let k = r.below(m.len() as u64) as usize;
            let key = m.keys().nth(k).cloned().unwrap();
            return perturb(r, m.get_mut(&key).unwrap());
        }
        _ => {}
    }
    match j {
        Value::Array(xs) => {
            if r.chance(1, 2) || xs.is_empty() {
                xs.push(Value::Null);
            } else {
                xs.pop();
            }
        }
        Value::Object(m) => match r.below(4) {
            0 if !m.is_empty() => {
                // same number of keys, one of them renamed
                let k = r.below(m.len() as u64) as usize;
                let key = m.keys().nth(k).cloned().unwrap();
                let v = m.remove(&key).unwrap();
                m.insert(format!("{}x", key), v);
            }
            1 if !m.is_empty() => {
                let k = r.below(m.len() as u64) as usize;
                let key = m.keys().nth(k).cloned().unwrap();
                m.remove(&key);
            }
            2 => {
                m.insert("extra".into(), Value::Null);
            }
            _ => {
                // an enum object collapsed to the string form of its variant
                if let Some(k) = m.keys().next().cloned() {
                    *j = Value::String(k);
                }
            }
        },
        Value::String(sv) => {
            if r.chance(1, 2) {
                // a unit variant written in object form / a string wrapped in an object
                let mut m = Map::new();
                m.insert(sv.clone(), if r.chance(1, 2) { Value::Null } else { Value::Array(vec![]) });
                *j = Value::Object(m);
            } else {
                sv.push('?');
            }
        }
        Value::Null => *j = Value::Array(vec![]),
        Value::Bool(_) => *j = Value::Number(Number::from(1)),
        Value::Number(_) => *j = Value::String("7".into()),
    }
}

pub fn gen_c17(r: &mut Rng, thorough: bool, out: &mut Vec<String>) {
    crate::ops_c14::for_each_corpus_type(r, if thorough { 40 } else { 5 }, out, true);
}

pub fn gen_c18(r: &mut Rng, thorough: bool, out: &mut Vec<String>) {
    let n = if thorough { 30_000 } else { 2_500 };
    let mut schemas: Vec<O> = crate::schema::all_kinds();
    schemas.push(O::Seq(Box::new(O::Unit)));
    schemas.push(O::Option(Box::new(O::Unit)));
    schemas.push(O::Option(Box::new(O::Option(Box::new(O::U8)))));
    schemas.push(O::Map { key: Box::new(O::U8), val: Box::new(O::Bool) });
    schemas.push(O::Tuple(vec![O::Tuple(vec![].into()), O::U8].into()));
    // "twin" enums: DIFFERENT enums that share a name and an arity (derive(Schema) names a type by its identifier
    // only: motor::State / heater::State), the same variant names in another order or with other payloads, all
    // reached by one value - anything keyed by (name, arity) instead of the schema node confuses them
    {
        use postcard_schema::schema::owned::{OwnedData as D, OwnedVariant as NV};
        let var = |n: &str, d: D| NV { name: n.into(), data: d };
        let e1 = O::Enum { name: "State".into(), variants: vec![var("On", D::Unit), var("Off", D::Newtype(Box::new(O::U8)))].into() };
        let e2 = O::Enum { name: "State".into(), variants: vec![var("Off", D::Newtype(Box::new(O::U8))), var("On", D::Unit)].into() };
        let e3 = O::Enum { name: "State".into(), variants: vec![var("Idle", D::Newtype(Box::new(O::U16))), var("On", D::Unit)].into() };
        for (a, b) in [(&e1, &e2), (&e2, &e1), (&e1, &e3), (&e3, &e2)] {
            schemas.push(O::Tuple(vec![a.clone(), b.clone()].into()));
            schemas.push(O::Tuple(vec![O::Option(Box::new(a.clone())), b.clone(), a.clone()].into()));
            schemas.push(O::Seq(Box::new(O::Tuple(vec![b.clone(), a.clone()].into()))));
        }
    }
    for i in 0..n {
        let s = if i < schemas.len() * 8 { schemas[i % schemas.len()].clone() } else { gen_schema(r, 1 + (i % 4) as u32, 1 + (i % 4) as u64) };
        // JSON side: type-correct, near-miss and unrelated values
        let j = match i % 4 {
            0 | 1 => gen_json_for(r, &s, false),
            2 => {
                let mut j = gen_json_for(r, &s, i % 8 == 2);
                if i % 16 != 2 {
                    perturb(r, &mut j);
                }
                j
            }
            _ => gen_json(r, 2),
        };
        out.push(format!("dynser {} {}", show(&s), show_json(&j)));
        // byte side: valid encodings (when available), mutations, random, adversarial lengths
        let valid = to_stdvec_dyn(&s, &gen_json_for(r, &s, false)).ok();
        if let Some(b) = &valid {
            out.push(format!("dynde {} {}", show(&s), hex(b)));
            if !b.is_empty() {
                let k = r.below(b.len() as u64) as usize;
                out.push(format!("dynde {} {}", show(&s), hex(&b[..k])));
                let mut c = b.clone();
                c[k] = r.next() as u8;
                // a corrupted length in front of zero-width elements costs time by construction: keep claims small
                if !(has_zero_width_seq(&s) && c.iter().any(|x| *x >= 0x80)) {
                    out.push(format!("dynde {} {}", show(&s), hex(&c)));
                }
            }
        }
        if !has_zero_width_seq(&s) {
            let rn = r.range(0, 12) as usize;
            out.push(format!("dynde {} {}", show(&s), hex(&r.bytes(rn))));
            let mut big = vec![0xFF, 0xFF, 0xFF, 0xFF, 0xFF, 0xFF, 0xFF, 0xFF, 0xFF, 0x01];
            big.extend(r.bytes(3));
            out.push(format!("dynde {} {}", show(&s), hex(&big)));
        }
    }
    // schemas at scale: deep chains, wide tuples / structs, enums with hundreds of variants (every variant
    // index around 127/128 and 255/256 and the last), long sequences with many nulls
    let mut scaled = crate::schema::scale_schemas(r, if thorough { 300 } else { 257 }, if thorough { 513 } else { 300 });
    scaled.push(O::Seq(Box::new(O::Option(Box::new(O::U8)))));
    scaled.push(O::Seq(Box::new(O::Option(Box::new(O::String)))));
    for s in scaled {
        let mut picks: Vec<Option<usize>> = vec![None];
        if let O::Enum { variants, .. } = &s {
            let n = variants.len();
            picks = [0usize, 1, 126, 127, 128, 129, 130, 254, 255, 256, 257, n.saturating_sub(2), n.saturating_sub(1)].iter().filter(|i| **i < n).map(|i| Some(*i)).collect();
        }
        for pick in picks {
            FORCE_VARIANT.with(|c| c.set(pick));
            SINGLETONS.with(|c| c.set(true));
            let mut j = gen_json_for(r, &s, false);
            SINGLETONS.with(|c| c.set(false));
            FORCE_VARIANT.with(|c| c.set(None));
            if let (O::Seq(_), Value::Array(xs)) = (&s, &mut j) {
                // long sequences, half of the elements null
                let n = *r.pick(&[127usize, 128, 129, 255, 256, 300, 1025]);
                let proto = if xs.is_empty() { Value::Null } else { xs[0].clone() };
                *xs = (0..n).map(|i| if i % 2 == 0 { Value::Null } else { proto.clone() }).collect();
            }
            out.push(format!("dynser {} {}", show(&s), show_json(&j)));
            if let Ok(b) = to_stdvec_dyn(&s, &j) {
                out.push(format!("dynde {} {}", show(&s), hex(&b)));
                if !b.is_empty() && !has_zero_width_seq(&s) {
                    out.push(format!("dynde {} {}", show(&s), hex(&b[..b.len() - 1])));
                }
            }
        }
    }
    // the zero-width-element allocation finding, probed explicitly with a modest claim (2^16 elements from 3 bytes)
    out.push("dynde (seq unit) x808004".into());
    out.push("dynde (seq (tuple)) x808004".into());
}
