//! Runtime observation support for C04/C05/C07 (NOT a proof technique): inputs
//! placed flush against inaccessible pages, a SIGSEGV handler that attributes a
//! fault to the op line being evaluated, and a counting global allocator.
use std::alloc::{GlobalAlloc, Layout, System};
use std::sync::atomic::{AtomicUsize, Ordering};

pub static CUR_LINE: AtomicUsize = AtomicUsize::new(0);
pub static ALLOCATED: AtomicUsize = AtomicUsize::new(0);
pub static ALLOC_LIMIT: AtomicUsize = AtomicUsize::new(usize::MAX);

pub struct Counting;
unsafe impl GlobalAlloc for Counting {
    unsafe fn alloc(&self, l: Layout) -> *mut u8 {
        let total = ALLOCATED.fetch_add(l.size(), Ordering::Relaxed) + l.size();
        if total > ALLOC_LIMIT.load(Ordering::Relaxed) {
            // refuse: the caller (Vec::with_capacity etc.) aborts via handle_alloc_error;
            // we turn that into an attributed exit instead of letting the machine swap
            alloc_limit_hit();
        }
        System.alloc(l)
    }
    unsafe fn dealloc(&self, p: *mut u8, l: Layout) {
        System.dealloc(p, l)
    }
    unsafe fn realloc(&self, p: *mut u8, l: Layout, new: usize) -> *mut u8 {
        if new > l.size() {
            ALLOCATED.fetch_add(new - l.size(), Ordering::Relaxed);
        }
        System.realloc(p, l, new)
    }
}

extern "C" {
    fn mmap(addr: *mut u8, len: usize, prot: i32, flags: i32, fd: i32, off: i64) -> *mut u8;
    fn mprotect(addr: *mut u8, len: usize, prot: i32) -> i32;
    fn munmap(addr: *mut u8, len: usize) -> i32;
    fn signal(sig: i32, handler: usize) -> usize;
    fn write(fd: i32, buf: *const u8, n: usize) -> isize;
    fn _exit(code: i32) -> !;
}
const PAGE: usize = 4096;

fn emit_num(prefix: &[u8], n: usize) {
    let mut buf = [0u8; 96];
    let mut k = 0;
    for b in prefix {
        buf[k] = *b;
        k += 1;
    }
    let mut digits = [0u8; 24];
    let mut d = 0;
    let mut m = n;
    loop {
        digits[d] = b'0' + (m % 10) as u8;
        d += 1;
        m /= 10;
        if m == 0 {
            break;
        }
    }
    while d > 0 {
        d -= 1;
        buf[k] = digits[d];
        k += 1;
    }
    buf[k] = b'\n';
    unsafe {
        write(2, buf.as_ptr(), k + 1);
    }
}

extern "C" fn on_fault(_sig: i32) {
    emit_num(b"FATAL-SIGNAL out-of-bounds memory access while evaluating op line ", CUR_LINE.load(Ordering::Relaxed));
    unsafe { _exit(139) }
}

fn alloc_limit_hit() -> ! {
    emit_num(b"FATAL-ALLOC allocation limit exceeded while evaluating op line ", CUR_LINE.load(Ordering::Relaxed));
    unsafe { _exit(140) }
}

#[repr(C)]
struct StackT {
    ss_sp: *mut u8,
    ss_flags: i32,
    ss_size: usize,
}
#[repr(C)]
struct SigAction {
    sa_handler: usize,
    sa_mask: [u64; 16],
    sa_flags: i32,
    sa_restorer: usize,
}
extern "C" {
    fn sigaltstack(ss: *const StackT, old: *mut StackT) -> i32;
    fn sigaction(sig: i32, act: *const SigAction, old: *mut SigAction) -> i32;
}
const SA_ONSTACK: i32 = 0x0800_0000;

/// SIGSEGV / SIGBUS handlers running on an alternate stack of the CALLING thread, so that a stack
/// overflow (deeply nested values) is attributed to its op line like any other fault.
pub fn install_handlers() {
    unsafe {
        let size = 1 << 16;
        let sp = Box::leak(vec![0u8; size].into_boxed_slice()).as_mut_ptr();
        let ss = StackT { ss_sp: sp, ss_flags: 0, ss_size: size };
        sigaltstack(&ss, std::ptr::null_mut());
        for sig in [11, 7] {
            let act = SigAction { sa_handler: on_fault as usize, sa_mask: [0; 16], sa_flags: SA_ONSTACK, sa_restorer: 0 };
            if sigaction(sig, &act, std::ptr::null_mut()) != 0 {
                signal(sig, on_fault as usize);
            }
        }
    }
}

/// `data` copied into fresh pages so that it ends (flush_right) or starts exactly at an
/// inaccessible page.
pub struct Pages {
    base: *mut u8,
    total: usize,
    off: usize,
    len: usize,
}
impl Pages {
    pub fn new(data: &[u8], flush_right: bool) -> Pages {
        let body = (data.len() + PAGE - 1) / PAGE * PAGE;
        let body = body.max(PAGE);
        let total = body + 2 * PAGE;
        unsafe {
            let base = mmap(std::ptr::null_mut(), total, 3, 0x22, -1, 0);
            assert!(!base.is_null() && base as isize != -1, "mmap failed");
            mprotect(base, PAGE, 0);
            mprotect(base.add(PAGE + body), PAGE, 0);
            let off = if flush_right { PAGE + body - data.len() } else { PAGE };
            std::ptr::copy_nonoverlapping(data.as_ptr(), base.add(off), data.len());
            Pages { base, total, off, len: data.len() }
        }
    }
    pub fn slice(&self) -> &[u8] {
        unsafe { std::slice::from_raw_parts(self.base.add(self.off), self.len) }
    }
    pub fn slice_mut(&mut self) -> &mut [u8] {
        unsafe { std::slice::from_raw_parts_mut(self.base.add(self.off), self.len) }
    }
}
/// a lazily mapped (never touched unless written) region of `len` bytes: stands in for a caller buffer of
/// several GiB without costing memory
pub struct Huge {
    base: *mut u8,
    len: usize,
}
impl Huge {
    pub fn new(len: usize) -> Option<Huge> {
        unsafe {
            // PROT_READ|PROT_WRITE, MAP_PRIVATE|MAP_ANONYMOUS|MAP_NORESERVE
            let base = mmap(std::ptr::null_mut(), len.max(PAGE), 3, 0x4022, -1, 0);
            if base.is_null() || base as isize == -1 {
                return None;
            }
            Some(Huge { base, len })
        }
    }
    pub fn slice_mut(&mut self) -> &mut [u8] {
        unsafe { std::slice::from_raw_parts_mut(self.base, self.len) }
    }
}
impl Drop for Huge {
    fn drop(&mut self) {
        unsafe {
            munmap(self.base, self.len.max(PAGE));
        }
    }
}
impl Drop for Pages {
    fn drop(&mut self) {
        unsafe {
            munmap(self.base, self.total);
        }
    }
}
