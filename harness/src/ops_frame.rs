//! Ops and generators for the framing / storage properties C05, C06, C07, C10, C20.
//!
//!   size <val>                                   C05: serialized_size
//!   sercap <framing> <storage> <cap> <val>       C05: fixed storage of capacity cap (plain | cobs | CRC alg name)
//!   cobsenc <storage> <cap> <hex>                C06: raw message through the public Flavor API of Cobs<storage>
//!   cobsval <ty> <val>                           C06: to_*_cobs of a value (all storages agree)
//!   cobsframes <ty> <hex>                        C06: frame-at-a-time decoding of a buffer of frames
//!   cobsde <ty> <hex>                            C07: from_bytes_cobs / take_from_bytes_cobs on arbitrary bytes
//!   crcraw <alg> <hex>                           C10: the crc crate itself vs the Rocksoft model
//!   crcser <alg> <val>   crcde <alg> <ty> <hex>  C10
//!   crcdex <alg> <ty> <paylen> <hex>             C10: corrupted frame; must not be accepted with the original payload length
use crate::core_ops::*;
use crate::dval::{has_ty, with_ty, DTy, DVal, DynVal};
use crate::gen::*;
use crate::prng::Rng;
use crate::sexp::{hex, unhex, Sexp};
use crate::Ctx;
use postcard::ser_flavors::{AllocVec, Cobs, Flavor, HVec, Slice};

pub const CANARY: u8 = 0x5C;
pub const FILL: u8 = 0xA5;
const PAD: usize = 32;

/// a buffer of `cap` bytes (filled with FILL) between two canary zones
pub struct Guarded {
    pub all: Vec<u8>,
    pub cap: usize,
    /// where the buffer starts inside `all`
    pub off: usize,
}
/// successive buffers start at successive addresses modulo 8: nothing may depend on the alignment of a
/// caller's byte slice
static ALIGN_ROT: std::sync::atomic::AtomicUsize = std::sync::atomic::AtomicUsize::new(0);
impl Guarded {
    pub fn new(cap: usize) -> Self {
        let mut all = vec![CANARY; cap + 2 * PAD + 8];
        let shift = ALIGN_ROT.fetch_add(1, std::sync::atomic::Ordering::Relaxed) % 8;
        let base = all.as_ptr() as usize + PAD;
        let off = PAD + (shift + 8 - base % 8) % 8;
        for b in &mut all[off..off + cap] {
            *b = FILL;
        }
        Guarded { all, cap, off }
    }
    pub fn with(data: &[u8]) -> Self {
        let mut g = Guarded::new(data.len());
        g.buf().copy_from_slice(data);
        g
    }
    pub fn buf(&mut self) -> &mut [u8] {
        let (o, c) = (self.off, self.cap);
        &mut self.all[o..o + c]
    }
    pub fn mem(&self) -> &[u8] {
        &self.all[self.off..self.off + self.cap]
    }
    pub fn intact(&self) -> bool {
        self.all[..self.off].iter().all(|b| *b == CANARY) && self.all[self.off + self.cap..].iter().all(|b| *b == CANARY)
    }
}

macro_rules! with_cap {
    ($cap:expr, $n:ident, $body:expr) => {{
        macro_rules! arm { ($v:literal) => {{ const $n: usize = $v; Some($body) }}; }
        match $cap {
            0 => arm!(0), 1 => arm!(1), 2 => arm!(2), 3 => arm!(3), 4 => arm!(4), 5 => arm!(5), 6 => arm!(6), 7 => arm!(7),
            8 => arm!(8), 9 => arm!(9), 10 => arm!(10), 11 => arm!(11), 12 => arm!(12), 13 => arm!(13), 14 => arm!(14),
            15 => arm!(15), 16 => arm!(16), 17 => arm!(17), 18 => arm!(18), 19 => arm!(19), 20 => arm!(20), 21 => arm!(21),
            22 => arm!(22), 23 => arm!(23), 24 => arm!(24), 25 => arm!(25), 26 => arm!(26), 27 => arm!(27), 28 => arm!(28),
            29 => arm!(29), 30 => arm!(30), 31 => arm!(31), 32 => arm!(32), 33 => arm!(33), 34 => arm!(34), 35 => arm!(35),
            36 => arm!(36), 40 => arm!(40), 48 => arm!(48), 63 => arm!(63), 64 => arm!(64), 65 => arm!(65), 127 => arm!(127),
            128 => arm!(128), 129 => arm!(129), 254 => arm!(254), 255 => arm!(255), 256 => arm!(256), 257 => arm!(257), 258 => arm!(258), 259 => arm!(259), 260 => arm!(260), 509 => arm!(509), 510 => arm!(510), 511 => arm!(511), 512 => arm!(512), 1024 => arm!(1024),
            4096 => arm!(4096),
            _ => None,
        }
    }};
}
pub const HCAPS: [usize; 59] = [
    0, 1, 2, 3, 4, 5, 6, 7, 8, 9, 10, 11, 12, 13, 14, 15, 16, 17, 18, 19, 20, 21, 22, 23, 24, 25, 26, 27, 28, 29, 30, 31, 32,
    33, 34, 35, 36, 40, 48, 63, 64, 65, 127, 128, 129, 254, 255, 256, 257, 258, 259, 260, 509, 510, 511, 512, 1024, 4096, 4096,
];

pub const ALGS: [&str; 10] = [
    "CRC_8_SMBUS", "CRC_8_MAXIM_DOW", "CRC_12_UMTS", "CRC_16_IBM_SDLC", "CRC_16_XMODEM", "CRC_32_ISO_HDLC", "CRC_32_BZIP2",
    "CRC_64_ECMA_182", "CRC_64_XZ", "CRC_82_DARC",
];

pub fn alg_refin(a: &str) -> bool {
    matches!(a, "CRC_8_MAXIM_DOW" | "CRC_16_IBM_SDLC" | "CRC_32_ISO_HDLC" | "CRC_64_XZ" | "CRC_82_DARC")
}

pub fn alg_nbytes(a: &str) -> usize {
    match a {
        "CRC_8_SMBUS" | "CRC_8_MAXIM_DOW" => 1,
        "CRC_12_UMTS" | "CRC_16_IBM_SDLC" | "CRC_16_XMODEM" => 2,
        "CRC_32_ISO_HDLC" | "CRC_32_BZIP2" => 4,
        "CRC_64_ECMA_182" | "CRC_64_XZ" => 8,
        _ => 16,
    }
}

/// run `$body` with `$crc` bound to a `crc::Crc<$ty>` for the named algorithm and
/// `$m` bound to the module-path suffix functions (by width)
macro_rules! with_alg {
    ($name:expr, $crc:ident, $w:ident, $body:expr) => {{
        macro_rules! go { ($ty:ty, $alg:expr, $width:ident) => {{ let $crc = crc::Crc::<$ty>::new(&$alg); #[allow(unused_macros)] macro_rules! $w { () => { $width } } Some($body) }}; }
        match $name {
            "CRC_8_SMBUS" => go!(u8, crc::CRC_8_SMBUS, u8),
            "CRC_8_MAXIM_DOW" => go!(u8, crc::CRC_8_MAXIM_DOW, u8),
            "CRC_12_UMTS" => go!(u16, crc::CRC_12_UMTS, u16),
            "CRC_16_IBM_SDLC" => go!(u16, crc::CRC_16_IBM_SDLC, u16),
            "CRC_16_XMODEM" => go!(u16, crc::CRC_16_XMODEM, u16),
            "CRC_32_ISO_HDLC" => go!(u32, crc::CRC_32_ISO_HDLC, u32),
            "CRC_32_BZIP2" => go!(u32, crc::CRC_32_BZIP2, u32),
            "CRC_64_ECMA_182" => go!(u64, crc::CRC_64_ECMA_182, u64),
            "CRC_64_XZ" => go!(u64, crc::CRC_64_XZ, u64),
            "CRC_82_DARC" => go!(u128, crc::CRC_82_DARC, u128),
            _ => None,
        }
    }};
}

type SerRes = Result<Vec<u8>, &'static str>;

fn crc32_alg(alg: &str) -> Option<&'static crc::Algorithm<u32>> {
    match alg {
        "CRC_32_ISO_HDLC" => Some(&crc::CRC_32_ISO_HDLC),
        "CRC_32_BZIP2" => Some(&crc::CRC_32_BZIP2),
        _ => None,
    }
}

fn crc_allocvec(alg: &str, v: &DVal) -> Option<SerRes> {
    use postcard::ser_flavors::crc as c;
    // a value that may be serialised only once: an entry point must run its Serialize impl exactly once
    let once = crate::dval::Once::new(v);
    let v = &once;
    macro_rules! f { (u8) => { c::to_allocvec_u8 }; (u16) => { c::to_allocvec_u16 }; (u32) => { c::to_allocvec_u32 }; (u64) => { c::to_allocvec_u64 }; (u128) => { c::to_allocvec_u128 }; }
    match alg {
        "CRC_8_SMBUS" => Some(f!(u8)(v, crc::Crc::<u8>::new(&crc::CRC_8_SMBUS).digest()).map_err(|e| err_name(&e))),
        "CRC_8_MAXIM_DOW" => Some(f!(u8)(v, crc::Crc::<u8>::new(&crc::CRC_8_MAXIM_DOW).digest()).map_err(|e| err_name(&e))),
        "CRC_12_UMTS" => Some(f!(u16)(v, crc::Crc::<u16>::new(&crc::CRC_12_UMTS).digest()).map_err(|e| err_name(&e))),
        "CRC_16_IBM_SDLC" => Some(f!(u16)(v, crc::Crc::<u16>::new(&crc::CRC_16_IBM_SDLC).digest()).map_err(|e| err_name(&e))),
        "CRC_16_XMODEM" => Some(f!(u16)(v, crc::Crc::<u16>::new(&crc::CRC_16_XMODEM).digest()).map_err(|e| err_name(&e))),
        "CRC_32_ISO_HDLC" => Some(f!(u32)(v, crc::Crc::<u32>::new(&crc::CRC_32_ISO_HDLC).digest()).map_err(|e| err_name(&e))),
        "CRC_32_BZIP2" => Some(f!(u32)(v, crc::Crc::<u32>::new(&crc::CRC_32_BZIP2).digest()).map_err(|e| err_name(&e))),
        "CRC_64_ECMA_182" => Some(f!(u64)(v, crc::Crc::<u64>::new(&crc::CRC_64_ECMA_182).digest()).map_err(|e| err_name(&e))),
        "CRC_64_XZ" => Some(f!(u64)(v, crc::Crc::<u64>::new(&crc::CRC_64_XZ).digest()).map_err(|e| err_name(&e))),
        "CRC_82_DARC" => Some(f!(u128)(v, crc::Crc::<u128>::new(&crc::CRC_82_DARC).digest()).map_err(|e| err_name(&e))),
        _ => None,
    }
}

fn crc_slice(alg: &str, v: &DVal, buf: &mut [u8]) -> Option<SerRes> {
    use postcard::ser_flavors::crc as c;
    macro_rules! run { ($f:path, $ty:ty, $a:expr) => { Some($f(v, buf, crc::Crc::<$ty>::new(&$a).digest()).map(|s| s.to_vec()).map_err(|e| err_name(&e))) }; }
    match alg {
        "CRC_8_SMBUS" => run!(c::to_slice_u8, u8, crc::CRC_8_SMBUS),
        "CRC_8_MAXIM_DOW" => run!(c::to_slice_u8, u8, crc::CRC_8_MAXIM_DOW),
        "CRC_12_UMTS" => run!(c::to_slice_u16, u16, crc::CRC_12_UMTS),
        "CRC_16_IBM_SDLC" => run!(c::to_slice_u16, u16, crc::CRC_16_IBM_SDLC),
        "CRC_16_XMODEM" => run!(c::to_slice_u16, u16, crc::CRC_16_XMODEM),
        "CRC_32_ISO_HDLC" => run!(c::to_slice_u32, u32, crc::CRC_32_ISO_HDLC),
        "CRC_32_BZIP2" => run!(c::to_slice_u32, u32, crc::CRC_32_BZIP2),
        "CRC_64_ECMA_182" => run!(c::to_slice_u64, u64, crc::CRC_64_ECMA_182),
        "CRC_64_XZ" => run!(c::to_slice_u64, u64, crc::CRC_64_XZ),
        "CRC_82_DARC" => run!(c::to_slice_u128, u128, crc::CRC_82_DARC),
        _ => None,
    }
}

fn crc_hvec(alg: &str, v: &DVal, cap: usize) -> Option<SerRes> {
    use postcard::ser_flavors::crc as c;
    macro_rules! run { ($f:ident, $ty:ty, $a:expr) => { with_cap!(cap, N, c::$f::<_, N>(v, crc::Crc::<$ty>::new(&$a).digest()).map(|s| s.to_vec()).map_err(|e| err_name(&e))) }; }
    match alg {
        "CRC_8_SMBUS" => run!(to_vec_u8, u8, crc::CRC_8_SMBUS),
        "CRC_16_XMODEM" => run!(to_vec_u16, u16, crc::CRC_16_XMODEM),
        "CRC_32_ISO_HDLC" => run!(to_vec_u32, u32, crc::CRC_32_ISO_HDLC),
        "CRC_64_XZ" => run!(to_vec_u64, u64, crc::CRC_64_XZ),
        "CRC_82_DARC" => run!(to_vec_u128, u128, crc::CRC_82_DARC),
        _ => None,
    }
}
pub const HVEC_ALGS: [&str; 5] = ["CRC_8_SMBUS", "CRC_16_XMODEM", "CRC_32_ISO_HDLC", "CRC_64_XZ", "CRC_82_DARC"];

fn crc_take(alg: &str, t: &DTy, bytes: &[u8]) -> Option<DeRes> {
    use postcard::de_flavors::crc as c;
    macro_rules! run { ($f:ident, $ty:ty, $a:expr) => {{ let k = crc::Crc::<$ty>::new(&$a); Some(with_ty(t, || c::$f::<DynVal>(bytes, k.digest()).map(|(v, r)| (v.0, r.to_vec())).map_err(|e| err_name(&e)))) }}; }
    match alg {
        "CRC_8_SMBUS" => run!(take_from_bytes_u8, u8, crc::CRC_8_SMBUS),
        "CRC_8_MAXIM_DOW" => run!(take_from_bytes_u8, u8, crc::CRC_8_MAXIM_DOW),
        "CRC_12_UMTS" => run!(take_from_bytes_u16, u16, crc::CRC_12_UMTS),
        "CRC_16_IBM_SDLC" => run!(take_from_bytes_u16, u16, crc::CRC_16_IBM_SDLC),
        "CRC_16_XMODEM" => run!(take_from_bytes_u16, u16, crc::CRC_16_XMODEM),
        "CRC_32_ISO_HDLC" => run!(take_from_bytes_u32, u32, crc::CRC_32_ISO_HDLC),
        "CRC_32_BZIP2" => run!(take_from_bytes_u32, u32, crc::CRC_32_BZIP2),
        "CRC_64_ECMA_182" => run!(take_from_bytes_u64, u64, crc::CRC_64_ECMA_182),
        "CRC_64_XZ" => run!(take_from_bytes_u64, u64, crc::CRC_64_XZ),
        "CRC_82_DARC" => run!(take_from_bytes_u128, u128, crc::CRC_82_DARC),
        _ => None,
    }
}

fn crc_from(alg: &str, t: &DTy, bytes: &[u8]) -> Option<Result<DVal, &'static str>> {
    use postcard::de_flavors::crc as c;
    macro_rules! run { ($f:ident, $ty:ty, $a:expr) => {{ let k = crc::Crc::<$ty>::new(&$a); Some(with_ty(t, || c::$f::<DynVal>(bytes, k.digest()).map(|v| v.0).map_err(|e| err_name(&e)))) }}; }
    match alg {
        "CRC_8_SMBUS" => run!(from_bytes_u8, u8, crc::CRC_8_SMBUS),
        "CRC_8_MAXIM_DOW" => run!(from_bytes_u8, u8, crc::CRC_8_MAXIM_DOW),
        "CRC_12_UMTS" => run!(from_bytes_u16, u16, crc::CRC_12_UMTS),
        "CRC_16_IBM_SDLC" => run!(from_bytes_u16, u16, crc::CRC_16_IBM_SDLC),
        "CRC_16_XMODEM" => run!(from_bytes_u16, u16, crc::CRC_16_XMODEM),
        "CRC_32_ISO_HDLC" => run!(from_bytes_u32, u32, crc::CRC_32_ISO_HDLC),
        "CRC_32_BZIP2" => run!(from_bytes_u32, u32, crc::CRC_32_BZIP2),
        "CRC_64_ECMA_182" => run!(from_bytes_u64, u64, crc::CRC_64_ECMA_182),
        "CRC_64_XZ" => run!(from_bytes_u64, u64, crc::CRC_64_XZ),
        "CRC_82_DARC" => run!(from_bytes_u128, u128, crc::CRC_82_DARC),
        _ => None,
    }
}

/// CRC-checked decoding through a hand-built stack `CrcModifier<IOReader>` (the modifier is generic over its inner
/// flavour): `Deserializer::from_flavor`, `T::deserialize`, `finalize`. `scratch` bytes of scratch buffer.
fn crc_from_reader(alg: &str, t: &DTy, bytes: &[u8], scratch: usize) -> Option<Result<DVal, &'static str>> {
    use postcard::de_flavors::crc::CrcModifier;
    use postcard::de_flavors::io::io::IOReader;
    macro_rules! run { ($ty:ty, $a:expr) => {{
        let k = crc::Crc::<$ty>::new(&$a);
        let mut buf = vec![0u8; scratch];
        let flav = CrcModifier::new(IOReader::new(bytes, &mut buf[..]), k.digest());
        let mut de = postcard::Deserializer::from_flavor(flav);
        let r = with_ty(t, || <DynVal as serde::Deserialize>::deserialize(&mut de));
        Some(match r {
            Err(e) => Err(err_name(&e)),
            Ok(v) => match de.finalize() {
                Ok(_) => Ok(v.0),
                Err(e) => Err(err_name(&e)),
            },
        })
    }}; }
    match alg {
        "CRC_8_SMBUS" => run!(u8, crc::CRC_8_SMBUS),
        "CRC_12_UMTS" => run!(u16, crc::CRC_12_UMTS),
        "CRC_16_XMODEM" => run!(u16, crc::CRC_16_XMODEM),
        "CRC_16_IBM_SDLC" => run!(u16, crc::CRC_16_IBM_SDLC),
        "CRC_32_ISO_HDLC" => run!(u32, crc::CRC_32_ISO_HDLC),
        "CRC_32_BZIP2" => run!(u32, crc::CRC_32_BZIP2),
        "CRC_64_XZ" => run!(u64, crc::CRC_64_XZ),
        "CRC_64_ECMA_182" => run!(u64, crc::CRC_64_ECMA_182),
        "CRC_82_DARC" => run!(u128, crc::CRC_82_DARC),
        _ => None,
    }
}

fn crc_raw(alg: &str, m: &[u8]) -> Option<Vec<u8>> {
    with_alg!(alg, k, W, k.checksum(m).to_le_bytes().to_vec())
}

/// the complete (unbounded) output for a framing, via the growable storage
fn unbounded(framing: &str, v: &DVal) -> Option<SerRes> {
    match framing {
        "plain" => Some(postcard::to_allocvec(v).map_err(|e| err_name(&e))),
        "cobs" => Some(postcard::to_allocvec_cobs(v).map_err(|e| err_name(&e))),
        a => crc_allocvec(a, v),
    }
}

/// `flavseq`: an arbitrary sequence of try_push / try_extend calls on one flavour object, CONTINUING after a
/// call has failed, then finalize. Returns the answer prefix (compared with the model up to the first error),
/// whether a call failed, and what finalize gave.
fn drive_steps<F: Flavor>(mut f: F, steps: &[(bool, Vec<u8>)], fin_after_err: bool) -> (String, bool, Result<Vec<u8>, &'static str>)
where
    F::Output: AsRef<[u8]>,
{
    let mut s = String::from("ok");
    let mut failed = false;
    for (is_push, d) in steps {
        let r = if *is_push { f.try_push(d[0]) } else { f.try_extend(d) };
        if r.is_ok() {
            s.push_str(" s:ok");
        } else {
            // a caller that drives Serializer { output } by hand sees the error and then calls finalize (to get
            // its buffer back / to report how far it got): no further pushes, but finalize must not panic
            s.push_str(" s:err posterr");
            failed = true;
            break;
        }
    }
    if failed && !fin_after_err {
        // Cobs<B>::finalize after a failed push indexes its placeholder, which may never have been written: on the
        // UNCHANGED tree that panics. What a flavour does after it has reported an error is outside C05's
        // statement (DESIGN 8), so it is only observed where the unchanged code is well-behaved (plain storages)
        return (s, failed, Err("not-finalized"));
    }
    let fin = f.finalize().map(|o| o.as_ref().to_vec()).map_err(|e| err_name(&e));
    (s, failed, fin)
}

fn push_all<F: Flavor>(mut f: F, m: &[u8]) -> Result<F::Output, postcard::Error> {
    for b in m {
        f.try_push(*b)?;
    }
    f.finalize()
}

fn ser_str(r: &SerRes) -> String {
    match r {
        Ok(b) => format!("ok {}", hex(b)),
        Err(k) => format!("err {}", k),
    }
}

pub fn eval(ctx: &mut Ctx, op: &str, args: &[Sexp]) -> Option<String> {
    match op {
        "size" => {
            let v = DVal::from_sexp(args.first()?)?;
            crate::dval::HR_SEEN.with(|c| c.set(false));
            let r = guard(|| postcard::experimental::serialized_size(&v));
            if crate::dval::HR_SEEN.with(|c| c.replace(false)) {
                ctx.oracle_fail("the serializer behind serialized_size claims is_human_readable() = true (types that branch on it are measured in another form than they are written)".into());
            }
            // real types whose Serialize impl branches on is_human_readable (text form vs packed form): the
            // measuring call must see the same form as the writing calls
            {
                use std::net::{IpAddr, Ipv4Addr, Ipv6Addr, SocketAddr, SocketAddrV4};
                fn same<T: serde::Serialize>(v: &T) -> Option<String> {
                    let n = postcard::experimental::serialized_size(v).ok()?;
                    let b = postcard::to_allocvec(v).ok()?;
                    if n != b.len() {
                        Some(format!("serialized_size says {} for a {} that encodes to {} bytes", n, std::any::type_name::<T>(), b.len()))
                    } else {
                        None
                    }
                }
                let bad = guard(|| {
                    same(&Ipv4Addr::new(192, 168, 100, 200))
                        .or_else(|| same(&IpAddr::V6(Ipv6Addr::new(0xfe80, 0, 0, 0, 1, 2, 3, 4))))
                        .or_else(|| same(&SocketAddr::V4(SocketAddrV4::new(Ipv4Addr::new(10, 0, 0, 1), 8080))))
                        .or_else(|| same(&uuid::Uuid::from_u128(0x0123_4567_89ab_cdef_0123_4567_89ab_cdef)))
                        .or_else(|| same(&(1u8, [Ipv4Addr::new(1, 2, 3, 4); 2], "x")))
                });
                match bad {
                    Err(()) => ctx.oracle_fail("serialized_size panicked on a std::net / uuid value".into()),
                    Ok(Some(b)) => ctx.oracle_fail(b),
                    Ok(None) => {}
                }
            }
            Some(match r {
                Err(()) => "FAIL panic in serialized_size".into(),
                Ok(Ok(n)) => {
                    if let Ok(b) = postcard::to_allocvec(&v) {
                        if b.len() != n {
                            ctx.oracle_fail(format!("serialized_size {} but output is {} bytes", n, b.len()));
                        }
                    }
                    format!("ok {}", n)
                }
                Ok(Err(e)) => format!("err {}", err_name(&e)),
            })
        }
        "sercap" | "collectcap" => {
            let framing = args.first()?.atom()?;
            let storage = args.get(1)?.atom()?;
            let cap: usize = args.get(2)?.atom()?.parse().ok()?;
            // collectcap: a value serialised through collect_str whose Display writes the given pieces
            let v = if op == "collectcap" {
                let mut cs = Vec::new();
                for a in &args[3..] {
                    cs.push(String::from_utf8(unhex(a.atom()?)?).ok()?);
                }
                DVal::Display(cs)
            } else {
                DVal::from_sexp(args.get(3)?)?
            };
            let full = unbounded(framing, &v)?;
            let (res, mem): (SerRes, Vec<u8>) = match storage {
                "slice" => {
                    let mut g = Guarded::new(cap);
                    let r = guard(|| match framing {
                        "plain" => Some(postcard::to_slice(&v, g.buf()).map(|s| s.to_vec()).map_err(|e| err_name(&e))),
                        "cobs" => Some(postcard::to_slice_cobs(&v, g.buf()).map(|s| s.to_vec()).map_err(|e| err_name(&e))),
                        a => crc_slice(a, &v, g.buf()),
                    });
                    let r = match r {
                        Err(()) => return Some("FAIL panic while serialising into a slice".into()),
                        Ok(r) => r?,
                    };
                    if !g.intact() {
                        ctx.oracle_fail("bytes outside the caller's buffer were written".into());
                    }
                    (r, g.mem().to_vec())
                }
                "hvec" => {
                    let r = guard(|| match framing {
                        "plain" => with_cap!(cap, N, postcard::to_vec::<_, N>(&v).map(|s| s.to_vec()).map_err(|e| err_name(&e))),
                        "cobs" => with_cap!(cap, N, postcard::to_vec_cobs::<_, N>(&v).map(|s| s.to_vec()).map_err(|e| err_name(&e))),
                        a => crc_hvec(a, &v, cap),
                    });
                    match r {
                        Err(()) => return Some("FAIL panic while serialising into a heapless vector".into()),
                        Ok(r) => (r?, Vec::new()),
                    }
                }
                _ => return None,
            };
            // oracle (C05): success exactly when cap >= complete output length; same bytes; at the
            // front; rest untouched; otherwise an error
            if let Ok(fullb) = &full {
                match &res {
                    Ok(out) => {
                        if cap < fullb.len() || out != fullb {
                            ctx.oracle_fail(format!("succeeded with capacity {} but complete output has {} bytes / differs", cap, fullb.len()));
                        }
                        if storage == "slice" && (mem[..out.len()] != out[..] || mem[out.len()..].iter().any(|b| *b != FILL)) {
                            ctx.oracle_fail("output not at the front of the buffer or rest of buffer touched".into());
                        }
                    }
                    Err(k) => {
                        if cap >= fullb.len() {
                            ctx.oracle_fail(format!("failed ({}) although capacity {} >= output length {}", k, cap, fullb.len()));
                        }
                    }
                }
            }
            Some(match &res {
                Ok(b) => format!("ok {} mem={}", hex(b), hex(&mem)),
                Err(k) => format!("err {} mem={}", k, hex(&mem)),
            })
        }
        "bigslice" => {
            // bigslice <framing> <capacity> <value>: a caller buffer of several GiB (lazily mapped). Capacity is
            // far above the output length, so the result must be the complete output at the front.
            let framing = args.first()?.atom()?;
            let cap: usize = args.get(1)?.atom()?.parse().ok()?;
            let v = DVal::from_sexp(args.get(2)?)?;
            let mut huge = match crate::guard::Huge::new(cap) {
                Some(h) => h,
                None => return Some("FAIL could not map the buffer".into()),
            };
            let r = guard(|| match framing {
                "plain" => Some(postcard::to_slice(&v, huge.slice_mut()).map(|s| s.to_vec()).map_err(|e| err_name(&e))),
                "cobs" => Some(postcard::to_slice_cobs(&v, huge.slice_mut()).map(|s| s.to_vec()).map_err(|e| err_name(&e))),
                a => crc_slice(a, &v, huge.slice_mut()),
            });
            let r = match r {
                Err(()) => return Some("FAIL panic while serialising into a multi-GiB slice".into()),
                Ok(r) => r?,
            };
            if let (Ok(out), Some(Ok(full))) = (&r, unbounded(framing, &v)) {
                if *out != full || huge.slice_mut()[..out.len()] != out[..] {
                    ctx.oracle_fail("output into a multi-GiB buffer differs from the unbounded output / is not at the front".into());
                }
            }
            if r.is_err() && unbounded(framing, &v).map(|u| u.is_ok()).unwrap_or(false) {
                ctx.oracle_fail(format!("serialising into a buffer of {} bytes failed ({:?}) although the output is tiny", cap, r));
            }
            Some(ser_str(&r))
        }
        "cobsenc" => {
            let storage = args.first()?.atom()?;
            let cap: usize = args.get(1)?.atom()?.parse().ok()?;
            let m = unhex(args.get(2)?.atom()?)?;
            let r: Result<Option<SerRes>, ()> = guard(|| match storage {
                "slice" => {
                    let mut g = Guarded::new(cap);
                    let r = Cobs::try_new(Slice::new(g.buf())).and_then(|f| push_all(f, &m)).map(|s| s.to_vec()).map_err(|e| err_name(&e));
                    if !g.intact() {
                        return Some(Err("wrote-outside-buffer"));
                    }
                    Some(r)
                }
                "hvec" => with_cap!(cap, N, Cobs::try_new(HVec::<N>::default()).and_then(|f| push_all(f, &m)).map(|s| s.to_vec()).map_err(|e| err_name(&e))),
                "alloc" => Some(Cobs::try_new(AllocVec::new()).and_then(|f| push_all(f, &m)).map_err(|e| err_name(&e))),
                _ => None,
            });
            Some(match r {
                Err(()) => "FAIL panic in the COBS flavour".into(),
                Ok(r) => ser_str(&r?),
            })
        }
        "flavseq" => {
            // flavseq <slice|hvec> <cap> <plain|cobs> <p:HH | e:HEX>*  (C05: a storage flavour driven through the
            // public Flavor API keeps behaving after it has reported buffer-full: no panic, nothing outside)
            let storage = args.first()?.atom()?;
            let cap: usize = args.get(1)?.atom()?.parse().ok()?;
            let cobs = args.get(2)?.atom()? == "cobs";
            let mut steps = Vec::new();
            for a in &args[3..] {
                let a = a.atom()?;
                let d = unhex(&format!("x{}", &a[2..]))?;
                match &a[..2] {
                    "p:" if d.len() == 1 => steps.push((true, d)),
                    "e:" => steps.push((false, d)),
                    _ => return None,
                }
            }
            type R3 = (String, bool, Result<Vec<u8>, &'static str>);
            let mut outside = false;
            let r: Result<Option<Result<R3, &'static str>>, ()> = guard(|| match storage {
                "slice" => {
                    let mut g = Guarded::new(cap);
                    let r = if cobs {
                        Cobs::try_new(Slice::new(g.buf())).map(|f| drive_steps(f, &steps, false)).map_err(|e| err_name(&e))
                    } else {
                        Ok(drive_steps(Slice::new(g.buf()), &steps, true))
                    };
                    outside = !g.intact();
                    Some(r)
                }
                "hvec" => {
                    if cobs {
                        with_cap!(cap, N, Cobs::try_new(HVec::<N>::default()).map(|f| drive_steps(f, &steps, false)).map_err(|e| err_name(&e)))
                    } else {
                        with_cap!(cap, N, Ok::<R3, &'static str>(drive_steps(HVec::<N>::default(), &steps, true)))
                    }
                }
                _ => None,
            });
            if outside {
                ctx.oracle_fail("a flavour driven through its public API wrote outside the caller's buffer".into());
            }
            Some(match r {
                Err(()) => "FAIL panic in a storage flavour driven through its public API (calls continued after an error)".into(),
                Ok(None) => return None,
                Ok(Some(Err(e))) => format!("err {}", e),
                Ok(Some(Ok((mut s, failed, fin)))) => {
                    if failed {
                        if let Ok(o) = &fin {
                            if o.len() > cap {
                                ctx.oracle_fail("finalize after an error returned more bytes than the buffer holds".into());
                            }
                        }
                    } else {
                        match fin {
                            Ok(o) => s.push_str(&format!(" fin=ok {}", hex(&o))),
                            Err(e) => s.push_str(&format!(" fin=err {}", e)),
                        }
                    }
                    s
                }
            })
        }
        "crcio" => {
            // crcio <alg> <scratch> <ty> <hex>: the deserialising CrcModifier over a BYTE READER (a stack built by
            // hand). Whatever scratch is left for the checksum: a frame is accepted ONLY if the slice entry point
            // accepts it with the same value ("never accepts a wrong one"). Oracle only; no model answer.
            let alg = args.first()?.atom()?;
            let scratch: usize = args.get(1)?.atom()?.parse().ok()?;
            let t = DTy::from_sexp(args.get(2)?)?;
            let bytes = unhex(args.get(3)?.atom()?)?;
            let via_reader = match guard(|| crc_from_reader(alg, &t, &bytes, scratch)) {
                Err(()) => return Some("FAIL panic in CrcModifier over a byte reader".into()),
                Ok(r) => r?,
            };
            if let Ok(v) = &via_reader {
                match crc_from(alg, &t, &bytes) {
                    Some(Ok(v2)) if v2 == *v => {}
                    other => ctx.oracle_fail(format!("CRC-checked decoding through a byte reader ACCEPTED {} (scratch {}) but the slice entry point says {:?}", hex(&bytes), scratch, other.map(|r| r.map(|v| v.to_string())))),
                }
            }
            Some("ok".into())
        }
        "cobsspec" => {
            // the real encoder on a raw message through growable storage (compared with Spec.cobsEncode)
            let m = unhex(args.first()?.atom()?)?;
            let r = guard(|| Cobs::try_new(AllocVec::new()).and_then(|f| push_all(f, &m)).map_err(|e| err_name(&e)));
            Some(match r {
                Err(()) => "FAIL panic in the COBS flavour".into(),
                Ok(r) => {
                    if let Ok(f) = &r {
                        let zeros = f.iter().filter(|b| **b == 0).count();
                        if zeros != 1 || f.last() != Some(&0) {
                            ctx.oracle_fail("frame does not contain exactly one zero byte at its end".into());
                        }
                        let n = m.len();
                        if f.len() > n + n / 254 + 2 {
                            ctx.oracle_fail("frame longer than n + n/254 + 2".into());
                        }
                    }
                    ser_str(&r)
                }
            })
        }
        "cobsval" => {
            let t = DTy::from_sexp(args.first()?)?;
            let v = DVal::from_sexp(args.get(1)?)?;
            if !has_ty(&v, &t) {
                return Some("bad-op".into());
            }
            let a = match guard(|| postcard::to_allocvec_cobs(&crate::dval::Once::new(&v)).map_err(|e| err_name(&e))) {
                Err(()) => return Some("FAIL panic in to_allocvec_cobs".into()),
                Ok(a) => a,
            };
            let len = a.as_ref().map(|x| x.len()).unwrap_or(8);
            let mut g = Guarded::new(len + 2);
            let s = guard(|| postcard::to_slice_cobs(&v, g.buf()).map(|s| s.to_vec()).map_err(|e| err_name(&e)));
            if s != Ok(a.clone()) || !g.intact() {
                return Some(format!("FAIL to_slice_cobs {:?} vs to_allocvec_cobs {:?}", s, a));
            }
            let cap = HCAPS.iter().copied().find(|c| *c >= len).unwrap_or(4096);
            if let Ok(Some(h)) = guard(|| with_cap!(cap, N, postcard::to_vec_cobs::<_, N>(&v).map(|s| s.to_vec()).map_err(|e| err_name(&e)))) {
                if h != a && len <= 4096 {
                    return Some(format!("FAIL to_vec_cobs {:?} vs to_allocvec_cobs {:?}", h, a));
                }
            }
            let sv = guard(|| postcard::to_stdvec_cobs(&crate::dval::Once::new(&v)).map_err(|e| err_name(&e)));
            if sv != Ok(a.clone()) {
                return Some("FAIL to_stdvec_cobs differs".into());
            }
            // oracle (C06): one zero, last; decodes back
            if let Ok(f) = &a {
                if f.iter().filter(|b| **b == 0).count() != 1 || f.last() != Some(&0) {
                    ctx.oracle_fail("frame does not contain exactly one zero byte at its end".into());
                }
                let mut c = f.clone();
                let back = guard(|| with_ty(&t, || postcard::from_bytes_cobs::<DynVal>(&mut c).map(|v| v.0).map_err(|e| err_name(&e))));
                if back != Ok(Ok(v.clone())) {
                    ctx.oracle_fail(format!("COBS frame does not decode back: {:?}", back.map(|r| r.map(|v| v.to_string()))));
                }
            }
            Some(ser_str(&a))
        }
        "cobsframes" => {
            let t = DTy::from_sexp(args.first()?)?;
            let bytes = unhex(args.get(1)?.atom()?)?;
            let mut g = Guarded::with(&bytes);
            let r = guard(|| {
                let mut out = String::from("frames");
                let mut window: &mut [u8] = g.buf();
                while !window.is_empty() {
                    let before = window.len();
                    match with_ty(&t, || postcard::take_from_bytes_cobs::<DynVal>(window)) {
                        Err(e) => {
                            out.push_str(&format!(" | err {}", err_name(&e)));
                            break;
                        }
                        Ok((v, rest)) => {
                            out.push_str(&format!(" | ok {}", v.0));
                            if rest.len() >= before {
                                out.push_str(" | stuck");
                                break;
                            }
                            window = rest;
                        }
                    }
                }
                out
            });
            if !g.intact() {
                ctx.oracle_fail("COBS decoding wrote outside the buffer".into());
            }
            Some(r.unwrap_or_else(|_| "FAIL panic in take_from_bytes_cobs".into()))
        }
        "cobsde" => {
            let t = DTy::from_sexp(args.first()?)?;
            let bytes = unhex(args.get(1)?.atom()?)?;
            let frame_end = bytes.iter().position(|b| *b == 0).unwrap_or(bytes.len());
            let mut g1 = Guarded::with(&bytes);
            let f = guard(|| with_ty(&t, || postcard::from_bytes_cobs::<DynVal>(g1.buf()).map(|v| v.0).map_err(|e| err_name(&e))));
            let mut g2 = Guarded::with(&bytes);
            let k = guard(|| {
                with_ty(&t, || postcard::take_from_bytes_cobs::<DynVal>(g2.buf()).map(|(v, r)| (v.0, r.to_vec())).map_err(|e| err_name(&e)))
            });
            for g in [&g1, &g2] {
                if !g.intact() {
                    ctx.oracle_fail("COBS decoding wrote outside the buffer".into());
                }
                if g.mem()[frame_end..] != bytes[frame_end..] {
                    ctx.oracle_fail("COBS decoding modified bytes at or after the frame's sentinel".into());
                }
            }
            let (f, k) = match (f, k) {
                (Ok(f), Ok(k)) => (f, k),
                _ => {
                    return Some("FAIL panic in COBS decoding".into());
                }
            };
            if let Ok((_, rest)) = &k {
                let want = if frame_end < bytes.len() { &bytes[frame_end + 1..] } else { &[][..] };
                if rest != want {
                    ctx.oracle_fail("remainder does not begin immediately after the frame's sentinel".into());
                }
            }
            let fs = match &f {
                Ok(v) => format!("ok {}", v),
                Err(e) => format!("err {}", e),
            };
            Some(format!("from={} take={}", fs, de_answer(&k)))
        }
        "crcraw" => {
            let m = unhex(args.get(1)?.atom()?)?;
            Some(format!("ok {}", hex(&crc_raw(args.first()?.atom()?, &m)?)))
        }
        "crcser" => {
            let alg = args.first()?.atom()?;
            let v = DVal::from_sexp(args.get(1)?)?;
            let a = match guard(|| crc_allocvec(alg, &v)) {
                Err(()) => return Some("FAIL panic in to_allocvec_crc".into()),
                Ok(a) => a?,
            };
            let len = a.as_ref().map(|x| x.len()).unwrap_or(32);
            let mut g = Guarded::new(len);
            let s = guard(|| crc_slice(alg, &v, g.buf()));
            if s != Ok(Some(a.clone())) || !g.intact() {
                return Some(format!("FAIL to_slice_crc {:?} vs to_allocvec_crc {:?}", s, a));
            }
            if HVEC_ALGS.contains(&alg) {
                let cap = HCAPS.iter().copied().find(|c| *c >= len).unwrap_or(4096);
                if len <= 4096 && guard(|| crc_hvec(alg, &v, cap)) != Ok(Some(a.clone())) {
                    return Some("FAIL to_vec_crc differs from to_allocvec_crc".into());
                }
            }
            // the crate-root convenience entry points for 32-bit CRCs must be the same thing
            if let Some(alg32) = crc32_alg(alg) {
                let k = crc::Crc::<u32>::new(alg32);
                let e = |r: postcard::Result<Vec<u8>>| r.map_err(|e| err_name(&e));
                let mut g = Guarded::new(len);
                let rs = guard(|| e(postcard::to_slice_crc32(&v, g.buf(), k.digest()).map(|s| s.to_vec())));
                if rs != Ok(a.clone()) || !g.intact() {
                    return Some(format!("FAIL to_slice_crc32 {:?} vs to_allocvec_crc {:?}", rs, a));
                }
                if guard(|| e(postcard::to_stdvec_crc32(&crate::dval::Once::new(&v), k.digest()))) != Ok(a.clone()) || guard(|| e(postcard::to_allocvec_crc32(&crate::dval::Once::new(&v), k.digest()))) != Ok(a.clone()) {
                    return Some("FAIL to_stdvec_crc32 / to_allocvec_crc32 differ from the flavour-level entry point".into());
                }
                let cap = HCAPS.iter().copied().find(|c| *c >= len).unwrap_or(4096);
                if len <= 4096 {
                    let rv = guard(|| with_cap!(cap, N, e(postcard::to_vec_crc32::<_, N>(&v, k.digest()).map(|s| s.to_vec()))));
                    if rv != Ok(Some(a.clone())) {
                        return Some(format!("FAIL to_vec_crc32 {:?} vs to_allocvec_crc {:?}", rv, a));
                    }
                }
            }
            // oracle (C10): plain encoding followed by the LE checksum of exactly those bytes
            if let (Ok(f), Ok(p)) = (&a, postcard::to_allocvec(&v)) {
                let mut want = p.clone();
                want.extend_from_slice(&crc_raw(alg, &p)?);
                if *f != want {
                    ctx.oracle_fail("CRC frame is not plain bytes followed by their little-endian checksum".into());
                }
            }
            Some(ser_str(&a))
        }
        "crcde" | "crcdex" => {
            let alg = args.first()?.atom()?;
            let t = DTy::from_sexp(args.get(1)?)?;
            let (paylen, bytes) = if op == "crcdex" {
                (Some(args.get(2)?.atom()?.parse::<usize>().ok()?), unhex(args.get(3)?.atom()?)?)
            } else {
                (None, unhex(args.get(2)?.atom()?)?)
            };
            let k = match guard(|| crc_take(alg, &t, &bytes)) {
                Err(()) => return Some("FAIL panic in take_from_bytes_crc".into()),
                Ok(k) => k?,
            };
            let f = match guard(|| crc_from(alg, &t, &bytes)) {
                Err(()) => return Some("FAIL panic in from_bytes_crc".into()),
                Ok(f) => f?,
            };
            match (&k, &f) {
                (Ok((v, _)), Ok(v2)) if v == v2 => {}
                (Err(a), Err(b)) if a == b => {}
                _ => return Some(format!("FAIL from_bytes_crc {:?} vs take_from_bytes_crc {:?}", f, k)),
            }
            if let Some(alg32) = crc32_alg(alg) {
                let c = crc::Crc::<u32>::new(alg32);
                let k2: Result<DeRes, ()> = guard(|| with_ty(&t, || postcard::take_from_bytes_crc32::<DynVal>(&bytes, c.digest()).map(|(v, r)| (v.0, r.to_vec())).map_err(|e| err_name(&e))));
                let f2 = guard(|| with_ty(&t, || postcard::from_bytes_crc32::<DynVal>(&bytes, c.digest()).map(|v| v.0).map_err(|e| err_name(&e))));
                if k2 != Ok(k.clone()) || f2 != Ok(f.clone()) {
                    return Some(format!("FAIL from_bytes_crc32 / take_from_bytes_crc32 {:?} {:?} differ from the flavour-level entry points {:?}", f2, k2, k));
                }
            }
            if let Ok((_, rest)) = &k {
                // oracle (C10 converse): consumed value bytes are followed by their correct checksum
                let n = alg_nbytes(alg);
                let consumed = bytes.len() - rest.len() - n;
                let want = crc_raw(alg, &bytes[..consumed])?;
                if bytes[consumed..consumed + n] != want[..] {
                    ctx.oracle_fail("CRC-checked decoding succeeded although the consumed bytes are not followed by their checksum".into());
                }
                if let Some(pl) = paylen {
                    if consumed == pl {
                        ctx.oracle_fail("a corrupted frame was accepted with unchanged decoded length".into());
                    }
                }
            }
            Some(de_answer(&k))
        }
        "stack" => {
            // C20: checksum-then-COBS over a storage: serialize_with_flavor(v, CrcModifier::new(Cobs::try_new(storage)?, digest))
            if args.first()?.atom()? != "crccobs" {
                return None;
            }
            let storage = args.get(1)?.atom()?;
            let cap: usize = args.get(2)?.atom()?.parse().ok()?;
            let alg = args.get(3)?.atom()?;
            let t = DTy::from_sexp(args.get(4)?)?;
            let v = DVal::from_sexp(args.get(5)?)?;
            if alg != "CRC_32_ISO_HDLC" && alg != "CRC_16_XMODEM" && alg != "CRC_8_SMBUS" && alg != "CRC_64_XZ" {
                return None;
            }
            use postcard::ser_flavors::crc::CrcModifier;
            macro_rules! with_digest {
                ($d:ident, $body:expr) => {
                    match alg {
                        "CRC_32_ISO_HDLC" => { let k = crc::Crc::<u32>::new(&crc::CRC_32_ISO_HDLC); let $d = k.digest(); $body }
                        "CRC_16_XMODEM" => { let k = crc::Crc::<u16>::new(&crc::CRC_16_XMODEM); let $d = k.digest(); $body }
                        "CRC_8_SMBUS" => { let k = crc::Crc::<u8>::new(&crc::CRC_8_SMBUS); let $d = k.digest(); $body }
                        _ => { let k = crc::Crc::<u64>::new(&crc::CRC_64_XZ); let $d = k.digest(); $body }
                    }
                };
            }
            let r: Result<Option<SerRes>, ()> = guard(|| match storage {
                "slice" => {
                    let mut g = Guarded::new(cap);
                    let r = with_digest!(d, Cobs::try_new(Slice::new(g.buf())).and_then(|c| postcard::serialize_with_flavor(&v, CrcModifier::new(c, d))).map(|s| s.to_vec()).map_err(|e| err_name(&e)));
                    if !g.intact() {
                        return Some(Err("wrote-outside-buffer"));
                    }
                    Some(r)
                }
                "hvec" => with_cap!(cap, N, with_digest!(d, Cobs::try_new(HVec::<N>::default()).and_then(|c| postcard::serialize_with_flavor(&v, CrcModifier::new(c, d))).map(|s| s.to_vec()).map_err(|e| err_name(&e)))),
                "alloc" => Some(with_digest!(d, Cobs::try_new(AllocVec::new()).and_then(|c| postcard::serialize_with_flavor(&v, CrcModifier::new(c, d))).map_err(|e| err_name(&e)))),
                _ => None,
            });
            let r = match r {
                Err(()) => return Some("FAIL panic in the flavour stack".into()),
                Ok(r) => r?,
            };
            // oracle: output = COBS frame of (plain ++ checksum); undoing the layers recovers the value
            if let (Ok(out), Ok(plain)) = (&r, postcard::to_allocvec(&v)) {
                let mut payload = plain.clone();
                payload.extend_from_slice(&crc_raw(alg, &plain)?);
                let want = Cobs::try_new(AllocVec::new()).and_then(|f| push_all(f, &payload)).ok();
                if want.as_ref() != Some(out) {
                    ctx.oracle_fail("stack output is not the COBS frame of (plain bytes ++ checksum)".into());
                }
                let mut c = out.clone();
                let back = postcard::take_from_bytes_cobs::<serde::de::IgnoredAny>(&mut c).is_ok(); // placeholder to keep cobs decode exercised
                let _ = back;
                let mut c = out.clone();
                let n = c.len();
                // manual unstack: COBS-decode in place via from_bytes_cobs on a byte-array-free path:
                // decode as raw bytes using the accumulator-free API: take_from_bytes_cobs needs a type,
                // so decode the value through CRC after stripping COBS with the reference Cobs decoder (to_allocvec round trip)
                let _ = n;
                if let Some(dec) = cobs_decode_ref(&c[..c.len() - 1]) {
                    if dec != payload {
                        ctx.oracle_fail("COBS-decoding the stack output does not give plain ++ checksum".into());
                    }
                    match crc_from(alg, &t, &dec) {
                        Some(Ok(v2)) if v2 == v => {}
                        other => ctx.oracle_fail(format!("undoing the layers does not recover the value: {:?}", other.map(|r| r.map(|v| v.to_string())))),
                    }
                } else {
                    ctx.oracle_fail("stack output is not valid COBS".into());
                }
                c.clear();
            }
            Some(ser_str(&r))
        }
        "rec" => {
            // C20: a recording user flavour, with and without a block-write override
            let mode = args.first()?.atom()?;
            let v = DVal::from_sexp(args.get(1)?)?;
            struct RecO(String);
            impl Flavor for RecO {
                type Output = String;
                fn try_push(&mut self, b: u8) -> postcard::Result<()> {
                    self.0.push_str(&format!(" p:{:02x}", b));
                    Ok(())
                }
                fn try_extend(&mut self, bs: &[u8]) -> postcard::Result<()> {
                    self.0.push_str(" e:");
                    for b in bs {
                        self.0.push_str(&format!("{:02x}", b));
                    }
                    Ok(())
                }
                fn finalize(self) -> postcard::Result<String> {
                    Ok(self.0)
                }
            }
            struct RecD(String, Vec<u8>);
            impl Flavor for RecD {
                type Output = (String, Vec<u8>);
                fn try_push(&mut self, b: u8) -> postcard::Result<()> {
                    self.0.push_str(&format!(" p:{:02x}", b));
                    self.1.push(b);
                    Ok(())
                }
                fn finalize(self) -> postcard::Result<(String, Vec<u8>)> {
                    Ok((self.0, self.1))
                }
            }
            let plain = postcard::to_allocvec(&v).ok();
            let r = guard(|| {
                if mode == "override" {
                    postcard::serialize_with_flavor(&v, RecO(String::new())).map(|s| (s, None)).map_err(|e| err_name(&e))
                } else {
                    postcard::serialize_with_flavor(&v, RecD(String::new(), Vec::new())).map(|(s, b)| (s, Some(b))).map_err(|e| err_name(&e))
                }
            });
            Some(match r {
                Err(()) => "FAIL panic with a user flavour".into(),
                Ok(Err(e)) => format!("err {}", e),
                Ok(Ok((s, bytes))) => {
                    if let (Some(b), Some(p)) = (&bytes, &plain) {
                        if b != p {
                            ctx.oracle_fail("a user flavour did not receive exactly the plain encoding".into());
                        }
                    }
                    let joined: String = s.split_whitespace().map(|c| &c[2..]).collect();
                    if let Some(p) = &plain {
                        if joined != hex(p)[1..] {
                            ctx.oracle_fail("payloads of the calls made to a user flavour do not concatenate to the plain encoding".into());
                        }
                    }
                    format!("ok{}", s)
                }
            })
        }
        _ => None,
    }
}

/// reference COBS decoder (independent of the cobs crate) for a zero-free frame body
fn cobs_decode_ref(body: &[u8]) -> Option<Vec<u8>> {
    let mut out = Vec::new();
    let mut i = 0;
    while i < body.len() {
        let code = body[i] as usize;
        if code == 0 || i + code > body.len() {
            return None;
        }
        out.extend_from_slice(&body[i + 1..i + code]);
        i += code;
        if code != 0xFF && i < body.len() {
            out.push(0);
        }
    }
    Some(out)
}

// ------------------------------------------------------------------ generators
fn small_val(r: &mut Rng, i: usize) -> (DTy, DVal) {
    loop {
        let t = gen_ty(r, 1 + (i % 4) as u32);
        let v = gen_val(r, &t, false);
        if let Ok(b) = postcard::to_allocvec(&v) {
            if b.len() <= 60 {
                return (t, v);
            }
        }
    }
}

/// call sequences on one storage flavour object that go on after buffer-full
fn gen_flavseq(r: &mut Rng, thorough: bool, out: &mut Vec<String>) {
    let n = if thorough { 6000 } else { 500 };
    for i in 0..n {
        let cap = match i % 7 {
            0 => [254usize, 255, 256, 257, 258][(i / 7) % 5],
            _ => r.below(20) as usize,
        };
        let storage = if i % 2 == 0 { "slice" } else { "hvec" };
        let framing = if (i / 2) % 2 == 0 { "plain" } else { "cobs" };
        let mut used = 0usize;
        let mut steps = Vec::new();
        for _ in 0..1 + r.below(8) {
            let room = cap.saturating_sub(used);
            if r.chance(1, 3) {
                steps.push(format!("p:{:02x}", if r.chance(1, 4) { 0 } else { r.next() as u8 }));
                used += 1;
            } else {
                // lengths around what is left: fits exactly, one too many, far too many, and small ones after that
                let len = match r.below(6) {
                    0 => room,
                    1 => room + 1,
                    2 => room + 1 + r.below(300) as usize,
                    3 => 0,
                    _ => r.below(7) as usize,
                };
                let d: Vec<u8> = (0..len).map(|_| if r.chance(1, 6) { 0 } else { 1 + r.below(255) as u8 }).collect();
                steps.push(format!("e:{}", &hex(&d)[1..]));
                if len <= room {
                    used += len;
                }
            }
        }
        out.push(format!("flavseq {} {} {} {}", storage, cap, framing, steps.join(" ")));
    }
}

pub fn gen_c05(r: &mut Rng, thorough: bool, out: &mut Vec<String>) {
    gen_flavseq(r, thorough, out);
    let n = if thorough { 6000 } else { 350 };
    let mut cases: Vec<(DTy, DVal)> = kind_corpus().into_iter().filter(|(_, v)| postcard::to_allocvec(v).map(|b| b.len() <= 30).unwrap_or(false)).collect();
    cases.extend(header_only_vals());
    for i in 0..n {
        cases.push(small_val(r, i));
    }
    // a long value crossing the 254-byte COBS block and the 127/128 length boundary
    cases.push((DTy::Bytes, DVal::Bytes(vec![7u8; 254])));
    cases.push((DTy::Str, DVal::Str("a".repeat(128))));
    // COBS block boundary under fixed storage: the plain encoding ends in / continues after a run of exactly
    // 253 / 254 / 255 non-zero bytes (length prefix included), followed by end of data, a zero, or a non-zero byte;
    // every capacity from just before the first block boundary to past the end is tried (slice and heapless)
    let first_boundary = cases.len();
    for n in [251usize, 252, 253, 506] {
        let body = DVal::Bytes((0..n).map(|i| 1 + (i % 250) as u8).collect());
        cases.push((DTy::Bytes, body.clone()));
        for tail in [0u128, 9] {
            cases.push((DTy::Tuple(vec![DTy::Bytes, DTy::U(8)]), DVal::Tuple(vec![body.clone(), DVal::U(8, tail)])));
        }
    }
    for (ci, (_t, v)) in cases.iter().enumerate() {
        if ci >= first_boundary {
            out.push(format!("size {}", v));
            for framing in ["cobs", "plain", "CRC_16_XMODEM"] {
                let full = match unbounded(framing, v) {
                    Some(Ok(b)) => b.len(),
                    _ => continue,
                };
                let lo = if framing == "cobs" { 250 } else { full - 3 };
                for cap in (lo..=full + 2).filter(|c| framing != "cobs" || *c <= 262 || *c + 8 >= full || (505..=516).contains(c)) {
                    out.push(format!("sercap {} slice {} {}", framing, cap, v));
                    if HCAPS.contains(&cap) {
                        out.push(format!("sercap {} hvec {} {}", framing, cap, v));
                    }
                }
            }
            continue;
        }
        out.push(format!("size {}", v));
        let framings: Vec<&str> = if ci % 3 == 0 { vec!["plain", "cobs", *r.pick(&ALGS)] } else { vec![*r.pick(&["plain", "cobs"]), *r.pick(&ALGS)] };
        for framing in framings {
            let full = match unbounded(framing, v) {
                Some(Ok(b)) => b.len(),
                _ => continue,
            };
            let caps: Vec<usize> = if full <= 40 { (0..=full + 2).collect() } else { vec![0, 1, full / 2, full - 2, full - 1, full, full + 1, full + 2] };
            for cap in caps {
                out.push(format!("sercap {} slice {} {}", framing, cap, v));
                if HCAPS.contains(&cap) && (framing == "plain" || framing == "cobs" || HVEC_ALGS.contains(&framing)) {
                    out.push(format!("sercap {} hvec {} {}", framing, cap, v));
                }
            }
        }
    }
    // caller buffers at and beyond 2^32 bytes (lazily mapped): nothing may keep a length in 32 bits
    for cap in [(1usize << 32) - 1, 1 << 32, (1 << 32) + 1, (1 << 32) + 4096, 1 << 33] {
        for (framing, v) in [("plain", "(u8 7)"), ("plain", "(tuple (str x616263) (u32 70000))"), ("cobs", "(tuple (u8 0) (str x6162))"), ("CRC_32_ISO_HDLC", "(u16 300)")] {
            out.push(format!("bigslice {} {} {}", framing, cap, v));
        }
    }
    // Display-collected strings (collect_str) into bounded storage: piece patterns x every capacity
    let mut patterns: Vec<Vec<String>> = vec![
        vec![], vec!["".into()], vec!["a".into()], vec!["printer.example".into(), ":".into(), "80".into()],
        vec!["<".into(), "x".repeat(70), ">".into()], vec!["ab".into(), "".into(), "cd".into(), "e".into()],
        vec!["x".repeat(126), "y".into(), "z".into()], vec!["k".into(); 40],
    ];
    for _ in 0..(if thorough { 300 } else { 25 }) {
        let k = r.range(1, 6);
        patterns.push((0..k).map(|_| { let l = *r.pick(&[0usize, 1, 1, 2, 3, 5, 8, 15, 16, 17, 40, 63, 64, 65, 70, 130]); crate::ops_schema::rand_path(r, l) }).collect());
    }
    for (pi, ps) in patterns.iter().enumerate() {
        let total: usize = ps.iter().map(|p| p.len()).sum();
        let hexes: String = ps.iter().map(|p| format!(" {}", hex(p.as_bytes()))).collect();
        for framing in if pi % 4 == 0 { vec!["plain", "cobs", "CRC_32_ISO_HDLC"] } else { vec!["plain", *r.pick(&["cobs", "CRC_16_XMODEM", "CRC_8_SMBUS"])] } {
            let full = total + 1 + (total >= 128) as usize + if framing == "cobs" { 2 + total / 254 } else if framing == "plain" { 0 } else { 4 };
            let caps: Vec<usize> = if full <= 48 { (0..=full + 2).collect() } else { (0..=6).chain((8..full).step_by(7)).chain(full - 6..=full + 2).collect() };
            for cap in caps {
                out.push(format!("collectcap {} slice {}{}", framing, cap, hexes));
                if HCAPS.contains(&cap) && (framing == "plain" || framing == "cobs" || HVEC_ALGS.contains(&framing)) {
                    out.push(format!("collectcap {} hvec {}{}", framing, cap, hexes));
                }
            }
        }
    }
    // Display-collected strings into bounded buffers: any error is acceptable, never success when too small
    // (collect_str reports CollectStrError for the payload pass) — covered through `spec`/`collect` in C02.
}

fn msg_over(alpha: &[u8], len: usize, mut idx: usize) -> Vec<u8> {
    let mut m = Vec::with_capacity(len);
    for _ in 0..len {
        m.push(alpha[idx % alpha.len()]);
        idx /= alpha.len();
    }
    m
}

pub fn cobs_messages(r: &mut Rng, thorough: bool) -> Vec<Vec<u8>> {
    let mut ms = Vec::new();
    let alpha = [0x00u8, 0x01, 0x02, 0xFF];
    let maxlen = if thorough { 9 } else { 6 };
    for len in 0..=maxlen {
        for idx in 0..4usize.pow(len as u32) {
            ms.push(msg_over(&alpha, len, idx));
        }
    }
    for base in [254usize, 508, 762] {
        for n in [base - 1, base, base + 1] {
            ms.push(vec![0x11; n]); // zero-free run
            let mut m = vec![0x22; n];
            m[n / 2] = 0;
            ms.push(m); // a zero in the middle
            let mut m = vec![0x33; n];
            m.push(0);
            ms.push(m); // zero right after the run
            let mut m = vec![0u8];
            m.extend(vec![0x44; n]);
            ms.push(m); // zero right before the run
            let mut m = vec![0x55; n];
            m.extend([0, 0, 1]);
            ms.push(m);
        }
    }
    let n = if thorough { 100_000 } else { 1500 };
    for _ in 0..n {
        let len = match r.below(10) {
            0..=5 => r.range(0, 40),
            6 | 7 => r.range(200, 300),
            8 => r.range(480, 540),
            _ => r.range(700, 800),
        } as usize;
        let zero_rate = *r.pick(&[0u64, 1, 2, 30, 128]);
        ms.push((0..len).map(|_| if r.below(256) < zero_rate { 0 } else { (r.next() as u8).max(1) }).collect());
    }
    ms
}

pub fn gen_c06(r: &mut Rng, thorough: bool, out: &mut Vec<String>) {
    // every frame also WITHOUT its sentinel (a caller that split the stream at the zero bytes), through both
    // decoding twins: short single-block frames whose message ends in a zero byte included
    for (t, v) in kind_corpus().into_iter().chain((0..if thorough { 4000 } else { 300 }).map(|i| small_val(r, i))) {
        if has_zero_width_seq(&t) {
            continue;
        }
        if let Ok(f) = postcard::to_allocvec_cobs(&v) {
            if f.len() >= 2 && f.len() <= 300 {
                out.push(format!("cobsde {} {}", t, hex(&f[..f.len() - 1])));
            }
        }
    }
    for t in ["bool", "(tuple u8 u8)", "(option u8)", "(tuple u8 (option u16))", "(seq u8)", "u16"] {
        for f in ["x0101", "x020501", "x0201", "x03050701", "x020101", "x01", "x0102", "x0301ff01"] {
            out.push(format!("cobsde {} {}", t, f));
        }
    }
    let ms = cobs_messages(r, thorough);
    for (i, m) in ms.iter().enumerate() {
        out.push(format!("cobsspec {}", hex(m)));
        let full = m.len() + m.len() / 254 + 2;
        match i % 4 {
            0 => out.push(format!("cobsenc alloc 0 {}", hex(m))),
            1 => out.push(format!("cobsenc slice {} {}", full, hex(m))),
            2 => {
                let cap = HCAPS.iter().copied().find(|c| *c >= full).unwrap_or(4096);
                out.push(format!("cobsenc hvec {} {}", cap, hex(m)));
            }
            _ => {
                // too-small storage: must report buffer-full, never panic
                let cap = r.below(full as u64) as usize;
                out.push(format!("cobsenc slice {} {}", cap, hex(m)));
            }
        }
    }
    // fixed storage whose capacity ends at / just around a block boundary or the end of the frame:
    // buffer-full exactly when the frame does not fit, never a panic, whatever follows the full block
    for base in [254usize, 508] {
        for n in [base - 1, base, base + 1] {
            let mut family: Vec<Vec<u8>> = vec![vec![0x11; n]];
            let mut m = vec![0x33; n];
            m.push(0);
            family.push(m);
            let mut m = vec![0x55; n];
            m.extend([0, 0, 1]);
            family.push(m);
            let mut m = vec![0x66; n];
            m.extend([7, 7]);
            family.push(m);
            for m in family {
                let full = m.len() + m.len() / 254 + 2;
                for cap in (base - 3..=base + 5).chain(full.saturating_sub(4)..=full + 1) {
                    out.push(format!("cobsenc slice {} {}", cap, hex(&m)));
                    if HCAPS.contains(&cap) {
                        out.push(format!("cobsenc hvec {} {}", cap, hex(&m)));
                    }
                }
            }
        }
    }
    // values, and buffers of 1..6 frames with / without the last sentinel
    let n = if thorough { 20_000 } else { 800 };
    for i in 0..n {
        let t = loop {
            let t = gen_ty(r, 1 + (i % 3) as u32);
            if !has_zero_width_seq(&t) {
                break t;
            }
        };
        let k = r.range(1, 6);
        let mut buf = Vec::new();
        for _ in 0..k {
            let v = gen_val(r, &t, i % 40 == 0);
            out.push(format!("cobsval {} {}", t, v));
            if let Ok(f) = postcard::to_allocvec_cobs(&v) {
                buf.extend_from_slice(&f);
            }
        }
        if buf.len() <= 3000 {
            out.push(format!("cobsframes {} {}", t, hex(&buf)));
            buf.pop(); // last sentinel absent
            out.push(format!("cobsframes {} {}", t, hex(&buf)));
            buf.extend_from_slice(&[0, 0x02, 0x07, 0x00]); // trailing bytes after the frames
            out.push(format!("cobsframes {} {}", t, hex(&buf)));
        }
    }
    // byte payloads around the block boundaries, as values
    for n in [252usize, 253, 254, 255, 506, 507, 508, 509] {
        out.push(format!("cobsval bytes {}", DVal::Bytes(vec![9u8; n])));
    }
    // several block writes in one value: every alignment of two string bodies around the first two block
    // boundaries (the second body starts in a block that was opened by a full block / by a zero / fresh)
    let t2 = DTy::Tuple(vec![DTy::Str, DTy::Str, DTy::U(8)]);
    let step = if thorough { 1 } else { 3 };
    for n1 in (238..=262usize).step_by(step) {
        for n2 in 238..=262usize {
            let v = DVal::Tuple(vec![DVal::Str("a".repeat(n1)), DVal::Str("b".repeat(n2)), DVal::U(8, 7)]);
            out.push(format!("cobsval {} {}", t2, v));
        }
    }
    let t3 = DTy::Tuple(vec![DTy::Bytes, DTy::Str, DTy::Bytes, DTy::U(16)]);
    for _ in 0..(if thorough { 4000 } else { 300 }) {
        let mut len = |r: &mut Rng| match r.below(4) { 0 => r.range(0, 20), 1 | 2 => r.range(230, 280), _ => r.range(490, 520) } as usize;
        let (a, b, c) = (len(r), len(r), len(r));
        let zero_free = r.chance(2, 3);
        let bytes = |r: &mut Rng, n: usize| -> Vec<u8> { (0..n).map(|_| if zero_free || r.below(40) > 0 { 1 + r.below(255) as u8 } else { 0 }).collect() };
        let v = DVal::Tuple(vec![DVal::Bytes(bytes(r, a)), DVal::Str("q".repeat(b)), DVal::Bytes(bytes(r, c)), DVal::U(16, 300)]);
        out.push(format!("cobsval {} {}", t3, v));
        if let Ok(f) = postcard::to_allocvec_cobs(&v) {
            out.push(format!("sercap cobs slice {} {}", f.len(), v));
            out.push(format!("sercap cobs slice {} {}", f.len() - 1, v));
        }
    }
}

pub fn gen_c07(r: &mut Rng, thorough: bool, out: &mut Vec<String>) {
    let tys = [DTy::U(8), DTy::Bytes, DTy::Tuple(vec![DTy::U(8), DTy::U(16)]), DTy::Seq(Box::new(DTy::U(8)))];
    let alpha = [0x00u8, 0x01, 0x02, 0x03, 0xFF];
    let maxlen = if thorough { 7 } else { 5 };
    for len in 0..=maxlen {
        for idx in 0..5usize.pow(len as u32) {
            let m = msg_over(&alpha, len, idx);
            for t in &tys {
                out.push(format!("cobsde {} {}", t, hex(&m)));
            }
        }
    }
    let n = if thorough { 20_000 } else { 1200 };
    for i in 0..n {
        let (t, v) = small_val(r, i);
        if has_zero_width_seq(&t) {
            continue;
        }
        let f = match postcard::to_allocvec_cobs(&v) {
            Ok(f) => f,
            Err(_) => continue,
        };
        out.push(format!("cobsde {} {}", t, hex(&f)));
        let mut ext = f.clone();
        ext.extend_from_slice(&r.bytes(4));
        out.push(format!("cobsde {} {}", t, hex(&ext)));
        for k in 0..f.len() {
            out.push(format!("cobsde {} {}", t, hex(&f[..k]))); // every truncation
            let mut c = ext.clone();
            c[k] = r.next() as u8; // every position corrupted once
            out.push(format!("cobsde {} {}", t, hex(&c)));
        }
        let rn = r.range(0, 16) as usize;
        out.push(format!("cobsde {} {}", t, hex(&r.bytes(rn))));
    }
    gen_c07_long(r, thorough, out);
    // long frames with bad / good 0xFF code bytes
    for n in [253usize, 254, 255] {
        let mut f = vec![0xFFu8];
        f.extend(vec![0x11; n]);
        f.push(0);
        out.push(format!("cobsde bytes {}", hex(&f)));
        f.pop();
        f.push(1);
        f.push(0);
        out.push(format!("cobsde bytes {}", hex(&f)));
    }
}

/// reference COBS encoder (frame without the sentinel), written independently of the crates under test
pub fn ref_cobs_encode(m: &[u8]) -> Vec<u8> {
    let mut out = vec![0u8];
    let mut code_at = 0usize;
    let mut code = 1u8;
    let mut pending = true;
    for &b in m {
        pending = true;
        if b == 0 {
            out[code_at] = code;
            code_at = out.len();
            out.push(0);
            code = 1;
        } else {
            out.push(b);
            code += 1;
            if code == 0xFF {
                out[code_at] = code;
                code_at = out.len();
                out.push(0);
                code = 1;
                pending = false;
            }
        }
    }
    if pending || m.is_empty() || m.last() == Some(&0) {
        out[code_at] = code;
    } else {
        out.pop();
    }
    out
}

/// long first frames: payloads whose length sits on / next to a multiple of 254, decoded as a type whose length
/// prefix claims one or two bytes fewer / exactly / more than the payload holds (C07: exactly plain decoding of
/// the reference payload — no phantom byte after a full block, no byte lost)
fn gen_c07_long(r: &mut Rng, thorough: bool, out: &mut Vec<String>) {
    let ps: Vec<usize> = if thorough { (250..=260).chain(504..=514).chain(760..=766).collect() } else { vec![252, 253, 254, 255, 256, 507, 508, 509, 510, 762] };
    for p in ps {
        for zero_free in [true, false] {
            // payload = varint(claim) ++ body, total length p
            for delta in [-2i64, -1, 0, 1, 2] {
                let body_len = p - 2; // claims 128..16383 take two varint bytes
                let claim = (body_len as i64 + delta).max(128) as usize;
                let mut payload = vec![(claim & 0x7F) as u8 | 0x80, (claim >> 7) as u8];
                payload.extend((0..body_len).map(|i| if zero_free || i % 61 != 7 { 1 + (r.below(255) as u8) } else { 0 }));
                let mut frame = ref_cobs_encode(&payload);
                // a message ending exactly on a full block has two accepted encodings: with and without an
                // empty closing block (the cobs crate's encoder writes the closing `01`)
                if frame.len() % 255 == 0 && frame[frame.len() - 255] == 0xFF {
                    let mut closed = frame.clone();
                    closed.extend_from_slice(&[0x01, 0x00]);
                    for t in ["bytes", "str", "(seq u8)", "(tuple bytes u8)"] {
                        out.push(format!("cobsde {} {}", t, hex(&closed)));
                    }
                    closed.extend_from_slice(&[0x02, 0x09, 0x00]);
                    out.push(format!("cobsde bytes {}", hex(&closed)));
                }
                // the same frame UNTERMINATED (the input ends where the sentinel would be - incl. right after a
                // full 0xFF block), and with its last byte missing
                for t in ["bytes", "str", "(seq u8)", "(tuple bytes u8)", "u8"] {
                    out.push(format!("cobsde {} {}", t, hex(&frame)));
                }
                out.push(format!("cobsde bytes {}", hex(&frame[..frame.len() - 1])));
                frame.push(0);
                for t in ["bytes", "str", "(seq u8)", "(tuple bytes u8)"] {
                    out.push(format!("cobsde {} {}", t, hex(&frame)));
                }
                // followed by a second frame: the remainder must start right after the first sentinel
                frame.extend_from_slice(&[0x02, 0x09, 0x00, 0x05]);
                out.push(format!("cobsde bytes {}", hex(&frame)));
            }
        }
    }
}

pub fn gen_c20(r: &mut Rng, thorough: bool, out: &mut Vec<String>) {
    let n = if thorough { 8000 } else { 500 };
    let algs = ["CRC_32_ISO_HDLC", "CRC_16_XMODEM", "CRC_8_SMBUS", "CRC_64_XZ"];
    let mut cases: Vec<(DTy, DVal)> = kind_corpus();
    for i in 0..n {
        cases.push(small_val(r, i));
    }
    cases.push((DTy::Bytes, DVal::Bytes(vec![3u8; 260])));
    cases.push((DTy::Bytes, DVal::Bytes(vec![0u8; 300])));
    // plain encodings whose zero-free runs end on / next to a COBS block boundary, and block writes whose
    // length sits on a power of two (a modifier's staging buffer or stride)
    for n in (249..=256usize).chain(503..=510).chain([13, 14, 15, 16, 17, 30, 31, 32, 33, 62, 63, 64, 65, 126, 127, 128, 129]) {
        cases.push((DTy::Bytes, DVal::Bytes((0..n).map(|i| 1 + (i % 255) as u8).collect())));
        if n % 3 == 0 {
            cases.push((DTy::Tuple(vec![DTy::Str, DTy::Str, DTy::U(8)]), DVal::Tuple(vec![DVal::Str("a".repeat(n)), DVal::Str("b".repeat(n + 1)), DVal::U(8, 7)])));
            cases.push((DTy::Tuple(vec![DTy::U(8), DTy::Bytes, DTy::U(128)]), DVal::Tuple(vec![DVal::U(8, 0), DVal::Bytes(vec![0xEE; n]), DVal::U(128, u128::MAX)])));
        }
    }
    for (i, (t, v)) in cases.iter().enumerate() {
        if has_zero_width_seq(t) {
            continue;
        }
        // the allocating COBS entry points against the explicit Cobs<AllocVec> stack of the model
        if i % 4 == 1 || postcard::to_allocvec(v).map(|b| b.len() > 100).unwrap_or(false) {
            out.push(format!("cobsval {} {}", t, v));
        }
        out.push(format!("rec override {}", v));
        out.push(format!("rec default {}", v));
        // the other stacks (plain / COBS / CRC of each width over three storages) with ample capacity
        let plain_len = postcard::to_allocvec(v).map(|b| b.len()).unwrap_or(0);
        let roomy = HCAPS.iter().copied().find(|c| *c >= plain_len + plain_len / 254 + 24).unwrap_or(4096);
        let alg = algs[i % algs.len()];
        for storage in ["alloc", "slice", "hvec"] {
            out.push(format!("stack crccobs {} {} {} {} {}", storage, roomy, alg, t, v));
        }
        if plain_len > 100 {
            // block-boundary values: every capacity within a few bytes of the complete frame, for each stack
            if let Ok(fc) = postcard::to_allocvec_cobs(v) {
                for cap in fc.len().saturating_sub(3)..=fc.len() + 1 {
                    out.push(format!("sercap cobs slice {} {}", cap, v));
                    if HCAPS.contains(&cap) {
                        out.push(format!("sercap cobs hvec {} {}", cap, v));
                    }
                }
            }
            let nb = alg_nbytes(alg);
            let est = plain_len + nb + (plain_len + nb) / 254 + 2;
            for cap in est.saturating_sub(4)..=est + 1 {
                out.push(format!("stack crccobs slice {} {} {} {}", cap, alg, t, v));
                if HCAPS.contains(&cap) {
                    out.push(format!("stack crccobs hvec {} {} {} {}", cap, alg, t, v));
                }
            }
        }
        if i % 4 == 0 {
            // too-small storage: buffer-full, never a panic
            let small = r.below((plain_len + 3) as u64) as usize;
            out.push(format!("stack crccobs slice {} {} {} {}", small, alg, t, v));
            for framing in ["plain", "cobs", ALGS[i % ALGS.len()]] {
                out.push(format!("sercap {} slice {} {}", framing, roomy, v));
                if framing == "plain" || framing == "cobs" || HVEC_ALGS.contains(&framing) {
                    out.push(format!("sercap {} hvec {} {}", framing, roomy, v));
                }
            }
        }
    }
}

pub fn gen_c10(r: &mut Rng, thorough: bool, out: &mut Vec<String>) {
    // the deserialising CrcModifier over a byte reader, with every amount of scratch from none to ample: valid
    // frames, every checksum byte damaged, payload bits flipped
    for (k, alg) in ["CRC_16_XMODEM", "CRC_32_ISO_HDLC", "CRC_64_XZ", "CRC_82_DARC", "CRC_12_UMTS", "CRC_8_SMBUS"].iter().enumerate() {
        for (t, v) in [(DTy::Tuple(vec![DTy::U(16), DTy::Str]), DVal::Tuple(vec![DVal::U(16, 300), DVal::Str("hey".into())])), (DTy::U(32), DVal::U(32, 70000 + k as u128)), (DTy::Bytes, DVal::Bytes(vec![1, 2, 3, 4, 5]))] {
            let frame = match crc_allocvec(alg, &v) {
                Some(Ok(f)) => f,
                _ => continue,
            };
            let plain = postcard::to_allocvec(&v).map(|b| b.len()).unwrap_or(0);
            let width = frame.len() - plain;
            let need = crate::ops_io::need(&v);
            for scratch in [0usize, need, need + 1, need + width - 1, need + width, need + width + 8] {
                out.push(format!("crcio {} {} {} {}", alg, scratch, t, hex(&frame)));
                for b in 0..width {
                    let mut c = frame.clone();
                    c[plain + b] ^= 1 << (b % 8);
                    out.push(format!("crcio {} {} {} {}", alg, scratch, t, hex(&c)));
                }
                let mut c = frame.clone();
                let p = r.below(plain.max(1) as u64) as usize;
                c[p] ^= 0x10;
                out.push(format!("crcio {} {} {} {}", alg, scratch, t, hex(&c)));
            }
        }
    }
    // the crc crate against the Rocksoft model
    let nraw = if thorough { 10_000 } else { 150 };
    for alg in ALGS {
        out.push(format!("crcraw {} x", alg));
        out.push(format!("crcraw {} {}", alg, hex(b"123456789")));
        for _ in 0..nraw / 10 {
            let n = r.range(0, 70) as usize;
            out.push(format!("crcraw {} {}", alg, hex(&r.bytes(n))));
        }
    }
    // long block writes / block reads (str and bytes bodies reach the modifier through try_extend / try_take_n):
    // the checksum must cover every byte of the block, whatever its length
    let lens: Vec<usize> = if thorough { (14..=70).chain([95, 96, 97, 127, 128, 129, 191, 255, 256, 257, 300, 511, 513]).collect() } else { vec![15, 16, 17, 31, 32, 33, 47, 63, 64, 65, 100, 129, 255, 300] };
    for (ai, alg) in ALGS.iter().enumerate() {
        for (li, len) in lens.iter().enumerate() {
            if !thorough && (ai + li) % 3 != 0 {
                continue;
            }
            let body = r.bytes(*len);
            let text: String = body.iter().map(|b| (b'a' + b % 26) as char).collect();
            let (t, v) = match (ai + li) % 3 {
                0 => (DTy::Bytes, DVal::Bytes(body)),
                1 => (DTy::Str, DVal::Str(text)),
                _ => (DTy::Tuple(vec![DTy::U(16), DTy::Str, DTy::Bytes]), DVal::Tuple(vec![DVal::U(16, 300), DVal::Str(text), DVal::Bytes(body)])),
            };
            out.push(format!("crcser {} {}", alg, v));
            let f = match crc_allocvec(alg, &v) {
                Some(Ok(f)) => f,
                _ => continue,
            };
            let nb = alg_nbytes(alg);
            let paylen = f.len() - nb;
            out.push(format!("crcde {} {} {}", alg, t, hex(&f)));
            for k in [1usize, 2, paylen / 2, paylen.saturating_sub(1), paylen, f.len() - 1] {
                out.push(format!("crcde {} {} {}", alg, t, hex(&f[..k.min(f.len())]))); // truncation inside a block read
            }
            // every single-bit flip in the first 4 and the last 40 payload bytes and in the checksum
            for bit in (0..f.len() * 8).filter(|b| b / 8 < 4 || b / 8 + 40 >= paylen) {
                let mut c = f.clone();
                c[bit / 8] ^= 1 << (bit % 8);
                out.push(format!("crcdex {} {} {} {}", alg, t, paylen, hex(&c)));
            }
            // one flipped bit per payload byte elsewhere
            for k in 4..paylen.saturating_sub(40) {
                let mut c = f.clone();
                c[k] ^= 1 << (k % 8);
                out.push(format!("crcdex {} {} {} {}", alg, t, paylen, hex(&c)));
            }
        }
    }
    let n = if thorough { 3000 } else { 120 };
    for i in 0..n {
        let (t, v) = loop {
            let (t, v) = small_val(r, i);
            if !has_zero_width_seq(&t) && postcard::to_allocvec(&v).map(|b| b.len() <= 24).unwrap_or(false) {
                break (t, v);
            }
        };
        let alg = ALGS[i % ALGS.len()];
        out.push(format!("crcser {} {}", alg, v));
        let f = match crc_allocvec(alg, &v) {
            Some(Ok(f)) => f,
            _ => continue,
        };
        let nb = alg_nbytes(alg);
        let paylen = f.len() - nb;
        out.push(format!("crcde {} {} {}", alg, t, hex(&f)));
        let mut ext = f.clone();
        ext.extend_from_slice(&r.bytes(3));
        out.push(format!("crcde {} {} {}", alg, t, hex(&ext)));
        for k in 0..f.len() {
            out.push(format!("crcde {} {} {}", alg, t, hex(&f[..k]))); // truncation
        }
        // every single-bit flip of the frame
        for bit in 0..f.len() * 8 {
            let mut c = f.clone();
            c[bit / 8] ^= 1 << (bit % 8);
            out.push(format!("crcdex {} {} {} {}", alg, t, paylen, hex(&c)));
        }
        // burst patterns no longer than the width at every bit offset of the payload (both bit orders)
        let w = match alg { "CRC_12_UMTS" => 12, "CRC_82_DARC" => 82, _ => nb * 8 };
        let nb_patterns = if thorough { 24 } else { 6 };
        for _ in 0..nb_patterns {
            let blen = r.range(2, w as u64) as usize;
            let pat: Vec<bool> = (0..blen).map(|j| j == 0 || j == blen - 1 || r.chance(1, 2)).collect();
            for off in 0..(paylen * 8).saturating_sub(blen - 1) {
                for lsb_first in [false, true] {
                    let mut c = f.clone();
                    for (j, p) in pat.iter().enumerate() {
                        if *p {
                            let b = off + j;
                            c[b / 8] ^= if lsb_first { 1 << (b % 8) } else { 0x80 >> (b % 8) };
                        }
                    }
                    // a burst is contiguous in the algorithm's own bit order (LSB-first within bytes
                    // when refin); in the other order it is just multi-bit damage with no guarantee
                    if lsb_first == alg_refin(alg) {
                        out.push(format!("crcdex {} {} {} {}", alg, t, paylen, hex(&c)));
                    } else {
                        out.push(format!("crcde {} {} {}", alg, t, hex(&c)));
                    }
                }
            }
        }
        // structured damage confined to the checksum: byte order, rotations, complement, off by one
        if nb >= 1 {
            let (pay, ck) = f.split_at(paylen);
            let mut variants: Vec<Vec<u8>> = Vec::new();
            variants.push(ck.iter().rev().copied().collect());
            variants.push(ck.iter().map(|b| !b).collect());
            variants.push(ck.iter().map(|b| b.swap_bytes().reverse_bits()).collect());
            let mut rot = ck.to_vec();
            rot.rotate_left(1);
            variants.push(rot);
            let mut inc = ck.to_vec();
            inc[0] = inc[0].wrapping_add(1);
            variants.push(inc);
            variants.push(vec![0; nb]);
            variants.push(vec![0xFF; nb]);
            if nb >= 2 {
                let mut sw = ck.to_vec();
                sw.swap(0, 1);
                variants.push(sw);
            }
            for c in variants {
                if c != ck {
                    let mut g = pay.to_vec();
                    g.extend_from_slice(&c);
                    out.push(format!("crcdex {} {} {} {}", alg, t, paylen, hex(&g)));
                }
            }
        }
        // random multi-byte damage
        for _ in 0..6 {
            let mut c = f.clone();
            for _ in 0..r.range(1, 4) {
                let k = r.below(c.len() as u64) as usize;
                c[k] = r.next() as u8;
            }
            out.push(format!("crcde {} {} {}", alg, t, hex(&c)));
        }
    }
}
