fn main() { println!("hi"); }
