//! pcverif — correspondence harness for the Lean model of postcard.
//!   pcverif gen  <prop> <tier> <seed>          print op lines
//!   pcverif eval <prop> <oracle-out>           read op lines on stdin, print the implementation's answers
mod core_ops;
mod dval;
mod gen;
mod generated;
mod generated_schema;
mod ops_c14;
mod record;
mod ops_maxsize;
mod samples;
mod guard;
mod ops_c04;
mod ops_acc;
mod ops_codec;
mod ops_dyn;
mod ops_frame;
mod ops_io;
mod ops_schema;
mod schema;
mod prng;
mod sexp;
mod zst;

use std::io::{BufRead, Write};

pub struct Ctx {
    pub prop: String,
    pub line_no: usize,
    pub line: String,
    pub oracle: Vec<String>,
}
impl Ctx {
    pub fn oracle_fail(&mut self, what: String) {
        self.oracle.push(format!("{}\t{}\t{}", self.line_no, self.line, what));
    }
}

#[global_allocator]
static GLOBAL: guard::Counting = guard::Counting;

fn eval_line(ctx: &mut Ctx, line: &str) -> String {
    let xs = match sexp::parse_line(line) {
        Some(x) if !x.is_empty() => x,
        _ => return "bad-op".into(),
    };
    let op = match xs[0].atom() {
        Some(o) => o.to_string(),
        None => return "bad-op".into(),
    };
    let args = &xs[1..];
    if let Some(a) = ops_codec::eval(ctx, &op, args) {
        return a;
    }
    if let Some(a) = ops_dyn::eval(ctx, &op, args) {
        return a;
    }
    if let Some(a) = ops_c14::eval(ctx, &op, args) {
        return a;
    }
    if let Some(a) = ops_io::eval(ctx, &op, args) {
        return a;
    }
    if let Some(a) = ops_maxsize::eval(ctx, &op, args) {
        return a;
    }
    if let Some(a) = ops_c04::eval(ctx, &op, args) {
        return a;
    }
    if let Some(a) = ops_acc::eval(ctx, &op, args) {
        return a;
    }
    if let Some(a) = ops_frame::eval(ctx, &op, args) {
        return a;
    }
    if let Some(a) = ops_schema::eval(ctx, &op, args) {
        return a;
    }
    "bad-op".into()
}

fn main() {
    // everything runs on a thread with a very large stack: values nested thousands of levels deep are part of
    // the input space (the codec, serde and the harness's own s-expression code all recurse per level)
    let t = std::thread::Builder::new().stack_size(4 << 30).spawn(real_main).expect("spawn");
    if t.join().is_err() {
        std::process::exit(101);
    }
}

fn real_main() {
    std::panic::set_hook(Box::new(|_| {}));
    guard::install_handlers();
    let args: Vec<String> = std::env::args().collect();
    let mode = args.get(1).map(|s| s.as_str()).unwrap_or("");
    match mode {
        "gen" => {
            // generators call the real crate for reference data; if it panics, say where (the check reports it)
            std::panic::set_hook(Box::new(|info| eprintln!("panic while generating the stream: {}", info)));
            let prop = args[2].as_str();
            let thorough = args[3] == "thorough";
            let seed: u64 = args[4].parse().expect("seed");
            let mut r = prng::Rng::new(seed);
            let mut out = Vec::new();
            match prop {
                "C01" => {
                    ops_codec::gen_c01(&mut r, thorough, &mut out);
                    ops_c14::gen_real(&mut r, thorough, &mut out);
                }
                "C02" => {
                    ops_codec::gen_c02(&mut r, thorough, &mut out);
                    ops_c14::gen_real(&mut r, thorough, &mut out);
                }
                "C03" => ops_codec::gen_c03(&mut r, thorough, &mut out),
                "C16" => ops_schema::gen_c16(&mut r, thorough, &mut out),
                "C15" => ops_schema::gen_c15(&mut r, thorough, &mut out),
                "C19" => ops_schema::gen_c19(&mut r, thorough, &mut out),
                "C11" => ops_io::gen_c11(&mut r, thorough, &mut out),
                "C17" => ops_dyn::gen_c17(&mut r, thorough, &mut out),
                "C18" => ops_dyn::gen_c18(&mut r, thorough, &mut out),
                "C14" => ops_c14::gen_c14(&mut r, thorough, &mut out),
                "C12" => ops_maxsize::gen_c12(&mut r, thorough, &mut out),
                "C13" => ops_maxsize::gen_c13(&mut r, thorough, &mut out),
                "C04" => ops_c04::gen_c04(&mut r, thorough, &mut out),
                "C08" => ops_acc::gen_acc(&mut r, thorough, false, &mut out),
                "C09" => ops_acc::gen_acc(&mut r, thorough, true, &mut out),
                "C05" => ops_frame::gen_c05(&mut r, thorough, &mut out),
                "C06" => ops_frame::gen_c06(&mut r, thorough, &mut out),
                "C07" => ops_frame::gen_c07(&mut r, thorough, &mut out),
                "C10" => ops_frame::gen_c10(&mut r, thorough, &mut out),
                "C20" => ops_frame::gen_c20(&mut r, thorough, &mut out),
                _ => {
                    eprintln!("unknown property {}", prop);
                    std::process::exit(2);
                }
            }
            let stdout = std::io::stdout();
            let mut w = std::io::BufWriter::new(stdout.lock());
            for l in out {
                writeln!(w, "{}", l).unwrap();
            }
        }
        "eval" => {
            let prop = args[2].clone();
            let oracle_out = args[3].clone();
            let mut ctx = Ctx { prop, line_no: 0, line: String::new(), oracle: Vec::new() };
            // watchdog: an op that does not come back (a loop that no longer terminates in the code under test) must
            // not hang the check - it is reported against its op line, like a fatal signal
            let limit_s: u64 = std::env::var("VERIF_OP_TIMEOUT_S").ok().and_then(|v| v.parse().ok()).unwrap_or(60);
            std::thread::spawn(move || {
                let mut seen = (0usize, std::time::Instant::now());
                loop {
                    std::thread::sleep(std::time::Duration::from_millis(250));
                    let cur = guard::CUR_LINE.load(std::sync::atomic::Ordering::Relaxed);
                    if cur != seen.0 {
                        seen = (cur, std::time::Instant::now());
                    } else if cur != 0 && seen.1.elapsed().as_secs() >= limit_s {
                        eprintln!("FATAL-TIMEOUT the op did not finish within {} s (the code under test no longer terminates, or is pathologically slow) while evaluating op line {}", limit_s, cur);
                        std::process::exit(102);
                    }
                }
            });
            let stdin = std::io::stdin();
            let stdout = std::io::stdout();
            let mut w = std::io::BufWriter::new(stdout.lock());
            for line in stdin.lock().lines() {
                let line = line.unwrap();
                ctx.line_no += 1;
                guard::CUR_LINE.store(ctx.line_no, std::sync::atomic::Ordering::Relaxed);
                ctx.line = line.clone();
                core_ops::poison();
                if matches!(ctx.prop.as_str(), "C14" | "C15" | "C16" | "C17" | "C18" | "C19") {
                    core_ops::poison_schema();
                }
                let a = eval_line(&mut ctx, &line);
                if a.starts_with("FAIL") {
                    ctx.oracle_fail(a.clone());
                }
                writeln!(w, "{}", a).unwrap();
            }
            guard::CUR_LINE.store(0, std::sync::atomic::Ordering::Relaxed);
            w.flush().unwrap();
            std::fs::write(oracle_out, ctx.oracle.join("\n")).unwrap();
        }
        _ => {
            eprintln!("usage: pcverif gen|eval ...");
            std::process::exit(2);
        }
    }
}
