//! Structured generators: type trees and well-typed values aimed at the
//! model's branch boundaries (2^(7k)±1, MAX, float classes, UTF-8 ranges, ...).
use crate::dval::{DTy, DVal};
use crate::prng::Rng;

pub const WIDTHS: [u8; 5] = [8, 16, 32, 64, 128];

pub fn umax(w: u8) -> u128 {
    if w == 128 {
        u128::MAX
    } else {
        (1u128 << w) - 1
    }
}

/// boundary values of an unsigned width: 0,1, 2^(7k)-1, 2^(7k), 2^(7k)+1, MAX-1, MAX, powers of two
pub fn u_boundaries(w: u8) -> Vec<u128> {
    let max = umax(w);
    let mut v = vec![0u128, 1, 2, max, max - 1, max / 2, max / 2 + 1];
    let mut k = 7;
    while k < w as u32 {
        let p = 1u128 << k;
        for x in [p - 1, p, p + 1] {
            if x <= max {
                v.push(x);
            }
        }
        k += 7;
    }
    for b in 0..w as u32 {
        v.push(1u128 << b);
    }
    v.sort();
    v.dedup();
    v
}

pub fn i_boundaries(w: u8) -> Vec<i128> {
    let min: i128 = if w == 128 { i128::MIN } else { -(1i128 << (w - 1)) };
    let max: i128 = if w == 128 { i128::MAX } else { (1i128 << (w - 1)) - 1 };
    let mut v = vec![0i128, 1, -1, 2, -2, min, min + 1, max, max - 1];
    let mut k = 6; // zig-zag: |x| around 2^(7k-1)
    while k < w as u32 - 1 {
        let p = 1i128 << k;
        for x in [p - 1, p, p + 1, -p - 1, -p, -p + 1] {
            if x >= min && x <= max {
                v.push(x);
            }
        }
        k += 7;
    }
    v.sort();
    v.dedup();
    v
}

pub fn gen_u(r: &mut Rng, w: u8) -> u128 {
    if r.chance(1, 2) {
        let b = u_boundaries(w);
        *r.pick(&b)
    } else {
        let bits = r.range(0, w as u64) as u32;
        let x = r.u128();
        if bits == 0 {
            0
        } else if bits >= 128 {
            x
        } else {
            x & ((1u128 << bits) - 1)
        }
    }
}

pub fn gen_i(r: &mut Rng, w: u8) -> i128 {
    if r.chance(1, 2) {
        let b = i_boundaries(w);
        *r.pick(&b)
    } else {
        let bits = r.range(0, w as u64 - 1) as u32;
        let x = r.u128();
        let m = if bits == 0 { 0 } else if bits >= 127 { (x >> 1) as i128 } else { (x & ((1u128 << bits) - 1)) as i128 };
        if r.chance(1, 2) {
            m
        } else {
            -m - 1
        }
    }
}

pub const F32_CLASSES: [u32; 16] = [
    0x0000_0000, 0x8000_0000, 0x3f80_0000, 0xbf80_0000, 0x7f80_0000, 0xff80_0000, 0x7fc0_0000, 0xffc0_0000,
    0x7f80_0001, 0x7fff_ffff, 0xff80_0001, 0x0000_0001, 0x007f_ffff, 0x0080_0000, 0x7f7f_ffff, 0xc200_0600,
];
pub const F64_CLASSES: [u64; 16] = [
    0, 0x8000_0000_0000_0000, 0x3ff0_0000_0000_0000, 0xbff0_0000_0000_0000, 0x7ff0_0000_0000_0000,
    0xfff0_0000_0000_0000, 0x7ff8_0000_0000_0000, 0xfff8_0000_0000_0000, 0x7ff0_0000_0000_0001,
    0x7fff_ffff_ffff_ffff, 0xfff0_0000_0000_0001, 1, 0x000f_ffff_ffff_ffff, 0x0010_0000_0000_0000,
    0x7fef_ffff_ffff_ffff, 0xc040_00c0_0000_0000,
];

pub const CHAR_BOUNDS: [u32; 14] =
    [0, 0x41, 0x7F, 0x80, 0x7FF, 0x800, 0xD7FF, 0xE000, 0xFFFD, 0xFFFF, 0x10000, 0x1F600, 0x10FFFE, 0x10FFFF];

pub fn gen_char(r: &mut Rng) -> char {
    if r.chance(1, 3) {
        char::from_u32(*r.pick(&CHAR_BOUNDS)).unwrap()
    } else {
        loop {
            let c = match r.below(4) {
                0 => r.below(0x80),
                1 => r.range(0x80, 0x7FF),
                2 => r.range(0x800, 0xFFFF),
                _ => r.range(0x10000, 0x10FFFF),
            } as u32;
            if let Some(c) = char::from_u32(c) {
                return c;
            }
        }
    }
}

pub fn gen_len(r: &mut Rng, big: bool) -> usize {
    match r.below(if big { 40 } else { 30 }) {
        0..=7 => 0,
        8..=15 => 1,
        16..=24 => r.range(2, 5) as usize,
        25..=29 => r.range(6, 20) as usize,
        30..=33 => 127,
        34..=37 => 128,
        38 => 16383,
        _ => 16384,
    }
}

pub fn gen_string(r: &mut Rng, big: bool) -> String {
    let n = gen_len(r, big);
    (0..n).map(|_| if n > 200 { (b'a' + r.below(26) as u8) as char } else { gen_char(r) }).collect()
}

pub fn gen_leaf_ty(r: &mut Rng) -> DTy {
    match r.below(20) {
        0 => DTy::Bool,
        1..=5 => DTy::U(*r.pick(&WIDTHS)),
        6..=10 => DTy::I(*r.pick(&WIDTHS)),
        11 => DTy::F32,
        12 => DTy::F64,
        13 => DTy::Char,
        14 | 15 => DTy::Str,
        16 => DTy::Bytes,
        17 => DTy::Unit,
        18 => DTy::UStruct,
        _ => DTy::U(8),
    }
}

pub fn gen_variant_ty(r: &mut Rng, depth: u32) -> DTy {
    match r.below(4) {
        0 => DTy::Unit,
        1 => DTy::NStruct(Box::new(gen_ty(r, depth))),
        2 => DTy::Tuple(gen_tys(r, depth)),
        _ => DTy::Struct(gen_tys(r, depth)),
    }
}

fn gen_tys(r: &mut Rng, depth: u32) -> Vec<DTy> {
    let n = match r.below(10) {
        0 => 0,
        1 | 2 => 1,
        3..=6 => 2,
        7 | 8 => 3,
        _ => r.range(4, 7),
    };
    (0..n).map(|_| gen_ty(r, depth)).collect()
}

pub fn gen_ty(r: &mut Rng, depth: u32) -> DTy {
    if depth == 0 || r.chance(2, 5) {
        return gen_leaf_ty(r);
    }
    let d = depth - 1;
    match r.below(9) {
        0 => DTy::Option(Box::new(gen_ty(r, d))),
        1 => DTy::NStruct(Box::new(gen_ty(r, d))),
        2 => DTy::Seq(Box::new(gen_ty(r, d))),
        3 => DTy::Tuple(gen_tys(r, d)),
        4 => DTy::TStruct(gen_tys(r, d)),
        5 => DTy::Map(Box::new(gen_ty(r, d)), Box::new(gen_ty(r, d))),
        6 => DTy::Struct(gen_tys(r, d)),
        _ => {
            let n = match r.below(12) {
                0..=7 => r.range(1, 4),
                8 => 127,
                9 => 128,
                10 => 129,
                _ => r.range(5, 12),
            };
            DTy::Enum((0..n).map(|_| if n > 20 { if r.chance(9, 10) { DTy::Unit } else { gen_variant_ty(r, 0) } } else { gen_variant_ty(r, d) }).collect())
        }
    }
}

/// is every value of this type zero bytes wide on the wire?
pub fn zero_width(t: &DTy) -> bool {
    match t {
        DTy::Unit | DTy::UStruct => true,
        DTy::NStruct(t) => zero_width(t),
        DTy::Tuple(ts) | DTy::TStruct(ts) | DTy::Struct(ts) => ts.iter().all(zero_width),
        _ => false,
    }
}

pub fn gen_val(r: &mut Rng, t: &DTy, big: bool) -> DVal {
    match t {
        DTy::Bool => DVal::Bool(r.chance(1, 2)),
        DTy::U(w) => DVal::U(*w, gen_u(r, *w)),
        DTy::I(w) => DVal::I(*w, gen_i(r, *w)),
        DTy::F32 => DVal::F32(if r.chance(1, 2) { *r.pick(&F32_CLASSES) } else { r.next() as u32 }),
        DTy::F64 => DVal::F64(if r.chance(1, 2) { *r.pick(&F64_CLASSES) } else { r.next() }),
        DTy::Char => DVal::Char(gen_char(r)),
        DTy::Str => DVal::Str(gen_string(r, big)),
        DTy::Bytes => {
            let n = gen_len(r, big);
            DVal::Bytes(r.bytes(n))
        }
        DTy::Option(t) => {
            if r.chance(1, 3) {
                DVal::None
            } else {
                DVal::Some(Box::new(gen_val(r, t, false)))
            }
        }
        DTy::Unit => DVal::Unit,
        DTy::UStruct => DVal::UStruct,
        DTy::NStruct(t) => DVal::NStruct(Box::new(gen_val(r, t, big))),
        DTy::Seq(t) => {
            let n = gen_len(r, big).min(if big { 200 } else { 6 });
            DVal::Seq((0..n).map(|_| gen_val(r, t, false)).collect())
        }
        DTy::Tuple(ts) => DVal::Tuple(ts.iter().map(|t| gen_val(r, t, false)).collect()),
        DTy::TStruct(ts) => DVal::TStruct(ts.iter().map(|t| gen_val(r, t, false)).collect()),
        DTy::Struct(ts) => DVal::Struct(ts.iter().map(|t| gen_val(r, t, false)).collect()),
        DTy::Map(k, v) => {
            let n = gen_len(r, big).min(if big { 130 } else { 4 });
            let mut out = Vec::new();
            for _ in 0..n {
                out.push(gen_val(r, k, false));
                out.push(gen_val(r, v, false));
            }
            DVal::Map(out)
        }
        DTy::Enum(vs) => {
            let i = match r.below(4) {
                0 => 0,
                1 => vs.len() - 1,
                _ => r.below(vs.len() as u64) as usize,
            };
            match &vs[i] {
                DTy::Unit => DVal::UVar(i as u32),
                DTy::NStruct(t) => DVal::NVar(i as u32, Box::new(gen_val(r, t, false))),
                DTy::Tuple(ts) => DVal::TVar(i as u32, ts.iter().map(|t| gen_val(r, t, false)).collect()),
                DTy::Struct(ts) => DVal::SVar(i as u32, ts.iter().map(|t| gen_val(r, t, false)).collect()),
                _ => DVal::UVar(i as u32),
            }
        }
        DTy::EnumAt(i, vt) => match &**vt {
            DTy::NStruct(t) => DVal::NVar(*i, Box::new(gen_val(r, t, false))),
            DTy::Tuple(ts) => DVal::TVar(*i, ts.iter().map(|t| gen_val(r, t, false)).collect()),
            DTy::Struct(ts) => DVal::SVar(*i, ts.iter().map(|t| gen_val(r, t, false)).collect()),
            _ => DVal::UVar(*i),
        },
        DTy::Any | DTy::Identifier | DTy::Ignored => DVal::Unit,
    }
}

/// enums with ONE accepted discriminant anywhere in the u32 range (what a hand-written Deserialize impl with
/// sparse discriminants looks like): every varint width of the index, all four variant shapes
pub fn enum_at_cases(r: &mut Rng) -> Vec<(u32, DTy, DVal)> {
    let idxs: [u32; 18] = [0, 1, 127, 128, 300, 16383, 16384, (1 << 21) - 1, 1 << 21, (1 << 28) - 1, 1 << 28, (1 << 28) + 1, 0x1234_5678, 1 << 31, (1 << 31) + 5, u32::MAX - 1, u32::MAX, 0x8000_0080];
    let mut out = Vec::new();
    for (k, i) in idxs.iter().enumerate() {
        let shapes = [
            DTy::Unit,
            DTy::NStruct(Box::new(if k % 2 == 0 { DTy::U(16) } else { DTy::Str })),
            DTy::Tuple(vec![DTy::U(8), DTy::Option(Box::new(DTy::I(32)))]),
            DTy::Struct(vec![DTy::Bool, DTy::Bytes]),
        ];
        for vt in shapes {
            let t = DTy::EnumAt(*i, Box::new(vt.clone()));
            let v = gen_val(r, &t, false);
            out.push((*i, vt, v));
        }
    }
    out
}

/// all 29 kinds appear in this fixed list of (type, value) pairs
pub fn kind_corpus() -> Vec<(DTy, DVal)> {
    use DTy as T;
    use DVal as V;
    let b = |t: DTy| Box::new(t);
    let bv = |v: DVal| Box::new(v);
    let en = T::Enum(vec![T::Unit, T::NStruct(b(T::I(32))), T::Tuple(vec![T::U(8), T::Str]), T::Struct(vec![T::Bool, T::U(64)])]);
    vec![
        (T::Bool, V::Bool(true)),
        (T::I(8), V::I(8, -128)),
        (T::I(16), V::I(16, -32768)),
        (T::I(32), V::I(32, i32::MIN as i128)),
        (T::I(64), V::I(64, i64::MIN as i128)),
        (T::I(128), V::I(128, i128::MIN)),
        (T::U(8), V::U(8, 255)),
        (T::U(16), V::U(16, 65535)),
        (T::U(32), V::U(32, u32::MAX as u128)),
        (T::U(64), V::U(64, u64::MAX as u128)),
        (T::U(128), V::U(128, u128::MAX)),
        (T::F32, V::F32(0xc200_0600)),
        (T::F64, V::F64(0xc040_00c0_0000_0000)),
        (T::Char, V::Char('\u{10FFFF}')),
        (T::Str, V::Str("hello, postcard! \u{00e9}\u{4e16}\u{1F600}".into())),
        (T::Bytes, V::Bytes(vec![0, 1, 2, 255])),
        (T::Option(b(T::U(16))), V::None),
        (T::Option(b(T::U(16))), V::Some(bv(V::U(16, 300)))),
        (T::Unit, V::Unit),
        (T::UStruct, V::UStruct),
        (en.clone(), V::UVar(0)),
        (T::NStruct(b(T::Str)), V::NStruct(bv(V::Str("x".into())))),
        (en.clone(), V::NVar(1, bv(V::I(32, -2)))),
        (T::Seq(b(T::U(16))), V::Seq(vec![V::U(16, 1), V::U(16, 128), V::U(16, 16384)])),
        (T::Tuple(vec![T::U(8), T::Bool]), V::Tuple(vec![V::U(8, 7), V::Bool(false)])),
        (T::TStruct(vec![T::U(8), T::Bool]), V::TStruct(vec![V::U(8, 7), V::Bool(false)])),
        (en.clone(), V::TVar(2, vec![V::U(8, 9), V::Str("ab".into())])),
        (T::Map(b(T::Str), b(T::U(32))), V::Map(vec![V::Str("a".into()), V::U(32, 1), V::Str("b".into()), V::U(32, 70000)])),
        (T::Struct(vec![T::U(16), T::U(8)]), V::Struct(vec![V::U(16, 0xABCD), V::U(8, 0xFE)])),
        (en, V::SVar(3, vec![V::Bool(true), V::U(64, 1 << 40)])),
    ]
}

/// does the type contain a sequence / map whose elements are all zero bytes wide?
pub fn has_zero_width_seq(t: &DTy) -> bool {
    match t {
        DTy::Seq(e) => zero_width(e) || has_zero_width_seq(e),
        DTy::Map(k, v) => (zero_width(k) && zero_width(v)) || has_zero_width_seq(k) || has_zero_width_seq(v),
        DTy::Option(t) | DTy::NStruct(t) => has_zero_width_seq(t),
        DTy::Tuple(ts) | DTy::TStruct(ts) | DTy::Struct(ts) | DTy::Enum(ts) => ts.iter().any(has_zero_width_seq),
        _ => false,
    }
}

/// "header-only" values: a variant index / length prefix / option tag followed by NOTHING (no fields, or fields of
/// zero width). If the one write they make is refused and the refusal is dropped, nothing later fails either.
pub fn header_only_vals() -> Vec<(DTy, DVal)> {
    let mut cases: Vec<(DTy, DVal)> = Vec::new();
    for idx in [0u32, 1, 127, 128, 300, 20000] {
        let pad = |vt: DTy| DTy::EnumAt(idx, Box::new(vt));
        cases.push((pad(DTy::Unit), DVal::UVar(idx)));
        cases.push((pad(DTy::Tuple(vec![])), DVal::TVar(idx, vec![])));
        cases.push((pad(DTy::Struct(vec![])), DVal::SVar(idx, vec![])));
        cases.push((pad(DTy::NStruct(Box::new(DTy::Unit))), DVal::NVar(idx, Box::new(DVal::Unit))));
        cases.push((pad(DTy::Tuple(vec![DTy::Unit, DTy::UStruct])), DVal::TVar(idx, vec![DVal::Unit, DVal::UStruct])));
        cases.push((pad(DTy::Struct(vec![DTy::Tuple(vec![])])), DVal::SVar(idx, vec![DVal::Tuple(vec![])])));
    }
    for n in [0usize, 1, 2, 127, 128, 300] {
        cases.push((DTy::Seq(Box::new(DTy::Unit)), DVal::Seq(vec![DVal::Unit; n])));
        cases.push((DTy::Map(Box::new(DTy::Unit), Box::new(DTy::UStruct)), DVal::Map((0..n).flat_map(|_| [DVal::Unit, DVal::UStruct]).collect())));
    }
    cases.push((DTy::Str, DVal::Str(String::new())));
    cases.push((DTy::Bytes, DVal::Bytes(vec![])));
    cases.push((DTy::Option(Box::new(DTy::Unit)), DVal::Some(Box::new(DVal::Unit))));
    cases.push((DTy::Tuple(vec![DTy::U(8), DTy::Option(Box::new(DTy::Tuple(vec![])))]), DVal::Tuple(vec![DVal::U(8, 9), DVal::Some(Box::new(DVal::Tuple(vec![])))])));
    cases
}
