//! Ops and generators for the accumulator properties C08, C09.
//!   acc <N> <ty> <chunk-hex>*     feed the chunks through the documented drain loop;
//!                                 answer = every FeedResult and the buffered bytes after every call
use crate::core_ops::*;
use crate::dval::{with_ty, DTy, DVal, DynVal};
use crate::gen::*;
use crate::prng::Rng;
use crate::sexp::{hex, unhex, Sexp};
use crate::Ctx;
use postcard::accumulator::{CobsAccumulator, FeedResult};

pub const CAPS: [usize; 12] = [1, 2, 3, 4, 5, 6, 7, 8, 10, 16, 32, 64];

#[derive(Debug, Clone, PartialEq)]
enum Ev {
    Consumed,
    OverFull(Vec<u8>),
    DeserError(Vec<u8>),
    Success(DVal, Vec<u8>),
}

fn run_acc<const N: usize>(t: &DTy, chunks: &[Vec<u8>], mode: u8) -> Result<Vec<(Ev, Vec<u8>, usize)>, String> {
    let mut acc: CobsAccumulator<N> = CobsAccumulator::new();
    let mut out = Vec::new();
    // which entry point serves call number k on this ONE accumulator: 0 = always feed, 1 = always feed_ref,
    // 2 / 3 = alternating (starting with feed_ref / feed), 4 = a fixed pseudo-random pattern
    let mut calls = 0u64;
    // absolute stream offset at which the current chunk starts
    let mut base = 0usize;
    for c in chunks {
        let mut window: &[u8] = &c[..];
        let mut iters = 0usize;
        // an empty chunk (a read that returned no bytes) is handed to feed exactly once
        let mut first = true;
        while first || !window.is_empty() {
            first = false;
            iters += 1;
            if iters > 2 * c.len() + 2 {
                return Err("FAIL the documented feed loop did not terminate within 2*len+2 calls".into());
            }
            let by_ref = match mode {
                0 => false,
                1 => true,
                2 => calls % 2 == 0,
                3 => calls % 2 == 1,
                _ => (calls.wrapping_mul(0x9E37_79B9_7F4A_7C15) >> 61) & 1 == 1,
            };
            calls += 1;
            let r: FeedResult<'_, DynVal> = with_ty(t, || if by_ref { acc.feed_ref::<DynVal>(window) } else { acc.feed::<DynVal>(window) });
            let (ev, next) = match r {
                FeedResult::Consumed => (Ev::Consumed, None),
                FeedResult::OverFull(w) => (Ev::OverFull(w.to_vec()), Some(w)),
                FeedResult::DeserError(w) => (Ev::DeserError(w.to_vec()), Some(w)),
                FeedResult::Success { data, remaining } => (Ev::Success(data.0, remaining.to_vec()), Some(remaining)),
            };
            // how far into the STREAM this call got: everything before the remainder it hands back
            let abs_end = base + c.len() - next.map(|w| w.len()).unwrap_or(0);
            out.push((ev, acc.verif_buffered().to_vec(), abs_end));
            match next {
                None => break,
                Some(w) => {
                    // conservation: what the call returns is a suffix of what it was given
                    if w.len() > window.len() || window[window.len() - w.len()..] != *w {
                        return Err("FAIL returned remainder is not a suffix of the chunk that was fed".into());
                    }
                    window = w;
                }
            }
        }
        base += c.len();
    }
    Ok(out)
}

fn run_n(n: usize, t: &DTy, chunks: &[Vec<u8>], by_ref: u8) -> Option<Result<Vec<(Ev, Vec<u8>, usize)>, String>> {
    Some(match n {
        1 => run_acc::<1>(t, chunks, by_ref),
        2 => run_acc::<2>(t, chunks, by_ref),
        3 => run_acc::<3>(t, chunks, by_ref),
        4 => run_acc::<4>(t, chunks, by_ref),
        5 => run_acc::<5>(t, chunks, by_ref),
        6 => run_acc::<6>(t, chunks, by_ref),
        7 => run_acc::<7>(t, chunks, by_ref),
        8 => run_acc::<8>(t, chunks, by_ref),
        10 => run_acc::<10>(t, chunks, by_ref),
        16 => run_acc::<16>(t, chunks, by_ref),
        32 => run_acc::<32>(t, chunks, by_ref),
        64 => run_acc::<64>(t, chunks, by_ref),
        255 => run_acc::<255>(t, chunks, by_ref),
        256 => run_acc::<256>(t, chunks, by_ref),
        257 => run_acc::<257>(t, chunks, by_ref),
        258 => run_acc::<258>(t, chunks, by_ref),
        300 => run_acc::<300>(t, chunks, by_ref),
        512 => run_acc::<512>(t, chunks, by_ref),
        1024 => run_acc::<1024>(t, chunks, by_ref),
        _ => return None,
    })
}

fn isolated(t: &DTy, seg_with_zero: &[u8]) -> Option<DVal> {
    let mut c = seg_with_zero.to_vec();
    with_ty(t, || postcard::from_bytes_cobs::<DynVal>(&mut c).ok().map(|v| v.0))
}

fn ev_str(e: &Ev, b: &[u8]) -> String {
    let mut s = match e {
        Ev::Consumed => "C".to_string(),
        Ev::OverFull(r) => format!("O rem={}", hex(r)),
        Ev::DeserError(r) => format!("E rem={}", hex(r)),
        Ev::Success(v, r) => format!("S {} rem={}", v, hex(r)),
    };
    s.push_str(&format!(" buf={}", hex(b)));
    s
}

pub fn eval(ctx: &mut Ctx, op: &str, args: &[Sexp]) -> Option<String> {
    if op == "accrep" {
        // accrep <N> <ty> <count> <chunk> <tail>: the same chunk `count` times into ONE accumulator, then a tail
        let n: usize = args.first()?.atom()?.parse().ok()?;
        let t = DTy::from_sexp(args.get(1)?)?;
        let count: usize = args.get(2)?.atom()?.parse().ok()?;
        let chunk = unhex(args.get(3)?.atom()?)?;
        let tail = unhex(args.get(4)?.atom()?)?;
        let mut chunks = vec![chunk; count];
        chunks.push(tail);
        let mut answers = Vec::new();
        for by_ref in [0u8, 1] {
            let evs = match guard(|| run_n(n, &t, &chunks, by_ref)) {
                Err(()) => {
                    ctx.oracle_fail("the accumulator panicked during a long history".into());
                    return Some("FAIL panic in CobsAccumulator during a long history".into());
                }
                Ok(r) => match r? {
                    Ok(e) => e,
                    Err(e) => return Some(e),
                },
            };
            let tally = |f: fn(&Ev) -> bool| evs.iter().filter(|(e, _, _)| f(e)).count();
            let mut s = format!(
                "accrep events={} C={} O={} E={} S={}",
                evs.len(),
                tally(|e| matches!(e, Ev::Consumed)),
                tally(|e| matches!(e, Ev::OverFull(_))),
                tally(|e| matches!(e, Ev::DeserError(_))),
                tally(|e| matches!(e, Ev::Success(..)))
            );
            for (e, b, _) in &evs[evs.len().saturating_sub(6)..] {
                s.push_str(" ; ");
                s.push_str(&ev_str(e, b));
            }
            answers.push(s);
        }
        if answers[0] != answers[1] {
            return Some("FAIL feed and feed_ref disagree over a long history".into());
        }
        return Some(answers.swap_remove(0));
    }
    if op != "acc" {
        return None;
    }
    let n: usize = args.first()?.atom()?.parse().ok()?;
    let t = DTy::from_sexp(args.get(1)?)?;
    let mut chunks = Vec::new();
    for a in &args[2..] {
        chunks.push(unhex(a.atom()?)?);
    }
    let r = match guard(|| run_n(n, &t, &chunks, 0)) {
        Err(()) => return Some("FAIL panic in CobsAccumulator::feed".into()),
        Ok(r) => r?,
    };
    let r2 = match guard(|| run_n(n, &t, &chunks, 1)) {
        Err(()) => return Some("FAIL panic in CobsAccumulator::feed_ref".into()),
        Ok(r) => r?,
    };
    // the two entry points MIXED on one accumulator (alternating both ways, and a fixed irregular pattern)
    // must behave like either of them alone: the buffered state is shared
    for mode in [2u8, 3, 4] {
        match guard(|| run_n(n, &t, &chunks, mode)) {
            Err(()) => return Some("FAIL panic when feed and feed_ref are mixed on one accumulator".into()),
            Ok(rm) => match (rm?, &r) {
                (Ok(a), Ok(b)) if a == *b => {}
                (Err(e), _) => return Some(e),
                (Ok(_), Err(_)) => {}
                (Ok(_), Ok(_)) => return Some(format!("FAIL mixing feed and feed_ref on one accumulator (pattern {}) gives different results than feed alone", mode)),
            },
        }
    }
    let evs = match (r, r2) {
        (Ok(a), Ok(b)) => {
            if a != b {
                return Some("FAIL feed and feed_ref disagree".into());
            }
            a
        }
        (Err(e), _) | (_, Err(e)) => return Some(e),
    };
    // ---- oracle, independent of the model (C08 / C09) ----
    let stream: Vec<u8> = chunks.concat();
    let mut segs: Vec<&[u8]> = stream.split(|b| *b == 0).collect();
    let tail = segs.pop().unwrap_or(&[]);
    let fits = segs.iter().all(|s| s.len() + 1 <= n) && tail.len() <= n;
    let frame_results: Vec<&Ev> = evs.iter().map(|(e, _, _)| e).filter(|e| !matches!(e, Ev::Consumed)).collect();
    if fits {
        if frame_results.len() != segs.len() {
            ctx.oracle_fail(format!("{} results for {} zero bytes although every segment fits", frame_results.len(), segs.len()));
        } else {
            for (s, e) in segs.iter().zip(&frame_results) {
                let mut f = s.to_vec();
                f.push(0);
                let want = isolated(&t, &f);
                let ok = match (e, &want) {
                    (Ev::Success(v, _), Some(w)) => v == w,
                    (Ev::DeserError(_), None) => true,
                    _ => false,
                };
                if !ok {
                    ctx.oracle_fail(format!("segment {} delivered as {:?}, isolated decoding gives {:?}", hex(&f), e, want.map(|v| v.to_string())));
                }
            }
        }
        if evs.last().map(|(_, b, _)| b.as_slice()).unwrap_or(&[]) != tail && !evs.is_empty() {
            ctx.oracle_fail("buffer after the run is not the unterminated tail".into());
        }
    }
    if stream.last() == Some(&0) && evs.last().map(|(_, b, _)| !b.is_empty()).unwrap_or(false) {
        ctx.oracle_fail("accumulator not back in its initial state after a zero byte".into());
    }
    // per segment, whatever the accumulator does in between (C09): identified by WHERE in the stream a call ended.
    //  * an over-long segment: an OverFull result from a call that ended inside it or at its sentinel
    //    ("before that segment's sentinel is passed");
    //  * a fitting segment (it follows a zero byte, or starts the stream): a result from the call that consumed its
    //    sentinel, equal to decoding the segment in isolation ("delivered intact").
    // What else is reported while an over-long segment goes by (its tail used to be treated as a frame of its own)
    // is not constrained.
    let mut pos = 0usize;
    for seg in segs.iter() {
        let (start, end) = (pos, pos + seg.len() + 1);
        pos = end;
        if seg.len() + 1 > n {
            let reported = evs.iter().any(|(e, _, at)| matches!(e, Ev::OverFull(_)) && *at > start && *at <= end);
            if !reported {
                ctx.oracle_fail(format!("over-long segment (stream bytes {}..{}) not reported as OverFull before its sentinel was passed", start, end));
            }
        } else {
            let mut f = seg.to_vec();
            f.push(0);
            let want = isolated(&t, &f);
            let delivered = evs.iter().any(|(e, _, at)| {
                *at == end
                    && match (e, &want) {
                        (Ev::Success(v, _), Some(w)) => v == w,
                        (Ev::DeserError(_), None) => true,
                        _ => false,
                    }
            });
            if !delivered {
                ctx.oracle_fail(format!("the frame {} that follows a zero byte (or starts the stream) was not delivered intact (isolated decoding: {:?})", hex(&f), want.map(|v| v.to_string())));
            }
        }
    }
    let mut s = String::from("acc");
    for (e, b, _) in &evs {
        match e {
            Ev::Consumed => s.push_str(" ; C"),
            Ev::OverFull(r) => s.push_str(&format!(" ; O rem={}", hex(r))),
            Ev::DeserError(r) => s.push_str(&format!(" ; E rem={}", hex(r))),
            Ev::Success(v, r) => s.push_str(&format!(" ; S {} rem={}", v, hex(r))),
        }
        s.push_str(&format!(" buf={}", hex(b)));
    }
    Some(s)
}

// ------------------------------------------------------------------ generators

/// all compositions of `s` into non-empty chunks: bit i of `mask` set = cut after byte i
fn chunking(s: &[u8], mask: u64) -> Vec<Vec<u8>> {
    let mut out = Vec::new();
    let mut cur = Vec::new();
    for (i, b) in s.iter().enumerate() {
        cur.push(*b);
        if i + 1 < s.len() && (mask >> i) & 1 == 1 {
            out.push(std::mem::take(&mut cur));
        }
    }
    if !cur.is_empty() {
        out.push(cur);
    }
    out
}

fn fmt_acc(n: usize, t: &DTy, chunks: &[Vec<u8>]) -> String {
    let mut s = format!("acc {} {}", n, t);
    for c in chunks {
        s.push(' ');
        s.push_str(&hex(c));
    }
    s
}

fn segment_pool(r: &mut Rng, t: &DTy) -> Vec<Vec<u8>> {
    // valid frames, corrupt frames, empty frames, garbage (each WITH its terminating zero)
    let mut pool: Vec<Vec<u8>> = vec![vec![0], vec![1, 0], vec![2, 0], vec![5, 1, 0], vec![3, 0xFF, 0x01, 0]];
    for _ in 0..6 {
        let v = gen_val(r, t, false);
        if let Ok(f) = postcard::to_allocvec_cobs(&v) {
            if f.len() <= 9 {
                pool.push(f.clone());
                let mut c = f.clone();
                let k = r.below((c.len() - 1) as u64) as usize;
                c[k] = (c[k] ^ (1 + r.below(254) as u8)).max(1);
                pool.push(c);
            }
        }
    }
    pool
}

pub fn gen_acc(r: &mut Rng, thorough: bool, overflow: bool, out: &mut Vec<String>) {
    // a chunk boundary right before a frame's sentinel, and the next chunk OPENS with that sentinel followed by a run
    // of further zero bytes (an idle line / zero padding read through a fixed-size buffer): the pending frame is
    // delivered, every further zero is an (empty) frame of its own
    for zeros in [1usize, 2, 7, 8, 9, 16, 33] {
        for (n, t, body) in [(8usize, DTy::U(8), vec![0x02u8, 0x2A]), (16, DTy::Tuple(vec![DTy::U(8), DTy::U(16)]), vec![0x04, 0x07, 0x80, 0x01]), (64, DTy::Bytes, vec![0x04, 0x02, 0x11, 0x22])] {
            let mut second = vec![0u8; zeros];
            second.extend_from_slice(&body);
            second.push(0);
            out.push(fmt_acc(n, &t, &[body.clone(), second.clone()]));
            out.push(fmt_acc(n, &t, &[body[..1].to_vec(), body[1..].to_vec(), second.clone()]));
            out.push(fmt_acc(n, &t, &[vec![0u8; zeros], body.clone(), vec![0u8; zeros]]));
        }
    }
    // an UNTERMINATED tail that fills the buffer exactly (N zero-free bytes and no sentinel yet): it fits, so it is
    // buffered without any result - delivered whole, in every chunking, after a frame, and byte by byte
    for n in [1usize, 2, 3, 4, 5, 8] {
        let t = DTy::U(8);
        for (pre, tail_len) in [(vec![], n), (vec![0x02u8, 0x07, 0x00], n), (vec![], n - 1), (vec![0x00], n)] {
            let mut s: Vec<u8> = pre.clone();
            s.extend((0..tail_len).map(|i| 1 + ((i * 37 + n) % 255) as u8));
            if s.is_empty() || s.len() > 12 {
                continue;
            }
            if pre.len() + 1 > n && !overflow && !pre.is_empty() && pre != vec![0x00] {
                continue; // the leading frame would not fit this capacity: C09's territory
            }
            for mask in 0..(1u64 << (s.len() - 1)) {
                out.push(fmt_acc(n, &t, &chunking(&s, mask)));
            }
        }
    }
    // (incl. types whose wire form is zero bytes: an empty frame is then a VALID message)
    let tys = [DTy::U(8), DTy::Tuple(vec![DTy::U(8), DTy::U(16)]), DTy::Bytes, DTy::Str, DTy::Struct(vec![DTy::U(32), DTy::U(8)]), DTy::Option(Box::new(DTy::I(16))), DTy::Unit, DTy::Tuple(vec![]), DTy::UStruct];
    let maxlen = if thorough { 13 } else { 8 };
    let streams = if thorough { 400 } else { 60 };
    for si in 0..streams {
        let t = &tys[si % tys.len()];
        let pool = segment_pool(r, t);
        // build a stream of length ≤ maxlen from pool segments (+ optional unterminated tail)
        let mut s: Vec<u8> = Vec::new();
        loop {
            let seg = r.pick(&pool).clone();
            if s.len() + seg.len() > maxlen {
                break;
            }
            s.extend(seg);
        }
        if r.chance(1, 2) && s.len() < maxlen {
            let k = r.range(1, (maxlen - s.len()).min(3) as u64) as usize;
            s.extend((0..k).map(|_| 1 + r.below(255) as u8));
        }
        if s.is_empty() {
            continue;
        }
        let longest = s.split(|b| *b == 0).map(|x| x.len() + 1).max().unwrap_or(1);
        // capacities: exactly / one less / one more than the longest segment, plus a roomy one
        let mut caps: Vec<usize> = Vec::new();
        for c in [longest, longest + 1, 64] {
            if CAPS.contains(&c) {
                caps.push(c);
            }
        }
        if overflow {
            for c in [longest.saturating_sub(1), longest.saturating_sub(2), 1, 2] {
                if CAPS.contains(&c) && !caps.contains(&c) {
                    caps.push(c);
                }
            }
        }
        for n in caps {
            // every one of the 2^(len-1) chunkings
            for mask in 0..(1u64 << (s.len() - 1)) {
                let mut cs = chunking(&s, mask);
                if mask % 8 == 5 {
                    // empty reads anywhere in the history change nothing
                    let k = (mask as usize / 8) % (cs.len() + 1);
                    cs.insert(k, Vec::new());
                }
                out.push(fmt_acc(n, t, &cs));
            }
        }
    }
    // long frames (more than one COBS block) in large accumulators: delivered whole, cut at every interesting
    // position, byte by byte, after garbage, after another frame
    let big_caps = [255usize, 256, 257, 258, 300, 512, 1024];
    let plens: Vec<usize> = if thorough { (248..=260).chain(504..=514).collect() } else { vec![250, 252, 253, 254, 255, 256, 300, 506, 508, 510] };
    for (pi, plen) in plens.iter().enumerate() {
        for zero_free in [true, false] {
            let body: Vec<u8> = (0..*plen).map(|i| if zero_free || i % 97 != 5 { 1 + r.below(255) as u8 } else { 0 }).collect();
            let (t, v) = if pi % 2 == 0 { (DTy::Bytes, DVal::Bytes(body)) } else { (DTy::Tuple(vec![DTy::Bytes, DTy::U(8)]), DVal::Tuple(vec![DVal::Bytes(body), DVal::U(8, 9)])) };
            let f = match postcard::to_allocvec_cobs(&v) {
                Ok(f) => f,
                Err(_) => continue,
            };
            let mut damaged = f.clone();
            let k = r.below((f.len() - 1) as u64) as usize;
            damaged[k] = (damaged[k] ^ 0x55).max(1);
            for n in big_caps {
                if !overflow && n < f.len() {
                    continue;
                }
                if overflow && n >= f.len() + 200 {
                    continue;
                }
                out.push(fmt_acc(n, &t, &[f.clone()]));
                out.push(fmt_acc(n, &t, &[damaged.clone()]));
                for cut in [1usize, 2, 253, 254, 255, 256, 257, f.len() - 2, f.len() - 1] {
                    if cut < f.len() {
                        out.push(fmt_acc(n, &t, &[f[..cut].to_vec(), f[cut..].to_vec()]));
                    }
                }
                // two frames back to back in one chunk, and a frame behind garbage ending in a zero
                let mut two = f.clone();
                two.extend_from_slice(&f);
                out.push(fmt_acc(n, &t, &[two]));
                let mut g = vec![0x07, 0x07, 0x00];
                g.extend_from_slice(&f);
                out.push(fmt_acc(n, &t, &[g]));
                if pi % 3 == 0 && zero_free {
                    out.push(fmt_acc(n, &t, &f.iter().map(|b| vec![*b]).collect::<Vec<_>>()));
                }
            }
        }
    }
    // endurance: one accumulator lives for a very long history (more events than any 16-bit counter holds);
    // afterwards a good frame is still delivered
    if overflow {
        let reps = if thorough { 200_000 } else { 70_000 };
        out.push(format!("accrep 2 u8 {} x07070700 x020900", reps)); // an over-long segment with its sentinel, again and again
        out.push(format!("accrep 1 u8 {} x0707 x00020900", reps)); // overflow without a sentinel in the chunk
        out.push(format!("accrep 4 u8 {} x02ff00 x020900", reps)); // good frames
        out.push(format!("accrep 4 u16 {} x020500 x03ac0200", reps)); // frames that fail to decode (u16 needs more)
    }
    // long random histories
    let n = if thorough { 20_000 } else { 600 };
    for i in 0..n {
        let t = &tys[i % tys.len()];
        let pool = segment_pool(r, t);
        let mut s: Vec<u8> = Vec::new();
        for _ in 0..r.range(1, 14) {
            if overflow && r.chance(1, 4) {
                let k = r.range(1, 90) as usize;
                s.extend((0..k).map(|_| 1 + r.below(255) as u8));
                s.push(0);
            } else {
                s.extend(r.pick(&pool).clone());
            }
        }
        let cap = if overflow { *r.pick(&CAPS) } else { *r.pick(&[16usize, 32, 64]) };
        let mut chunks = Vec::new();
        let mut i0 = 0;
        while i0 < s.len() {
            let k = match r.below(4) {
                0 => 1,
                1 => r.range(1, 4),
                2 => r.range(1, 16),
                _ => r.range(1, 70),
            } as usize;
            let e = (i0 + k).min(s.len());
            chunks.push(s[i0..e].to_vec());
            i0 = e;
        }
        if r.chance(1, 4) {
            for _ in 0..r.range(1, 3) {
                let k = r.below(chunks.len() as u64 + 1) as usize;
                chunks.insert(k, Vec::new());
            }
        }
        out.push(fmt_acc(cap, t, &chunks));
    }
}
