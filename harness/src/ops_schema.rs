//! Ops and generators for the schema properties C15, C16, C19.
//!   key <path> <schema>                 C16: both hashers (const/borrowed via hook, owned) must agree
//!   keydiff <kind> <path> <s1> <s2>     C16: `same` / `differ`; oracle: a type-name change keeps the key, every other listed change alters it
//!   keypath <p1> <p2> <schema>          C16: path sensitivity
use crate::prng::Rng;
use crate::schema::*;
use crate::sexp::{hex, unhex, Sexp};
use crate::Ctx;
use postcard_schema::key::hash::{fnv1a64, fnv1a64_owned};
use postcard_schema::schema::owned::OwnedDataModelType as O;

fn keys(path: &str, o: &O) -> Result<[u8; 8], String> {
    let owned = fnv1a64_owned::hash_ty_path_owned(path, o);
    let b = leak(o);
    let stat = fnv1a64::verif_hash_static(path, b);
    let conv = fnv1a64_owned::hash_ty_path_owned(path, &O::from(b));
    let k = postcard_schema::key::Key::for_owned_schema_path(path, o).to_bytes();
    if owned != stat || owned != conv || owned != k {
        return Err(format!("FAIL hashers disagree: static={} owned={} owned-of-converted={} Key={}", hex(&stat), hex(&owned), hex(&conv), hex(&k)));
    }
    Ok(owned)
}

fn path_of(x: &Sexp) -> Option<String> {
    String::from_utf8(unhex(x.atom()?)?).ok()
}

pub fn eval(ctx: &mut Ctx, op: &str, args: &[Sexp]) -> Option<String> {
    match op {
        "key" => {
            let p = path_of(args.first()?)?;
            let s = parse(args.get(1)?)?;
            Some(match keys(&p, &s) {
                Ok(k) => format!("ok {}", hex(&k)),
                Err(e) => e,
            })
        }
        "keydiff" => {
            let kind = args.first()?.atom()?.to_string();
            let p = path_of(args.get(1)?)?;
            let s1 = parse(args.get(2)?)?;
            let s2 = parse(args.get(3)?)?;
            let (k1, k2) = match (keys(&p, &s1), keys(&p, &s2)) {
                (Ok(a), Ok(b)) => (a, b),
                (Err(e), _) | (_, Err(e)) => return Some(e),
            };
            let same = k1 == k2;
            if kind == "type-name" && !same {
                ctx.oracle_fail("key depends on a struct/enum type name".into());
            }
            if kind != "type-name" && same && s1 != s2 {
                ctx.oracle_fail(format!("key unchanged under a {} change (collision)", kind));
            }
            Some(format!("ok {}", if same { "same" } else { "differ" }))
        }
        "keypath" => {
            let p1 = path_of(args.first()?)?;
            let p2 = path_of(args.get(1)?)?;
            let s = parse(args.get(2)?)?;
            let (k1, k2) = match (keys(&p1, &s), keys(&p2, &s)) {
                (Ok(a), Ok(b)) => (a, b),
                (Err(e), _) | (_, Err(e)) => return Some(e),
            };
            if k1 == k2 && p1 != p2 {
                ctx.oracle_fail("key unchanged under a path change (collision)".into());
            }
            Some(format!("ok {}", if k1 == k2 { "same" } else { "differ" }))
        }
        "pun" => {
            // C15: borrowed and owned forms serialise identically; bytes deserialise to the owned conversion
            let o = parse(args.first()?)?;
            let b = leak(&o);
            let conv = O::from(b);
            if conv != o {
                ctx.oracle_fail("From<&DataModelType> does not preserve the tree".into());
            }
            let bb = postcard::to_allocvec(b).map_err(|e| crate::core_ops::err_name(&e));
            let ob = postcard::to_allocvec(&conv).map_err(|e| crate::core_ops::err_name(&e));
            if bb != ob {
                ctx.oracle_fail(format!("borrowed bytes {:?} differ from owned bytes {:?}", bb.as_ref().map(|x| hex(x)), ob.as_ref().map(|x| hex(x))));
            }
            if let Ok(bytes) = &bb {
                let mut ext = bytes.clone();
                ext.extend_from_slice(&[0xAA, 0x01]);
                match postcard::take_from_bytes::<O>(&ext) {
                    Ok((back, rest)) if back == conv && rest == [0xAA, 0x01] => {}
                    other => ctx.oracle_fail(format!("bytes of the borrowed schema do not deserialise to the owned conversion: {:?}", other.map(|(s, r)| (show(&s), hex(r))))),
                }
            }
            Some(match bb {
                Ok(b) => format!("ok {}", hex(&b)),
                Err(e) => format!("err {}", e),
            })
        }
        "deowned" => {
            let bytes = unhex(args.first()?.atom()?)?;
            let r = crate::core_ops::guard(|| postcard::take_from_bytes::<O>(&bytes).map(|(s, r)| (show(&s), r.to_vec())).map_err(|e| crate::core_ops::err_name(&e)));
            Some(match r {
                Err(()) => "FAIL panic while deserialising an owned schema".into(),
                Ok(Ok((s, rest))) => format!("ok {} rest={}", s, hex(&rest)),
                Ok(Err(e)) => format!("err {}", e),
            })
        }
        "fmt" => {
            let o = parse(args.first()?)?;
            let r = crate::core_ops::guard(|| o.to_pseudocode());
            Some(match r {
                Err(()) => {
                    ctx.oracle_fail("to_pseudocode panicked".into());
                    "FAIL panic in to_pseudocode".into()
                }
                Ok(s) => {
                    // oracle (C19): a top-level struct/enum rendering mentions its name, field and variant names
                    let mut names: Vec<String> = Vec::new();
                    match &o {
                        O::Struct { name, data } => {
                            names.push(name.to_string());
                            if let postcard_schema::schema::owned::OwnedData::Struct(fs) = data {
                                names.extend(fs.iter().map(|f| f.name.to_string()));
                            }
                        }
                        O::Enum { name, variants } => {
                            names.push(name.to_string());
                            for v in variants.iter() {
                                names.push(v.name.to_string());
                                if let postcard_schema::schema::owned::OwnedData::Struct(fs) = &v.data {
                                    names.extend(fs.iter().map(|f| f.name.to_string()));
                                }
                            }
                        }
                        _ => {}
                    }
                    for n in names {
                        if !s.contains(&n) {
                            ctx.oracle_fail(format!("rendering does not mention the name {:?}", n));
                        }
                    }
                    if format!("{}", o) != s {
                        ctx.oracle_fail("Display differs from to_pseudocode".into());
                    }
                    format!("ok {}", hex(s.as_bytes()))
                }
            })
        }
        "discover" => {
            let o = parse(args.first()?)?;
            let r = crate::core_ops::guard(|| o.all_used_types());
            Some(match r {
                Err(()) => {
                    ctx.oracle_fail("all_used_types panicked".into());
                    "err panic".into()
                }
                Ok(set) => {
                    if !set.contains(&o) {
                        ctx.oracle_fail("the set of used types does not contain the schema itself".into());
                    }
                    // independent walk: the schema itself and every schema nested anywhere inside it, nothing else
                    fn data<'a>(d: &'a postcard_schema::schema::owned::OwnedData, acc: &mut Vec<&'a O>) {
                        use postcard_schema::schema::owned::OwnedData as D;
                        match d {
                            D::Unit => {}
                            D::Newtype(t) => sub(t, acc),
                            D::Tuple(ts) => ts.iter().for_each(|t| sub(t, acc)),
                            D::Struct(fs) => fs.iter().for_each(|f| sub(&f.ty, acc)),
                        }
                    }
                    fn sub<'a>(s: &'a O, acc: &mut Vec<&'a O>) {
                        acc.push(s);
                        match s {
                            O::Option(t) | O::Seq(t) => sub(t, acc),
                            O::Tuple(ts) => ts.iter().for_each(|t| sub(t, acc)),
                            O::Map { key, val } => {
                                sub(key, acc);
                                sub(val, acc);
                            }
                            O::Struct { data: d, .. } => data(d, acc),
                            O::Enum { variants, .. } => variants.iter().for_each(|v| data(&v.data, acc)),
                            _ => {}
                        }
                    }
                    let mut want = Vec::new();
                    sub(&o, &mut want);
                    if want.iter().any(|x| !set.contains(*x)) {
                        ctx.oracle_fail("a schema nested inside the given one is missing from all_used_types()".into());
                    }
                    if set.iter().any(|x| !want.contains(&x)) {
                        ctx.oracle_fail("all_used_types() contains something that is not nested in the schema".into());
                    }
                    let mut v: Vec<String> = set.iter().map(show).collect();
                    v.sort();
                    let mut s = String::from("ok");
                    for x in v {
                        s.push(' ');
                        s.push_str(&x);
                    }
                    s
                }
            })
        }
        _ => None,
    }
}

pub fn gen_c15(r: &mut Rng, thorough: bool, out: &mut Vec<String>) {
    for s in all_kinds() {
        out.push(format!("pun {}", show(&s)));
    }
    let n = if thorough { 60_000 } else { 4_000 };
    for i in 0..n {
        let s = gen_schema(r, 1 + (i % 6) as u32, 1 + (i % 5) as u64);
        out.push(format!("pun {}", show(&s)));
        if let Ok(b) = postcard::to_allocvec(&s) {
            if i % 3 == 0 {
                // the owned deserialiser on valid, truncated, corrupted and random bytes
                out.push(format!("deowned {}", hex(&b)));
                let k = r.below(b.len() as u64 + 1) as usize;
                out.push(format!("deowned {}", hex(&b[..k])));
                let mut c = b.clone();
                let k = r.below(c.len() as u64) as usize;
                c[k] = r.next() as u8;
                if !c.starts_with(&[0xff; 3]) {
                    out.push(format!("deowned {}", hex(&c)));
                }
            }
        }
    }
    for a in 0..=40u8 {
        out.push(format!("deowned {}", hex(&[a])));
        for b in [0u8, 1, 2, 3, 25, 26, 0x80] {
            out.push(format!("deowned {}", hex(&[a, b])));
        }
    }
}

pub fn gen_c19(r: &mut Rng, thorough: bool, out: &mut Vec<String>) {
    for s in all_kinds() {
        out.push(format!("fmt {}", show(&s)));
        out.push(format!("discover {}", show(&s)));
    }
    // arrays vs tuples, nested names
    for s in ["(tuple u8 u8 u8)", "(tuple u8 u8 i8)", "(tuple (tuple u8 u8) (tuple u8 u8))", "(tuple)", "(tuple usize)", "(seq schema)", "(map isize usize)"] {
        out.push(format!("fmt {}", s));
        out.push(format!("discover {}", s));
    }
    let n = if thorough { 60_000 } else { 4_000 };
    for i in 0..n {
        let s = gen_schema(r, 1 + (i % 6) as u32, 1 + (i % 5) as u64);
        out.push(format!("fmt {}", show(&s)));
        out.push(format!("discover {}", show(&s)));
    }
}

pub fn gen_paths(r: &mut Rng) -> Vec<String> {
    let long: String = (0..4096).map(|_| (b'a' + r.below(26) as u8) as char).collect();
    vec!["".into(), "a".into(), "test_path".into(), "topic/\u{e9}\u{4e16}\u{1F600}".into(), long]
}

pub fn gen_c16(r: &mut Rng, thorough: bool, out: &mut Vec<String>) {
    let paths = gen_paths(r);
    // exhaustive: every node kind / data kind, every path class (recovers both tag tables through the API)
    for s in all_kinds() {
        for p in &paths {
            out.push(format!("key {} {}", hex(p.as_bytes()), show(&s)));
        }
    }
    // the crate's own stability vector
    out.push(format!(
        "key {} (enum {} ({} unit) ({} (newtype (struct {} (struct ({} u32) ({} string))))))",
        hex(b"test_path"), hex(b"Bar"), hex(b"A"), hex(b"B"), hex(b"Foo"), hex(b"a"), hex(b"b")
    ));
    // known stream collisions (names are hashed without framing): explicit probes
    out.push(format!("keydiff field-name {} (struct {} (struct ({} (option u8)))) (struct {} (struct ({} u8)))", hex(b""), hex(b"A"), hex(b"a"), hex(b"B"), hex(b"am")));
    out.push(format!("keydiff field-order {} (struct {} (struct ({} usize) ({} usize))) (struct {} (struct ({} usize) ({} usize)))", hex(b"p"), hex(b"S"), hex(b"x"), hex(b"xkx"), hex(b"S"), hex(b"xkx"), hex(b"x")));
    out.push(format!("keydiff element-kind {} (tuple (tuple bool) bool) (tuple (tuple bool bool))", hex(b"p")));
    let n = if thorough { 40_000 } else { 3_000 };
    for i in 0..n {
        let s = gen_schema(r, 1 + (i % 5) as u32, 1 + (i % 5) as u64);
        let p = r.pick(&paths[..4]).clone();
        out.push(format!("key {} {}", hex(p.as_bytes()), show(&s)));
        for (kind, m) in mutations(r, &s) {
            out.push(format!("keydiff {} {} {} {}", kind, hex(p.as_bytes()), show(&s), show(&m)));
        }
        if i % 4 == 0 {
            let mut p2 = p.clone().into_bytes();
            if p2.is_empty() {
                p2.push(b'x');
            } else {
                let k = r.below(p2.len() as u64) as usize;
                if p2[k].is_ascii() {
                    p2[k] = if p2[k] == b'z' { b'y' } else { b'z' };
                } else {
                    p2.push(b'!');
                }
            }
            out.push(format!("keypath {} {} {}", hex(p.as_bytes()), hex(&p2), show(&s)));
        }
    }
}
