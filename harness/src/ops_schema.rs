//! Ops and generators for the schema properties C15, C16, C19.
//!   key <path> <schema>                 C16: both hashers (const/borrowed via hook, owned) must agree
//!   keyty <idx> <path> <schema>        C16: Key::for_path::<T> for registry type idx (run time and compile time), Key comparisons
//!   keydiff <kind> <path> <s1> <s2>     C16: `same` / `differ`; oracle: a type-name change keeps the key, every other listed change alters it
//!   keypath <p1> <p2> <schema>          C16: path sensitivity
use crate::prng::Rng;
use crate::schema::*;
use crate::sexp::{hex, unhex, Sexp};
use crate::Ctx;
use postcard_schema::key::hash::{fnv1a64, fnv1a64_owned};
use postcard_schema::schema::owned::OwnedDataModelType as O;

fn keys(path: &str, o: &O) -> Result<[u8; 8], String> {
    let owned = fnv1a64_owned::hash_ty_path_owned(path, o);
    let b = leak(o);
    let stat = fnv1a64::verif_hash_static(path, b);
    let conv = fnv1a64_owned::hash_ty_path_owned(path, &O::from(b));
    let k = postcard_schema::key::Key::for_owned_schema_path(path, o).to_bytes();
    if owned != stat || owned != conv || owned != k {
        return Err(format!("FAIL hashers disagree: static={} owned={} owned-of-converted={} Key={}", hex(&stat), hex(&owned), hex(&conv), hex(&k)));
    }
    Ok(owned)
}

/// `Key::for_path::<T>` for concrete types: (run-time call, the type's schema, the same call evaluated at COMPILE time
/// on a fixed path). The hook-based `key` op reaches the const hasher but not this public constructor.
pub type KeyEntry = (fn(&str) -> postcard_schema::key::Key, fn() -> O, [u8; 8]);
pub const CONST_PATH: &str = "const/eval/path";
#[macro_export]
macro_rules! key_entries {
    ($($t:ty),* $(,)?) => {
        vec![$((
            (|p: &str| postcard_schema::key::Key::for_path::<$t>(p)) as fn(&str) -> postcard_schema::key::Key,
            (|| postcard_schema::schema::owned::OwnedDataModelType::from(<$t as postcard_schema::Schema>::SCHEMA)) as fn() -> postcard_schema::schema::owned::OwnedDataModelType,
            { const K: postcard_schema::key::Key = postcard_schema::key::Key::for_path::<$t>($crate::ops_schema::CONST_PATH); K.to_bytes() },
        )),*]
    };
}
pub fn key_registry() -> Vec<KeyEntry> {
    use std::collections::{BTreeMap, BTreeSet};
    let mut v: Vec<KeyEntry> = key_entries!(
        u8, u16, u32, u64, u128, i8, i16, i32, i64, i128, bool, f32, f64, char, (), String, &'static str, [u8],
        core::num::NonZeroU8, core::num::NonZeroI64, Option<u16>, Option<Option<String>>, Result<u8, String>, Result<(), Vec<u8>>,
        Vec<u8>, Vec<Option<u16>>, Vec<(u8, String)>, (u8,), (u8, i16, String), (bool, char, f32, f64), [u8; 0], [u16; 32], [(u8, bool); 3],
        BTreeSet<u32>, BTreeMap<String, u32>, BTreeMap<u16, String>, core::ops::Range<u16>, core::ops::RangeInclusive<i64>,
        heapless::Vec<u8, 4>, heapless::String<8>, uuid::Uuid, chrono::DateTime<chrono::Utc>, nalgebra::SMatrix<f32, 2, 2>,
        postcard_schema::key::Key, O, Vec<O>,
    );
    v.extend(crate::ops_c14::corpus_key_entries());
    v.extend(crate::generated_schema::generated_key_entries());
    v
}

fn path_of(x: &Sexp) -> Option<String> {
    String::from_utf8(unhex(x.atom()?)?).ok()
}

pub fn eval(ctx: &mut Ctx, op: &str, args: &[Sexp]) -> Option<String> {
    match op {
        "key" => {
            let p = path_of(args.first()?)?;
            let s = parse(args.get(1)?)?;
            Some(match keys(&p, &s) {
                Ok(k) => format!("ok {}", hex(&k)),
                Err(e) => e,
            })
        }
        "keyty" => {
            // keyty <registry index> <path> <schema>: the public constructor Key::for_path::<T>
            let idx: usize = args.first()?.atom()?.parse().ok()?;
            let p = path_of(args.get(1)?)?;
            let s = parse(args.get(2)?)?;
            let reg = key_registry();
            let (f, schema_of, const_key) = reg.get(idx)?;
            if schema_of() != s {
                return Some("FAIL the type registry does not match the op line (stale op file?)".into());
            }
            let k = match crate::core_ops::guard(|| f(&p)) {
                Ok(k) => k,
                Err(()) => return Some("FAIL panic in Key::for_path".into()),
            };
            let owned = postcard_schema::key::Key::for_owned_schema_path(&p, &s);
            if k != owned || k.to_bytes() != owned.to_bytes() {
                return Some(format!("FAIL Key::for_path::<T> = {} but Key::for_owned_schema_path = {}", hex(&k.to_bytes()), hex(&owned.to_bytes())));
            }
            if f(CONST_PATH).to_bytes() != *const_key {
                ctx.oracle_fail("Key::for_path::<T> evaluated at compile time differs from the run-time call".into());
            }
            // the key's own comparison / byte conversions
            let other = f(&format!("{}#", p));
            let back = unsafe { postcard_schema::key::Key::from_bytes(k.to_bytes()) };
            if back != k || !k.const_cmp(&back) || k.const_cmp(&other) != (k == other) || k.const_cmp(&other) != (k.to_bytes() == other.to_bytes()) {
                ctx.oracle_fail("Key::const_cmp / from_bytes / to_bytes / == are inconsistent".into());
            }
            Some(format!("ok {}", hex(&k.to_bytes())))
        }
        "keydiff" => {
            let kind = args.first()?.atom()?.to_string();
            let p = path_of(args.get(1)?)?;
            let s1 = parse(args.get(2)?)?;
            let s2 = parse(args.get(3)?)?;
            let (k1, k2) = match (keys(&p, &s1), keys(&p, &s2)) {
                (Ok(a), Ok(b)) => (a, b),
                (Err(e), _) | (_, Err(e)) => return Some(e),
            };
            let same = k1 == k2;
            if kind == "type-name" && !same {
                ctx.oracle_fail("key depends on a struct/enum type name".into());
            }
            if kind != "type-name" && same && s1 != s2 {
                ctx.oracle_fail(format!("key unchanged under a {} change (collision)", kind));
            }
            Some(format!("ok {}", if same { "same" } else { "differ" }))
        }
        "keypath" => {
            let p1 = path_of(args.first()?)?;
            let p2 = path_of(args.get(1)?)?;
            let s = parse(args.get(2)?)?;
            let (k1, k2) = match (keys(&p1, &s), keys(&p2, &s)) {
                (Ok(a), Ok(b)) => (a, b),
                (Err(e), _) | (_, Err(e)) => return Some(e),
            };
            if k1 == k2 && p1 != p2 {
                ctx.oracle_fail("key unchanged under a path change (collision)".into());
            }
            Some(format!("ok {}", if k1 == k2 { "same" } else { "differ" }))
        }
        "pun" => {
            // C15: borrowed and owned forms serialise identically; bytes deserialise to the owned conversion
            let o = parse(args.first()?)?;
            let b = leak(&o);
            let conv = O::from(b);
            if conv != o {
                ctx.oracle_fail("From<&DataModelType> does not preserve the tree".into());
            }
            let bb = postcard::to_allocvec(b).map_err(|e| crate::core_ops::err_name(&e));
            let ob = postcard::to_allocvec(&conv).map_err(|e| crate::core_ops::err_name(&e));
            if bb != ob {
                ctx.oracle_fail(format!("borrowed bytes {:?} differ from owned bytes {:?}", bb.as_ref().map(|x| hex(x)), ob.as_ref().map(|x| hex(x))));
            }
            if let Ok(bytes) = &bb {
                let mut ext = bytes.clone();
                ext.extend_from_slice(&[0xAA, 0x01]);
                match postcard::take_from_bytes::<O>(&ext) {
                    Ok((back, rest)) if back == conv && rest == [0xAA, 0x01] => {}
                    other => ctx.oracle_fail(format!("bytes of the borrowed schema do not deserialise to the owned conversion: {:?}", other.map(|(s, r)| (show(&s), hex(r))))),
                }
            }
            Some(match bb {
                Ok(b) => format!("ok {}", hex(&b)),
                Err(e) => format!("err {}", e),
            })
        }
        "deowned" => {
            let bytes = unhex(args.first()?.atom()?)?;
            let r = crate::core_ops::guard(|| postcard::take_from_bytes::<O>(&bytes).map(|(s, r)| (show(&s), r.to_vec())).map_err(|e| crate::core_ops::err_name(&e)));
            Some(match r {
                Err(()) => "FAIL panic while deserialising an owned schema".into(),
                Ok(Ok((s, rest))) => format!("ok {} rest={}", s, hex(&rest)),
                Ok(Err(e)) => format!("err {}", e),
            })
        }
        "fmt" => {
            let o = parse(args.first()?)?;
            let r = crate::core_ops::guard(|| o.to_pseudocode());
            Some(match r {
                Err(()) => {
                    ctx.oracle_fail("to_pseudocode panicked".into());
                    "FAIL panic in to_pseudocode".into()
                }
                Ok(s) => {
                    // oracle (C19): a top-level struct/enum rendering mentions its name, field and variant names
                    let mut names: Vec<String> = Vec::new();
                    match &o {
                        O::Struct { name, data } => {
                            names.push(name.to_string());
                            if let postcard_schema::schema::owned::OwnedData::Struct(fs) = data {
                                names.extend(fs.iter().map(|f| f.name.to_string()));
                            }
                        }
                        O::Enum { name, variants } => {
                            names.push(name.to_string());
                            for v in variants.iter() {
                                names.push(v.name.to_string());
                                if let postcard_schema::schema::owned::OwnedData::Struct(fs) = &v.data {
                                    names.extend(fs.iter().map(|f| f.name.to_string()));
                                }
                            }
                        }
                        _ => {}
                    }
                    for n in names {
                        if !s.contains(&n) {
                            ctx.oracle_fail(format!("rendering does not mention the name {:?}", n));
                        }
                    }
                    if format!("{}", o) != s {
                        ctx.oracle_fail("Display differs from to_pseudocode".into());
                    }
                    // formatter flags with a width no wider than the rendering can add no padding
                    let w = s.chars().count().saturating_sub(1) / 2;
                    let flagged = crate::core_ops::guard(|| (format!("{:<w$}", o, w = w), format!("{:>w$}", o, w = w), format!("{:^w$}", o, w = w), format!("{:08}", o)));
                    match flagged {
                        Err(()) => ctx.oracle_fail("Display panicked under width / fill flags".into()),
                        Ok((a, b, c, _)) => {
                            if a != s || b != s || c != s {
                                ctx.oracle_fail("Display with a narrow width differs from the plain rendering".into());
                            }
                        }
                    }
                    // the public classification helper next to the formatter rides along
                    format!("ok {} prim={}", hex(s.as_bytes()), postcard_schema::schema::fmt::is_prim(&o) as u8)
                }
            })
        }
        "fnvraw" => {
            // the public incremental hasher: one update, two updates, Default; digest little-endian
            use postcard_schema::key::hash::Fnv1a64Hasher as H;
            let bytes = unhex(args.first()?.atom()?)?;
            let mut h = H::new();
            h.update(&bytes);
            let mut h2 = H::default();
            let cut = bytes.len() / 3;
            h2.update(&bytes[..cut]);
            h2.update(&[]);
            h2.update(&bytes[cut..]);
            let mut h3 = H::new();
            h3.update(&bytes);
            let d = h.digest_bytes();
            if d != h2.digest_bytes() || d != h3.digest().to_le_bytes() {
                return Some("FAIL Fnv1a64Hasher: split updates / digest / digest_bytes disagree".into());
            }
            Some(format!("ok {}", hex(&d)))
        }
        "discover" => {
            let o = parse(args.first()?)?;
            let r = crate::core_ops::guard(|| o.all_used_types());
            Some(match r {
                Err(()) => {
                    ctx.oracle_fail("all_used_types panicked".into());
                    "err panic".into()
                }
                Ok(set) => {
                    if !set.contains(&o) {
                        ctx.oracle_fail("the set of used types does not contain the schema itself".into());
                    }
                    // independent walk: the schema itself and every schema nested anywhere inside it, nothing else
                    fn data<'a>(d: &'a postcard_schema::schema::owned::OwnedData, acc: &mut Vec<&'a O>) {
                        use postcard_schema::schema::owned::OwnedData as D;
                        match d {
                            D::Unit => {}
                            D::Newtype(t) => sub(t, acc),
                            D::Tuple(ts) => ts.iter().for_each(|t| sub(t, acc)),
                            D::Struct(fs) => fs.iter().for_each(|f| sub(&f.ty, acc)),
                        }
                    }
                    fn sub<'a>(s: &'a O, acc: &mut Vec<&'a O>) {
                        acc.push(s);
                        match s {
                            O::Option(t) | O::Seq(t) => sub(t, acc),
                            O::Tuple(ts) => ts.iter().for_each(|t| sub(t, acc)),
                            O::Map { key, val } => {
                                sub(key, acc);
                                sub(val, acc);
                            }
                            O::Struct { data: d, .. } => data(d, acc),
                            O::Enum { variants, .. } => variants.iter().for_each(|v| data(&v.data, acc)),
                            _ => {}
                        }
                    }
                    let mut want = Vec::new();
                    sub(&o, &mut want);
                    if want.iter().any(|x| !set.contains(*x)) {
                        ctx.oracle_fail("a schema nested inside the given one is missing from all_used_types()".into());
                    }
                    if set.iter().any(|x| !want.contains(&x)) {
                        ctx.oracle_fail("all_used_types() contains something that is not nested in the schema".into());
                    }
                    let mut v: Vec<String> = set.iter().map(show).collect();
                    v.sort();
                    let mut s = String::from("ok");
                    for x in v {
                        s.push(' ');
                        s.push_str(&x);
                    }
                    s
                }
            })
        }
        _ => None,
    }
}

pub fn gen_c15(r: &mut Rng, thorough: bool, out: &mut Vec<String>) {
    for s in all_kinds() {
        out.push(format!("pun {}", show(&s)));
    }
    for s in aliasing_schemas() {
        out.push(format!("pun {}", show(&s)));
    }
    for s in scale_schemas(r, if thorough { 1025 } else { 513 }, if thorough { 1025 } else { 300 }) {
        out.push(format!("pun {}", show(&s)));
        if let Ok(b) = postcard::to_allocvec(&s) {
            out.push(format!("deowned {}", hex(&b)));
            out.push(format!("deowned {}", hex(&b[..b.len() - 1])));
        }
    }
    let n = if thorough { 60_000 } else { 4_000 };
    for i in 0..n {
        let s = gen_schema(r, 1 + (i % 6) as u32, 1 + (i % 5) as u64);
        out.push(format!("pun {}", show(&s)));
        if let Ok(b) = postcard::to_allocvec(&s) {
            if i % 3 == 0 {
                // the owned deserialiser on valid, truncated, corrupted and random bytes
                out.push(format!("deowned {}", hex(&b)));
                let k = r.below(b.len() as u64 + 1) as usize;
                out.push(format!("deowned {}", hex(&b[..k])));
                let mut c = b.clone();
                let k = r.below(c.len() as u64) as usize;
                c[k] = r.next() as u8;
                if !c.starts_with(&[0xff; 3]) {
                    out.push(format!("deowned {}", hex(&c)));
                }
            }
        }
    }
    for a in 0..=40u8 {
        out.push(format!("deowned {}", hex(&[a])));
        for b in [0u8, 1, 2, 3, 25, 26, 0x80] {
            out.push(format!("deowned {}", hex(&[a, b])));
        }
    }
}

pub fn gen_c19(r: &mut Rng, thorough: bool, out: &mut Vec<String>) {
    for s in all_kinds() {
        out.push(format!("fmt {}", show(&s)));
        out.push(format!("discover {}", show(&s)));
    }
    // arrays vs tuples, nested names
    for s in ["(tuple u8 u8 u8)", "(tuple u8 u8 i8)", "(tuple (tuple u8 u8) (tuple u8 u8))", "(tuple)", "(tuple usize)", "(seq schema)", "(map isize usize)"] {
        out.push(format!("fmt {}", s));
        out.push(format!("discover {}", s));
    }
    // names are opaque text: generic-looking (`Result<T, E>`, `Wrapper<Meters>`), starting with `<`, with braces,
    // commas, quotes, parentheses - a top-level rendering must still MENTION them
    {
        use postcard_schema::schema::owned::{OwnedData as D, OwnedNamedField as NF, OwnedVariant as NV};
        for name in ["Result<T, E>", "Range<T>", "Wrapper<Meters>", "<T as Tr>::Out>", "a{b}c", "x, y", "say \"hi\"", "f(x)", "Vec<Vec<u8>>", ">", "<>"] {
            let st = O::Struct { name: name.into(), data: D::Struct(vec![NF { name: format!("f_{}", name).into(), ty: O::U8 }].into()) };
            let en = O::Enum { name: name.into(), variants: vec![NV { name: format!("V<{}>", name).into(), data: D::Newtype(Box::new(O::Bool)) }, NV { name: name.into(), data: D::Unit }].into() };
            for s in [st, en, O::Struct { name: name.into(), data: D::Unit }, O::Struct { name: name.into(), data: D::Newtype(Box::new(O::U16)) }] {
                out.push(format!("fmt {}", show(&s)));
                out.push(format!("discover {}", show(&s)));
            }
        }
    }
    // deep / wide schemas (the set of used types of a d-deep chain has d+1 members)
    for s in scale_schemas(r, if thorough { 300 } else { 257 }, if thorough { 513 } else { 257 }) {
        out.push(format!("fmt {}", show(&s)));
        out.push(format!("discover {}", show(&s)));
    }
    let n = if thorough { 60_000 } else { 4_000 };
    for i in 0..n {
        let s = gen_schema(r, 1 + (i % 6) as u32, 1 + (i % 5) as u64);
        out.push(format!("fmt {}", show(&s)));
        out.push(format!("discover {}", show(&s)));
    }
}

pub fn gen_paths(r: &mut Rng) -> Vec<String> {
    let long: String = (0..4096).map(|_| (b'a' + r.below(26) as u8) as char).collect();
    vec!["".into(), "a".into(), "test_path".into(), "topic/\u{e9}\u{4e16}\u{1F600}".into(), long]
}

/// a path of exactly `len` characters: mostly ASCII path characters, sometimes multi-byte scalars
pub fn rand_path(r: &mut Rng, len: usize) -> String {
    const EXOTIC: [char; 6] = ['\u{e9}', '\u{4e16}', '\u{1F600}', '\u{0}', ' ', '\u{7f}'];
    (0..len)
        .map(|_| match r.below(20) {
            0 => *r.pick(&EXOTIC),
            1 | 2 => '/',
            3 => '_',
            4 | 5 => (b'0' + r.below(10) as u8) as char,
            6 => (b'A' + r.below(26) as u8) as char,
            _ => (b'a' + r.below(26) as u8) as char,
        })
        .collect()
}

pub fn gen_c16(r: &mut Rng, thorough: bool, out: &mut Vec<String>) {
    let paths = gen_paths(r);
    // the public byte hasher against FNV-1a 64 itself
    for len in (0..=20usize).chain([63, 64, 65, 255, 256, 1000]) {
        out.push(format!("fnvraw {}", hex(&r.bytes(len))));
    }
    out.push(format!("fnvraw {}", hex(b"foobar"))); // 0x85944171f73967e8 in the reference vectors
    // every path length 0..=70 and around 255 / 4096, on two fixed schemas
    for len in (0..=70usize).chain([127, 128, 255, 256, 257, 4095, 4097]) {
        let p = rand_path(r, len);
        out.push(format!("key {} (tuple u8 (option string))", hex(p.as_bytes())));
        out.push(format!("key {} (struct {} (struct ({} u32) ({} (seq bool))))", hex(p.as_bytes()), hex(b"S"), hex(b"id"), hex(b"flags")));
    }
    // exhaustive: every node kind / data kind, every path class (recovers both tag tables through the API)
    for s in all_kinds() {
        for p in &paths {
            out.push(format!("key {} {}", hex(p.as_bytes()), show(&s)));
        }
    }
    // the crate's own stability vector
    out.push(format!(
        "key {} (enum {} ({} unit) ({} (newtype (struct {} (struct ({} u32) ({} string))))))",
        hex(b"test_path"), hex(b"Bar"), hex(b"A"), hex(b"B"), hex(b"Foo"), hex(b"a"), hex(b"b")
    ));
    // known stream collisions (names are hashed without framing): explicit probes
    out.push(format!("keydiff field-name {} (struct {} (struct ({} (option u8)))) (struct {} (struct ({} u8)))", hex(b""), hex(b"A"), hex(b"a"), hex(b"B"), hex(b"am")));
    out.push(format!("keydiff field-order {} (struct {} (struct ({} usize) ({} usize))) (struct {} (struct ({} usize) ({} usize)))", hex(b"p"), hex(b"S"), hex(b"x"), hex(b"xkx"), hex(b"S"), hex(b"xkx"), hex(b"x")));
    out.push(format!("keydiff element-kind {} (tuple (tuple bool) bool) (tuple (tuple bool bool))", hex(b"p")));
    for (i, s) in scale_schemas(r, if thorough { 1025 } else { 513 }, if thorough { 1025 } else { 300 }).iter().enumerate() {
        out.push(format!("key {} {}", hex(paths[i % 4].as_bytes()), show(s)));
    }
    for s in aliasing_schemas() {
        out.push(format!("key {} {}", hex(b"alias"), show(&s)));
    }
    // very deep chains (beyond any 12-bit counter), const vs owned hasher vs documented stream
    for d in [4095usize, 4096, 4097, 5000] {
        for kind in 0..3 {
            let mut sch = O::U8;
            for level in 0..d {
                sch = match kind {
                    0 => O::Option(Box::new(sch)),
                    1 => O::Seq(Box::new(sch)),
                    _ => O::Struct { name: "N".into(), data: postcard_schema::schema::owned::OwnedData::Struct(vec![postcard_schema::schema::owned::OwnedNamedField { name: format!("f{}", level % 7).into_boxed_str(), ty: sch }].into_boxed_slice()) },
                };
            }
            out.push(format!("key {} {}", hex(b"deep"), show(&sch)));
            let leafed = show(&sch).replace("u8", "i8");
            out.push(format!("keydiff element-kind {} {} {}", hex(b"deep"), show(&sch), leafed));
        }
    }
    // the public constructor for concrete types (hand list, C14 corpus types, seed-generated derive programs)
    for (idx, (_, schema_of, _)) in key_registry().iter().enumerate() {
        let s = schema_of();
        let (l1, l2) = ((idx * 3) % 41, (idx * 7 + 5) % 73);
        for p in [&paths[idx % paths.len()], &rand_path(r, l1), &rand_path(r, l2), &CONST_PATH.to_string()] {
            out.push(format!("keyty {} {} {}", idx, hex(p.as_bytes()), show(&s)));
        }
    }
    let n = if thorough { 40_000 } else { 3_000 };
    for i in 0..n {
        let s = gen_schema(r, 1 + (i % 5) as u32, 1 + (i % 5) as u64);
        let p = if i % 2 == 0 { r.pick(&paths[..4]).clone() } else { let l = r.below(40) as usize; rand_path(r, l) };
        out.push(format!("key {} {}", hex(p.as_bytes()), show(&s)));
        for (kind, m) in mutations(r, &s) {
            out.push(format!("keydiff {} {} {} {}", kind, hex(p.as_bytes()), show(&s), show(&m)));
        }
        if i % 4 == 0 {
            let mut p2 = p.clone().into_bytes();
            if p2.is_empty() {
                p2.push(b'x');
            } else {
                let k = r.below(p2.len() as u64) as usize;
                if p2[k].is_ascii() {
                    p2[k] = if p2[k] == b'z' { b'y' } else { b'z' };
                } else {
                    p2.push(b'!');
                }
            }
            out.push(format!("keypath {} {} {}", hex(p.as_bytes()), hex(&p2), show(&s)));
        }
    }
}
