//! Ops shared by C01–C05: every encode entry point / every decode entry point
//! of the real crate, run on one case, with the results cross-checked.
use crate::dval::{with_ty, DTy, DVal, DynVal};
use crate::sexp::hex;
use std::panic::{catch_unwind, AssertUnwindSafe};

pub fn err_name(e: &postcard::Error) -> &'static str {
    use postcard::Error::*;
    match e {
        WontImplement => "wont-implement",
        NotYetImplemented => "not-yet-implemented",
        SerializeBufferFull => "buffer-full",
        SerializeSeqLengthUnknown => "seq-length-unknown",
        DeserializeUnexpectedEnd => "unexpected-end",
        DeserializeBadVarint => "bad-varint",
        DeserializeBadBool => "bad-bool",
        DeserializeBadChar => "bad-char",
        DeserializeBadUtf8 => "bad-utf8",
        DeserializeBadOption => "bad-option",
        DeserializeBadEnum => "bad-enum",
        DeserializeBadEncoding => "bad-encoding",
        DeserializeBadCrc => "bad-crc",
        SerdeSerCustom => "ser-custom",
        SerdeDeCustom => "custom",
        CollectStrError => "collect-str",
        _ => "unknown-error",
    }
}

pub fn guard<R>(f: impl FnOnce() -> R) -> Result<R, ()> {
    catch_unwind(AssertUnwindSafe(f)).map_err(|_| ())
}

macro_rules! to_hvec {
    ($v:expr, $len:expr, $($n:literal),*) => {{
        let mut out: Option<Result<Vec<u8>, postcard::Error>> = None;
        $( if out.is_none() && $len <= $n {
            out = Some(postcard::to_vec::<_, $n>($v).map(|x| x.to_vec()));
        } )*
        out
    }};
}

/// Serialise through every encode entry point; all must agree.
/// Ok(Ok(bytes)) | Ok(Err(kind)) | Err(description of the disagreement / panic)
pub fn ser_all(v: &DVal) -> Result<Result<Vec<u8>, &'static str>, String> {
    let a = match guard(|| postcard::to_allocvec(&crate::dval::Once::new(v))) {
        Err(()) => return Err("panic in to_allocvec".into()),
        Ok(a) => a,
    };
    let same = |name: &str, r: Result<Vec<u8>, postcard::Error>| -> Result<(), String> {
        let l = a.as_ref().map(|x| x.clone()).map_err(err_name);
        let rr = r.map_err(|e| err_name(&e));
        if l == rr {
            Ok(())
        } else {
            Err(format!("entry-mismatch {} {:?} vs to_allocvec {:?}", name, rr.map(|b| hex(&b)), l.map(|b| hex(&b))))
        }
    };
    let len = a.as_ref().map(|x| x.len()).unwrap_or(16);
    same("to_stdvec", guard(|| postcard::to_stdvec(&crate::dval::Once::new(v))).map_err(|_| "panic in to_stdvec".to_string())?)?;
    // caller slice: exact fit and roomy
    for extra in [0usize, 3] {
        let mut buf = vec![0xA5u8; len + extra];
        let r = guard(|| postcard::to_slice(&crate::dval::Once::new(v), &mut buf).map(|s| s.to_vec())).map_err(|_| "panic in to_slice".to_string())?;
        same("to_slice", r)?;
        if a.is_ok() && buf[len..].iter().any(|b| *b != 0xA5) {
            return Err("to_slice wrote beyond the returned length".into());
        }
    }
    if let Some(r) = guard(|| to_hvec!(v, len, 8, 64, 512, 4096, 32768)).map_err(|_| "panic in to_vec".to_string())? {
        same("to_vec", r)?;
    }
    same("to_extend", guard(|| postcard::to_extend(&crate::dval::Once::new(v), Vec::new())).map_err(|_| "panic in to_extend".to_string())?)?;
    same("to_io", guard(|| postcard::to_io(&crate::dval::Once::new(v), Vec::new())).map_err(|_| "panic in to_io".to_string())?)?;
    let sz = guard(|| postcard::experimental::serialized_size(v)).map_err(|_| "panic in serialized_size".to_string())?;
    match (&a, sz) {
        (Ok(b), Ok(n)) if b.len() == n => {}
        (Err(e1), Err(e2)) if err_name(e1) == err_name(&e2) => {}
        (l, r) => return Err(format!("serialized_size {:?} vs to_allocvec {:?}", r, l.as_ref().map(|b| b.len()))),
    }
    if crate::dval::HR_SEEN.with(|c| c.replace(false)) {
        return Err("a serializer handed to the value claims is_human_readable() = true".into());
    }
    Ok(a.map_err(|e| err_name(&e)))
}

pub type DeRes = Result<(DVal, Vec<u8>), &'static str>;

pub fn de_answer(r: &DeRes) -> String {
    match r {
        Ok((v, rest)) => format!("ok {} rest={}", v, hex(rest)),
        Err(k) => format!("err {}", k),
    }
}

/// Deserialise through every decode entry point; all must agree.
pub fn de_all(t: &DTy, bytes: &[u8]) -> Result<DeRes, String> {
    let take: DeRes = guard(|| {
        with_ty(t, || postcard::take_from_bytes::<DynVal>(bytes).map(|(v, r)| (v.0, r.to_vec())).map_err(|e| err_name(&e)))
    })
    .map_err(|_| "panic in take_from_bytes".to_string())?;
    let from = guard(|| with_ty(t, || postcard::from_bytes::<DynVal>(bytes).map(|v| v.0).map_err(|e| err_name(&e))))
        .map_err(|_| "panic in from_bytes".to_string())?;
    match (&take, &from) {
        (Ok((v, _)), Ok(v2)) if v == v2 => {}
        (Err(a), Err(b)) if a == b => {}
        _ => return Err(format!("entry-mismatch from_bytes {:?} vs take_from_bytes {:?}", from, take)),
    }
    // the owned string / byte-buffer hints must decode exactly like the borrowed ones
    let owned: Result<DeRes, ()> = guard(|| {
        crate::dval::OWNED_HINTS.with(|c| c.set(true));
        let r = with_ty(t, || postcard::take_from_bytes::<DynVal>(bytes).map(|(v, r)| (v.0, r.to_vec())).map_err(|e| err_name(&e)));
        crate::dval::OWNED_HINTS.with(|c| c.set(false));
        r
    });
    crate::dval::OWNED_HINTS.with(|c| c.set(false));
    if owned != Ok(take.clone()) {
        return Err(format!("entry-mismatch deserialize_string/byte_buf {:?} vs deserialize_str/bytes {:?}", owned, take));
    }
    // an empty variant-name list (what a hand-written Deserialize impl may pass) changes nothing
    let nameless: Result<DeRes, ()> = guard(|| {
        crate::dval::NO_VARIANT_NAMES.with(|c| c.set(true));
        let r = with_ty(t, || postcard::take_from_bytes::<DynVal>(bytes).map(|(v, r)| (v.0, r.to_vec())).map_err(|e| err_name(&e)));
        crate::dval::NO_VARIANT_NAMES.with(|c| c.set(false));
        r
    });
    crate::dval::NO_VARIANT_NAMES.with(|c| c.set(false));
    if nameless != Ok(take.clone()) {
        return Err(format!("entry-mismatch deserialize_enum with an empty name list {:?} vs the full list {:?}", nameless, take));
    }
    if crate::dval::HR_SEEN.with(|c| c.replace(false)) {
        return Err("a deserializer handed to the value claims is_human_readable() = true".into());
    }
    // byte reader with ample scratch: same value, reader left exactly at the remainder
    let io = guard(|| {
        let mut scratch = vec![0u8; bytes.len() + 8];
        let mut rd: &[u8] = bytes;
        with_ty(t, || {
            postcard::from_io::<DynVal, _>((&mut rd, &mut scratch[..])).map(|(v, _)| v.0).map_err(|e| err_name(&e))
        })
        .map(|v| (v, rd.to_vec()))
    })
    .map_err(|_| "panic in from_io".to_string())?;
    match (&take, &io) {
        (Ok(a), Ok(b)) if a == b => {}
        (Err(_), Err(_)) => {} // reader errors are all unexpected-end by construction; kinds not compared here
        _ => return Err(format!("entry-mismatch from_io {:?} vs take_from_bytes {:?}", io, take)),
    }
    // the embedded-io reader (a twin of the std one): same value, and the borrowed str / bytes of the result must
    // sit in pairwise disjoint parts of the scratch buffer (the visitor records every borrowed slice it is handed)
    {
        let eio = guard(|| {
            let mut scratch = vec![0u8; bytes.len() + 8];
            let (sbase, slen) = (scratch.as_ptr() as usize, scratch.len());
            let rd = crate::ops_io::EioR(crate::ops_io::SchedReader { data: bytes.to_vec(), pos: 0, fault: None, rng: crate::prng::Rng::new(3), whole: false, one: false, transient: false });
            crate::dval::BORROWS.with(|b| b.borrow_mut().clear());
            let r = with_ty(t, || postcard::from_eio::<DynVal, _>((rd, &mut scratch[..])).map(|(v, (rd, _))| (v.0, rd.0.data[rd.0.pos..].to_vec())).map_err(|e| err_name(&e)));
            let mut slots: Vec<(usize, usize)> = crate::dval::BORROWS.with(|b| b.borrow().iter().filter(|(_, l, _)| *l > 0).map(|(p, l, _)| (*p, *l)).collect());
            slots.sort();
            let geometry_ok = slots.iter().all(|(p, l)| *p >= sbase && p + l <= sbase + slen) && slots.windows(2).all(|w| w[0].0 + w[0].1 <= w[1].0);
            (r, geometry_ok)
        })
        .map_err(|_| "panic in from_eio".to_string())?;
        match (&take, &eio.0) {
            (Ok(a), Ok(b)) if a == b => {
                if !eio.1 {
                    return Err("from_eio: borrowed data of one value overlaps in / lies outside the scratch buffer".into());
                }
            }
            (Err(_), Err(_)) => {}
            _ => return Err(format!("entry-mismatch from_eio {:?} vs take_from_bytes {:?}", eio.0, take)),
        }
    }
    // a byte reader may deliver its data in pieces: one byte at a time, and random short reads
    for sched in [1u64, 0x5eed] {
        let io2 = guard(|| {
            let mut scratch = vec![0u8; bytes.len() + 8];
            let rd = crate::ops_io::SchedReader { data: bytes.to_vec(), pos: 0, fault: None, rng: crate::prng::Rng::new(sched), whole: false, one: sched == 1, transient: false };
            with_ty(t, || postcard::from_io::<DynVal, _>((rd, &mut scratch[..])).map(|(v, (rd, _))| (v.0, rd.data[rd.pos..].to_vec())).map_err(|e| err_name(&e)))
        })
        .map_err(|_| "panic in from_io (short reads)".to_string())?;
        match (&take, &io2) {
            (Ok(a), Ok(b)) if a == b => {}
            (Err(_), Err(_)) => {}
            _ => return Err(format!("entry-mismatch from_io with short reads {:?} vs take_from_bytes {:?}", io2, take)),
        }
    }
    Ok(take)
}

/// Schema-side poison (run before every op line of the schema properties): extreme but legal inputs - an owned
/// schema VALUE nested far deeper than any recursion budget or depth counter a crate might keep per thread, and
/// a truncated one. Whatever the crate answers, the answer must not change what the NEXT call does (a counter that
/// leaks on a refusal, a cache keyed by something too coarse, a budget that is never refunded).
pub fn poison_schema() {
    use postcard_schema::schema::owned::OwnedDataModelType as O;
    thread_local! {
        static DEEP: Vec<u8> = {
            let mut t = O::U8;
            for _ in 0..2600 {
                t = O::Option(Box::new(t));
            }
            postcard::to_allocvec(&t).unwrap_or_default()
        };
    }
    DEEP.with(|deep| {
        let _ = guard(|| {
            let _ = postcard::from_bytes::<O>(deep);
            let _ = postcard::from_bytes::<O>(&deep[..deep.len() / 2]);
        });
    });
}

/// Calls that FAIL part-way through every encode / decode entry point. Run before every op line: no entry
/// point may keep state from one call to the next (scratch buffers, thread-locals, statics), so a failed
/// call must not change what the next call does.
pub fn poison() {
    use crate::dval::DVal as V;
    thread_local! {
        static BAD: V = V::Tuple(vec![V::Str("poison-poison-poison".into()), V::U(64, u64::MAX as u128), V::SeqAnn(None, vec![V::U(8, 1)])]);
    }
    BAD.with(|bad| {
        let _ = guard(|| {
            let _ = postcard::to_allocvec(bad);
            let _ = postcard::to_stdvec(bad);
            let _ = postcard::to_allocvec_cobs(bad);
            let _ = postcard::to_stdvec_cobs(bad);
            let _ = postcard::to_vec::<_, 64>(bad);
            let _ = postcard::to_vec_cobs::<_, 64>(bad);
            let mut small = [0u8; 9];
            let _ = postcard::to_slice(bad, &mut small);
            let _ = postcard::to_slice_cobs(bad, &mut small);
            let _ = postcard::to_extend(bad, Vec::new());
            let _ = postcard::to_io(bad, Vec::new());
            let _ = postcard::experimental::serialized_size(bad);
            let c = crc::Crc::<u32>::new(&crc::CRC_32_ISO_HDLC);
            let _ = postcard::to_allocvec_crc32(bad, c.digest());
            let _ = postcard::to_stdvec_crc32(bad, c.digest());
            // decoders: truncated, malformed framing, bad checksum
            let _ = postcard::from_bytes::<(String, u64, Vec<u8>)>(&[0x14, b'p', b'o']);
            let mut f = [0x05u8, 0x14, b'p', 0x00];
            let _ = postcard::from_bytes_cobs::<(String, u64)>(&mut f);
            let mut f = [0x03u8, 0x14, b'p', 0x00, 0x01];
            let _ = postcard::take_from_bytes_cobs::<(String, u64)>(&mut f);
            let _ = postcard::from_bytes_crc32::<(u8, u8)>(&[1, 2, 3, 4, 5, 6], c.digest());
            let mut scratch = [0u8; 4];
            let _ = postcard::from_io::<(String, u64), _>((&[0x14u8, b'p', b'o', b'i', b's', b'o', b'n'][..], &mut scratch[..]));
        });
    });
}
