//! Ops and generators for C14 (a type's Schema describes exactly what its Serialize writes).
//!   conf <calltree> <schema> <bytes>
//!      REAL data recorded at generation time from a concrete Rust type T and one of its values:
//!      the exact serde call tree (recording serializer, not human readable), T::SCHEMA, and
//!      postcard's bytes. The Lean driver evaluates the SPECIFICATION on them: conforms(tree, schema),
//!      the schema-driven reader consuming the bytes exactly, and enc(erase tree) = bytes.
use crate::prng::Rng;
use crate::record::record;
use crate::samples::Samples;
use crate::schema::show;
use crate::sexp::{hex, Sexp};
use crate::Ctx;
use core::num::*;
use core::ops::{Range, RangeFrom, RangeInclusive, RangeTo};
use postcard_schema::schema::owned::OwnedDataModelType;
use postcard_schema::Schema;
use serde::Serialize;
use std::collections::{BTreeMap, BTreeSet, HashMap, HashSet};

pub fn lines_for<T: Schema + Serialize + Samples>(r: &mut Rng, nrand: usize, out: &mut Vec<String>) {
    let schema = show(&OwnedDataModelType::from(T::SCHEMA));
    let mut vals = T::candidates();
    if !vals.is_empty() {
        for _ in 0..nrand {
            vals.push(T::rand(r));
        }
    }
    for v in &vals {
        let ct = match record(v) {
            Ok(c) => c,
            Err(_) => continue, // e.g. a non-UTF-8 path: a serialisation error, nothing is written
        };
        let bytes = match postcard::to_allocvec(v) {
            Ok(b) => b,
            Err(_) => continue,
        };
        if bytes.len() > 4000 {
            continue;
        }
        out.push(format!("conf {} {} {}", ct, schema, hex(&bytes)));
    }
}

macro_rules! corpus {
    ($r:ident, $n:ident, $out:ident, $dyn:ident; $($t:ty),* $(,)?) => { $( if $dyn { crate::ops_dyn::agree_lines::<$t>($r, $n, $out); } else { lines_for::<$t>($r, $n, $out); } )* };
}

// ---- hand-written derived types: unit, newtype, tuple, named, generic, lifetime-carrying, nested, zero-field forms
#[derive(Serialize, Schema)] struct UnitS;
#[derive(Serialize, Schema)] struct NewS(u32);
#[derive(Serialize, Schema)] struct TupS(u8, String, Option<i16>);
#[derive(Serialize, Schema)] struct Tup0();
#[derive(Serialize, Schema)] struct Named0 {}
#[derive(Serialize, Schema)] struct Point { x: i32, y: i32 }
#[derive(Serialize, Schema)] struct GenS<T, U> { t: T, u: Vec<U>, both: (T, U) }
#[derive(Serialize, Schema)] struct Life<'a> { s: &'a str, b: &'a [u16] }
#[derive(Serialize, Schema)] struct Nested { p: Point, l: Vec<Point>, e: AllKinds, o: Option<NewS> }
#[derive(Serialize, Schema)] enum AllKinds { A, B(u64), C(u8, bool), D { a: i8, b: String }, E(), F {} }
#[derive(Serialize, Schema)] enum OneVar { Only(Point) }
#[derive(Serialize, Schema)] enum GenE<T> { None, Some(T), Pair(T, T), Rec { inner: Vec<T> } }
#[derive(Serialize, Schema)] #[allow(non_camel_case_types)] struct r#RawName { plain: u8 }

#[derive(Serialize, serde::Deserialize)] struct DUnitS;
#[derive(Serialize, serde::Deserialize)] struct DNewS(u32);
#[derive(Serialize, serde::Deserialize)] struct DTupS(u8, String, Option<i16>);
#[derive(Serialize, serde::Deserialize)] struct DTup0();
#[derive(Serialize, serde::Deserialize)] struct DNamed0 {}
#[derive(Serialize, serde::Deserialize)] struct DPoint { x: i32, y: i32 }
#[derive(Serialize, serde::Deserialize)] struct DGenS<T, U> { t: T, u: Vec<U>, both: (T, U) }
#[derive(Serialize, serde::Deserialize)] struct DNested { p: DPoint, l: Vec<DPoint>, e: DAllKinds, o: Option<DNewS> }
#[derive(Serialize, serde::Deserialize)] enum DAllKinds { A, B(u64), C(u8, bool), D { a: i8, b: String }, E(), F {} }
#[derive(Serialize, serde::Deserialize)] enum DGenE<T> { None, Some(T), Pair(T, T), Rec { inner: Vec<T> } }
impl Samples for DUnitS { fn max_sample() -> Self { DUnitS } fn rand(_: &mut Rng) -> Self { DUnitS } }
impl Samples for DNewS { fn max_sample() -> Self { DNewS(u32::MAX) } fn rand(r: &mut Rng) -> Self { DNewS(u32::rand(r)) } }
impl Samples for DTupS { fn max_sample() -> Self { DTupS(255, String::max_sample(), Some(i16::MIN)) } fn rand(r: &mut Rng) -> Self { DTupS(u8::rand(r), String::rand(r), Option::rand(r)) } }
impl Samples for DTup0 { fn max_sample() -> Self { DTup0() } fn rand(_: &mut Rng) -> Self { DTup0() } }
impl Samples for DNamed0 { fn max_sample() -> Self { DNamed0 {} } fn rand(_: &mut Rng) -> Self { DNamed0 {} } }
impl Samples for DPoint { fn max_sample() -> Self { DPoint { x: i32::MIN, y: i32::MAX } } fn rand(r: &mut Rng) -> Self { DPoint { x: i32::rand(r), y: i32::rand(r) } } }
impl<T: Samples, U: Samples> Samples for DGenS<T, U> {
    fn max_sample() -> Self { DGenS { t: T::max_sample(), u: Vec::max_sample(), both: (T::max_sample(), U::max_sample()) } }
    fn rand(r: &mut Rng) -> Self { DGenS { t: T::rand(r), u: Vec::rand(r), both: (T::rand(r), U::rand(r)) } }
}
impl Samples for DAllKinds {
    fn max_sample() -> Self { DAllKinds::D { a: -1, b: String::max_sample() } }
    fn rand(r: &mut Rng) -> Self { let mut c = Self::candidates(); let k = r.below(c.len() as u64) as usize; c.swap_remove(k) }
    fn candidates() -> Vec<Self> { vec![DAllKinds::A, DAllKinds::B(u64::MAX), DAllKinds::C(7, true), DAllKinds::D { a: -128, b: "x".into() }, DAllKinds::E(), DAllKinds::F {}] }
}
impl Samples for DNested {
    fn max_sample() -> Self { DNested { p: DPoint::max_sample(), l: Vec::max_sample(), e: DAllKinds::max_sample(), o: Some(DNewS(1)) } }
    fn rand(r: &mut Rng) -> Self { DNested { p: DPoint::rand(r), l: Vec::rand(r), e: DAllKinds::rand(r), o: if r.chance(1, 2) { None } else { Some(DNewS::rand(r)) } } }
}
impl<T: Samples> Samples for DGenE<T> {
    fn max_sample() -> Self { DGenE::Rec { inner: Vec::max_sample() } }
    fn rand(r: &mut Rng) -> Self { let mut c = Self::candidates(); let k = r.below(c.len() as u64) as usize; c.swap_remove(k) }
    fn candidates() -> Vec<Self> { vec![DGenE::None, DGenE::Some(T::max_sample()), DGenE::Pair(T::max_sample(), T::max_sample()), DGenE::Rec { inner: vec![] }, DGenE::Rec { inner: Vec::max_sample() }] }
}

impl Samples for UnitS { fn max_sample() -> Self { UnitS } fn rand(_: &mut Rng) -> Self { UnitS } }
impl Samples for NewS { fn max_sample() -> Self { NewS(u32::MAX) } fn rand(r: &mut Rng) -> Self { NewS(u32::rand(r)) } }
impl Samples for TupS { fn max_sample() -> Self { TupS(255, String::max_sample(), Some(i16::MIN)) } fn rand(r: &mut Rng) -> Self { TupS(u8::rand(r), String::rand(r), Option::rand(r)) } }
impl Samples for Tup0 { fn max_sample() -> Self { Tup0() } fn rand(_: &mut Rng) -> Self { Tup0() } }
impl Samples for Named0 { fn max_sample() -> Self { Named0 {} } fn rand(_: &mut Rng) -> Self { Named0 {} } }
impl Samples for Point { fn max_sample() -> Self { Point { x: i32::MIN, y: i32::MAX } } fn rand(r: &mut Rng) -> Self { Point { x: i32::rand(r), y: i32::rand(r) } } }
impl<T: Samples, U: Samples> Samples for GenS<T, U> {
    fn max_sample() -> Self { GenS { t: T::max_sample(), u: Vec::max_sample(), both: (T::max_sample(), U::max_sample()) } }
    fn rand(r: &mut Rng) -> Self { GenS { t: T::rand(r), u: Vec::rand(r), both: (T::rand(r), U::rand(r)) } }
}
impl Samples for Life<'static> {
    fn max_sample() -> Self { Life { s: Samples::max_sample(), b: Samples::max_sample() } }
    fn rand(r: &mut Rng) -> Self { Life { s: Samples::rand(r), b: Samples::rand(r) } }
}
impl Samples for AllKinds {
    fn max_sample() -> Self { AllKinds::D { a: -1, b: String::max_sample() } }
    fn rand(r: &mut Rng) -> Self { let mut c = Self::candidates(); let k = r.below(c.len() as u64) as usize; c.swap_remove(k) }
    fn candidates() -> Vec<Self> { vec![AllKinds::A, AllKinds::B(u64::MAX), AllKinds::C(7, true), AllKinds::D { a: -128, b: "x".into() }, AllKinds::E(), AllKinds::F {}] }
}
impl Samples for Nested {
    fn max_sample() -> Self { Nested { p: Point::max_sample(), l: Vec::max_sample(), e: AllKinds::max_sample(), o: Some(NewS(1)) } }
    fn rand(r: &mut Rng) -> Self { Nested { p: Point::rand(r), l: Vec::rand(r), e: AllKinds::rand(r), o: if r.chance(1, 2) { None } else { Some(NewS::rand(r)) } } }
}
impl Samples for OneVar { fn max_sample() -> Self { OneVar::Only(Point::max_sample()) } fn rand(r: &mut Rng) -> Self { OneVar::Only(Point::rand(r)) } }
impl<T: Samples> Samples for GenE<T> {
    fn max_sample() -> Self { GenE::Rec { inner: Vec::max_sample() } }
    fn rand(r: &mut Rng) -> Self { let mut c = Self::candidates(); let k = r.below(c.len() as u64) as usize; c.swap_remove(k) }
    fn candidates() -> Vec<Self> { vec![GenE::None, GenE::Some(T::max_sample()), GenE::Pair(T::max_sample(), T::max_sample()), GenE::Rec { inner: vec![] }, GenE::Rec { inner: Vec::max_sample() }] }
}
impl Samples for r#RawName { fn max_sample() -> Self { r#RawName { plain: 9 } } fn rand(r: &mut Rng) -> Self { r#RawName { plain: u8::rand(r) } } }

// raw identifiers as field / variant names (serde strips `r#`; the schema must name the same thing)
#[derive(Serialize, Schema)] struct RawFields { r#type: u8, r#fn: u16, plain: bool }
#[derive(Serialize, Schema)] #[allow(non_camel_case_types)] enum RawVariants { r#type, r#Match(u8), Plain { r#loop: i8 } }
impl Samples for RawFields { fn max_sample() -> Self { RawFields { r#type: 255, r#fn: 65535, plain: true } } fn rand(r: &mut Rng) -> Self { RawFields { r#type: u8::rand(r), r#fn: u16::rand(r), plain: bool::rand(r) } } }
impl Samples for RawVariants {
    fn max_sample() -> Self { RawVariants::r#Match(255) }
    fn rand(r: &mut Rng) -> Self { let mut c = Self::candidates(); let k = r.below(3) as usize; c.swap_remove(k) }
    fn candidates() -> Vec<Self> { vec![RawVariants::r#type, RawVariants::r#Match(1), RawVariants::Plain { r#loop: -3 }] }
}

// values at scale for the dynamic codec and the schema conformance check: hundreds of elements, most of them None
#[derive(Serialize, Schema)] struct ManyOpts(Vec<Option<u8>>);
#[derive(Serialize, Schema)] struct ManyRows { rows: Vec<(Option<u16>, Option<String>)>, tail: Option<Option<bool>> }
impl Samples for ManyOpts {
    fn max_sample() -> Self { ManyOpts((0..300).map(|i| if i % 2 == 0 { None } else { Some(i as u8) }).collect()) }
    fn rand(r: &mut Rng) -> Self { let n = *r.pick(&[0usize, 1, 127, 128, 129, 255, 256, 257, 300, 1025]); ManyOpts((0..n).map(|_| if r.chance(2, 3) { None } else { Some(r.next() as u8) }).collect()) }
    fn candidates() -> Vec<Self> {
        [127usize, 128, 129, 130, 255, 256, 257, 300, 1025].iter().map(|n| ManyOpts(vec![None; *n])).chain([Self::max_sample()]).collect()
    }
}
impl Samples for ManyRows {
    fn max_sample() -> Self { ManyRows { rows: (0..200).map(|i| (if i % 3 == 0 { Some(i as u16) } else { None }, if i % 5 == 0 { Some(format!("r{}", i)) } else { None })).collect(), tail: Some(None) } }
    fn rand(r: &mut Rng) -> Self { let n = *r.pick(&[0usize, 64, 65, 128, 129, 300]); ManyRows { rows: (0..n).map(|_| (if r.chance(1, 2) { None } else { Some(r.next() as u16) }, None)).collect(), tail: if r.chance(1, 2) { None } else { Some(Some(true)) } } }
}

// sequences of zero-WIDTH composite elements (more elements than bytes left in the message), and two different
// enums with the same name and arity in one schema (derive(Schema) names a type by its identifier only)
#[derive(Serialize, Schema, Clone)] struct ZTick { at: () }
#[derive(Serialize, Schema, Clone)] struct ZTock { a: (), b: UnitS0, c: [u8; 0] }
#[derive(Serialize, Schema, Clone)] struct UnitS0;
#[derive(Serialize, Schema)] struct Ticks { n: u8, ticks: Vec<ZTick>, tocks: Vec<ZTock> }
#[derive(Serialize, Schema)] struct TicksLast(Vec<ZTick>);
mod motor { use super::*; #[derive(Serialize, Schema, Clone)] pub enum State { On, Off(u8) } }
mod heater { use super::*; #[derive(Serialize, Schema, Clone)] pub enum State { Idle(u16), Busy } }
#[derive(Serialize, Schema)] struct TwoStates { m: motor::State, h: heater::State, hm: Option<motor::State>, v: Vec<heater::State>, mh: (heater::State, motor::State) }
impl Samples for Ticks {
    fn max_sample() -> Self { Ticks { n: 255, ticks: vec![ZTick { at: () }; 130], tocks: vec![ZTock { a: (), b: UnitS0, c: [] }; 9] } }
    fn rand(r: &mut Rng) -> Self { let n = *r.pick(&[0usize, 1, 2, 9, 17, 130]); let m = *r.pick(&[0usize, 1, 9, 64]); Ticks { n: r.next() as u8, ticks: vec![ZTick { at: () }; n], tocks: vec![ZTock { a: (), b: UnitS0, c: [] }; m] } }
    fn candidates() -> Vec<Self> { [0usize, 1, 2, 3, 9, 130].iter().map(|n| Ticks { n: 1, ticks: vec![ZTick { at: () }; *n], tocks: vec![ZTock { a: (), b: UnitS0, c: [] }; *n / 2 + 1] }).collect() }
}
impl Samples for TicksLast {
    fn max_sample() -> Self { TicksLast(vec![ZTick { at: () }; 300]) }
    fn rand(r: &mut Rng) -> Self { TicksLast(vec![ZTick { at: () }; *r.pick(&[0usize, 1, 2, 9, 127, 128, 300])]) }
    fn candidates() -> Vec<Self> { [0usize, 1, 2, 9, 127, 128, 300].iter().map(|n| TicksLast(vec![ZTick { at: () }; *n])).collect() }
}
impl Samples for TwoStates {
    fn max_sample() -> Self { TwoStates { m: motor::State::Off(255), h: heater::State::Idle(65535), hm: Some(motor::State::Off(1)), v: vec![heater::State::Busy, heater::State::Idle(3)], mh: (heater::State::Busy, motor::State::On) } }
    fn rand(r: &mut Rng) -> Self { let mut c = Self::candidates(); let k = r.below(c.len() as u64) as usize; c.swap_remove(k) }
    fn candidates() -> Vec<Self> {
        let ms = [motor::State::On, motor::State::Off(7)];
        let hs = [heater::State::Idle(300), heater::State::Busy];
        let mut out = Vec::new();
        for (i, m) in ms.iter().enumerate() {
            for (j, h) in hs.iter().enumerate() {
                out.push(TwoStates { m: m.clone(), h: h.clone(), hm: if (i + j) % 2 == 0 { None } else { Some(ms[1 - i].clone()) }, v: vec![hs[1 - j].clone(), h.clone()], mh: (hs[j].clone(), ms[1 - i].clone()) });
                out.push(TwoStates { m: m.clone(), h: h.clone(), hm: Some(m.clone()), v: vec![], mh: (hs[1 - j].clone(), m.clone()) });
            }
        }
        out
    }
}

// explicit discriminants out of declaration order: serde numbers variants by position, whatever `= N` says
#[derive(Serialize, Schema)] enum Discr { Stop = 0xFF, Start = 1, Pause = 2 }
#[derive(Serialize, Schema)] #[repr(u8)] enum DiscrData { Data(u32) = 2, Ack = 1, Pair(u8, bool) = 7, Next }
impl Samples for Discr {
    fn max_sample() -> Self { Discr::Pause }
    fn rand(r: &mut Rng) -> Self { let mut c = Self::candidates(); let k = r.below(3) as usize; c.swap_remove(k) }
    fn candidates() -> Vec<Self> { vec![Discr::Stop, Discr::Start, Discr::Pause] }
}
impl Samples for DiscrData {
    fn max_sample() -> Self { DiscrData::Data(u32::MAX) }
    fn rand(r: &mut Rng) -> Self { let mut c = Self::candidates(); let k = r.below(4) as usize; c.swap_remove(k) }
    fn candidates() -> Vec<Self> { vec![DiscrData::Data(300), DiscrData::Ack, DiscrData::Pair(1, true), DiscrData::Next] }
}

// ------------------------------------------------------------------ opportunistic catalogue (C14 / C17)
// core / std types for which the crate has NO Schema impl today; if one appears it is checked at once against the
// RECORDED call trees of real values (the `conf` op needs no model of the type: real schema, real calls, real bytes)
struct ProbeS<T>(core::marker::PhantomData<T>);
trait NoSchema {
    fn conf_lines(&self, _vals: &dyn Fn() -> Vec<(String, Vec<u8>)>) -> Vec<String> {
        Vec::new()
    }
}
impl<T> NoSchema for ProbeS<T> {}
impl<T: Schema> ProbeS<T> {
    fn conf_lines(&self, vals: &dyn Fn() -> Vec<(String, Vec<u8>)>) -> Vec<String> {
        let schema = show(&OwnedDataModelType::from(T::SCHEMA));
        vals().into_iter().map(|(ct, bytes)| format!("conf {} {} {}", ct, schema, hex(&bytes))).collect()
    }
}
fn recorded<T: Serialize>(vals: &[T]) -> Vec<(String, Vec<u8>)> {
    vals.iter().filter_map(|v| match (record(v), postcard::to_allocvec(v)) {
        (Ok(ct), Ok(b)) => Some((ct.to_string(), b)),
        _ => None,
    }).collect()
}
macro_rules! scat {
    ($out:ident, $t:ty, [$($x:expr),* $(,)?]) => {
        $out.extend(ProbeS::<$t>(core::marker::PhantomData).conf_lines(&|| recorded::<$t>(&[$($x),*])));
    };
}
pub fn schema_catalogue(out: &mut Vec<String>) {
    use core::cmp::Reverse;
    use core::num::Wrapping;
    use core::ops::Bound;
    use core::time::Duration;
    use std::net::{IpAddr, Ipv4Addr, Ipv6Addr};
    scat!(out, Duration, [Duration::MAX, Duration::new(5, 7), Duration::new(0, 0)]);
    scat!(out, Bound<u8>, [Bound::Unbounded, Bound::Included(7), Bound::Excluded(9)]);
    scat!(out, Bound<String>, [Bound::Unbounded, Bound::Included("a".to_string()), Bound::Excluded(String::new())]);
    scat!(out, Wrapping<u16>, [Wrapping(300), Wrapping(0)]);
    scat!(out, Reverse<u8>, [Reverse(3)]);
    scat!(out, core::num::Saturating<i32>, [core::num::Saturating(-5)]);
    scat!(out, core::marker::PhantomData<u8>, [core::marker::PhantomData]);
    scat!(out, core::cell::Cell<u8>, [core::cell::Cell::new(4)]);
    scat!(out, core::cell::RefCell<u16>, [core::cell::RefCell::new(400)]);
    scat!(out, std::sync::Mutex<u8>, [std::sync::Mutex::new(1)]);
    scat!(out, std::sync::RwLock<u8>, [std::sync::RwLock::new(1)]);
    scat!(out, Box<u32>, [Box::new(70000)]);
    scat!(out, Box<str>, [Box::from("hey")]);
    scat!(out, Box<[u16]>, [Box::from(vec![1u16, 300])]);
    scat!(out, std::borrow::Cow<'static, str>, [std::borrow::Cow::Borrowed("moo")]);
    scat!(out, std::borrow::Cow<'static, [u8]>, [std::borrow::Cow::Borrowed(&[1u8, 2][..])]);
    scat!(out, std::collections::VecDeque<u8>, [std::collections::VecDeque::from(vec![1u8, 2, 3])]);
    scat!(out, std::collections::LinkedList<u8>, [std::collections::LinkedList::from([1u8, 2])]);
    scat!(out, std::collections::BinaryHeap<u8>, [std::collections::BinaryHeap::from(vec![5u8])]);
    scat!(out, Ipv4Addr, [Ipv4Addr::new(1, 2, 3, 4)]);
    scat!(out, Ipv6Addr, [Ipv6Addr::new(1, 2, 3, 4, 5, 6, 7, 8)]);
    scat!(out, IpAddr, [IpAddr::V4(Ipv4Addr::new(1, 2, 3, 4)), IpAddr::V6(Ipv6Addr::new(1, 2, 3, 4, 5, 6, 7, 8))]);
    scat!(out, (u8, u8, u8, u8, u8, u8, u8), [(1, 2, 3, 4, 5, 6, 7)]);
    scat!(out, (u8, u16, u32, u64, i8, i16, i32, i64), [(1, 2, 3, 4, -1, -2, -3, -4)]);
    scat!(out, std::ffi::CString, [std::ffi::CString::new("c").unwrap()]);
    scat!(out, std::ffi::OsString, []);
    scat!(out, std::time::SystemTime, [std::time::UNIX_EPOCH]);
    scat!(out, core::num::NonZeroUsize, [core::num::NonZeroUsize::MIN]);
    scat!(out, usize, [usize::MAX]);
    scat!(out, isize, [isize::MIN]);
}

pub fn gen_c14(r: &mut Rng, thorough: bool, out: &mut Vec<String>) {
    schema_catalogue(out);
    let n = if thorough { 40 } else { 4 };
    gen_schemaof(out);
    for_each_corpus_type(r, n, out, false);
}

/// the corpus of concrete Rust types with Schema + Serialize: C14 lines (dynamic = false) or C17 lines
pub fn for_each_corpus_type(r: &mut Rng, n: usize, out: &mut Vec<String>, dynamic: bool) {
    corpus!(r, n, out, dynamic;
        u8, u16, u32, u64, u128, i8, i16, i32, i64, i128, bool, f32, f64, char, (), String, &'static str, std::path::PathBuf,
        NonZeroU8, NonZeroU16, NonZeroU32, NonZeroU64, NonZeroU128, NonZeroI8, NonZeroI16, NonZeroI32, NonZeroI64, NonZeroI128,
        Option<u16>, Option<Option<String>>, Option<()>, Result<u8, String>, Result<(), Vec<u8>>, Result<Option<i64>, (u8, u8)>,
        &'static u32, &'static &'static str, &'static [u8], &'static [String], Vec<u8>, Vec<Option<u16>>, Vec<Vec<i32>>, Vec<(u8, String)>,
        (u8,), (u8, i16), (u8, i16, String), (bool, char, f32, f64), (u8, u8, u8, u8, u128), ((), Option<u8>, (u8,), [u8; 2], String, i128),
        [u8; 0], [u8; 1], [u8; 3], [u16; 32], [String; 2], [[i8; 2]; 2], [(u8, bool); 3],
        BTreeSet<u32>, HashSet<String>, BTreeSet<(u8, i8)>, BTreeMap<String, u32>, HashMap<String, Vec<u8>>, BTreeMap<u16, String>, HashMap<(u8, u8), bool>, BTreeMap<String, BTreeMap<String, i8>>,
        Range<u16>, RangeInclusive<i64>, RangeFrom<u8>, RangeTo<char>, Range<Option<u8>>,
        heapless::Vec<u8, 4>, heapless::Vec<String, 2>, heapless::String<8>, heapless::Vec<u16, 0>,
        heapless08::Vec<u8, 4>, heapless08::Vec<(u8, i64), 3>, heapless08::String<8>, heapless08::String<0>,
        uuid::Uuid, chrono::DateTime<chrono::Utc>, chrono::DateTime<chrono::FixedOffset>,
        nalgebra::SMatrix<f32, 2, 2>, nalgebra::SMatrix<u8, 2, 3>, nalgebra::SMatrix<i16, 3, 1>, nalgebra::SMatrix<f64, 1, 1>,
        postcard_schema::key::Key, OwnedDataModelType, &'static postcard_schema::schema::DataModelType, Vec<OwnedDataModelType>,
        UnitS, NewS, TupS, Tup0, Named0, Point, GenS<u8, String>, GenS<Point, Option<u16>>, Life<'static>, Nested, AllKinds, OneVar,
        GenE<u8>, GenE<Point>, GenE<GenE<String>>, r#RawName, RawFields, RawVariants, Discr, DiscrData, ManyOpts, ManyRows, Vec<AllKinds>, Option<Nested>, BTreeMap<String, AllKinds>,
        Ticks, TicksLast, TwoStates,
    );
    crate::generated_schema::generated_schema_lines(r, n, out, dynamic);
}

/// the derived corpus types as `Key::for_path::<T>` entries (C16)
pub fn corpus_key_entries() -> Vec<crate::ops_schema::KeyEntry> {
    crate::key_entries!(
        UnitS, NewS, TupS, Tup0, Named0, Point, GenS<u8, String>, GenS<Point, Option<u16>>, Life<'static>, Nested, AllKinds, OneVar,
        GenE<u8>, GenE<Point>, GenE<GenE<String>>, r#RawName, RawFields, RawVariants, Discr, DiscrData, Vec<AllKinds>, Option<Nested>, BTreeMap<String, AllKinds>,
    )
}

// ------------------------------------------------------------------ real serde-derive / std decode glue (C01)
/// decode `bytes ++ [0xAA]` as the concrete type through every decode entry point and re-encode
pub type RealFn = (fn(&[u8]) -> Result<Vec<u8>, String>, fn(&mut Rng, usize, &mut Vec<String>, usize));

fn real_decode<T: serde::de::DeserializeOwned + Serialize>(bytes: &[u8]) -> Result<Vec<u8>, String> {
    let mut ext = bytes.to_vec();
    ext.push(0xAA);
    let (v, rest) = postcard::take_from_bytes::<T>(&ext).map_err(|e| format!("take_from_bytes: {:?}", e))?;
    if rest != [0xAA] {
        return Err("take_from_bytes did not hand back exactly the bytes that follow the message".into());
    }
    let out = postcard::to_allocvec(&v).map_err(|e| format!("re-encode: {:?}", e))?;
    let v2 = postcard::from_bytes::<T>(bytes).map_err(|e| format!("from_bytes: {:?}", e))?;
    if postcard::to_allocvec(&v2).ok().as_ref() != Some(&out) {
        return Err("from_bytes and take_from_bytes give different values".into());
    }
    let mut scratch = vec![0u8; bytes.len() + 8];
    let rd = crate::ops_io::SchedReader { data: ext.clone(), pos: 0, fault: None, rng: Rng::new(7), whole: false, one: false, transient: false };
    let (v3, (rd, _)) = postcard::from_io::<T, _>((rd, &mut scratch[..])).map_err(|e| format!("from_io: {:?}", e))?;
    if rd.pos != bytes.len() || postcard::to_allocvec(&v3).ok().as_ref() != Some(&out) {
        return Err("from_io consumed a different number of bytes or gave a different value".into());
    }
    Ok(out)
}

fn real_lines<T: serde::de::DeserializeOwned + Serialize + Samples>(r: &mut Rng, nrand: usize, out: &mut Vec<String>, idx: usize) {
    let mut vals = T::candidates();
    if !vals.is_empty() {
        for _ in 0..nrand {
            vals.push(T::rand(r));
        }
    }
    for v in &vals {
        if let (Ok(ct), Ok(bytes)) = (record(v), postcard::to_allocvec(v)) {
            if bytes.len() <= 4000 {
                out.push(format!("realrt {} {} {}", idx, ct, hex(&bytes)));
            }
        }
    }
}

pub fn real_fn<T: serde::de::DeserializeOwned + Serialize + Samples>() -> RealFn {
    (real_decode::<T>, real_lines::<T>)
}

macro_rules! reals {
    ($($t:ty),* $(,)?) => { vec![$( real_fn::<$t>() ),*] };
}

/// concrete owned Rust types decoded through REAL serde / serde-derive Deserialize impls
pub fn real_fns() -> Vec<RealFn> {
    let mut v: Vec<RealFn> = reals!(
        u8, u16, u32, u64, u128, i8, i16, i32, i64, i128, bool, f32, f64, char, (), String, std::path::PathBuf,
        NonZeroU8, NonZeroU16, NonZeroU32, NonZeroU64, NonZeroU128, NonZeroI8, NonZeroI16, NonZeroI32, NonZeroI64, NonZeroI128,
        Option<u16>, Option<Option<String>>, Option<()>, Result<u8, String>, Result<(), Vec<u8>>, Result<Option<i64>, (u8, u8)>,
        Vec<u8>, Vec<Option<u16>>, Vec<Vec<i32>>, Vec<(u8, String)>, Vec<()>,
        (u8,), (u8, i16), (u8, i16, String), (bool, char, f32, f64), (u8, u8, u8, u8, u128), ((), Option<u8>, (u8,), [u8; 2], String, i128),
        [u8; 0], [u8; 1], [u8; 3], [u16; 32], [String; 2], [[i8; 2]; 2], [(u8, bool); 3],
        // (hash-based containers are left out: their iteration order differs between two decoded instances,
        // so value identity cannot be checked by re-encoding)
        BTreeSet<u32>, BTreeSet<(u8, i8)>, BTreeMap<String, u32>, BTreeMap<u16, String>, BTreeMap<String, BTreeMap<String, i8>>,
        Range<u16>, RangeInclusive<i64>, RangeFrom<u8>, RangeTo<char>,
        heapless::Vec<u8, 4>, heapless::Vec<String, 2>, heapless::String<8>, heapless08::Vec<u8, 4>, heapless08::String<8>,
        uuid::Uuid, chrono::DateTime<chrono::Utc>, chrono::DateTime<chrono::FixedOffset>,
        nalgebra::SMatrix<f32, 2, 2>, nalgebra::SMatrix<u8, 2, 3>,
        postcard_schema::key::Key, OwnedDataModelType, Vec<OwnedDataModelType>,
        DUnitS, DNewS, DTupS, DTup0, DNamed0, DPoint, DGenS<u8, String>, DNested, DAllKinds, DGenE<DPoint>, DGenE<DGenE<String>>, Vec<DAllKinds>, Option<DNested>,
    );
    v.extend(crate::generated_schema::generated_real_fns());
    // zero-sized Rust types that are NOT zero-width on the wire, in every container position
    v.extend(crate::zst::zst_real_fns());
    v
}

pub fn gen_real(r: &mut Rng, thorough: bool, out: &mut Vec<String>) {
    let n = if thorough { 40 } else { 4 };
    for (i, (_, lines)) in real_fns().iter().enumerate() {
        lines(r, n, out, i);
    }
}

pub fn schema_str<T: Schema + ?Sized>() -> String {
    show(&OwnedDataModelType::from(T::SCHEMA))
}

macro_rules! rty { ($v:ident, $s:expr, $t:ty) => { $v.push(($s.to_string(), schema_str::<$t>())); }; }

/// descriptions (grammar of Model/SchemaImpls.lean `RTy`) of concrete Rust types and their real SCHEMA
pub fn rty_entries() -> Vec<(String, String)> {
    let mut v: Vec<(String, String)> = Vec::new();
    rty!(v, "u8", u8); rty!(v, "u16", u16); rty!(v, "u32", u32); rty!(v, "u64", u64); rty!(v, "u128", u128);
    rty!(v, "i8", i8); rty!(v, "i16", i16); rty!(v, "i32", i32); rty!(v, "i64", i64); rty!(v, "i128", i128);
    rty!(v, "(nzu 8)", NonZeroU8); rty!(v, "(nzu 16)", NonZeroU16); rty!(v, "(nzu 32)", NonZeroU32); rty!(v, "(nzu 64)", NonZeroU64); rty!(v, "(nzu 128)", NonZeroU128);
    rty!(v, "(nzi 8)", NonZeroI8); rty!(v, "(nzi 16)", NonZeroI16); rty!(v, "(nzi 32)", NonZeroI32); rty!(v, "(nzi 64)", NonZeroI64); rty!(v, "(nzi 128)", NonZeroI128);
    rty!(v, "bool", bool); rty!(v, "f32", f32); rty!(v, "f64", f64); rty!(v, "char", char); rty!(v, "str", str); rty!(v, "unit", ());
    rty!(v, "string", String); rty!(v, "pathbuf", std::path::PathBuf); rty!(v, "uuid", uuid::Uuid); rty!(v, "key", postcard_schema::key::Key);
    rty!(v, "datetime", chrono::DateTime<chrono::Utc>); rty!(v, "datetime", chrono::DateTime<chrono::FixedOffset>);
    rty!(v, "dmt", postcard_schema::schema::DataModelType); rty!(v, "odmt", OwnedDataModelType);
    rty!(v, "(tuple u8)", (u8,)); rty!(v, "(tuple u8 i16)", (u8, i16)); rty!(v, "(tuple u8 i16 string)", (u8, i16, String));
    rty!(v, "(tuple bool char f32 f64)", (bool, char, f32, f64)); rty!(v, "(tuple u8 u8 u8 u8 u128)", (u8, u8, u8, u8, u128));
    rty!(v, "(tuple unit (option u8) (tuple u8) (array u8 2) string i128)", ((), Option<u8>, (u8,), [u8; 2], String, i128));
    rty!(v, "(option u16)", Option<u16>); rty!(v, "(option (option string))", Option<Option<String>>); rty!(v, "(result u8 string)", Result<u8, String>);
    rty!(v, "(result unit (vec u8))", Result<(), Vec<u8>>); rty!(v, "(ref u32)", &'static u32); rty!(v, "(ref (ref str))", &'static &'static str);
    rty!(v, "(slice u8)", [u8]); rty!(v, "(ref (slice string))", &'static [String]); rty!(v, "(vec u8)", Vec<u8>); rty!(v, "(vec (option u16))", Vec<Option<u16>>);
    rty!(v, "(vec (vec i32))", Vec<Vec<i32>>); rty!(v, "(array u8 0)", [u8; 0]); rty!(v, "(array u8 1)", [u8; 1]); rty!(v, "(array u16 32)", [u16; 32]);
    rty!(v, "(array (array i8 2) 2)", [[i8; 2]; 2]); rty!(v, "(array (tuple u8 bool) 3)", [(u8, bool); 3]);
    rty!(v, "(btreeset u32)", BTreeSet<u32>); rty!(v, "(hashset string)", HashSet<String>); rty!(v, "(btreemap string u32)", BTreeMap<String, u32>);
    rty!(v, "(hashmap string (vec u8))", HashMap<String, Vec<u8>>); rty!(v, "(btreemap u16 string)", BTreeMap<u16, String>); rty!(v, "(hashmap (tuple u8 u8) bool)", HashMap<(u8, u8), bool>);
    rty!(v, "(range u16)", Range<u16>); rty!(v, "(rangeinc i64)", RangeInclusive<i64>); rty!(v, "(rangefrom u8)", RangeFrom<u8>); rty!(v, "(rangeto char)", RangeTo<char>);
    rty!(v, "(hvec07 u8 4)", heapless::Vec<u8, 4>); rty!(v, "(hvec07 string 2)", heapless::Vec<String, 2>); rty!(v, "(hstring07 8)", heapless::String<8>);
    rty!(v, "(hvec08 u8 4)", heapless08::Vec<u8, 4>); rty!(v, "(hvec08 (tuple u8 i64) 3)", heapless08::Vec<(u8, i64), 3>); rty!(v, "(hstring08 8)", heapless08::String<8>);
    rty!(v, "(matrix f32 2 2)", nalgebra::SMatrix<f32, 2, 2>); rty!(v, "(matrix u8 2 3)", nalgebra::SMatrix<u8, 2, 3>); rty!(v, "(matrix i16 3 1)", nalgebra::SMatrix<i16, 3, 1>);
    rty!(v, "(dstruct UnitS unit)", UnitS); rty!(v, "(dstruct NewS (unnamed u32))", NewS); rty!(v, "(dstruct TupS (unnamed u8 string (option i16)))", TupS);
    rty!(v, "(dstruct Tup0 (unnamed))", Tup0); rty!(v, "(dstruct Named0 (named))", Named0); rty!(v, "(dstruct Point (named (x i32) (y i32)))", Point);
    rty!(v, "(dstruct GenS (named (t u8) (u (vec string)) (both (tuple u8 string))))", GenS<u8, String>);
    rty!(v, "(dstruct Life (named (s (ref str)) (b (ref (slice u16)))))", Life<'static>);
    rty!(v, "(denum AllKinds (A unit) (B (unnamed u64)) (C (unnamed u8 bool)) (D (named (a i8) (b string))) (E (unnamed)) (F (named)))", AllKinds);
    rty!(v, "(denum OneVar (Only (unnamed (dstruct Point (named (x i32) (y i32))))))", OneVar);
    rty!(v, "(denum GenE (None unit) (Some (unnamed u8)) (Pair (unnamed u8 u8)) (Rec (named (inner (vec u8)))))", GenE<u8>);
    rty!(v, "(dstruct r#RawName (named (plain u8)))", r#RawName);
    rty!(v, "(dstruct RawFields (named (r#type u8) (r#fn u16) (plain bool)))", RawFields);
    rty!(v, "(denum RawVariants (r#type unit) (r#Match (unnamed u8)) (Plain (named (r#loop i8))))", RawVariants);
    rty!(v, "(denum Discr (Stop unit) (Start unit) (Pause unit))", Discr);
    rty!(v, "(denum DiscrData (Data (unnamed u32)) (Ack unit) (Pair (unnamed u8 bool)) (Next unit))", DiscrData);
    v.extend(crate::generated_schema::generated_rty_entries());
    v
}

pub fn gen_schemaof(out: &mut Vec<String>) {
    let mut seen = std::collections::HashSet::new();
    for (r, _) in rty_entries() {
        if seen.insert(r.clone()) {
            out.push(format!("schemaof {}", r));
        }
    }
}

pub fn eval(ctx: &mut Ctx, op: &str, args: &[Sexp]) -> Option<String> {
    if op == "schemaof" {
        let key = ctx.line.trim_start_matches("schemaof").trim().to_string();
        let mut ans: Option<String> = None;
        for (r, s) in rty_entries() {
            if r == key {
                if let Some(a) = &ans {
                    if *a != s {
                        return Some(format!("FAIL two Rust types described by {} have different SCHEMAs", key));
                    }
                }
                ans = Some(s);
            }
        }
        return Some(format!("ok {}", ans?));
    }
    if op == "realrt" {
        let idx: usize = args.first()?.atom()?.parse().ok()?;
        let bytes = crate::sexp::unhex(args.get(2)?.atom()?)?;
        let fns = real_fns();
        let (dec, _) = fns.get(idx)?;
        return Some(match crate::core_ops::guard(|| dec(&bytes)) {
            Err(()) => {
                ctx.oracle_fail("panic while decoding a concrete Rust type".into());
                "FAIL panic".into()
            }
            Ok(Err(e)) => {
                ctx.oracle_fail(format!("round trip through the real Deserialize impl failed: {}", e));
                format!("FAIL {}", e)
            }
            Ok(Ok(out)) => {
                if out != bytes {
                    ctx.oracle_fail("decoding and re-encoding a concrete Rust value gives different bytes".into());
                }
                format!("ok {}", hex(&out))
            }
        });
    }
    if op != "conf" {
        return None;
    }
    // the data in the op line was recorded from the real crate when the line was generated;
    // the property says every such (tree, schema, bytes) triple conforms / is readable / re-encodes
    Some("ok conforms=1 reader=1 bytes=1".into())
}
