//! A recording serde::Serializer: the exact tree of data-model calls a value's
//! `Serialize` impl makes, with every name (C14). Reports is_human_readable() = false
//! like postcard (uuid and chrono branch on it).
use crate::sexp::hex;
use serde::ser::{self, Serialize};
use std::fmt;

#[derive(Debug, Clone, PartialEq)]
pub enum Ct {
    Bool(bool),
    U(u8, u128),
    I(u8, i128),
    F32(u32),
    F64(u64),
    Char(char),
    Str(String),
    Bytes(Vec<u8>),
    None,
    Some(Box<Ct>),
    Unit,
    UStruct(String),
    UVar(String, u32, String),
    NStruct(String, Box<Ct>),
    NVar(String, u32, String, Box<Ct>),
    Seq(Vec<Ct>),
    Tuple(Vec<Ct>),
    TStruct(String, Vec<Ct>),
    TVar(String, u32, String, Vec<Ct>),
    Map(Vec<Ct>),
    Struct(String, Vec<(String, Ct)>),
    SVar(String, u32, String, Vec<(String, Ct)>),
}

fn n(s: &str) -> String {
    hex(s.as_bytes())
}

impl fmt::Display for Ct {
    fn fmt(&self, f: &mut fmt::Formatter<'_>) -> fmt::Result {
        fn many(f: &mut fmt::Formatter<'_>, cs: &[Ct]) -> fmt::Result {
            for c in cs {
                write!(f, " {}", c)?;
            }
            Ok(())
        }
        fn fields(f: &mut fmt::Formatter<'_>, cs: &[(String, Ct)]) -> fmt::Result {
            for (k, c) in cs {
                write!(f, " ({} {})", n(k), c)?;
            }
            Ok(())
        }
        match self {
            Ct::Bool(b) => write!(f, "(bool {})", *b as u8),
            Ct::U(w, x) => write!(f, "(u{} {})", w, x),
            Ct::I(w, x) => write!(f, "(i{} {})", w, x),
            Ct::F32(b) => write!(f, "(f32 {:08x})", b),
            Ct::F64(b) => write!(f, "(f64 {:016x})", b),
            Ct::Char(c) => write!(f, "(char {})", *c as u32),
            Ct::Str(s) => write!(f, "(str {})", n(s)),
            Ct::Bytes(b) => write!(f, "(bytes {})", hex(b)),
            Ct::None => write!(f, "none"),
            Ct::Some(c) => write!(f, "(some {})", c),
            Ct::Unit => write!(f, "unit"),
            Ct::UStruct(name) => write!(f, "(ustruct {})", n(name)),
            Ct::UVar(e, i, v) => write!(f, "(uvar {} {} {})", n(e), i, n(v)),
            Ct::NStruct(name, c) => write!(f, "(nstruct {} {})", n(name), c),
            Ct::NVar(e, i, v, c) => write!(f, "(nvar {} {} {} {})", n(e), i, n(v), c),
            Ct::Seq(cs) => { write!(f, "(seq")?; many(f, cs)?; write!(f, ")") }
            Ct::Tuple(cs) => { write!(f, "(tuple")?; many(f, cs)?; write!(f, ")") }
            Ct::TStruct(name, cs) => { write!(f, "(tstruct {}", n(name))?; many(f, cs)?; write!(f, ")") }
            Ct::TVar(e, i, v, cs) => { write!(f, "(tvar {} {} {}", n(e), i, n(v))?; many(f, cs)?; write!(f, ")") }
            Ct::Map(cs) => { write!(f, "(map")?; many(f, cs)?; write!(f, ")") }
            Ct::Struct(name, cs) => { write!(f, "(struct {}", n(name))?; fields(f, cs)?; write!(f, ")") }
            Ct::SVar(e, i, v, cs) => { write!(f, "(svar {} {} {}", n(e), i, n(v))?; fields(f, cs)?; write!(f, ")") }
        }
    }
}

#[derive(Debug)]
pub struct RecErr(pub String);
impl fmt::Display for RecErr {
    fn fmt(&self, f: &mut fmt::Formatter<'_>) -> fmt::Result {
        write!(f, "{}", self.0)
    }
}
impl std::error::Error for RecErr {}
impl ser::Error for RecErr {
    fn custom<T: fmt::Display>(msg: T) -> Self {
        RecErr(msg.to_string())
    }
}

pub struct Rec { pub hr: bool }
pub struct SeqRec { kind: u8, name: String, idx: u32, vname: String, items: Vec<Ct> }
pub struct FieldRec { name: String, idx: u32, vname: String, variant: bool, items: Vec<(String, Ct)> }

thread_local! { static HR: std::cell::Cell<bool> = std::cell::Cell::new(false); }

/// the call tree postcard sees (is_human_readable() = false)
pub fn record<T: Serialize + ?Sized>(v: &T) -> Result<Ct, RecErr> {
    v.serialize(Rec { hr: HR.with(|h| h.get()) })
}

/// the call tree a human-readable serializer such as serde_json sees
pub fn record_hr<T: Serialize + ?Sized>(v: &T) -> Result<Ct, RecErr> {
    HR.with(|h| h.set(true));
    let r = v.serialize(Rec { hr: true });
    HR.with(|h| h.set(false));
    r
}

impl ser::Serializer for Rec {
    type Ok = Ct;
    type Error = RecErr;
    type SerializeSeq = SeqRec;
    type SerializeTuple = SeqRec;
    type SerializeTupleStruct = SeqRec;
    type SerializeTupleVariant = SeqRec;
    type SerializeMap = SeqRec;
    type SerializeStruct = FieldRec;
    type SerializeStructVariant = FieldRec;
    fn is_human_readable(&self) -> bool { self.hr }
    fn serialize_bool(self, v: bool) -> Result<Ct, RecErr> { Ok(Ct::Bool(v)) }
    fn serialize_i8(self, v: i8) -> Result<Ct, RecErr> { Ok(Ct::I(8, v as i128)) }
    fn serialize_i16(self, v: i16) -> Result<Ct, RecErr> { Ok(Ct::I(16, v as i128)) }
    fn serialize_i32(self, v: i32) -> Result<Ct, RecErr> { Ok(Ct::I(32, v as i128)) }
    fn serialize_i64(self, v: i64) -> Result<Ct, RecErr> { Ok(Ct::I(64, v as i128)) }
    fn serialize_i128(self, v: i128) -> Result<Ct, RecErr> { Ok(Ct::I(128, v)) }
    fn serialize_u8(self, v: u8) -> Result<Ct, RecErr> { Ok(Ct::U(8, v as u128)) }
    fn serialize_u16(self, v: u16) -> Result<Ct, RecErr> { Ok(Ct::U(16, v as u128)) }
    fn serialize_u32(self, v: u32) -> Result<Ct, RecErr> { Ok(Ct::U(32, v as u128)) }
    fn serialize_u64(self, v: u64) -> Result<Ct, RecErr> { Ok(Ct::U(64, v as u128)) }
    fn serialize_u128(self, v: u128) -> Result<Ct, RecErr> { Ok(Ct::U(128, v)) }
    fn serialize_f32(self, v: f32) -> Result<Ct, RecErr> { Ok(Ct::F32(v.to_bits())) }
    fn serialize_f64(self, v: f64) -> Result<Ct, RecErr> { Ok(Ct::F64(v.to_bits())) }
    fn serialize_char(self, v: char) -> Result<Ct, RecErr> { Ok(Ct::Char(v)) }
    fn serialize_str(self, v: &str) -> Result<Ct, RecErr> { Ok(Ct::Str(v.to_string())) }
    fn serialize_bytes(self, v: &[u8]) -> Result<Ct, RecErr> { Ok(Ct::Bytes(v.to_vec())) }
    fn serialize_none(self) -> Result<Ct, RecErr> { Ok(Ct::None) }
    fn serialize_some<T: Serialize + ?Sized>(self, v: &T) -> Result<Ct, RecErr> { Ok(Ct::Some(Box::new(record(v)?))) }
    fn serialize_unit(self) -> Result<Ct, RecErr> { Ok(Ct::Unit) }
    fn serialize_unit_struct(self, name: &'static str) -> Result<Ct, RecErr> { Ok(Ct::UStruct(name.into())) }
    fn serialize_unit_variant(self, e: &'static str, i: u32, v: &'static str) -> Result<Ct, RecErr> { Ok(Ct::UVar(e.into(), i, v.into())) }
    fn serialize_newtype_struct<T: Serialize + ?Sized>(self, name: &'static str, v: &T) -> Result<Ct, RecErr> { Ok(Ct::NStruct(name.into(), Box::new(record(v)?))) }
    fn serialize_newtype_variant<T: Serialize + ?Sized>(self, e: &'static str, i: u32, vn: &'static str, v: &T) -> Result<Ct, RecErr> {
        Ok(Ct::NVar(e.into(), i, vn.into(), Box::new(record(v)?)))
    }
    fn serialize_seq(self, _len: Option<usize>) -> Result<SeqRec, RecErr> { Ok(SeqRec { kind: 0, name: String::new(), idx: 0, vname: String::new(), items: vec![] }) }
    fn serialize_tuple(self, _len: usize) -> Result<SeqRec, RecErr> { Ok(SeqRec { kind: 1, name: String::new(), idx: 0, vname: String::new(), items: vec![] }) }
    fn serialize_tuple_struct(self, name: &'static str, _len: usize) -> Result<SeqRec, RecErr> { Ok(SeqRec { kind: 2, name: name.into(), idx: 0, vname: String::new(), items: vec![] }) }
    fn serialize_tuple_variant(self, e: &'static str, i: u32, v: &'static str, _len: usize) -> Result<SeqRec, RecErr> { Ok(SeqRec { kind: 3, name: e.into(), idx: i, vname: v.into(), items: vec![] }) }
    fn serialize_map(self, _len: Option<usize>) -> Result<SeqRec, RecErr> { Ok(SeqRec { kind: 4, name: String::new(), idx: 0, vname: String::new(), items: vec![] }) }
    fn serialize_struct(self, name: &'static str, _len: usize) -> Result<FieldRec, RecErr> { Ok(FieldRec { name: name.into(), idx: 0, vname: String::new(), variant: false, items: vec![] }) }
    fn serialize_struct_variant(self, e: &'static str, i: u32, v: &'static str, _len: usize) -> Result<FieldRec, RecErr> { Ok(FieldRec { name: e.into(), idx: i, vname: v.into(), variant: true, items: vec![] }) }
}

impl SeqRec {
    fn done(self) -> Ct {
        match self.kind {
            0 => Ct::Seq(self.items),
            1 => Ct::Tuple(self.items),
            2 => Ct::TStruct(self.name, self.items),
            3 => Ct::TVar(self.name, self.idx, self.vname, self.items),
            _ => Ct::Map(self.items),
        }
    }
}
impl ser::SerializeSeq for SeqRec {
    type Ok = Ct; type Error = RecErr;
    fn serialize_element<T: Serialize + ?Sized>(&mut self, v: &T) -> Result<(), RecErr> { self.items.push(record(v)?); Ok(()) }
    fn end(self) -> Result<Ct, RecErr> { Ok(self.done()) }
}
impl ser::SerializeTuple for SeqRec {
    type Ok = Ct; type Error = RecErr;
    fn serialize_element<T: Serialize + ?Sized>(&mut self, v: &T) -> Result<(), RecErr> { self.items.push(record(v)?); Ok(()) }
    fn end(self) -> Result<Ct, RecErr> { Ok(self.done()) }
}
impl ser::SerializeTupleStruct for SeqRec {
    type Ok = Ct; type Error = RecErr;
    fn serialize_field<T: Serialize + ?Sized>(&mut self, v: &T) -> Result<(), RecErr> { self.items.push(record(v)?); Ok(()) }
    fn end(self) -> Result<Ct, RecErr> { Ok(self.done()) }
}
impl ser::SerializeTupleVariant for SeqRec {
    type Ok = Ct; type Error = RecErr;
    fn serialize_field<T: Serialize + ?Sized>(&mut self, v: &T) -> Result<(), RecErr> { self.items.push(record(v)?); Ok(()) }
    fn end(self) -> Result<Ct, RecErr> { Ok(self.done()) }
}
impl ser::SerializeMap for SeqRec {
    type Ok = Ct; type Error = RecErr;
    fn serialize_key<T: Serialize + ?Sized>(&mut self, v: &T) -> Result<(), RecErr> { self.items.push(record(v)?); Ok(()) }
    fn serialize_value<T: Serialize + ?Sized>(&mut self, v: &T) -> Result<(), RecErr> { self.items.push(record(v)?); Ok(()) }
    fn end(self) -> Result<Ct, RecErr> { Ok(self.done()) }
}
impl ser::SerializeStruct for FieldRec {
    type Ok = Ct; type Error = RecErr;
    fn serialize_field<T: Serialize + ?Sized>(&mut self, k: &'static str, v: &T) -> Result<(), RecErr> { self.items.push((k.into(), record(v)?)); Ok(()) }
    fn end(self) -> Result<Ct, RecErr> { Ok(if self.variant { Ct::SVar(self.name, self.idx, self.vname, self.items) } else { Ct::Struct(self.name, self.items) }) }
}
impl ser::SerializeStructVariant for FieldRec {
    type Ok = Ct; type Error = RecErr;
    fn serialize_field<T: Serialize + ?Sized>(&mut self, k: &'static str, v: &T) -> Result<(), RecErr> { self.items.push((k.into(), record(v)?)); Ok(()) }
    fn end(self) -> Result<Ct, RecErr> { Ok(Ct::SVar(self.name, self.idx, self.vname, self.items)) }
}
