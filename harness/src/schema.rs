//! Schema trees on the harness side: s-expression codec for
//! `OwnedDataModelType`, leaking to `&'static DataModelType`, random trees.
use crate::prng::Rng;
use crate::sexp::{hex, unhex, Sexp};
use postcard_schema::schema::owned::{OwnedData, OwnedDataModelType as O, OwnedNamedField, OwnedVariant};
use postcard_schema::schema::{Data, DataModelType as B, NamedField, Variant};

pub const LEAVES: [(&str, fn() -> O); 21] = [
    ("bool", || O::Bool), ("i8", || O::I8), ("u8", || O::U8), ("i16", || O::I16), ("i32", || O::I32),
    ("i64", || O::I64), ("i128", || O::I128), ("u16", || O::U16), ("u32", || O::U32), ("u64", || O::U64),
    ("u128", || O::U128), ("usize", || O::Usize), ("isize", || O::Isize), ("f32", || O::F32), ("f64", || O::F64),
    ("char", || O::Char), ("string", || O::String), ("bytearray", || O::ByteArray), ("unit", || O::Unit),
    ("schema", || O::Schema), ("bool", || O::Bool),
];

fn leaf_name(o: &O) -> Option<&'static str> {
    Some(match o {
        O::Bool => "bool", O::I8 => "i8", O::U8 => "u8", O::I16 => "i16", O::I32 => "i32", O::I64 => "i64",
        O::I128 => "i128", O::U16 => "u16", O::U32 => "u32", O::U64 => "u64", O::U128 => "u128", O::Usize => "usize",
        O::Isize => "isize", O::F32 => "f32", O::F64 => "f64", O::Char => "char", O::String => "string",
        O::ByteArray => "bytearray", O::Unit => "unit", O::Schema => "schema",
        _ => return None,
    })
}

pub fn show(o: &O) -> String {
    if let Some(n) = leaf_name(o) {
        return n.to_string();
    }
    fn many(ts: &[O]) -> String {
        ts.iter().map(|t| format!(" {}", show(t))).collect()
    }
    match o {
        O::Option(t) => format!("(option {})", show(t)),
        O::Seq(t) => format!("(seq {})", show(t)),
        O::Tuple(ts) => format!("(tuple{})", many(ts)),
        O::Map { key, val } => format!("(map {} {})", show(key), show(val)),
        O::Struct { name, data } => format!("(struct {} {})", hex(name.as_bytes()), show_data(data)),
        O::Enum { name, variants } => format!(
            "(enum {}{})",
            hex(name.as_bytes()),
            variants.iter().map(|v| format!(" ({} {})", hex(v.name.as_bytes()), show_data(&v.data))).collect::<String>()
        ),
        _ => unreachable!(),
    }
}

pub fn show_data(d: &OwnedData) -> String {
    match d {
        OwnedData::Unit => "unit".into(),
        OwnedData::Newtype(t) => format!("(newtype {})", show(t)),
        OwnedData::Tuple(ts) => format!("(tuple{})", ts.iter().map(|t| format!(" {}", show(t))).collect::<String>()),
        OwnedData::Struct(fs) => {
            format!("(struct{})", fs.iter().map(|f| format!(" ({} {})", hex(f.name.as_bytes()), show(&f.ty))).collect::<String>())
        }
    }
}

fn name_of(x: &Sexp) -> Option<Box<str>> {
    Some(String::from_utf8(unhex(x.atom()?)?).ok()?.into_boxed_str())
}

pub fn parse(x: &Sexp) -> Option<O> {
    match x {
        Sexp::Atom(a) => LEAVES.iter().find(|(n, _)| n == a).map(|(_, f)| f()),
        Sexp::List(l) => {
            let head = l.first()?.atom()?;
            let args = &l[1..];
            match head {
                "option" => Some(O::Option(Box::new(parse(args.first()?)?))),
                "seq" => Some(O::Seq(Box::new(parse(args.first()?)?))),
                "tuple" => Some(O::Tuple(args.iter().map(parse).collect::<Option<Vec<_>>>()?.into_boxed_slice())),
                "map" => Some(O::Map { key: Box::new(parse(args.first()?)?), val: Box::new(parse(args.get(1)?)?) }),
                "struct" => Some(O::Struct { name: name_of(args.first()?)?, data: parse_data(args.get(1)?)? }),
                "enum" => {
                    let mut vs = Vec::new();
                    for v in &args[1..] {
                        let v = v.list()?;
                        vs.push(OwnedVariant { name: name_of(v.first()?)?, data: parse_data(v.get(1)?)? });
                    }
                    Some(O::Enum { name: name_of(args.first()?)?, variants: vs.into_boxed_slice() })
                }
                _ => None,
            }
        }
    }
}

pub fn parse_data(x: &Sexp) -> Option<OwnedData> {
    match x {
        Sexp::Atom(a) if a == "unit" => Some(OwnedData::Unit),
        Sexp::List(l) => {
            let head = l.first()?.atom()?;
            let args = &l[1..];
            match head {
                "newtype" => Some(OwnedData::Newtype(Box::new(parse(args.first()?)?))),
                "tuple" => Some(OwnedData::Tuple(args.iter().map(parse).collect::<Option<Vec<_>>>()?.into_boxed_slice())),
                "struct" => {
                    let mut fs = Vec::new();
                    for f in args {
                        let f = f.list()?;
                        fs.push(OwnedNamedField { name: name_of(f.first()?)?, ty: parse(f.get(1)?)? });
                    }
                    Some(OwnedData::Struct(fs.into_boxed_slice()))
                }
                _ => None,
            }
        }
        _ => None,
    }
}

/// Build the borrowed (`&'static`) form by leaking — hand-written, independent of `From`.
thread_local! {
    // tables already leaked, keyed by their content: a borrowed schema written by hand (or emitted by a macro) may
    // SHARE storage between types — identical tables, or one table being a prefix sub-slice of another
    // (`HeaderV1`'s fields = `&HEADER_V2_FIELDS[..2]`). Conversions must go by content and length, never by address.
    static FIELD_TABLES: RefCell<Vec<(Vec<String>, &'static [&'static NamedField])>> = const { RefCell::new(Vec::new()) };
    static VARIANT_TABLES: RefCell<Vec<(Vec<String>, &'static [&'static Variant])>> = const { RefCell::new(Vec::new()) };
    static TYPE_LISTS: RefCell<Vec<(Vec<String>, &'static [&'static B])>> = const { RefCell::new(Vec::new()) };
}
use std::cell::RefCell;

/// number of nodes of a schema, counted up to `cap` (cheap test for "small")
fn small(o: &O, cap: &mut usize) -> bool {
    fn data(d: &OwnedData, cap: &mut usize) -> bool {
        match d {
            OwnedData::Unit => true,
            OwnedData::Newtype(t) => small(t, cap),
            OwnedData::Tuple(ts) => ts.iter().all(|t| small(t, cap)),
            OwnedData::Struct(fs) => fs.iter().all(|f| small(&f.ty, cap)),
        }
    }
    if *cap == 0 {
        return false;
    }
    *cap -= 1;
    match o {
        O::Option(t) | O::Seq(t) => small(t, cap),
        O::Tuple(ts) => ts.iter().all(|t| small(t, cap)),
        O::Map { key, val } => small(key, cap) && small(val, cap),
        O::Struct { data: d, .. } => data(d, cap),
        O::Enum { variants, .. } => variants.iter().all(|v| data(&v.data, cap)),
        _ => true,
    }
}

fn shared<T: 'static>(reg: &'static std::thread::LocalKey<RefCell<Vec<(Vec<String>, &'static [T])>>>, keys: Option<Vec<String>>, make: impl FnOnce() -> Vec<T>) -> &'static [T] {
    // sharing is only attempted for small tables (the content keys are strings)
    let keys = match keys {
        Some(k) if !k.is_empty() => k,
        _ => return Box::leak(make().into_boxed_slice()),
    };
    if let Some(hit) = reg.with(|r| r.borrow().iter().find(|(k, _)| k.len() >= keys.len() && k[..keys.len()] == keys[..]).map(|(_, t)| *t)) {
        return &hit[..keys.len()];
    }
    let t: &'static [T] = Box::leak(make().into_boxed_slice());
    reg.with(|r| {
        let mut r = r.borrow_mut();
        if r.len() < 4096 {
            r.push((keys, t));
        }
    });
    t
}

fn data_key(d: &OwnedData) -> String {
    match d {
        OwnedData::Unit => "unit".into(),
        OwnedData::Newtype(t) => format!("(newtype {})", show(t)),
        OwnedData::Tuple(ts) => format!("(tuple{})", ts.iter().map(|t| format!(" {}", show(t))).collect::<String>()),
        OwnedData::Struct(fs) => format!("(struct{})", fs.iter().map(|f| format!(" ({} {})", crate::sexp::hex(f.name.as_bytes()), show(&f.ty))).collect::<String>()),
    }
}

pub fn leak(o: &O) -> &'static B {
    fn leak_str(s: &str) -> &'static str {
        Box::leak(s.to_string().into_boxed_str())
    }
    fn leak_list(ts: &[O]) -> &'static [&'static B] {
        let mut cap = 40;
        let keys = if ts.len() <= 8 && ts.iter().all(|t| small(t, &mut cap)) { Some(ts.iter().map(show).collect()) } else { None };
        shared(&TYPE_LISTS, keys, || ts.iter().map(leak).collect())
    }
    fn leak_data(d: &OwnedData) -> Data {
        match d {
            OwnedData::Unit => Data::Unit,
            OwnedData::Newtype(t) => Data::Newtype(leak(t)),
            OwnedData::Tuple(ts) => Data::Tuple(leak_list(ts)),
            OwnedData::Struct(fs) => Data::Struct(shared(
                &FIELD_TABLES,
                {
                    let mut cap = 40;
                    if fs.len() <= 8 && fs.iter().all(|f| f.name.len() <= 32 && small(&f.ty, &mut cap)) { Some(fs.iter().map(|f| format!("{} {}", crate::sexp::hex(f.name.as_bytes()), show(&f.ty))).collect()) } else { None }
                },
                || fs.iter().map(|f| &*Box::leak(Box::new(NamedField { name: leak_str(&f.name), ty: leak(&f.ty) }))).collect(),
            )),
        }
    }
    let b = match o {
        O::Bool => B::Bool, O::I8 => B::I8, O::U8 => B::U8, O::I16 => B::I16, O::I32 => B::I32, O::I64 => B::I64,
        O::I128 => B::I128, O::U16 => B::U16, O::U32 => B::U32, O::U64 => B::U64, O::U128 => B::U128,
        O::Usize => B::Usize, O::Isize => B::Isize, O::F32 => B::F32, O::F64 => B::F64, O::Char => B::Char,
        O::String => B::String, O::ByteArray => B::ByteArray, O::Unit => B::Unit, O::Schema => B::Schema,
        O::Option(t) => B::Option(leak(t)),
        O::Seq(t) => B::Seq(leak(t)),
        O::Tuple(ts) => B::Tuple(leak_list(ts)),
        O::Map { key, val } => B::Map { key: leak(key), val: leak(val) },
        O::Struct { name, data } => B::Struct { name: leak_str(name), data: leak_data(data) },
        O::Enum { name, variants } => B::Enum {
            name: leak_str(name),
            variants: shared(
                &VARIANT_TABLES,
                {
                    let mut cap = 40;
                    let sm = |d: &OwnedData, cap: &mut usize| match d {
                        OwnedData::Unit => true,
                        OwnedData::Newtype(t) => small(t, cap),
                        OwnedData::Tuple(ts) => ts.iter().all(|t| small(t, cap)),
                        OwnedData::Struct(fs) => fs.iter().all(|f| f.name.len() <= 32 && small(&f.ty, cap)),
                    };
                    if variants.len() <= 8 && variants.iter().all(|v| v.name.len() <= 32 && sm(&v.data, &mut cap)) { Some(variants.iter().map(|v| format!("{} {}", crate::sexp::hex(v.name.as_bytes()), data_key(&v.data))).collect()) } else { None }
                },
                || variants.iter().map(|v| &*Box::leak(Box::new(Variant { name: leak_str(&v.name), data: leak_data(&v.data) }))).collect(),
            ),
        },
    };
    Box::leak(Box::new(b))
}

/// schemas in which one field / variant / element table is a proper prefix of an earlier, longer one (and
/// identical tables occur twice): with `leak` they share storage the way hand-written statics can
pub fn aliasing_schemas() -> Vec<O> {
    let nm = |s: &str| s.to_string().into_boxed_str();
    let f = |n: &str, t: O| OwnedNamedField { name: nm(n), ty: t };
    let st = |n: &str, fs: Vec<OwnedNamedField>| O::Struct { name: nm(n), data: OwnedData::Struct(fs.into_boxed_slice()) };
    let v2 = st("HeaderV2", vec![f("id", O::U32), f("len", O::U16), f("crc", O::U32)]);
    let v1 = st("HeaderV1", vec![f("id", O::U32), f("len", O::U16)]);
    let v0 = st("HeaderV0", vec![f("id", O::U32)]);
    let var = |n: &str, d: OwnedData| OwnedVariant { name: nm(n), data: d };
    let e3 = O::Enum { name: nm("E3"), variants: vec![var("A", OwnedData::Unit), var("B", OwnedData::Newtype(Box::new(O::U8))), var("C", OwnedData::Tuple(vec![O::U8, O::Bool].into_boxed_slice()))].into_boxed_slice() };
    let e2 = O::Enum { name: nm("E2"), variants: vec![var("A", OwnedData::Unit), var("B", OwnedData::Newtype(Box::new(O::U8)))].into_boxed_slice() };
    let t3 = O::Tuple(vec![O::U8, O::U16, O::U32].into_boxed_slice());
    let t2 = O::Tuple(vec![O::U8, O::U16].into_boxed_slice());
    let evs = O::Enum { name: nm("Msg"), variants: vec![var("Long", OwnedData::Struct(vec![f("a", O::U8), f("b", O::String), f("c", O::Bool)].into_boxed_slice())), var("Short", OwnedData::Struct(vec![f("a", O::U8), f("b", O::String)].into_boxed_slice())), var("T3", OwnedData::Tuple(vec![O::I8, O::I16, O::I32].into_boxed_slice())), var("T2", OwnedData::Tuple(vec![O::I8, O::I16].into_boxed_slice()))].into_boxed_slice() };
    vec![
        O::Tuple(vec![v2.clone(), v1.clone(), v0.clone()].into_boxed_slice()),
        O::Tuple(vec![v2.clone(), v2.clone(), v1.clone()].into_boxed_slice()),
        O::Tuple(vec![e3.clone(), e2.clone()].into_boxed_slice()),
        O::Tuple(vec![t3.clone(), t2.clone(), t3, t2].into_boxed_slice()),
        evs,
        O::Map { key: Box::new(v2), val: Box::new(v1) },
        O::Seq(Box::new(O::Tuple(vec![e3, e2].into_boxed_slice()))),
    ]
}

pub fn gen_name(r: &mut Rng) -> String {
    match r.below(14) {
        0 => String::new(),
        1 => "a".into(),
        2 => "\u{e9}\u{4e16}".into(),
        3 => "\u{1F600}x".into(),
        // names are opaque strings to the schema machinery: nothing may normalise, trim or reinterpret them
        4 => (*r.pick(&["r#type", "r#", "r#x", "r#r#y", "R#z", " lead", "trail ", "a.b", "a::b", "0", "_", "self", "\u{0}", "a\u{0}b", "\t"])).into(),
        5 => {
            let n = *r.pick(&[31usize, 32, 63, 64, 65, 127, 128, 129, 255, 256, 300]);
            (0..n).map(|i| (b'a' + ((i * 7) % 26) as u8) as char).collect()
        }
        _ => {
            let n = r.range(1, 6);
            (0..n).map(|_| (b'a' + r.below(26) as u8) as char).collect()
        }
    }
}

pub fn gen_leaf(r: &mut Rng) -> O {
    (LEAVES[r.below(20) as usize].1)()
}

pub fn gen_list(r: &mut Rng, depth: u32, fan: u64) -> Vec<O> {
    let n = r.below(fan + 1);
    (0..n).map(|_| gen_schema(r, depth, fan)).collect()
}

pub fn gen_data(r: &mut Rng, depth: u32, fan: u64) -> OwnedData {
    match r.below(4) {
        0 => OwnedData::Unit,
        1 => OwnedData::Newtype(Box::new(gen_schema(r, depth, fan))),
        2 => OwnedData::Tuple(gen_list(r, depth, fan).into_boxed_slice()),
        _ => {
            let n = r.below(fan + 1);
            OwnedData::Struct(
                (0..n)
                    .map(|_| OwnedNamedField { name: gen_name(r).into_boxed_str(), ty: gen_schema(r, depth, fan) })
                    .collect::<Vec<_>>()
                    .into_boxed_slice(),
            )
        }
    }
}

pub fn gen_schema(r: &mut Rng, depth: u32, fan: u64) -> O {
    if depth == 0 || r.chance(1, 3) {
        return gen_leaf(r);
    }
    let d = depth - 1;
    match r.below(6) {
        0 => O::Option(Box::new(gen_schema(r, d, fan))),
        1 => O::Seq(Box::new(gen_schema(r, d, fan))),
        2 => O::Tuple(gen_list(r, d, fan).into_boxed_slice()),
        3 => O::Map { key: Box::new(gen_schema(r, d, fan)), val: Box::new(gen_schema(r, d, fan)) },
        4 => O::Struct { name: gen_name(r).into_boxed_str(), data: gen_data(r, d, fan) },
        _ => {
            let n = r.below(fan + 1);
            O::Enum {
                name: gen_name(r).into_boxed_str(),
                variants: (0..n)
                    .map(|_| OwnedVariant { name: gen_name(r).into_boxed_str(), data: gen_data(r, d, fan) })
                    .collect::<Vec<_>>()
                    .into_boxed_slice(),
            }
        }
    }
}

/// schemas at SCALE: nesting depth and field / variant / element counts on a ladder (nothing in the schema
/// machinery may depend on these sizes)
pub fn scale_schemas(r: &mut Rng, max_depth: usize, max_width: usize) -> Vec<O> {
    let nm = |s: String| s.into_boxed_str();
    let mut out = Vec::new();
    let lad = [15usize, 16, 17, 31, 32, 33, 63, 64, 65, 100, 127, 128, 129, 130, 200, 255, 256, 257, 300, 511, 512, 513, 1023, 1024, 1025];
    for &d in lad.iter().filter(|d| **d <= max_depth) {
        for kind in 0..8usize {
            let mut s = if kind % 2 == 0 { O::U8 } else { O::String };
            for level in 0..d {
                let k = if kind == 7 { level % 7 } else { kind };
                s = match k {
                    0 => O::Option(Box::new(s)),
                    1 => O::Seq(Box::new(s)),
                    2 => O::Tuple(vec![s].into_boxed_slice()),
                    3 => O::Map { key: Box::new(O::String), val: Box::new(s) },
                    4 => O::Struct { name: nm(format!("N{}", level)), data: OwnedData::Newtype(Box::new(s)) },
                    5 => O::Struct { name: nm(format!("S{}", level % 3)), data: OwnedData::Struct(vec![OwnedNamedField { name: nm(format!("f{}", level)), ty: s }].into_boxed_slice()) },
                    _ => O::Enum { name: nm("E".to_string()), variants: vec![OwnedVariant { name: nm("Leaf".to_string()), data: OwnedData::Unit }, OwnedVariant { name: nm(format!("V{}", level)), data: OwnedData::Tuple(vec![s].into_boxed_slice()) }].into_boxed_slice() },
                };
            }
            out.push(s);
        }
    }
    for &n in lad.iter().filter(|n| **n <= max_width) {
        out.push(O::Tuple((0..n).map(|i| if i % 2 == 0 { O::U8 } else { O::Bool }).collect::<Vec<_>>().into_boxed_slice()));
        out.push(O::Tuple(vec![O::I16; n].into_boxed_slice()));
        out.push(O::Struct { name: nm("Wide".to_string()), data: OwnedData::Struct((0..n).map(|i| OwnedNamedField { name: nm(format!("field_{}", i)), ty: if i % 3 == 0 { O::Option(Box::new(O::U16)) } else { O::U16 } }).collect::<Vec<_>>().into_boxed_slice()) });
        out.push(O::Enum { name: nm("Many".to_string()), variants: (0..n).map(|i| OwnedVariant { name: nm(format!("V{}", i)), data: match i % 4 { 0 => OwnedData::Unit, 1 => OwnedData::Newtype(Box::new(O::U8)), 2 => OwnedData::Tuple(vec![O::U8, O::Bool].into_boxed_slice()), _ => OwnedData::Struct(vec![OwnedNamedField { name: gen_name(r).into_boxed_str(), ty: O::I32 }].into_boxed_slice()) } }).collect::<Vec<_>>().into_boxed_slice() });
    }
    out
}

/// every one of the 26 node kinds and 4+4 data kinds at least once, as single-node-ish schemas
pub fn all_kinds() -> Vec<O> {
    let mut v: Vec<O> = LEAVES[..20].iter().map(|(_, f)| f()).collect();
    let nm = |s: &str| s.to_string().into_boxed_str();
    v.push(O::Option(Box::new(O::U8)));
    v.push(O::Seq(Box::new(O::U8)));
    v.push(O::Tuple(vec![].into_boxed_slice()));
    v.push(O::Tuple(vec![O::U8, O::Bool].into_boxed_slice()));
    v.push(O::Map { key: Box::new(O::String), val: Box::new(O::U32) });
    for data in [
        OwnedData::Unit,
        OwnedData::Newtype(Box::new(O::U8)),
        OwnedData::Tuple(vec![O::U8, O::I8].into_boxed_slice()),
        OwnedData::Struct(vec![OwnedNamedField { name: nm("x"), ty: O::I32 }, OwnedNamedField { name: nm("y"), ty: O::I32 }].into_boxed_slice()),
    ] {
        v.push(O::Struct { name: nm("S"), data: data.clone() });
        v.push(O::Struct { name: nm(""), data: data.clone() });
        v.push(O::Enum { name: nm("E"), variants: vec![OwnedVariant { name: nm("V"), data: data.clone() }].into_boxed_slice() });
        v.push(O::Enum { name: nm("E"), variants: vec![OwnedVariant { name: nm(""), data }].into_boxed_slice() });
    }
    v.push(O::Enum { name: nm("Empty"), variants: vec![].into_boxed_slice() });
    v
}

/// single-node mutations of a tree (for key-sensitivity probes): returns (description, mutated)
pub fn mutations(r: &mut Rng, o: &O) -> Vec<(&'static str, O)> {
    let mut out = Vec::new();
    fn bump(s: &str) -> Box<str> {
        // change exactly one byte of the name (keeping it valid UTF-8) or add one if empty
        if s.is_empty() {
            return "z".into();
        }
        let mut cs: Vec<char> = s.chars().collect();
        let c = cs[0];
        cs[0] = if c.is_ascii() { if c == 'q' { 'r' } else { 'q' } } else { c };
        if cs[0] == c {
            cs.push('q');
        }
        cs.into_iter().collect::<String>().into_boxed_str()
    }
    match o {
        O::Struct { name, data } => {
            out.push(("type-name", O::Struct { name: bump(name), data: data.clone() }));
            if let OwnedData::Struct(fs) = data {
                if !fs.is_empty() {
                    let i = r.below(fs.len() as u64) as usize;
                    let mut f2 = fs.to_vec();
                    f2[i].name = bump(&f2[i].name);
                    out.push(("field-name", O::Struct { name: name.clone(), data: OwnedData::Struct(f2.into_boxed_slice()) }));
                    let mut f3 = fs.to_vec();
                    f3[i].ty = differ_leaf(&f3[i].ty);
                    out.push(("element-kind", O::Struct { name: name.clone(), data: OwnedData::Struct(f3.into_boxed_slice()) }));
                }
                if fs.len() >= 2 && fs[0] != fs[1] {
                    let mut f4 = fs.to_vec();
                    f4.swap(0, 1);
                    out.push(("field-order", O::Struct { name: name.clone(), data: OwnedData::Struct(f4.into_boxed_slice()) }));
                }
            }
        }
        O::Enum { name, variants } => {
            out.push(("type-name", O::Enum { name: bump(name), variants: variants.clone() }));
            if !variants.is_empty() {
                let i = r.below(variants.len() as u64) as usize;
                let mut v2 = variants.to_vec();
                v2[i].name = bump(&v2[i].name);
                out.push(("variant-name", O::Enum { name: name.clone(), variants: v2.into_boxed_slice() }));
            }
            if variants.len() >= 2 && variants[0] != variants[1] {
                let mut v3 = variants.to_vec();
                v3.swap(0, 1);
                out.push(("variant-order", O::Enum { name: name.clone(), variants: v3.into_boxed_slice() }));
            }
        }
        O::Option(t) => out.push(("element-kind", O::Option(Box::new(differ_leaf(t))))),
        O::Seq(t) => out.push(("element-kind", O::Seq(Box::new(differ_leaf(t))))),
        O::Tuple(ts) if !ts.is_empty() => {
            let mut t2 = ts.to_vec();
            t2[0] = differ_leaf(&t2[0]);
            out.push(("element-kind", O::Tuple(t2.into_boxed_slice())));
        }
        O::Map { key, val } => out.push(("element-kind", O::Map { key: key.clone(), val: Box::new(differ_leaf(val)) })),
        _ => {}
    }
    out
}

fn differ_leaf(o: &O) -> O {
    if *o == O::U8 {
        O::I64
    } else {
        O::U8
    }
}
