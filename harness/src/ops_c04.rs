//! Ops and generators for C04 (decoding untrusted bytes is total, in bounds, resource-bounded).
//!   deg <ty> <hex>        decode with the input flush against inaccessible pages on either side,
//!                         slice and reader paths (reader scratch also guarded); borrowed results
//!                         must lie inside the input right after their length prefix
//!   alloc <tname> <hex>   decode as a concrete heap-allocating Rust type under the counting allocator
use crate::core_ops::*;
use crate::dval::{with_ty, DTy, DynVal, BORROWS, HINTS};
use crate::gen::*;
use crate::guard::{Pages, ALLOCATED, ALLOC_LIMIT};
use crate::prng::Rng;
use crate::sexp::{hex, unhex, Sexp};
use crate::Ctx;
use std::sync::atomic::Ordering;

/// is there a varint ending right before `off` whose value is `len`?
fn length_prefix_before(input: &[u8], off: usize, len: usize) -> bool {
    for start in (0..off).rev().take(10) {
        let p = &input[start..off];
        if p.last().map(|b| b & 0x80 != 0).unwrap_or(true) {
            return false;
        }
        if p[..p.len() - 1].iter().all(|b| b & 0x80 != 0) {
            let mut v: u128 = 0;
            for (i, b) in p.iter().enumerate() {
                v |= ((b & 0x7F) as u128) << (7 * i);
            }
            if v == len as u128 {
                return true;
            }
        } else {
            break;
        }
    }
    false
}

fn check_borrows(ctx: &mut Ctx, input: &[u8], what: &str) {
    let base = input.as_ptr() as usize;
    let bs = BORROWS.with(|b| std::mem::take(&mut *b.borrow_mut()));
    let mut prev_end = 0usize;
    for (p, l, _is_str) in bs {
        if p < base || p + l > base + input.len() {
            ctx.oracle_fail(format!("{}: a borrowed slice lies outside the input", what));
            continue;
        }
        let off = p - base;
        if off < prev_end {
            ctx.oracle_fail(format!("{}: borrowed slices overlap or are out of order", what));
        }
        prev_end = off + l;
        if !length_prefix_before(input, off, l) {
            ctx.oracle_fail(format!("{}: borrowed slice at offset {} (len {}) is not at the position it was encoded", what, off, l));
        }
    }
    let hs = HINTS.with(|h| std::mem::take(&mut *h.borrow_mut()));
    for h in hs.into_iter().flatten() {
        if h > input.len() {
            ctx.oracle_fail(format!("{}: a sequence visitor was given size hint {} for a {}-byte input", what, h, input.len()));
        }
    }
}

/// an owned byte buffer whose Deserialize impl asks for `deserialize_byte_buf` (what serde_bytes::ByteBuf,
/// CString and bytes::Bytes do): the claimed length must not be allocated before the bytes are there
#[derive(Debug, PartialEq)]
pub struct OwnedBytes(pub Vec<u8>);
impl<'de> serde::Deserialize<'de> for OwnedBytes {
    fn deserialize<D: serde::Deserializer<'de>>(d: D) -> Result<Self, D::Error> {
        struct V;
        impl<'de> serde::de::Visitor<'de> for V {
            type Value = OwnedBytes;
            fn expecting(&self, f: &mut std::fmt::Formatter) -> std::fmt::Result {
                write!(f, "bytes")
            }
            fn visit_bytes<E: serde::de::Error>(self, v: &[u8]) -> Result<OwnedBytes, E> {
                Ok(OwnedBytes(v.to_vec()))
            }
            fn visit_byte_buf<E: serde::de::Error>(self, v: Vec<u8>) -> Result<OwnedBytes, E> {
                Ok(OwnedBytes(v))
            }
        }
        d.deserialize_byte_buf(V)
    }
}

macro_rules! concrete {
    ($name:expr, $bytes:expr, $($n:literal => $t:ty, $k:expr);* $(;)?) => {
        match $name {
            $( $n => {
                let r = postcard::take_from_bytes::<$t>($bytes);
                Some((r.map(|(_, rest)| rest.len()).map_err(|e| err_name(&e)), $k))
            } )*
            _ => None,
        }
    };
}
macro_rules! concrete_io {
    ($name:expr, $bytes:expr, $scratch:expr, $($n:literal => $t:ty, $k:expr);* $(;)?) => {
        match $name {
            $( $n => {
                let mut rd: &[u8] = $bytes;
                let r = postcard::from_io::<$t, _>((&mut rd, $scratch)).map(|_| ()).map_err(|e| err_name(&e));
                Some((r.map(|_| rd.len()), $k))
            } )*
            _ => None,
        }
    };
}
/// the framed decoders (every CRC width, COBS) on the same hostile bytes: results are not compared
/// (the checksum is almost never right), only totality and allocation are observed
fn framed_all<T: serde::de::DeserializeOwned>(bytes: &[u8]) {
    use postcard::de_flavors::crc as c;
    let _ = c::from_bytes_u8::<T>(bytes, crc::Crc::<u8>::new(&crc::CRC_8_SMBUS).digest());
    let _ = c::from_bytes_u16::<T>(bytes, crc::Crc::<u16>::new(&crc::CRC_16_XMODEM).digest());
    let _ = c::take_from_bytes_u32::<T>(bytes, crc::Crc::<u32>::new(&crc::CRC_32_ISO_HDLC).digest());
    let _ = postcard::from_bytes_crc32::<T>(bytes, crc::Crc::<u32>::new(&crc::CRC_32_ISO_HDLC).digest());
    let _ = c::from_bytes_u64::<T>(bytes, crc::Crc::<u64>::new(&crc::CRC_64_XZ).digest());
    let _ = c::take_from_bytes_u128::<T>(bytes, crc::Crc::<u128>::new(&crc::CRC_82_DARC).digest());
    let mut copy = bytes.to_vec();
    let _ = postcard::from_bytes_cobs::<T>(&mut copy);
    let mut copy = bytes.to_vec();
    let _ = postcard::take_from_bytes_cobs::<T>(&mut copy);
}
macro_rules! concrete_framed {
    ($name:expr, $bytes:expr, $($n:literal => $t:ty, $k:expr);* $(;)?) => {
        match $name {
            $( $n => { framed_all::<$t>($bytes); Some($k) } )*
            _ => None,
        }
    };
}
fn decode_concrete_framed(name: &str, bytes: &[u8]) -> Option<usize> {
    concrete_framed!(name, bytes,
        "vec_u8" => Vec<u8>, 16;
        "vec_u64" => Vec<u64>, 64;
        "vec_u128" => Vec<u128>, 128;
        "string" => String, 16;
        "vec_string" => Vec<String>, 256;
        "vec_vec_u16" => Vec<Vec<u16>>, 256;
        "vec_pair" => Vec<(u8, u32)>, 64;
        "pair" => (Vec<u16>, String), 64;
        "vec_opt" => Vec<Option<u64>>, 128;
        "bytebuf" => (u8, Vec<u8>), 16;
        "ownedbytes" => OwnedBytes, 16;
        "pair_ownedbytes" => (u8, OwnedBytes, OwnedBytes), 16;
    )
}

/// the same concrete types through the reader path (owned types only)
fn decode_concrete_io(name: &str, bytes: &[u8], scratch: &mut [u8]) -> Option<(Result<usize, &'static str>, usize)> {
    concrete_io!(name, bytes, scratch,
        "vec_u8" => Vec<u8>, 16;
        "vec_u64" => Vec<u64>, 64;
        "vec_u128" => Vec<u128>, 128;
        "string" => String, 16;
        "vec_string" => Vec<String>, 256;
        "vec_vec_u16" => Vec<Vec<u16>>, 256;
        "vec_pair" => Vec<(u8, u32)>, 64;
        "pair" => (Vec<u16>, String), 64;
        "vec_opt" => Vec<Option<u64>>, 128;
        "bytebuf" => (u8, Vec<u8>), 16;
        "ownedbytes" => OwnedBytes, 16;
        "pair_ownedbytes" => (u8, OwnedBytes, OwnedBytes), 16;
    )
}

/// (result: remaining length or error, allowed bytes per input byte)
fn decode_concrete(name: &str, bytes: &[u8]) -> Option<(Result<usize, &'static str>, usize)> {
    concrete!(name, bytes,
        "vec_u8" => Vec<u8>, 16;
        "vec_u64" => Vec<u64>, 64;
        "vec_u128" => Vec<u128>, 128;
        "string" => String, 16;
        "vec_string" => Vec<String>, 256;
        "vec_vec_u16" => Vec<Vec<u16>>, 256;
        "vec_pair" => Vec<(u8, u32)>, 64;
        "pair" => (Vec<u16>, String), 64;
        "vec_opt" => Vec<Option<u64>>, 128;
        "bytebuf" => (u8, Vec<u8>), 16;
        "ownedbytes" => OwnedBytes, 16;
        "pair_ownedbytes" => (u8, OwnedBytes, OwnedBytes), 16;
    )
}
pub const CONCRETE: [(&str, &str); 12] = [
    ("ownedbytes", "bytes"), ("pair_ownedbytes", "(tuple u8 bytes bytes)"),
    ("vec_u8", "(seq u8)"), ("vec_u64", "(seq u64)"), ("vec_u128", "(seq u128)"), ("string", "str"),
    ("vec_string", "(seq str)"), ("vec_vec_u16", "(seq (seq u16))"), ("vec_pair", "(seq (tuple u8 u32))"),
    ("pair", "(tuple (seq u16) str)"), ("vec_opt", "(seq (option u64))"), ("bytebuf", "(tuple u8 (seq u8))"),
];

pub fn eval(ctx: &mut Ctx, op: &str, args: &[Sexp]) -> Option<String> {
    match op {
        "deg" => {
            let t = DTy::from_sexp(args.first()?)?;
            let bytes = unhex(args.get(1)?.atom()?)?;
            let mut answers: Vec<DeRes> = Vec::new();
            for flush_right in [true, false] {
                let pages = Pages::new(&bytes, flush_right);
                let inp = pages.slice();
                BORROWS.with(|b| b.borrow_mut().clear());
                HINTS.with(|h| h.borrow_mut().clear());
                let r = guard(|| with_ty(&t, || postcard::take_from_bytes::<DynVal>(inp).map(|(v, r)| (v.0, r.to_vec())).map_err(|e| err_name(&e))));
                match r {
                    Err(()) => return Some("FAIL panic while decoding".into()),
                    Ok(r) => {
                        if let Ok((_, rest)) = &r {
                            if rest.len() > inp.len() || inp[inp.len() - rest.len()..] != rest[..] {
                                ctx.oracle_fail("remainder is not a suffix of the input".into());
                            }
                        }
                        check_borrows(ctx, inp, "slice");
                        answers.push(r);
                    }
                }
            }
            // reader path: scratch buffer flush against inaccessible pages as well
            for scratch_len in [bytes.len() + 4, bytes.len() / 2, 0] {
                let mut scratch = Pages::new(&vec![0u8; scratch_len], true);
                let mut rd: &[u8] = &bytes;
                BORROWS.with(|b| b.borrow_mut().clear());
                HINTS.with(|h| h.borrow_mut().clear());
                let sbase = scratch.slice().as_ptr() as usize;
                let r = guard(|| with_ty(&t, || postcard::from_io::<DynVal, _>((&mut rd, scratch.slice_mut())).map(|(v, (_, rest))| (v.0, rest.len())).map_err(|e| err_name(&e))));
                match r {
                    Err(()) => return Some("FAIL panic while decoding from a reader".into()),
                    Ok(r) => {
                        for h in HINTS.with(|h| std::mem::take(&mut *h.borrow_mut())).into_iter().flatten() {
                            if h > scratch_len.max(bytes.len()) {
                                ctx.oracle_fail(format!("reader: a sequence visitor was given size hint {} (input {} bytes, scratch {} bytes)", h, bytes.len(), scratch_len));
                            }
                        }
                        let bs = BORROWS.with(|b| std::mem::take(&mut *b.borrow_mut()));
                        let mut prev = 0usize;
                        for (p, l, _) in bs {
                            if p < sbase || p + l > sbase + scratch_len || p - sbase < prev {
                                ctx.oracle_fail("reader: borrowed data outside the scratch buffer or overlapping".into());
                            }
                            prev = p - sbase + l;
                        }
                        if scratch_len >= bytes.len() + 4 {
                            match (&r, &answers[0]) {
                                (Ok((v, _)), Ok((v2, _))) if v == v2 => {}
                                (Err(_), Err(_)) => {}
                                _ => ctx.oracle_fail(format!("reader result {:?} differs from slice result", r.as_ref().map(|x| x.0.to_string()))),
                            }
                        }
                    }
                }
            }
            if answers[0] != answers[1] {
                return Some("FAIL result depends on where the input is placed in memory".into());
            }
            Some(de_answer(&answers[0]))
        }
        "alloc" => {
            let name = args.first()?.atom()?;
            let bytes = unhex(args.get(1)?.atom()?)?;
            let pages = Pages::new(&bytes, true);
            let inp = pages.slice();
            ALLOC_LIMIT.store(ALLOCATED.load(Ordering::Relaxed) + (1 << 30), Ordering::Relaxed);
            let before = ALLOCATED.load(Ordering::Relaxed);
            let r = guard(|| decode_concrete(name, inp));
            let used = ALLOCATED.load(Ordering::Relaxed) - before;
            ALLOC_LIMIT.store(usize::MAX, Ordering::Relaxed);
            let (res, k) = match r {
                Err(()) => return Some("FAIL panic while decoding".into()),
                Ok(x) => x?,
            };
            if used > k * bytes.len() + 1024 {
                ctx.oracle_fail(format!("decoding {} input bytes as {} allocated {} bytes (bound {} * len + 1024)", bytes.len(), name, used, k));
            }
            // the same through a byte reader with a scratch buffer as large as the input
            let mut scratch = vec![0u8; bytes.len()];
            ALLOC_LIMIT.store(ALLOCATED.load(Ordering::Relaxed) + (1 << 30), Ordering::Relaxed);
            let before = ALLOCATED.load(Ordering::Relaxed);
            let rio = guard(|| decode_concrete_io(name, &bytes, &mut scratch));
            let used_io = ALLOCATED.load(Ordering::Relaxed) - before;
            ALLOC_LIMIT.store(usize::MAX, Ordering::Relaxed);
            match rio {
                Err(()) => return Some("FAIL panic while decoding from a reader".into()),
                Ok(Some((r2, _))) => {
                    if r2.is_ok() != res.is_ok() {
                        ctx.oracle_fail(format!("reader path {:?} vs slice path {:?}", r2, res));
                    }
                }
                Ok(None) => {}
            }
            if used_io > k * bytes.len() + 1024 {
                ctx.oracle_fail(format!("reader path: decoding {} input bytes as {} allocated {} bytes (bound {} * len + 1024)", bytes.len(), name, used_io, k));
            }
            // the framed decoders (5 CRC widths incl. the crate-root crc32 wrapper, COBS) on the same bytes
            ALLOC_LIMIT.store(ALLOCATED.load(Ordering::Relaxed) + (1 << 30), Ordering::Relaxed);
            let before = ALLOCATED.load(Ordering::Relaxed);
            let rf = guard(|| decode_concrete_framed(name, &bytes));
            let used_f = ALLOCATED.load(Ordering::Relaxed) - before;
            ALLOC_LIMIT.store(usize::MAX, Ordering::Relaxed);
            if rf.is_err() {
                return Some("FAIL panic while decoding through a CRC / COBS framed entry point".into());
            }
            // 8 decodes plus two copies of the input for the in-place COBS decoders
            if used_f > 8 * (k * bytes.len() + 1024) + 2 * bytes.len() {
                ctx.oracle_fail(format!("framed decoders: decoding {} input bytes as {} allocated {} bytes in 8 decodes (bound {} * len + 1024 each)", bytes.len(), name, used_f, k));
            }
            Some(match res {
                Ok(rest) => format!("ok consumed={}", bytes.len() - rest),
                Err(e) => format!("err {}", e),
            })
        }
        _ => None,
    }
}

pub fn gen_c04(r: &mut Rng, thorough: bool, out: &mut Vec<String>) {
    // reader-based decoding with one Deserializer used again after a failed value (scratch writes stay in bounds)
    crate::ops_io::gen_deseq(r, thorough, out);
    // the C03 adversarial stream, re-run under guard pages (subsampled in quick)
    let mut c03 = Vec::new();
    crate::ops_codec::gen_c03(r, thorough, &mut c03);
    let stride = if thorough { 3 } else { 12 };
    for (i, l) in c03.iter().enumerate() {
        if !l.starts_with("de ") {
            continue;
        }
        if i % stride == 0 || l.len() > 60 {
            out.push(format!("deg{}", &l[2..]));
        }
    }
    for t in ["any", "identifier", "ignored"] {
        for b in ["x", "x00", "x0102", "xffffffffffffffffff01"] {
            out.push(format!("deg {} {}", t, b));
            out.push(format!("deg (tuple u8 {}) {}", t, b));
        }
    }
    // adversarial length prefixes for heap-allocating concrete types
    let lens: Vec<u64> = {
        let mut v = vec![0u64, 1, 2, 127, 128, 255, 256, 16383, 16384, 65535, 65536, 1 << 20, 1 << 24, (1 << 32) - 1, 1 << 32, 1 << 40, 1 << 62, u64::MAX / 2, u64::MAX - 1, u64::MAX];
        for _ in 0..(if thorough { 200 } else { 20 }) {
            v.push(gen_u(r, 64) as u64);
        }
        v
    };
    for (name, _) in CONCRETE {
        for n in &lens {
            let pre = postcard::to_allocvec(n).unwrap();
            for tail in [0usize, 1, 3, 9, 40] {
                let mut b = pre.clone();
                b.extend(r.bytes(tail));
                out.push(format!("alloc {} {}", name, hex(&b)));
                // nested claims
                let mut b2 = vec![2u8];
                b2.extend_from_slice(&pre);
                b2.extend(r.bytes(tail));
                out.push(format!("alloc {} {}", name, hex(&b2)));
            }
        }
        let nrand = if thorough { 3000 } else { 150 };
        for _ in 0..nrand {
            let n = r.range(0, 40) as usize;
            out.push(format!("alloc {} {}", name, hex(&r.bytes(n))));
        }
    }
}
