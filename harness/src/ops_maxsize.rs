//! Ops and generators for C12 (POSTCARD_MAX_SIZE) and C13 (fixint adapters).
//!   maxsize <mty>                 T::POSTCARD_MAX_SIZE of the concrete Rust type described by <mty>;
//!                                 oracle: every sampled value encodes within it, tight kinds attain it
//!   fix <le|be> <type> <int>      a struct field with #[serde(with = "postcard::fixint::le|be")]
use crate::prng::Rng;
use crate::samples::Samples;
use crate::sexp::{hex, Sexp};
use crate::Ctx;
use core::marker::PhantomData;
use core::num::*;
use core::ops::{Range, RangeFrom, RangeInclusive, RangeTo};
use postcard::experimental::max_size::MaxSize;
use serde::{Deserialize, Serialize};
use std::rc::Rc;
use std::sync::Arc;

pub struct Entry {
    pub mty: String,
    pub max: usize,
    /// (longest encoding over candidates + random samples, number of samples, first violation)
    pub check: fn(&mut Rng) -> (usize, usize, Option<String>),
}

fn check_impl<T: MaxSize + Samples + Serialize>(r: &mut Rng) -> (usize, usize, Option<String>) {
    let mut longest = 0;
    let mut n = 0;
    let mut bad = None;
    let mut vals = T::candidates();
    if !vals.is_empty() {
        for _ in 0..24 {
            vals.push(T::rand(r));
        }
    }
    for v in &vals {
        n += 1;
        match postcard::to_allocvec(v) {
            Ok(b) => {
                longest = longest.max(b.len());
                if b.len() > T::POSTCARD_MAX_SIZE && bad.is_none() {
                    bad = Some(format!("a value encodes to {} bytes {} but POSTCARD_MAX_SIZE = {}", b.len(), hex(&b), T::POSTCARD_MAX_SIZE));
                }
                // a buffer of that size always suffices
                let mut buf = vec![0u8; T::POSTCARD_MAX_SIZE];
                if postcard::to_slice(v, &mut buf).is_err() && bad.is_none() {
                    bad = Some("to_slice into a POSTCARD_MAX_SIZE buffer failed".into());
                }
            }
            Err(_) => {}
        }
    }
    (longest, n, bad)
}

pub fn entry<T: MaxSize + Samples + Serialize>(mty: &str) -> Entry {
    Entry { mty: mty.to_string(), max: T::POSTCARD_MAX_SIZE, check: check_impl::<T> }
}
/// constant only (types without Serialize in this build: Rc / Arc need serde's `rc` feature)
pub fn entry_const<T: MaxSize>(mty: &str) -> Entry {
    Entry { mty: mty.to_string(), max: T::POSTCARD_MAX_SIZE, check: |_| (0, 0, None) }
}

macro_rules! e { ($v:ident, $s:expr, $t:ty) => { $v.push(entry::<$t>($s)); }; }

#[derive(Serialize, postcard_derive::MaxSize)]
struct Foo { a: u16, b: Option<u8> }
impl Samples for Foo {
    fn max_sample() -> Self { Foo { a: u16::MAX, b: Some(255) } }
    fn rand(r: &mut Rng) -> Self { Foo { a: u16::rand(r), b: Option::<u8>::rand(r) } }
}
#[derive(Serialize, postcard_derive::MaxSize)]
enum Bar { A(u16), B(u8) }
impl Samples for Bar {
    fn max_sample() -> Self { Bar::A(u16::MAX) }
    fn rand(r: &mut Rng) -> Self { if r.chance(1, 2) { Bar::A(u16::rand(r)) } else { Bar::B(u8::rand(r)) } }
    fn candidates() -> Vec<Self> { vec![Bar::A(u16::MAX), Bar::B(255)] }
}
#[derive(Serialize, postcard_derive::MaxSize)]
struct Gen<T, U> { t: T, u: (U, T) }
impl<T: Samples, U: Samples> Samples for Gen<T, U> {
    fn max_sample() -> Self { Gen { t: T::max_sample(), u: (U::max_sample(), T::max_sample()) } }
    fn rand(r: &mut Rng) -> Self { Gen { t: T::rand(r), u: (U::rand(r), T::rand(r)) } }
}

pub fn builtin_entries() -> Vec<Entry> {
    let mut v = Vec::new();
    e!(v, "bool", bool); e!(v, "u8", u8); e!(v, "u16", u16); e!(v, "u32", u32); e!(v, "u64", u64); e!(v, "u128", u128);
    e!(v, "i8", i8); e!(v, "i16", i16); e!(v, "i32", i32); e!(v, "i64", i64); e!(v, "i128", i128);
    e!(v, "usize", usize); e!(v, "isize", isize); e!(v, "f32", f32); e!(v, "f64", f64); e!(v, "char", char);
    e!(v, "unit", ()); e!(v, "phantom", PhantomData<u64>);
    e!(v, "(nz u8)", NonZeroU8); e!(v, "(nz u16)", NonZeroU16); e!(v, "(nz u32)", NonZeroU32); e!(v, "(nz u64)", NonZeroU64);
    e!(v, "(nz u128)", NonZeroU128); e!(v, "(nz i8)", NonZeroI8); e!(v, "(nz i16)", NonZeroI16); e!(v, "(nz i32)", NonZeroI32);
    e!(v, "(nz i64)", NonZeroI64); e!(v, "(nz i128)", NonZeroI128); e!(v, "nzusize", NonZeroUsize); e!(v, "nzisize", NonZeroIsize);
    e!(v, "(option u8)", Option<u8>); e!(v, "(option (option u64))", Option<Option<u64>>); e!(v, "(option unit)", Option<()>);
    e!(v, "(result u8 u64)", Result<u8, u64>); e!(v, "(result u128 unit)", Result<u128, ()>); e!(v, "(result char (option i16))", Result<char, Option<i16>>);
    e!(v, "(array u8 0)", [u8; 0]); e!(v, "(array u8 1)", [u8; 1]); e!(v, "(array u16 8)", [u16; 8]); e!(v, "(array char 32)", [char; 32]);
    e!(v, "(array (option i32) 3)", [Option<i32>; 3]); e!(v, "(array (array u64 2) 2)", [[u64; 2]; 2]);
    e!(v, "(tuple u8)", (u8,)); e!(v, "(tuple u16 bool)", (u16, bool)); e!(v, "(tuple u8 u16 u32)", (u8, u16, u32));
    e!(v, "(tuple i8 i16 i32 i64)", (i8, i16, i32, i64)); e!(v, "(tuple u8 u8 u8 u8 u128)", (u8, u8, u8, u8, u128));
    e!(v, "(tuple char f32 f64 bool unit (option u8))", (char, f32, f64, bool, (), Option<u8>));
    e!(v, "(range u16)", Range<u16>); e!(v, "(rangeinc i64)", RangeInclusive<i64>); e!(v, "(rangefrom u128)", RangeFrom<u128>); e!(v, "(rangeto char)", RangeTo<char>);
    e!(v, "(ref u32)", &'static u32); e!(v, "(ref (tuple u128 (array u8 8)))", Box<(u128, [u8; 8])>); e!(v, "(ref (ref u8))", &'static &'static u8);
    v.push(entry_const::<Rc<(u128, [u8; 8])>>("(ref (tuple u128 (array u8 8)))"));
    v.push(entry_const::<Arc<u32>>("(ref u32)"));
    v.push(entry_const::<&'static mut u64>("(ref u64)"));
    e!(v, "(hvec u8 0)", heapless::Vec<u8, 0>); e!(v, "(hvec u8 1)", heapless::Vec<u8, 1>); e!(v, "(hvec u8 127)", heapless::Vec<u8, 127>);
    e!(v, "(hvec u8 128)", heapless::Vec<u8, 128>); e!(v, "(hvec u8 16383)", heapless::Vec<u8, 16383>); e!(v, "(hvec u8 16384)", heapless::Vec<u8, 16384>);
    // every boundary of the length prefix's varint width (zero-sized elements keep these cheap)
    e!(v, "(hvec unit 127)", heapless::Vec<(), 127>); e!(v, "(hvec unit 128)", heapless::Vec<(), 128>);
    e!(v, "(hvec unit 16383)", heapless::Vec<(), 16383>); e!(v, "(hvec unit 16384)", heapless::Vec<(), 16384>);
    e!(v, "(hvec unit 2097151)", heapless::Vec<(), 2097151>); e!(v, "(hvec unit 2097152)", heapless::Vec<(), 2097152>);
    e!(v, "(hvec unit 3000000)", heapless::Vec<(), 3000000>); e!(v, "(hvec unit 4194303)", heapless::Vec<(), 4194303>); e!(v, "(hvec unit 4194304)", heapless::Vec<(), 4194304>);
    e!(v, "(hvec u64 3)", heapless::Vec<u64, 3>); e!(v, "(hvec (option u16) 129)", heapless::Vec<Option<u16>, 129>);
    e!(v, "(hstring 0)", heapless::String<0>); e!(v, "(hstring 1)", heapless::String<1>); e!(v, "(hstring 127)", heapless::String<127>);
    e!(v, "(hstring 128)", heapless::String<128>); e!(v, "(hstring 16383)", heapless::String<16383>); e!(v, "(hstring 16384)", heapless::String<16384>);
    e!(v, "(dstruct (named u16 (option u8)))", Foo); e!(v, "(denum (unnamed u16) (unnamed u8))", Bar);
    e!(v, "(dstruct (named u32 (tuple bool u32)))", Gen<u32, bool>);
    e!(v, "(dstruct (named (hstring 4) (tuple (array i8 2) (hstring 4))))", Gen<heapless::String<4>, [i8; 2]>);
    v
}

pub fn all_entries() -> Vec<Entry> {
    let mut v = builtin_entries();
    v.extend(crate::generated::generated_entries());
    v
}

macro_rules! fixstruct {
    ($le:ident, $be:ident, $t:ty) => {
        #[derive(Serialize, Deserialize, PartialEq, Debug)]
        struct $le { #[serde(with = "postcard::fixint::le")] x: $t }
        #[derive(Serialize, Deserialize, PartialEq, Debug)]
        struct $be { #[serde(with = "postcard::fixint::be")] x: $t }
    };
}
fixstruct!(LeU16, BeU16, u16); fixstruct!(LeU32, BeU32, u32); fixstruct!(LeU64, BeU64, u64); fixstruct!(LeU128, BeU128, u128);
fixstruct!(LeI16, BeI16, i16); fixstruct!(LeI32, BeI32, i32); fixstruct!(LeI64, BeI64, i64); fixstruct!(LeI128, BeI128, i128);

/// a fixint-adapted value through every other encode / decode entry point: the adapter must not care which
/// flavour is underneath (reader with NO scratch space and 1-byte reads, COBS, CRC, bounded slice, heapless)
fn fix_everywhere<S: Serialize + serde::de::DeserializeOwned + PartialEq + std::fmt::Debug>(v: &S, plain: &[u8]) -> Option<String> {
    let mut buf = vec![0u8; plain.len()];
    if postcard::to_slice(v, &mut buf).ok().map(|b| b.to_vec()) != Some(plain.to_vec()) {
        return Some("to_slice (exact fit) differs from to_allocvec".into());
    }
    if postcard::to_vec::<_, 32>(v).ok().map(|b| b.to_vec()) != Some(plain.to_vec()) || postcard::to_io(v, Vec::new()).ok() != Some(plain.to_vec()) {
        return Some("to_vec / to_io differ from to_allocvec".into());
    }
    if postcard::experimental::serialized_size(v).ok() != Some(plain.len()) {
        return Some("serialized_size differs from the encoded length".into());
    }
    if postcard::from_bytes::<S>(plain).ok().as_ref() != Some(v) {
        return Some("from_bytes does not give the value back".into());
    }
    for one in [false, true] {
        let mut scratch = [0u8; 0];
        let rd = crate::ops_io::SchedReader { data: plain.to_vec(), pos: 0, fault: None, rng: Rng::new(5), whole: !one, one, transient: false };
        match postcard::from_io::<S, _>((rd, &mut scratch[..])) {
            Ok((back, (rd, _))) if back == *v && rd.pos == plain.len() => {}
            other => return Some(format!("from_io with an empty scratch buffer: {:?}", other.map(|(b, _)| b).map_err(|e| crate::core_ops::err_name(&e)))),
        }
        let mut scratch = [0u8; 0];
        let rd = crate::ops_io::EioR(crate::ops_io::SchedReader { data: plain.to_vec(), pos: 0, fault: None, rng: Rng::new(5), whole: !one, one, transient: false });
        match postcard::from_eio::<S, _>((rd, &mut scratch[..])) {
            Ok((back, _)) if back == *v => {}
            other => return Some(format!("from_eio with an empty scratch buffer: {:?}", other.map(|(b, _)| b).map_err(|e| crate::core_ops::err_name(&e)))),
        }
    }
    // a reader that fails ONCE inside the field (a transient WouldBlock / TimedOut) and then carries on, with
    // ample scratch space: read_exact fails, so decoding must fail - never an integer assembled around the gap
    for k in 0..plain.len() {
        let mut scratch = [0u8; 64];
        let rd = crate::ops_io::SchedReader { data: [plain, &[0x5A; 24][..]].concat(), pos: 0, fault: Some(k), rng: Rng::new(5), whole: k % 2 == 0, one: false, transient: true };
        if let Ok((back, _)) = postcard::from_io::<S, _>((rd, &mut scratch[..])) {
            return Some(format!("from_io returned Ok({:?}) although the reader reported an error at byte {} of the field", back, k));
        }
        let mut scratch = [0u8; 64];
        let rd = crate::ops_io::EioR(crate::ops_io::SchedReader { data: [plain, &[0x5A; 24][..]].concat(), pos: 0, fault: Some(k), rng: Rng::new(5), whole: k % 2 == 0, one: false, transient: true });
        if let Ok((back, _)) = postcard::from_eio::<S, _>((rd, &mut scratch[..])) {
            return Some(format!("from_eio returned Ok({:?}) although the reader reported an error at byte {} of the field", back, k));
        }
    }
    let mut framed = postcard::to_allocvec_cobs(v).ok()?;
    if postcard::from_bytes_cobs::<S>(&mut framed).ok().as_ref() != Some(v) {
        return Some("COBS round trip does not give the value back".into());
    }
    let c = crc::Crc::<u32>::new(&crc::CRC_32_ISO_HDLC);
    let f = postcard::to_allocvec_crc32(v, c.digest()).ok()?;
    if postcard::from_bytes_crc32::<S>(&f, c.digest()).ok().as_ref() != Some(v) {
        return Some("CRC round trip does not give the value back".into());
    }
    None
}

fn fix_eval(ctx: &mut Ctx, order: &str, ty: &str, x: &str) -> Option<String> {
    macro_rules! run {
        ($t:ty, $le:ident, $be:ident) => {{
            let v: $t = x.parse().ok()?;
            if let Some(bad) = if order == "le" { let s = $le { x: v }; let p = postcard::to_allocvec(&s).ok()?; fix_everywhere(&s, &p) } else { let s = $be { x: v }; let p = postcard::to_allocvec(&s).ok()?; fix_everywhere(&s, &p) } {
                ctx.oracle_fail(format!("fixint {} {} {}: {}", order, stringify!($t), x, bad));
            }
            let (bytes, want, back_ok) = if order == "le" {
                let b = postcard::to_allocvec(&$le { x: v }).ok()?;
                let back = postcard::take_from_bytes::<$le>(&[&b[..], &[0x99][..]].concat()).map(|(s, r)| s.x == v && r == [0x99]).unwrap_or(false);
                (b, v.to_le_bytes().to_vec(), back)
            } else {
                let b = postcard::to_allocvec(&$be { x: v }).ok()?;
                let back = postcard::take_from_bytes::<$be>(&[&b[..], &[0x99][..]].concat()).map(|(s, r)| s.x == v && r == [0x99]).unwrap_or(false);
                (b, v.to_be_bytes().to_vec(), back)
            };
            if bytes != want {
                ctx.oracle_fail(format!("fixint {} of {} gave {} instead of its {}-endian bytes {}", order, x, hex(&bytes), order, hex(&want)));
            }
            if !back_ok {
                ctx.oracle_fail("fixint value does not decode back to the original integer".into());
            }
            Some(format!("ok {}", hex(&bytes)))
        }};
    }
    match ty {
        "u16" => run!(u16, LeU16, BeU16), "u32" => run!(u32, LeU32, BeU32), "u64" => run!(u64, LeU64, BeU64), "u128" => run!(u128, LeU128, BeU128),
        "i16" => run!(i16, LeI16, BeI16), "i32" => run!(i32, LeI32, BeI32), "i64" => run!(i64, LeI64, BeI64), "i128" => run!(i128, LeI128, BeI128),
        _ => None,
    }
}

pub fn eval(ctx: &mut Ctx, op: &str, args: &[Sexp]) -> Option<String> {
    match op {
        "maxsize" => {
            // the type is identified by the text of its description
            let key = ctx.line.trim_start_matches("maxsize").trim().to_string();
            let entries = all_entries();
            let mut r = Rng::new(ctx.line_no as u64);
            let mut ans: Option<usize> = None;
            for e in entries.iter().filter(|e| e.mty == key) {
                if let Some(a) = ans {
                    if a != e.max {
                        return Some(format!("FAIL two Rust types described by {} have different POSTCARD_MAX_SIZE ({} vs {})", key, a, e.max));
                    }
                }
                ans = Some(e.max);
                let (longest, n, bad) = (e.check)(&mut r);
                if let Some(b) = bad {
                    ctx.oracle_fail(b);
                }
                // tightness for the kinds the property lists (everything here except derived enums)
                if n > 0 && !key.contains("denum") && longest != e.max {
                    ctx.oracle_fail(format!("POSTCARD_MAX_SIZE = {} is not attained (longest encoding found: {})", e.max, longest));
                }
            }
            Some(format!("ok {}", ans?))
        }
        "maxprobe" => {
            // a type of the opportunistic catalogue: nothing to compare unless the crate declares a maximum for it
            let want = args.first()?.atom()?;
            for (name, max, lens) in max_catalogue() {
                if name.replace(['(', ')'], "_") != want {
                    continue;
                }
                if let Some(m) = max {
                    if let Some(worst) = lens.iter().max() {
                        if *worst > m {
                            ctx.oracle_fail(format!("{}: POSTCARD_MAX_SIZE = {} but a value of the type encodes to {} bytes", name, m, worst));
                        }
                    }
                }
            }
            Some("ok".into())
        }
        "fix" => fix_eval(ctx, args.first()?.atom()?, args.get(1)?.atom()?, args.get(2)?.atom()?),
        _ => None,
    }
}

// ------------------------------------------------------------------ opportunistic catalogue (C12)
// core / std types for which the crate has NO MaxSize impl today. If a later version of the crate adds one, it is
// tested the moment it exists: the inherent method below applies only when `T: MaxSize` holds, otherwise the
// trait's default answers None (method resolution at a concrete type; no nightly features).
struct ProbeM<T>(PhantomData<T>);
trait NoMaxSize {
    fn declared_max(&self) -> Option<usize> {
        None
    }
}
impl<T> NoMaxSize for ProbeM<T> {}
impl<T: MaxSize> ProbeM<T> {
    fn declared_max(&self) -> Option<usize> {
        Some(T::POSTCARD_MAX_SIZE)
    }
}
fn enc_lens<T: Serialize>(vals: &[T]) -> Vec<usize> {
    vals.iter().filter_map(|v| postcard::to_allocvec(v).ok().map(|b| b.len())).collect()
}
macro_rules! cat {
    ($v:ident, $t:ty, [$($x:expr),* $(,)?]) => {
        $v.push((stringify!($t).replace(' ', ""), ProbeM::<$t>(PhantomData).declared_max(), enc_lens::<$t>(&[$($x),*])));
    };
}
/// (type, its declared maximum if the crate implements MaxSize for it, encoded lengths of extreme values)
pub fn max_catalogue() -> Vec<(String, Option<usize>, Vec<usize>)> {
    use core::cmp::Reverse;
    use core::num::Wrapping;
    use core::ops::Bound;
    use core::time::Duration;
    use std::net::{IpAddr, Ipv4Addr, Ipv6Addr, SocketAddr, SocketAddrV4, SocketAddrV6};
    let mut v = Vec::new();
    cat!(v, Duration, [Duration::MAX, Duration::new(u64::MAX, 999_999_999), Duration::new(0, 0), Duration::new(1 << 63, 1 << 28)]);
    cat!(v, Option<Duration>, [Some(Duration::MAX), None]);
    cat!(v, Bound<u64>, [Bound::Unbounded, Bound::Included(u64::MAX), Bound::Excluded(u64::MAX)]);
    cat!(v, Bound<()>, [Bound::Unbounded, Bound::Included(()), Bound::Excluded(())]);
    cat!(v, Wrapping<u64>, [Wrapping(u64::MAX), Wrapping(0)]);
    cat!(v, Wrapping<i16>, [Wrapping(i16::MIN), Wrapping(i16::MAX)]);
    cat!(v, Reverse<u128>, [Reverse(u128::MAX)]);
    cat!(v, Reverse<(u8, i32)>, [Reverse((255, i32::MIN))]);
    cat!(v, core::num::Saturating<u32>, [core::num::Saturating(u32::MAX)]);
    cat!(v, core::cell::Cell<u64>, [core::cell::Cell::new(u64::MAX)]);
    cat!(v, core::cell::RefCell<i64>, [core::cell::RefCell::new(i64::MIN)]);
    cat!(v, std::sync::Mutex<u32>, [std::sync::Mutex::new(u32::MAX)]);
    cat!(v, std::sync::atomic::AtomicU32, [std::sync::atomic::AtomicU32::new(u32::MAX)]);
    cat!(v, std::sync::atomic::AtomicI64, [std::sync::atomic::AtomicI64::new(i64::MIN)]);
    cat!(v, std::sync::atomic::AtomicBool, [std::sync::atomic::AtomicBool::new(true)]);
    cat!(v, Ipv4Addr, [Ipv4Addr::new(255, 255, 255, 255)]);
    cat!(v, Ipv6Addr, [Ipv6Addr::new(0xffff, 0xffff, 0xffff, 0xffff, 0xffff, 0xffff, 0xffff, 0xffff)]);
    cat!(v, IpAddr, [IpAddr::V6(Ipv6Addr::new(0xffff, 0xffff, 0xffff, 0xffff, 0xffff, 0xffff, 0xffff, 0xffff)), IpAddr::V4(Ipv4Addr::new(255, 255, 255, 255))]);
    cat!(v, SocketAddr, [SocketAddr::V6(SocketAddrV6::new(Ipv6Addr::new(0xffff, 0xffff, 0xffff, 0xffff, 0xffff, 0xffff, 0xffff, 0xffff), 65535, 0, 0)), SocketAddr::V4(SocketAddrV4::new(Ipv4Addr::new(255, 255, 255, 255), 65535))]);
    cat!(v, (u64, u64, u64, u64, u64, u64, u64), [(u64::MAX, u64::MAX, u64::MAX, u64::MAX, u64::MAX, u64::MAX, u64::MAX)]);
    cat!(v, (u8, u16, u32, u64, u128, i8, i16, i32), [(255, u16::MAX, u32::MAX, u64::MAX, u128::MAX, -128, i16::MIN, i32::MIN)]);
    cat!(v, (bool, char, f32, f64, u8, u8, u8, u8, u8, u8, u8, u128), [(true, '\u{10FFFF}', 0.0, 0.0, 255, 255, 255, 255, 255, 255, 255, u128::MAX)]);
    cat!(v, std::time::SystemTime, []);
    cat!(v, core::num::NonZeroU8, [core::num::NonZeroU8::MAX]);
    v
}

pub fn gen_c12(_r: &mut Rng, _thorough: bool, out: &mut Vec<String>) {
    for (name, _, _) in max_catalogue() {
        out.push(format!("maxprobe {}", name.replace(['(', ')'], "_")));
    }
    let mut seen = std::collections::HashSet::new();
    for e in all_entries() {
        if seen.insert(e.mty.clone()) {
            out.push(format!("maxsize {}", e.mty));
        }
    }
}

pub fn gen_c13(r: &mut Rng, thorough: bool, out: &mut Vec<String>) {
    use crate::gen::{gen_i, gen_u, i_boundaries, u_boundaries};
    for order in ["le", "be"] {
        for w in [16u8, 32, 64, 128] {
            for n in u_boundaries(w) {
                out.push(format!("fix {} u{} {}", order, w, n));
            }
            for n in i_boundaries(w) {
                out.push(format!("fix {} i{} {}", order, w, n));
            }
            // every single-byte-nonzero pattern
            for byte in 0..(w / 8) as u32 {
                for val in [1u128, 0x7F, 0x80, 0xFF] {
                    let n = val << (8 * byte);
                    out.push(format!("fix {} u{} {}", order, w, n));
                    let s = if w == 128 { n as i128 } else { ((n as i128) << (128 - w as u32)) >> (128 - w as u32) };
                    out.push(format!("fix {} i{} {}", order, w, s));
                }
            }
            for _ in 0..(if thorough { 3000 } else { 150 }) {
                out.push(format!("fix {} u{} {}", order, w, gen_u(r, w)));
                out.push(format!("fix {} i{} {}", order, w, gen_i(r, w)));
            }
        }
        let step = if thorough { 1 } else { 23 };
        for n in (0..=65535u32).step_by(step) {
            out.push(format!("fix {} u16 {}", order, n));
            out.push(format!("fix {} i16 {}", order, n as i32 - 32768));
        }
    }
}
