import Postcard.Model.Sexp
import Postcard.Model.Ser
import Postcard.Model.De
import Postcard.Model.Flavor
import Postcard.Spec.Wire
import Postcard.Model.Entry
import Postcard.Model.EntryFramed
import Postcard.Model.SexpSchema
import Postcard.Model.SchemaHash
import Postcard.Model.SchemaFmt
import Postcard.Model.SchemaSer
import Postcard.Model.Cobs
import Postcard.Model.Crc
import Postcard.Model.CrcDe
import Postcard.Model.Accumulator
import Postcard.Model.SexpMTy
import Postcard.Model.EnumAt
import Postcard.Props.C12Exact
import Postcard.Model.Fixint
import Postcard.Model.DeFlavor
import Postcard.Model.SexpCT
import Postcard.Spec.Conforms
import Postcard.Model.SexpRTy
import Postcard.Model.SexpJson
import Postcard.Model.Dyn
import Postcard.Model.DynCost
import Postcard.Spec.Cobs
import Postcard.Spec.Fnv
/-
  pcmodel — line-protocol driver.  One operation per input line, one answer
  line per operation.  Imports model/spec files only (core Lean), so it links
  as a native executable.
-/
open Postcard

def resStr {α} (f : α → String) : R α → String
  | .ok a => "ok " ++ f a
  | .error e => "err " ++ e.name

def deAnswer : R (Val × List Byte) → String
  | .ok (v, r) => s!"ok {valToStr v} rest={hexOfBytes r}"
  | .error e => "err " ++ e.name

def serAnswer : R (List Byte) → String
  | .ok b => "ok " ++ hexOfBytes b
  | .error e => "err " ++ e.name

def schemaDeAnswer : R (Schema × List Byte) → String
  | .ok (v, r) => s!"ok {schemaToStr v} rest={hexOfBytes r}"
  | .error e => "err " ++ e.name

/-- insertion sort of strings (canonical order for sets) -/
def sortStrings (xs : List String) : List String :=
  xs.foldl (fun acc x =>
    let (lo, hi) := acc.span (fun y => y < x)
    lo ++ x :: hi) []

/-- dispatch on a catalogue algorithm name: width, parameters, checksum bytes on the wire -/
def withAlg {β} (name : String) (k : (w : Nat) → CrcAlg w → Nat → β) (bad : β) : β :=
  match name with
  | "CRC_8_SMBUS" => k 8 CRC_8_SMBUS 1
  | "CRC_8_MAXIM_DOW" => k 8 CRC_8_MAXIM_DOW 1
  | "CRC_12_UMTS" => k 12 CRC_12_UMTS 2
  | "CRC_16_IBM_SDLC" => k 16 CRC_16_IBM_SDLC 2
  | "CRC_16_XMODEM" => k 16 CRC_16_XMODEM 2
  | "CRC_32_ISO_HDLC" => k 32 CRC_32_ISO_HDLC 4
  | "CRC_32_BZIP2" => k 32 CRC_32_BZIP2 4
  | "CRC_64_ECMA_182" => k 64 CRC_64_ECMA_182 8
  | "CRC_64_XZ" => k 64 CRC_64_XZ 8
  | "CRC_82_DARC" => k 82 CRC_82_DARC 16
  | _ => bad

/-- to_slice_cobs / to_vec_cobs / to_allocvec_cobs: `Cobs::try_new(storage)?` then
`serialize_with_flavor`. Returns final inner state and result. -/
def cobsSerialize {σ} (F : Flavor σ (List Byte)) (s0 : σ) (feedF : (σ × EncSt) → (σ × EncSt) × R (List Byte)) :
    σ × R (List Byte) :=
  match Cobs.tryNew F s0 with
  | (st, some e) => (st.1, .error e)
  | (st, none) => let r := feedF st; (r.1.1, r.2)

def cobsOfVal {σ} (F : Flavor σ (List Byte)) (s0 : σ) (v : Val) : σ × R (List Byte) :=
  cobsSerialize F s0 (fun st => serializeWith (Cobs F) st v)

/-- raw message bytes pushed one by one through the public Flavor API, then finalize -/
def cobsOfBytes {σ} (F : Flavor σ (List Byte)) (s0 : σ) (m : List Byte) : σ × R (List Byte) :=
  cobsSerialize F s0 (fun st =>
    match defaultExtend (Cobs F).tryPush st m with
    | (st', some e) => (st', .error e)
    | (st', none) => (Cobs F).finalize st')

/-- iterate take_from_bytes_cobs over a buffer until it is empty or a frame fails -/
def cobsFrames (t : Ty) : Nat → List Byte → List String
  | 0, _ => ["fuel"]
  | fuel+1, buf =>
    if buf.isEmpty then [] else
    match (takeFromBytesCobs (fromBytes t) buf).1 with
    | .error e => ["err " ++ e.name]
    | .ok (v, rest) => ("ok " ++ valToStr v) :: (if rest.length < buf.length then cobsFrames t fuel rest else ["stuck"])

def storageRun (storage : String) (cap : Nat) (fill : Byte)
    (run : {σ : Type} → Flavor σ (List Byte) → σ → (σ → List Byte) → String) : String :=
  match storage with
  | "slice" => run Slice ⟨List.replicate cap fill, 0⟩ (fun s => s.mem)
  | "hvec" => run HVec ⟨cap, []⟩ (fun _ => [])
  | "alloc" => run AllocVec [] (fun _ => [])
  | _ => "bad-op"

/-- `flavseq`: drive a serialising flavour through its PUBLIC API with an arbitrary sequence of
`try_push` / `try_extend` calls, stopping the comparison at the first failing call (what a flavour does
after it has reported an error is constrained by no property beyond "no panic, nothing outside the
buffer", which the harness observes). -/
def flavSteps {σ} (F : Flavor σ (List Byte)) : σ → List (Bool × List Byte) → String → String
  | s, [], acc =>
    match (F.finalize s).2 with
    | .ok out => acc ++ " fin=ok " ++ hexOfBytes out
    | .error e => acc ++ " fin=err " ++ e.name
  | s, (isPush, bs) :: rest, acc =>
    let r := if isPush then F.tryPush s (bs.headD 0) else F.tryExtend s bs
    match r with
    | (s', none) => flavSteps F s' rest (acc ++ " s:ok")
    | (_, some _) => acc ++ " s:err posterr"

def stepOfSexp : Sexp → Option (Bool × List Byte)
  | .atom a =>
    if a.startsWith "p:" then (bytesOfHex ("x" ++ (a.drop 2).toString)).bind (fun bs => if bs.length = 1 then some (true, bs) else none)
    else if a.startsWith "e:" then (bytesOfHex ("x" ++ (a.drop 2).toString)).map (fun bs => (false, bs))
    else none
  | _ => none

def accEvents (n : Nat) (t : Ty) (chunks : List (List Byte)) : List String :=
  -- `T::deserialize` on the accumulated frame: from_bytes_cobs::<T>(&mut buf[..idx])
  let decF : List Byte → Option Val := accDecoder t
  -- run the documented loop chunk by chunk, recording the buffer after every call
  let rec go (fuel : Nat) (a : Acc) (w : List Byte) (acc : List String) : Acc × List String :=
    match fuel with
    | 0 => (a, "fuel" :: acc)
    | fuel+1 =>
      if w.isEmpty then (a, acc) else
      let (r, a') := a.feed decF w
      let b := " buf=" ++ hexOfBytes a'.buf
      match r with
      | .consumed => (a', ("C" ++ b) :: acc)
      | .overFull rem => go fuel a' rem (("O rem=" ++ hexOfBytes rem ++ b) :: acc)
      | .deserError rem => go fuel a' rem (("E rem=" ++ hexOfBytes rem ++ b) :: acc)
      | .success d rem => go fuel a' rem (("S " ++ valToStr d ++ " rem=" ++ hexOfBytes rem ++ b) :: acc)
      | .panic => (a', "panic" :: acc)
  -- an empty chunk (a read that returned no bytes) is handed to feed exactly once
  let one (st : Acc × List String) (c : List Byte) : Acc × List String :=
    if c.isEmpty then
      let (r, a') := st.1.feed decF []
      let b := " buf=" ++ hexOfBytes a'.buf
      match r with
      | .consumed => (a', ("C" ++ b) :: st.2)
      | _ => (a', "empty-chunk-not-consumed" :: st.2)
    else go (2 * c.length + 2) st.1 c st.2
  let (_, out) := chunks.foldl one (Acc.new n, [])
  out.reverse

def accAnswer (n : Nat) (t : Ty) (chunks : List (List Byte)) : String :=
  "acc" ++ String.join ((accEvents n t chunks).map (" ; " ++ ·))

/-- endurance: the same chunk `count` times into ONE accumulator, then a tail; event kinds are tallied and the
last events listed -/
def accRepAnswer (n : Nat) (t : Ty) (count : Nat) (chunk tail : List Byte) : String :=
  let evs := accEvents n t (List.replicate count chunk ++ [tail])
  let tally (c : Char) : Nat := (evs.filter (fun e => e.front == c)).length
  let last := evs.drop (evs.length - 6)
  s!"accrep events={evs.length} C={tally 'C'} O={tally 'O'} E={tally 'E'} S={tally 'S'}" ++ String.join (last.map (" ; " ++ ·))

def dynErrName : DynErr → String
  | .schemaMismatch => "schema-mismatch"
  | .shouldSupportButDont => "should-support-but-dont"
  | .unsupported => "unsupported"
  | .unexpectedEnd => "unexpected-end"
  | .panic => "panic"

def dynSerStr (s : Schema) (j : Json) : String :=
  match toStdvecDyn hwFloatOps s j with
  | .ok b => "ok " ++ hexOfBytes b
  | .error .panic => "panic"
  | .error e => "err " ++ dynErrName e

def dynDeStr (s : Schema) (bs : List Byte) : String :=
  match fromSliceDyn hwFloatOps s bs with
  | .ok j => "ok " ++ jsonToStr j
  | .error .panic => "panic"
  | .error e => "err " ++ dynErrName e

def handle (line : String) : String :=
  match Sexp.parseLine line with
  | none => "bad-op"
  | some [] => "bad-op"
  | some (.atom op :: args) =>
    match op, args with
    | "ser", [v] =>
      match valOfSexp v with
      | some v => "ok " ++ hexOfBytes (enc v)
      | none => "bad-op"
    | "rt", [t, v] =>
      match tyOfSexp t, valOfSexp v with
      | some t, some v => if hasTy v t then "ok " ++ hexOfBytes (enc v) else "ill-typed"
      | _, _ => "bad-op"
    | "serann", (.atom _kind :: .atom n :: vs) =>
      -- serialize_seq / serialize_map with an announced length (serializer.rs): unknown → error,
      -- known → varint(usize) of the ANNOUNCED length, then whatever elements are written
      match valsOfSexp vs with
      | some vs =>
        if n == "none" then "err " ++ Err.seqLengthUnknown.name
        else match n.toNat? with
          | some n => "ok " ++ hexOfBytes (Spec.varint n ++ Spec.encodeAll vs)
          | none => "bad-op"
      | none => "bad-op"
    | "collectit", (.atom _kind :: .atom lo :: .atom hi :: vs) =>
      match lo.toNat?, valsOfSexp vs with
      | some lo, some vs =>
        let hi : Option Nat := if hi == "none" then none else hi.toNat?
        match collectHeader lo hi with
        | .error e => "err " ++ e.name
        | .ok hdr => "ok " ++ hexOfBytes (hdr.flatMap Chunk.bytes ++ encList vs)
      | _, _ => "bad-op"
    | "collect", chunks =>
      match chunks.mapM (fun c => match c with | .atom h => bytesOfHex h | _ => none) with
      | some cs => "ok " ++ hexOfBytes (Spec.encode (.str cs.flatten))
      | none => "bad-op"
    | "spec", [v] =>
      match valOfSexp v with
      | some v => "ok " ++ hexOfBytes (Spec.encode v)
      | none => "bad-op"
    | "de", [t, .atom h] =>
      match tyOfSexp t, bytesOfHex h with
      | some t, some bs => deAnswer (dec t bs)
      | _, _ => "bad-op"
    | "key", [.atom p, sx] =>
      match bytesOfHex p, schemaOfSexp sx with
      | some p, some sc =>
        let a := hashTyPath p sc
        let b := hashTyPathOwned p (conv sc)
        if a = b then "ok " ++ hexOfBytes a else "FAIL model hashers disagree"
      | _, _ => "bad-op"
    | "keyty", [.atom _idx, .atom p, sx] =>
      -- Key::for_path::<T>(path) with T::SCHEMA = sx: the same documented stream
      match bytesOfHex p, schemaOfSexp sx with
      | some p, some sc => "ok " ++ hexOfBytes (hashTyPath p sc)
      | _, _ => "bad-op"
    | "keydiff", [.atom _kind, .atom p, s1, s2] =>
      match bytesOfHex p, schemaOfSexp s1, schemaOfSexp s2 with
      | some p, some s1, some s2 =>
        if hashTyPath p s1 = hashTyPath p s2 then "ok same" else "ok differ"
      | _, _, _ => "bad-op"
    | "keypath", [.atom p1, .atom p2, sx] =>
      match bytesOfHex p1, bytesOfHex p2, schemaOfSexp sx with
      | some p1, some p2, some sc =>
        if hashTyPath p1 sc = hashTyPath p2 sc then "ok same" else "ok differ"
      | _, _, _ => "bad-op"
    | "pun", [sx] =>
      match schemaOfSexp sx with
      | some sc =>
        let a := enc (serBorrowed sc)
        let b := enc (serOwned (conv sc))
        if a = b then "ok " ++ hexOfBytes a else "FAIL model punning"
      | none => "bad-op"
    | "deowned", [.atom h] =>
      match bytesOfHex h with
      | some bs => schemaDeAnswer (decOwnedBytes bs)
      | none => "bad-op"
    | "fmt", [sx] =>
      match schemaOfSexp sx with
      | some sc => "ok " ++ hexOfBytes (toPseudocode sc) ++ " prim=" ++ (if isPrim sc then "1" else "0")
      | none => "bad-op"
    | "fnvraw", [.atom h] =>
      match bytesOfHex h with
      | some bs => "ok " ++ hexOfBytes (Spec.le64 (Spec.fnv1a bs))
      | none => "bad-op"
    | "discover", [sx] =>
      match schemaOfSexp sx with
      | some sc =>
        match discoverSet false sc with
        | .ok l => "ok" ++ String.join ((sortStrings (l.map schemaToStr)).map (" " ++ ·))
        | .error e => "err " ++ e.name
      | none => "bad-op"
    | "size", [v] =>
      match valOfSexp v with
      | some v => (match serializedSize v with | .ok n => s!"ok {n}" | .error e => "err " ++ e.name)
      | none => "bad-op"
    | "sercap", [.atom framing, .atom storage, .atom cap, v] =>
      match cap.toNat?, valOfSexp v with
      | some cap, some v =>
        let fin (r : R (List Byte)) (mem : List Byte) : String :=
          match r with
          | .ok b => s!"ok {hexOfBytes b} mem={hexOfBytes mem}"
          | .error e => s!"err {e.name} mem={hexOfBytes mem}"
        if framing == "plain" then
          storageRun storage cap 0xA5 (fun F s0 memOf => let r := serializeWith F s0 v; fin r.2 (memOf r.1))
        else if framing == "cobs" then
          -- the fixed-storage entry points are the definitions Props/C05Framed proves thresholds for
          if storage == "slice" then
            let r := toSliceCobs v (List.replicate cap 0xA5); fin r.2 r.1.mem
          else if storage == "hvec" then
            let r := toHVecCobs cap v; fin r.2 []
          else
            storageRun storage cap 0xA5 (fun F s0 memOf => let r := cobsOfVal F s0 v; fin r.2 (memOf r.1))
        else
          withAlg framing (fun _ alg nbytes =>
            if storage == "slice" then
              let r := toSliceCrc alg nbytes (List.replicate cap 0xA5) v; fin r.2 r.1
            else if storage == "hvec" then fin (toHVecCrc alg nbytes cap v) []
            else storageRun storage cap 0xA5 (fun F s0 memOf =>
              let r := serializeWith (CrcSer alg nbytes F) (s0, alg.init) v; fin r.2 (memOf r.1.1))) "bad-op"
      | _, _ => "bad-op"
    | "collectcap", .atom framing :: .atom storage :: .atom cap :: chunks =>
      match cap.toNat?, chunks.mapM (fun c => match c with | .atom h => bytesOfHex h | _ => none) with
      | some cap, some pieces =>
        let fin (r : R (List Byte)) (mem : List Byte) : String :=
          match r with
          | .ok b => s!"ok {hexOfBytes b} mem={hexOfBytes mem}"
          | .error e => s!"err {e.name} mem={hexOfBytes mem}"
        if framing == "plain" then
          storageRun storage cap 0xA5 (fun F s0 memOf => let r := collectStrWith F s0 pieces; fin r.2 (memOf r.1))
        else if framing == "cobs" then
          storageRun storage cap 0xA5 (fun F s0 memOf =>
            let r := cobsSerialize F s0 (fun st => collectStrWith (Cobs F) st pieces); fin r.2 (memOf r.1))
        else
          withAlg framing (fun _ alg nbytes =>
            storageRun storage cap 0xA5 (fun F s0 memOf =>
              let r := collectStrWith (CrcSer alg nbytes F) (s0, alg.init) pieces; fin r.2 (memOf r.1.1))) "bad-op"
      | _, _ => "bad-op"
    | "bigslice", [.atom framing, .atom _cap, v] =>
      -- a caller buffer far larger than the output (the harness sends capacities >= 2^32 - 1): by
      -- `to_slice_threshold` / `to_slice_cobs_threshold` / `to_slice_crc_threshold` the result is the complete output
      match valOfSexp v with
      | some v =>
        if framing == "plain" then serAnswer (toAllocVec v)
        else if framing == "cobs" then serAnswer (cobsOfVal AllocVec [] v).2
        else withAlg framing (fun _ alg nbytes => serAnswer (toAllocVecCrc alg nbytes v)) "bad-op"
      | none => "bad-op"
    | "cobsenc", [.atom storage, .atom cap, .atom h] =>
      match cap.toNat?, bytesOfHex h with
      | some cap, some m =>
        storageRun storage cap 0xA5 (fun F s0 _ => serAnswer (cobsOfBytes F s0 m).2)
      | _, _ => "bad-op"
    | "flavseq", (.atom storage :: .atom cap :: .atom framing :: steps) =>
      match cap.toNat?, steps.mapM stepOfSexp with
      | some cap, some steps =>
        storageRun storage cap 0xA5 (fun F s0 _ =>
          if framing == "cobs" then
            match Cobs.tryNew F s0 with
            | (_, some e) => "err " ++ e.name
            | (st1, none) => flavSteps (Cobs F) st1 steps "ok"
          else flavSteps F s0 steps "ok")
      | _, _ => "bad-op"
    | "cobsspec", [.atom h] =>
      match bytesOfHex h with
      | some m => "ok " ++ hexOfBytes (Spec.cobsEncode m ++ [0])
      | none => "bad-op"
    | "cobsval", [_t, v] =>
      match valOfSexp v with
      | some v => serAnswer (cobsOfVal AllocVec [] v).2
      | none => "bad-op"
    | "cobsframes", [t, .atom h] =>
      match tyOfSexp t, bytesOfHex h with
      | some t, some bs => "frames" ++ String.join ((cobsFrames t (bs.length + 2) bs).map (" | " ++ ·))
      | _, _ => "bad-op"
    | "cobsde", [t, .atom h] =>
      match tyOfSexp t, bytesOfHex h with
      | some t, some bs =>
        let f := match (fromBytesCobs (fromBytes t) bs).1 with
          | .ok v => "ok " ++ valToStr v | .error e => "err " ++ e.name
        let k := match (takeFromBytesCobs (fromBytes t) bs).1 with
          | .ok (v, r) => s!"ok {valToStr v} rest={hexOfBytes r}" | .error e => "err " ++ e.name
        s!"from={f} take={k}"
      | _, _ => "bad-op"
    | "crcraw", [.atom alg, .atom h] =>
      match bytesOfHex h with
      | some m => withAlg alg (fun _ a nbytes => "ok " ++ hexOfBytes (leBytes nbytes (crc a m).toNat)) "bad-op"
      | none => "bad-op"
    | "crcser", [.atom alg, v] =>
      match valOfSexp v with
      | some v => withAlg alg (fun _ a nbytes => serAnswer (toAllocVecCrc a nbytes v)) "bad-op"
      | none => "bad-op"
    | "crcde", [.atom alg, t, .atom h] =>
      match tyOfSexp t, bytesOfHex h with
      | some t, some bs => withAlg alg (fun _ a nbytes => deAnswer (takeFromBytesCrcG a nbytes t bs)) "bad-op"
      | _, _ => "bad-op"
    | "crcdex", [.atom alg, t, .atom _paylen, .atom h] =>
      match tyOfSexp t, bytesOfHex h with
      | some t, some bs => withAlg alg (fun _ a nbytes => deAnswer (takeFromBytesCrcG a nbytes t bs)) "bad-op"
      | _, _ => "bad-op"
    | "acc", (.atom n :: t :: chunks) =>
      match n.toNat?, tyOfSexp t, chunks.mapM (fun c => match c with | .atom h => bytesOfHex h | _ => none) with
      | some n, some t, some cs => accAnswer n t cs
      | _, _, _ => "bad-op"
    | "accrep", [.atom n, t, .atom count, .atom chunk, .atom tail] =>
      match n.toNat?, tyOfSexp t, count.toNat?, bytesOfHex chunk, bytesOfHex tail with
      | some n, some t, some count, some chunk, some tail => accRepAnswer n t count chunk tail
      | _, _, _, _, _ => "bad-op"
    | "deg", [t, .atom h] =>
      match tyOfSexp t, bytesOfHex h with
      | some t, some bs => deAnswer (dec t bs)
      | _, _ => "bad-op"
    | "alloc", [.atom name, .atom h] =>
      let ty : Option Ty := match name with
        | "vec_u8" => some (.seq (.u .w8)) | "vec_u64" => some (.seq (.u .w64))
        | "vec_u128" => some (.seq (.u .w128)) | "string" => some .str
        | "vec_string" => some (.seq .str) | "vec_vec_u16" => some (.seq (.seq (.u .w16)))
        | "vec_pair" => some (.seq (.tuple [.u .w8, .u .w32]))
        | "pair" => some (.tuple [.seq (.u .w16), .str])
        | "vec_opt" => some (.seq (.option (.u .w64)))
        | "bytebuf" => some (.tuple [.u .w8, .seq (.u .w8)])
        | "ownedbytes" => some .bytes                       -- a visitor that asks for deserialize_byte_buf
        | "pair_ownedbytes" => some (.tuple [.u .w8, .bytes, .bytes])
        | _ => none
      match ty, bytesOfHex h with
      | some t, some bs =>
        match dec t bs with
        | .ok (_, r) => s!"ok consumed={bs.length - r.length}"
        | .error e => "err " ++ e.name
      | _, _ => "bad-op"
    | "maxsize", [m] =>
      match mtyOfSexp m with
      | some m =>
        -- maxSize mirrors the code's arithmetic; encMax is the EXACT supremum of encoded lengths
        -- (Props/C12Exact: c12_decided_by_encMax); `listed` = the kinds the property calls tight;
        -- `pop` = the hypotheses under which encMax is attained (bound_iff_encMax_le)
        let b (x : Bool) : String := if x then "1" else "0"
        s!"ok {maxSize m} exact={encMax m} listed={b m.listed} pop={b (m.populated && m.optionsPopulated)} wf={b m.wf}"
      | none => "bad-op"
    | "crcio", _ =>
      -- the deserialising CrcModifier over a byte reader: decided by the harness oracle (accepted => the slice
      -- entry point accepts the same frame with the same value; CrcDe.sim is the model-side statement)
      "ok"
    | "maxprobe", _ =>
      -- a type of the harness's opportunistic catalogue (no MaxSize impl in the modelled crate): decided by the
      -- harness oracle alone if the crate ever declares a maximum for it
      "ok"
    | "fix", [.atom order, .atom ty, .atom x] =>
      match intOfName ty, parseInt x with
      | some (signed, w), some x =>
        if order == "le" then "ok " ++ hexOfBytes (enc (fixLE w signed x))
        else if order == "be" then "ok " ++ hexOfBytes (enc (fixBE w signed x))
        else "bad-op"
      | _, _ => "bad-op"
    | "stack", [.atom "crccobs", .atom storage, .atom cap, .atom alg, _t, v] =>
      match cap.toNat?, valOfSexp v with
      | some cap, some v =>
        withAlg alg (fun _ a nbytes =>
          storageRun storage cap 0xA5 (fun F s0 _ =>
            match Cobs.tryNew F s0 with
            | (_, some e) => "err " ++ e.name
            | (st1, none) => serAnswer (serializeWith (CrcSer a nbytes (Cobs F)) (st1, a.init) v).2)) "bad-op"
      | _, _ => "bad-op"
    | "rec", [.atom mode, v] =>
      match valOfSexp v with
      | some v =>
        let show1 : Chunk → String
          | .push b => " p:" ++ (hexOfBytes [b]).drop 1
          | .extend bs => " e:" ++ (hexOfBytes bs).drop 1
        if mode == "override" then "ok" ++ String.join ((emit v).map show1)
        else "ok" ++ String.join ((enc v).map (fun b => show1 (.push b)))
      | none => "bad-op"
    | "wio", [.atom adapter, .atom failAt, .atom _sched, v] =>
      match valOfSexp v with
      | some v =>
        let fa : Option Nat := if failAt == "none" then none else failAt.toNat?
        -- adapters ending in `ff`: the sink accepts everything and fails the final flush
        match serializeWith (WriteFlF (!adapter.endsWith "ff")) ⟨[], fa⟩ v with
        | (_, .ok out) => "ok " ++ hexOfBytes out
        | (st, .error e) => s!"err {e.name} written={hexOfBytes st.written}"
      | none => "bad-op"
    | "rio", [.atom _adapter, .atom fault, .atom scratch, .atom _sched, .atom count, t, .atom h] =>
      match scratch.toNat?, count.toNat?, tyOfSexp t, bytesOfHex h with
      | some scratch, some count, some t, some stream =>
        let fa : Option Nat := if fault == "none" then none else fault.toNat?
        -- consecutive messages on one stream: from_io returns (reader, rest of scratch)
        let rec go (k : Nat) (st : IOReaderSt) (acc : String) : String :=
          match k with
          | 0 => acc ++ s!" | delivered={st.delivered} scratchleft={st.scratchCap - st.scratchUsed}"
          | k+1 =>
            match fromIo t st with
            | .error e => acc ++ " | err " ++ e.name
            | .ok (v, st') => go k st'.next (acc ++ " | ok " ++ valToStr v)
        go count (IOReaderSt.new stream fa scratch) "rio"
      | _, _, _, _ => "bad-op"
    | "deseq", (.atom "slice" :: .atom _fault :: .atom _scratch :: .atom _sched :: .atom h :: tys) =>
      -- ONE Deserializer::from_bytes(input) decodes several values in a row, then finalize() = the remainder
      match tys.mapM tyOfSexp, bytesOfHex h with
      | some tys, some bs =>
        let rec goSl (ts : List Ty) (rest : List Byte) (acc : String) : String :=
          match ts with
          | [] => acc ++ " | fin rest=" ++ hexOfBytes rest
          | t :: ts =>
            match dec t rest with
            | .error e => acc ++ " | err " ++ e.name ++ " | posterr"
            | .ok (v, r) => goSl ts r (acc ++ " | ok " ++ valToStr v)
        goSl tys bs "deseq"
      | _, _ => "bad-op"
    | "deseq", (.atom _adapter :: .atom fault :: .atom scratch :: .atom _sched :: .atom h :: tys) =>
      -- ONE Deserializer::from_flavor(IOReader) used for several values in a row; compared up to the first
      -- error (afterwards only safety is observed by the harness)
      match scratch.toNat?, tys.mapM tyOfSexp, bytesOfHex h with
      | some scratch, some tys, some stream =>
        let fa : Option Nat := if fault == "none" then none else fault.toNat?
        let rec goSeq (ts : List Ty) (st : IOReaderSt) (acc : String) : String :=
          match ts with
          | [] => acc ++ s!" | fin delivered={st.delivered} scratchleft={st.scratchCap - st.scratchUsed}"
          | t :: ts =>
            match fromIo t st with
            | .error e => acc ++ " | err " ++ e.name ++ " | posterr"
            | .ok (v, st') => goSeq ts st' (acc ++ " | ok " ++ valToStr v)
        goSeq tys (IOReaderSt.new stream fa scratch) "deseq"
      | _, _, _ => "bad-op"
    | "rtsp", [.atom idx, vt, v] =>
      -- an enum with ONE accepted discriminant anywhere in the u32 range (Model/EnumAt.lean)
      match idx.toNat?, tyOfSexp vt, valOfSexp v with
      | some idx, some vt, some v => if hasTyAt idx vt v then "ok " ++ hexOfBytes (enc v) else "ill-typed"
      | _, _, _ => "bad-op"
    | "desp", [.atom idx, vt, .atom h] =>
      match idx.toNat?, tyOfSexp vt, bytesOfHex h with
      | some idx, some vt, some bs => deAnswer (decEnumAt idx vt bs)
      | _, _, _ => "bad-op"
    | "realrt", [.atom _idx, c, .atom _h] =>
      -- a concrete Rust value decoded by the REAL Deserialize impl and re-encoded: must be enc of its call tree
      match ctOfSexp c with
      | some c => "ok " ++ hexOfBytes (enc c.erase)
      | none => "bad-op"
    | "schemaof", [r] =>
      -- the model's impl tables / derive model: <T as Schema>::SCHEMA for the described Rust type
      match rtyOfSexp r with
      | some r => "ok " ++ schemaToStr (schemaOf true r)
      | none => "bad-op"
    | "conf", [c, sx, .atom h] =>
      -- C14 on REAL data: the recorded call tree of a real value, the real T::SCHEMA, the real bytes
      match ctOfSexp c, schemaOfSexp sx, bytesOfHex h with
      | some c, some sc, some bs =>
        let ok1 := conforms c sc
        let ok2 := match schemaRead sc (bs ++ [0x5A]) with
          | .ok (v, r) => valToStr v == valToStr c.erase && r == [0x5A]
          | .error _ => false
        let ok3 := enc c.erase == bs
        s!"ok conforms={if ok1 then 1 else 0} reader={if ok2 then 1 else 0} bytes={if ok3 then 1 else 0}"
      | _, _, _ => "bad-op"
    | "dynagree", (sx :: jx :: .atom h :: _class) =>
      match schemaOfSexp sx, jsonOfSexp jx, bytesOfHex h with
      | some sc, some j, some bs => s!"ser={dynSerStr sc j} de={dynDeStr sc bs}"
      | _, _, _ => "bad-op"
    | "dynser", [sx, jx] =>
      match schemaOfSexp sx, jsonOfSexp jx with
      | some sc, some j => dynSerStr sc j
      | _, _ => "bad-op"
    | "dynde", [sx, .atom h] =>
      match schemaOfSexp sx, bytesOfHex h with
      | some sc, some bs =>
        -- the model's allocation count and the constants of `dyn_alloc_bound` ride along (projected away
        -- before the answers are compared; the check relates them to the measured allocation)
        dynDeStr sc bs ++ s!" cost={allocDyn hwFloatOps sc bs} mwp={if minWidthPos sc then 1 else 0} w={allocW' sc}"
      | _, _ => "bad-op"
    | "hasty", [t, v] =>
      match tyOfSexp t, valOfSexp v with
      | some t, some v => if hasTy v t then "ok 1" else "ok 0"
      | _, _ => "bad-op"
    | _, _ => "bad-op"
  | _ => "bad-op"

partial def loop (hin hout : IO.FS.Stream) : IO Unit := do
  let line ← hin.getLine
  if line.isEmpty then return ()
  hout.putStrLn (handle line)
  loop hin hout

def main : IO Unit := do
  let hin ← IO.getStdin
  let hout ← IO.getStdout
  loop hin hout
