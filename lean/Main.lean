import Postcard.Model.Sexp
import Postcard.Model.Ser
import Postcard.Model.De
import Postcard.Model.Flavor
import Postcard.Spec.Wire
/-
  pcmodel — line-protocol driver.  One operation per input line, one answer
  line per operation.  Imports model/spec files only (core Lean), so it links
  as a native executable.
-/
open Postcard

def resStr {α} (f : α → String) : R α → String
  | .ok a => "ok " ++ f a
  | .error e => "err " ++ e.name

def deAnswer : R (Val × List Byte) → String
  | .ok (v, r) => s!"ok {valToStr v} rest={hexOfBytes r}"
  | .error e => "err " ++ e.name

def handle (line : String) : String :=
  match Sexp.parseLine line with
  | none => "bad-op"
  | some [] => "bad-op"
  | some (.atom op :: args) =>
    match op, args with
    | "ser", [v] =>
      match valOfSexp v with
      | some v => "ok " ++ hexOfBytes (enc v)
      | none => "bad-op"
    | "rt", [t, v] =>
      match tyOfSexp t, valOfSexp v with
      | some t, some v => if hasTy v t then "ok " ++ hexOfBytes (enc v) else "ill-typed"
      | _, _ => "bad-op"
    | "serann", (.atom _kind :: .atom n :: vs) =>
      -- serialize_seq / serialize_map with an announced length (serializer.rs): unknown → error,
      -- known → varint(usize) of the ANNOUNCED length, then whatever elements are written
      match valsOfSexp vs with
      | some vs =>
        if n == "none" then "err " ++ Err.seqLengthUnknown.name
        else match n.toNat? with
          | some n => "ok " ++ hexOfBytes (Spec.varint n ++ Spec.encodeAll vs)
          | none => "bad-op"
      | none => "bad-op"
    | "collect", chunks =>
      match chunks.mapM (fun c => match c with | .atom h => bytesOfHex h | _ => none) with
      | some cs => "ok " ++ hexOfBytes (Spec.encode (.str cs.flatten))
      | none => "bad-op"
    | "spec", [v] =>
      match valOfSexp v with
      | some v => "ok " ++ hexOfBytes (Spec.encode v)
      | none => "bad-op"
    | "de", [t, .atom h] =>
      match tyOfSexp t, bytesOfHex h with
      | some t, some bs => deAnswer (dec t bs)
      | _, _ => "bad-op"
    | "hasty", [t, v] =>
      match tyOfSexp t, valOfSexp v with
      | some t, some v => if hasTy v t then "ok 1" else "ok 0"
      | _, _ => "bad-op"
    | _, _ => "bad-op"
  | _ => "bad-op"

partial def loop (hin hout : IO.FS.Stream) : IO Unit := do
  let line ← hin.getLine
  if line.isEmpty then return ()
  hout.putStrLn (handle line)
  loop hin hout

def main : IO Unit := do
  let hin ← IO.getStdin
  let hout ← IO.getStdout
  loop hin hout
