import Postcard.Model.DeFlavor
import Postcard.Model.Crc
/-
  Postcard.Model.CrcDe — the DESERIALISING `CrcModifier` as a flavour transformer,
  written method by method like the Rust (source/postcard/src/de/flavors.rs, mod crc),
  and the two entry points `take_from_bytes_uN` / `from_bytes_uN` as runs of the
  flavour-generic deserializer `decG` over `CrcModifier<Slice>`.

  Model/Crc.lean's `takeFromBytesCrc` is the DERIVED list-level description
  ("the digest covers exactly the bytes the value consumed"); Props/C10Flavor.lean
  proves that the code-shaped run below equals it for every type and input, so the
  C10 theorems (stated over `takeFromBytesCrc`) are theorems about this code shape.
-/
namespace Postcard

/-- mirrors `de::flavors::crc::CrcModifier<'de, B, W>`: state = inner flavour state ×
the digest register.
* `pop`: `match self.flav.pop() { Ok(byte) => { self.digest.update(&[byte]); Ok(byte) } e => e }`
* `try_take_n`: `match self.flav.try_take_n(ct) { Ok(bytes) => { self.digest.update(bytes); Ok(bytes) } e => e }`
* `size_hint`: `self.flav.size_hint()`. -/
def CrcDe {σ : Type} {w : Nat} (alg : CrcAlg w) (F : DeFlavor σ) : DeFlavor (σ × BitVec w) where
  pop st :=
    match F.pop st.1 with
    | .ok (b, s') => .ok (b, (s', stepByte alg st.2 b))
    | .error e => .error e
  tryTakeN st ct :=
    match F.tryTakeN st.1 ct with
    | .ok (bs, s') => .ok (bs, (s', crcState alg st.2 bs))
    | .error e => .error e
  sizeHint st := F.sizeHint st.1

/-- mirrors `CrcModifier::finalize` over the `Slice` flavour:
`self.flav.try_take_n(size_of::<$int>())` (NOT digested), `self.flav.finalize()`,
`digest.finalize() == <$int>::from_le_bytes(..)`. -/
def CrcDe.finalizeSlice {w : Nat} (alg : CrcAlg w) (nbytes : Nat) (st : SliceDeSt × BitVec w) :
    R (List Byte) :=
  match SliceDe.tryTakeN st.1 nbytes with
  | .error e => .error e
  | .ok (c, s') =>
    let remainder := SliceDe.finalize s'
    if ofLeBytes c = (crcFinal alg st.2).toNat then .ok remainder else .error .badCrc

/-- mirrors `take_from_bytes_uN`: `CrcModifier::new(Slice::new(s), digest)`,
`T::deserialize(&mut deserializer)?`, `deserializer.finalize()?`. -/
def takeFromBytesCrcG {w : Nat} (alg : CrcAlg w) (nbytes : Nat) (t : Ty) (bs : List Byte) :
    R (Val × List Byte) :=
  match decG (CrcDe alg SliceDe) t (SliceDeSt.new bs, alg.init) with
  | .error e => .error e
  | .ok (v, st) =>
    match CrcDe.finalizeSlice alg nbytes st with
    | .error e => .error e
    | .ok r => .ok (v, r)

/-- mirrors `from_bytes_uN`. -/
def fromBytesCrcG {w : Nat} (alg : CrcAlg w) (nbytes : Nat) (t : Ty) (bs : List Byte) : R Val :=
  match takeFromBytesCrcG alg nbytes t bs with
  | .error e => .error e
  | .ok (v, _) => .ok v

end Postcard
