/-
  Postcard.Model.SlidingBuffer — `de::flavors::io::SlidingBuffer` together with the way `IOReader` /
  `EIOReader::try_take_n` use it, as a state machine over ANY history of calls, INCLUDING calls that fail
  (scratch exhausted; reader fault after the slot was carved off).  Model/DeFlavor.lean drops the flavour state
  at the first error because `from_io` / `from_eio` do; `Deserializer::from_flavor` lets a caller go on, and
  then the state after a failure matters (seeded change C04-e).

  mirrors:
    take_n(ct):  remain = end - cursor; if remain < ct { Err } else { slot = [cursor, cursor+ct); cursor += ct; Ok(slot) }
    IOReader::try_take_n(ct):  let buff = self.buff.take_n(ct)?;  reader.read_exact(buff)?;  Ok(buff)
    complete():  [cursor, end)
-/
namespace Postcard

/-- offsets are relative to the start of the caller's scratch buffer of `cap` bytes; `slots` are all the
`(offset, length)` ranges ever carved off, oldest first (also those whose `read_exact` then failed: the
Rust code has already written a partial read into them). -/
structure SBuf where
  cap : Nat
  cursor : Nat
  slots : List (Nat × Nat)
  deriving Repr

def SBuf.new (cap : Nat) : SBuf := ⟨cap, 0, []⟩

/-- one `try_take_n(ct)` call; `readOk` = did `read_exact` succeed (irrelevant when `take_n` refuses).
Returns the new state and the slot handed to the CALLER (`none` on either kind of failure). -/
def SBuf.tryTakeN (s : SBuf) (ct : Nat) (readOk : Bool) : SBuf × Option (Nat × Nat) :=
  if s.cap - s.cursor < ct then (s, none)                      -- take_n: Err, nothing claimed
  else
    let s' : SBuf := { s with cursor := s.cursor + ct, slots := s.slots ++ [(s.cursor, ct)] }
    (s', if readOk then some (s.cursor, ct) else none)         -- read_exact fails: the slot stays claimed

/-- any history of calls on one flavour object. -/
def SBuf.run (s : SBuf) : List (Nat × Bool) → SBuf
  | [] => s
  | (ct, ok) :: rest => SBuf.run (s.tryTakeN ct ok).1 rest

/-- `complete()`: the unused scratch handed back by `finalize`. -/
def SBuf.complete (s : SBuf) : Nat × Nat := (s.cursor, s.cap - s.cursor)

/-- slots lie one after the other below `bound`. -/
def slotsBelow : List (Nat × Nat) → Nat → Nat → Prop
  | [], lo, bound => lo ≤ bound
  | (o, l) :: rest, lo, bound => lo ≤ o ∧ slotsBelow rest (o + l) bound

end Postcard
