import Postcard.Model.Sexp
import Postcard.Model.Schema
/-
  Postcard.Model.SexpSchema — line-protocol codec for schema trees (driver
  side; trusted glue).  Grammar mirrors harness/src/schema.rs `show`/`parse`.
-/
namespace Postcard

def leafOfName : String → Option Schema
  | "bool" => some .bool | "i8" => some .i8 | "u8" => some .u8 | "i16" => some .i16
  | "i32" => some .i32 | "i64" => some .i64 | "i128" => some .i128 | "u16" => some .u16
  | "u32" => some .u32 | "u64" => some .u64 | "u128" => some .u128 | "usize" => some .usize
  | "isize" => some .isize | "f32" => some .f32 | "f64" => some .f64 | "char" => some .char
  | "string" => some .string | "bytearray" => some .byteArray | "unit" => some .unit
  | "schema" => some .schema
  | _ => none

mutual
partial def schemaOfSexp : Sexp → Option Schema
  | .atom a => leafOfName a
  | .list [.atom "option", t] => (schemaOfSexp t).map .option
  | .list [.atom "seq", t] => (schemaOfSexp t).map .seq
  | .list (.atom "tuple" :: ts) => (schemasOfSexp ts).map .tuple
  | .list [.atom "map", k, v] =>
    match schemaOfSexp k, schemaOfSexp v with
    | some k, some v => some (.map k v) | _, _ => none
  | .list [.atom "struct", .atom n, d] =>
    match bytesOfHex n, dataOfSexp d with
    | some n, some d => some (.struct n d) | _, _ => none
  | .list (.atom "enum" :: .atom n :: vs) =>
    match bytesOfHex n, variantsOfSexp vs with
    | some n, some vs => some (.enum n vs) | _, _ => none
  | _ => none
partial def schemasOfSexp : List Sexp → Option (List Schema)
  | [] => some []
  | x :: xs => match schemaOfSexp x, schemasOfSexp xs with
    | some v, some vs => some (v :: vs) | _, _ => none
partial def dataOfSexp : Sexp → Option SData
  | .atom "unit" => some .unit
  | .list [.atom "newtype", t] => (schemaOfSexp t).map .newtype
  | .list (.atom "tuple" :: ts) => (schemasOfSexp ts).map .tuple
  | .list (.atom "struct" :: fs) => (fieldsOfSexp fs).map .struct
  | _ => none
partial def fieldsOfSexp : List Sexp → Option (List SField)
  | [] => some []
  | .list [.atom n, t] :: xs =>
    match bytesOfHex n, schemaOfSexp t, fieldsOfSexp xs with
    | some n, some t, some fs => some (.mk n t :: fs) | _, _, _ => none
  | _ => none
partial def variantsOfSexp : List Sexp → Option (List SVariant)
  | [] => some []
  | .list [.atom n, d] :: xs =>
    match bytesOfHex n, dataOfSexp d, variantsOfSexp xs with
    | some n, some d, some vs => some (.mk n d :: vs) | _, _, _ => none
  | _ => none
end

mutual
partial def schemaToStr : Schema → String
  | .bool => "bool" | .i8 => "i8" | .u8 => "u8" | .i16 => "i16" | .i32 => "i32" | .i64 => "i64"
  | .i128 => "i128" | .u16 => "u16" | .u32 => "u32" | .u64 => "u64" | .u128 => "u128"
  | .usize => "usize" | .isize => "isize" | .f32 => "f32" | .f64 => "f64" | .char => "char"
  | .string => "string" | .byteArray => "bytearray" | .unit => "unit" | .schema => "schema"
  | .option t => s!"(option {schemaToStr t})"
  | .seq t => s!"(seq {schemaToStr t})"
  | .tuple ts => s!"(tuple{schemasToStr ts})"
  | .map k v => s!"(map {schemaToStr k} {schemaToStr v})"
  | .struct n d => s!"(struct {hexOfBytes n} {dataToStr d})"
  | .enum n vs => s!"(enum {hexOfBytes n}{variantsToStr vs})"
partial def schemasToStr : List Schema → String
  | [] => ""
  | t :: ts => " " ++ schemaToStr t ++ schemasToStr ts
partial def dataToStr : SData → String
  | .unit => "unit"
  | .newtype t => s!"(newtype {schemaToStr t})"
  | .tuple ts => s!"(tuple{schemasToStr ts})"
  | .struct fs => s!"(struct{fieldsToStr fs})"
partial def fieldsToStr : List SField → String
  | [] => ""
  | .mk n t :: fs => s!" ({hexOfBytes n} {schemaToStr t})" ++ fieldsToStr fs
partial def variantsToStr : List SVariant → String
  | [] => ""
  | .mk n d :: vs => s!" ({hexOfBytes n} {dataToStr d})" ++ variantsToStr vs
end

end Postcard
