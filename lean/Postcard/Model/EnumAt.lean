import Postcard.Model.De
import Postcard.Model.Ser
/-
  Postcard.Model.EnumAt — an enum whose `Deserialize` impl is hand-written and accepts ONE
  discriminant `idx` anywhere in the `u32` range (sparse / wide discriminants), without the
  model having to materialise a list of `idx` variant descriptors.

  mirrors `deserialize_enum` → `EnumAccess::variant_seed` (`try_take_varint_u32`, then the
  identifier seed gets the index as a `u32`) → `VariantAccess::{unit_variant, newtype_variant_seed,
  tuple_variant, struct_variant}`: exactly `dec (.enum vts)` with the list walk replaced by one
  comparison.  The theorems about it are in Props/C01EnumAt.lean.
-/
namespace Postcard

/-- decode an enum value whose only accepted discriminant is `idx`, with variant shape `vt`
(`.unit` / `.newtypeStruct t` / `.tuple ts` / `.struct ts`); any other discriminant is the
visitor's `invalid_value` (a serde custom error). -/
def decEnumAt (idx : Nat) (vt : Ty) (bs : List Byte) : R (Val × List Byte) :=
  match decVarint 32 bs with
  | .error e => .error e
  | .ok (n, r) => if n = idx then decVariant [vt] 0 idx r else .error .custom

/-- the values of that enum. -/
def hasTyAt (idx : Nat) (vt : Ty) : Val → Bool
  | .unitVariant i =>
    decide (i = idx) && decide (idx < 2 ^ 32) && (match vt with | .unit => true | _ => false)
  | .newtypeVariant i v =>
    decide (i = idx) && decide (idx < 2 ^ 32) &&
      (match vt with | .newtypeStruct t => hasTy v t | _ => false)
  | .tupleVariant i vs =>
    decide (i = idx) && decide (idx < 2 ^ 32) &&
      (match vt with | .tuple ts => hasTys vs ts | _ => false)
  | .structVariant i vs =>
    decide (i = idx) && decide (idx < 2 ^ 32) &&
      (match vt with | .struct ts => hasTys vs ts | _ => false)
  | _ => false

end Postcard
