import Postcard.Model.Basic
import Postcard.Model.Utf8
/-
  Postcard.Model.DataModel — the serde data model as seen by postcard.

  `Val` has one constructor per serde data-model kind (the ten integer kinds
  are `u w`/`i w` with `w : IntW`; together with the two float kinds that is
  the 29 kinds of https://serde.rs/data-model.html).  `Ty` is what a
  `Deserialize` implementation asks the deserializer for.

  Maps are stored flat (`k₀ v₀ k₁ v₁ …`) so that every nesting goes through
  `List Val` only.  Enum variants are described by a `Ty` each:
  `.unit` (unit variant), `.newtypeStruct t` (newtype variant holding `t`),
  `.tuple ts` (tuple variant), `.struct ts` (struct variant).
-/
namespace Postcard

inductive IntW | w8 | w16 | w32 | w64 | w128
  deriving DecidableEq, Repr, Inhabited

def IntW.bits : IntW → Nat
  | .w8 => 8 | .w16 => 16 | .w32 => 32 | .w64 => 64 | .w128 => 128

inductive Val
  | bool (b : Bool)
  | u (w : IntW) (n : Nat)
  | i (w : IntW) (x : Int)
  | f32 (bits : Nat)
  | f64 (bits : Nat)
  | char (c : Nat)
  | str (utf8 : List Byte)
  | bytes (bs : List Byte)
  | none
  | some (v : Val)
  | unit
  | unitStruct
  | unitVariant (idx : Nat)
  | newtypeStruct (v : Val)
  | newtypeVariant (idx : Nat) (v : Val)
  | seq (vs : List Val)
  | tuple (vs : List Val)
  | tupleStruct (vs : List Val)
  | tupleVariant (idx : Nat) (vs : List Val)
  | map (kvs : List Val)
  | struct (vs : List Val)
  | structVariant (idx : Nat) (vs : List Val)
  deriving Repr, Inhabited

inductive Ty
  | bool
  | u (w : IntW)
  | i (w : IntW)
  | f32
  | f64
  | char
  | str
  | bytes
  | option (t : Ty)
  | unit
  | unitStruct
  | newtypeStruct (t : Ty)
  | seq (t : Ty)
  | tuple (ts : List Ty)
  | tupleStruct (ts : List Ty)
  | map (k : Ty) (v : Ty)
  | struct (ts : List Ty)
  | enum (variants : List Ty)
  | any
  | identifier
  | ignoredAny
  deriving Repr, Inhabited

/-- signed range of a width -/
def IntW.inRangeI (w : IntW) (x : Int) : Bool :=
  decide (-(2 ^ (w.bits - 1) : Int) ≤ x) && decide (x < (2 ^ (w.bits - 1) : Int))

/-- A variant descriptor is well-formed. -/
def Ty.isVariant : Ty → Bool
  | .unit | .newtypeStruct _ | .tuple _ | .struct _ => true
  | _ => false

mutual
/-- `hasTy v t`: `v` is a value a Rust type of shape `t` can hold (ranges, valid
UTF-8, scalar value, lengths representable as usize, variant index in range,
arities). -/
def hasTy : Val → Ty → Bool
  | .bool _, .bool => true
  | .u w n, .u w' => decide (w = w') && decide (n < 2 ^ w.bits)
  | .i w x, .i w' => decide (w = w') && w.inRangeI x
  | .f32 b, .f32 => decide (b < 2 ^ 32)
  | .f64 b, .f64 => decide (b < 2 ^ 64)
  | .char c, .char => isScalar c
  | .str s, .str => utf8Valid s && decide (s.length < 2 ^ 64)
  | .bytes b, .bytes => decide (b.length < 2 ^ 64)
  | .none, .option _ => true
  | .some v, .option t => hasTy v t
  | .unit, .unit => true
  | .unitStruct, .unitStruct => true
  | .newtypeStruct v, .newtypeStruct t => hasTy v t
  | .seq vs, .seq t => hasTyAll vs t && decide (vs.length < 2 ^ 64)
  | .tuple vs, .tuple ts => hasTys vs ts
  | .tupleStruct vs, .tupleStruct ts => hasTys vs ts
  | .struct vs, .struct ts => hasTys vs ts
  | .map kvs, .map k v => hasTyKV true kvs k v && decide (kvs.length / 2 < 2 ^ 64)
  | .unitVariant idx, .enum vts =>
    decide (idx < 2 ^ 32) && (match vts[idx]? with | .some .unit => true | _ => false)
  | .newtypeVariant idx v, .enum vts =>
    decide (idx < 2 ^ 32) && (match vts[idx]? with | .some (.newtypeStruct t) => hasTy v t | _ => false)
  | .tupleVariant idx vs, .enum vts =>
    decide (idx < 2 ^ 32) && (match vts[idx]? with | .some (.tuple ts) => hasTys vs ts | _ => false)
  | .structVariant idx vs, .enum vts =>
    decide (idx < 2 ^ 32) && (match vts[idx]? with | .some (.struct ts) => hasTys vs ts | _ => false)
  | _, _ => false
def hasTys : List Val → List Ty → Bool
  | [], [] => true
  | v :: vs, t :: ts => hasTy v t && hasTys vs ts
  | _, _ => false
def hasTyAll : List Val → Ty → Bool
  | [], _ => true
  | v :: vs, t => hasTy v t && hasTyAll vs t
/-- flat key/value list: `isKey` says whether the next element is a key. -/
def hasTyKV : Bool → List Val → Ty → Ty → Bool
  | isKey, [], _, _ => isKey
  | isKey, x :: xs, k, v => hasTy x (if isKey then k else v) && hasTyKV (!isKey) xs k v
end

end Postcard
