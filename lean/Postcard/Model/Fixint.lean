import Postcard.Model.Ser
import Postcard.Model.De
/-
  Postcard.Model.Fixint — mirrors source/postcard/src/fixint.rs.

  `LE<T>` / `BE<T>` (the newtypes behind `#[serde(with = "postcard::fixint::le")]`
  and `…::be`) are implemented by the macro `impl_fixint!` for
  `i16, i32, i64, i128, u16, u32, u64, u128`:

    serialize:   `self.0.to_le_bytes().serialize(serializer)`   (resp. `to_be_bytes`)
    deserialize: `<[u8; N]>::deserialize(d).map(<$int>::from_le_bytes)` (resp. `from_be_bytes`)

  MODELLED (serde): a `[u8; N]` array serialises as a serde TUPLE of `N` `u8`s
  (`serialize_tuple(N)` then one `serialize_element(&u8)` per byte) and
  deserialises through `deserialize_tuple(N, …)`, i.e. it is the data-model
  value `Val.tuple [.u .w8 b₀, …, .u .w8 b_{N-1}]` of shape
  `Ty.tuple [u8; N]`.

  The integer is an `Int` (`x ≥ 0` for the unsigned types); `toBits w.bits x`
  is its two's complement bit pattern (`as uN`), which is `x` itself for an
  in-range unsigned value.  The `signed` flag does not influence the bytes that
  are written (`to_le_bytes` of `iN` and of the `uN` with the same bit pattern
  coincide); it selects the reinterpretation on the way back.
-/
namespace Postcard

/-- the value range of the Rust integer type `uN` / `iN`. -/
def fixInRange (w : IntW) (signed : Bool) (x : Int) : Bool :=
  if signed then w.inRangeI x else decide (0 ≤ x) && decide (x < (2 ^ w.bits : Int))

/-- a `[u8; N]` as a serde data-model value: a tuple of `u8`s. -/
def byteArrayVal (bs : List Byte) : Val := .tuple (bs.map (fun b => .u .w8 b.toNat))

/-- mirrors `x.to_le_bytes()`: `size_of::<T>()` bytes, least significant first. -/
def fixBytesLE (w : IntW) (x : Int) : List Byte := leBytes (w.bits / 8) (toBits w.bits x)

/-- mirrors `x.to_be_bytes()`: the same bytes, most significant first. -/
def fixBytesBE (w : IntW) (x : Int) : List Byte := (fixBytesLE w x).reverse

/-- mirrors `impl Serialize for LE<$int>`: `self.0.to_le_bytes().serialize(serializer)`. -/
def fixLE (w : IntW) (_signed : Bool) (x : Int) : Val := byteArrayVal (fixBytesLE w x)

/-- mirrors `impl Serialize for BE<$int>`: `self.0.to_be_bytes().serialize(serializer)`. -/
def fixBE (w : IntW) (_signed : Bool) (x : Int) : Val := byteArrayVal (fixBytesBE w x)

/-- the shape `<[u8; N]>::deserialize` asks for: a tuple of `N = size_of::<T>()` `u8`s. -/
def fixTy (w : IntW) : Ty := .tuple (List.replicate (w.bits / 8) (.u .w8))

/-- read a list of `u8` values back as bytes (`None` if an element is not a `u8`). -/
def bytesOfVals : List Val → Option (List Byte)
  | [] => some []
  | .u .w8 n :: vs =>
    if n < 256 then
      match bytesOfVals vs with
      | some bs => some (UInt8.ofNat n :: bs)
      | none => none
    else none
  | _ :: _ => none

/-- `<$int>::from_le_bytes` on the bit level, then the signed reinterpretation. -/
def fixOfBytesLE (w : IntW) (signed : Bool) (bs : List Byte) : Int :=
  if signed then ofBits w.bits (ofLeBytes bs) else (ofLeBytes bs : Int)

/-- mirrors `impl Deserialize for LE<$int>` applied to the already decoded
`[u8; N]`: `.map(<$int>::from_le_bytes)`. -/
def unfixLE (w : IntW) (signed : Bool) : Val → Option Int
  | .tuple vs =>
    match bytesOfVals vs with
    | some bs => if bs.length = w.bits / 8 then some (fixOfBytesLE w signed bs) else none
    | none => none
  | _ => none

/-- mirrors `impl Deserialize for BE<$int>`: `.map(<$int>::from_be_bytes)`. -/
def unfixBE (w : IntW) (signed : Bool) : Val → Option Int
  | .tuple vs =>
    match bytesOfVals vs with
    | some bs => if bs.length = w.bits / 8 then some (fixOfBytesLE w signed bs.reverse) else none
    | none => none
  | _ => none

end Postcard
