import Postcard.Model.Entry
import Postcard.Model.SizeHint
/-
  Postcard.Model.DeFlavor — the deserializer GENERIC over its flavour, the
  index-level `Slice` flavour, and the reader / writer transports.  Core Lean only.

  mirrors
  * source/postcard/src/de/flavors.rs — trait `Flavor<'de>` (`pop`, `size_hint`,
    `try_take_n`, `finalize`), `Slice` (raw pointers `cursor` / `end`),
    `io::SlidingBuffer`, `io::io::IOReader`, `io::eio::EIOReader` (the two reader
    flavours are textually identical up to the `Read` trait they call);
  * source/postcard/src/de/deserializer.rs — every `deserialize_*` method, now
    written against the flavour calls it makes (`decG`), where Model/De.lean wrote
    them directly over a list;
  * source/postcard/src/de/mod.rs — `from_io`, `from_eio`;
  * source/postcard/src/ser/flavors.rs modules `io` / `eio` (`WriteFlavor`) and
    source/postcard/src/ser/mod.rs — `to_io`, `to_eio`.

  MODELLED, NOT VERIFIED (external): `std::io::Read::read_exact`,
  `embedded_io::Read::read_exact`, `Write::write_all`, `Write::flush`.
  `read_exact(buf)` with `buf.len() = n` either fills all `n` bytes — consuming
  exactly `n` bytes from the stream, in however many short reads (and retried
  `Interrupted`s) that takes — or fails (EOF before `n` bytes, or an I/O fault)
  having consumed an unspecified prefix.  `write_all(bs)` either hands all of
  `bs` to the sink, in order, in however many partial writes, or fails having
  handed over a prefix.  The number and sizes of the partial reads / writes are
  NOT visible to postcard: the flavours call nothing but `read_exact`,
  `write_all` and `flush`, and look at nothing but `Ok` / `Err` (every `Err` is
  mapped to one constant: `DeserializeUnexpectedEnd` / `SerializeBufferFull`).
  Hence one state transition per `read_exact` / `write_all` call covers every
  chunking schedule of the underlying reader / writer.
-/
namespace Postcard

/-! ## 1. the deserialization flavour trait -/

/-- mirrors `trait Flavor<'de>`.  A `&mut self` method returning `Result<T>` is
`σ → R (T × σ)`: the state after a FAILED call is dropped, because the
deserializer propagates every flavour error with `?` and is not used again by
`from_bytes` / `from_io` (see the note at `IOReader` for what the Rust state
is after a failed `try_take_n`).  `finalize` has a different return type per
flavour and is a separate function next to each flavour. -/
structure DeFlavor (σ : Type) where
  pop : σ → R (Byte × σ)
  tryTakeN : σ → Nat → R (List Byte × σ)
  sizeHint : σ → Option Nat

/-! ## 2. the deserializer over an arbitrary flavour

One clause per `deserialize_*` method, making the same flavour calls in the
same order as the Rust.  The visitor side is modelled exactly as in
Model/De.lean.  `sizeHint` is only consulted by `SeqAccess::size_hint`
(pre-allocation, Model/SizeHint.lean `seqSizeHintF`); it never influences the
decoded value, so `decG` does not call it. -/

/-- Rust's `let (a, s') = call?; k a s'`: run `x`; on `Err` return it, on `Ok`
continue with the value and the new flavour state. -/
@[inline] def thenG {α β σ : Type} (x : R (α × σ)) (k : α → σ → R (β × σ)) : R (β × σ) :=
  match x with
  | .error e => .error e
  | .ok (a, s) => k a s

/-- mirrors `try_take_varint_uN`: `for i in 0..varint_max { val = self.flavor.pop()?; … }`. -/
def decVarintLoopG {σ : Type} (F : DeFlavor σ) (bits : Nat) : Nat → Nat → Nat → σ → R (Nat × σ)
  | 0, _, _, _ => .error .badVarint
  | fuel+1, i, out, s =>
    thenG (F.pop s) fun val s' =>
      let carry := val.toNat &&& 0x7F
      let out := out ||| (carry <<< (7 * i))
      if val.toNat &&& 0x80 = 0 then
        if i = varintMax bits - 1 ∧ val.toNat > maxOfLastByte bits then .error .badVarint
        else .ok (out, s')
      else decVarintLoopG F bits fuel (i+1) out s'

def decVarintG {σ : Type} (F : DeFlavor σ) (bits : Nat) (s : σ) : R (Nat × σ) :=
  decVarintLoopG F bits (varintMax bits) 0 0 s

/-- `SeqAccess` with `len = n` driven by a visitor that pulls until `None`. -/
def decNG {σ : Type} (f : σ → R (Val × σ)) : Nat → σ → R (List Val × σ)
  | 0, s => .ok ([], s)
  | n+1, s =>
    thenG (f s) fun v s1 =>
    thenG (decNG f n s1) fun vs s2 =>
    .ok (v :: vs, s2)

/-- `MapAccess` with `len = n`: key then value, n times (flat result). -/
def decKVG {σ : Type} (fk fv : σ → R (Val × σ)) : Nat → σ → R (List Val × σ)
  | 0, s => .ok ([], s)
  | n+1, s =>
    thenG (fk s) fun k s1 =>
    thenG (fv s1) fun v s2 =>
    thenG (decKVG fk fv n s2) fun kvs s3 =>
    .ok (k :: v :: kvs, s3)

/-- mirrors `deserialize_char`: `sz = varint_usize; if sz > 4 {BadChar};
bytes = flavor.try_take_n(sz)?; from_utf8 else BadChar; exactly one char else BadChar`. -/
def decCharG {σ : Type} (F : DeFlavor σ) (s : σ) : R (Val × σ) :=
  thenG (decVarintG F 64 s) fun sz s1 =>
    if sz > 4 then .error .badChar else
    thenG (F.tryTakeN s1 sz) fun b s2 =>
      if utf8Valid b then
        match utf8Next b with
        | some (c, []) => .ok (.char c, s2)
        | _ => .error .badChar
      else .error .badChar

mutual
def decG {σ : Type} (F : DeFlavor σ) : Ty → σ → R (Val × σ)
  | .bool, s =>                                   -- deserialize_bool: pop
    thenG (F.pop s) fun b s' =>
      if b = 0 then .ok (.bool false, s') else if b = 1 then .ok (.bool true, s')
      else .error .badBool
  | .u .w8, s =>                                  -- deserialize_u8: pop
    thenG (F.pop s) fun b s' => .ok (.u .w8 b.toNat, s')
  | .u w, s =>                                    -- deserialize_u16..u128: varint
    thenG (decVarintG F w.bits s) fun n s' => .ok (.u w n, s')
  | .i .w8, s =>                                  -- deserialize_i8: pop as i8
    thenG (F.pop s) fun b s' => .ok (.i .w8 (ofBits 8 b.toNat), s')
  | .i w, s =>                                    -- deserialize_i16..i128: varint, zig-zag
    thenG (decVarintG F w.bits s) fun n s' => .ok (.i w (unzigzag n), s')
  | .f32, s =>                                    -- try_take_n(4)
    thenG (F.tryTakeN s 4) fun b s' => .ok (.f32 (ofLeBytes b), s')
  | .f64, s =>                                    -- try_take_n(8)
    thenG (F.tryTakeN s 8) fun b s' => .ok (.f64 (ofLeBytes b), s')
  | .char, s => decCharG F s
  | .str, s =>                                    -- varint_usize, try_take_n(sz), from_utf8
    thenG (decVarintG F 64 s) fun sz s1 =>
    thenG (F.tryTakeN s1 sz) fun b s2 =>
      if utf8Valid b then .ok (.str b, s2) else .error .badUtf8
  | .bytes, s =>                                  -- varint_usize, try_take_n(sz)
    thenG (decVarintG F 64 s) fun sz s1 =>
    thenG (F.tryTakeN s1 sz) fun b s2 => .ok (.bytes b, s2)
  | .option t, s =>                               -- pop: 0 / 1 / BadOption
    thenG (F.pop s) fun b s1 =>
      if b = 0 then .ok (.none, s1)
      else if b = 1 then thenG (decG F t s1) fun v s2 => .ok (.some v, s2)
      else .error .badOption
  | .unit, s => .ok (.unit, s)
  | .unitStruct, s => .ok (.unitStruct, s)
  | .newtypeStruct t, s =>
    thenG (decG F t s) fun v s' => .ok (.newtypeStruct v, s')
  | .seq t, s =>                                  -- varint_usize, SeqAccess { len }
    thenG (decVarintG F 64 s) fun n s1 =>
    thenG (decNG (decG F t) n s1) fun vs s2 => .ok (.seq vs, s2)
  | .tuple ts, s =>
    thenG (decTupleG F ts s) fun vs s' => .ok (.tuple vs, s')
  | .tupleStruct ts, s =>
    thenG (decTupleG F ts s) fun vs s' => .ok (.tupleStruct vs, s')
  | .struct ts, s =>
    thenG (decTupleG F ts s) fun vs s' => .ok (.struct vs, s')
  | .map k v, s =>                                -- varint_usize, MapAccess { len }
    thenG (decVarintG F 64 s) fun n s1 =>
    thenG (decKVG (decG F k) (decG F v) n s1) fun kvs s2 => .ok (.map kvs, s2)
  | .enum vts, s =>                               -- variant_seed: varint_u32
    thenG (decVarintG F 32 s) fun idx s1 => decVariantG F vts idx idx s1
  | .any, _ => .error .wontImplement
  | .identifier, _ => .error .wontImplement
  | .ignoredAny, _ => .error .wontImplement
/-- tuple / struct visitors: pull exactly the arity, in order. -/
def decTupleG {σ : Type} (F : DeFlavor σ) : List Ty → σ → R (List Val × σ)
  | [], s => .ok ([], s)
  | t :: ts, s =>
    thenG (decG F t s) fun v s1 =>
    thenG (decTupleG F ts s1) fun vs s2 =>
    .ok (v :: vs, s2)
/-- derived enum visitor: walk to variant `k`; `idx` is the original index. -/
def decVariantG {σ : Type} (F : DeFlavor σ) : List Ty → Nat → Nat → σ → R (Val × σ)
  | [], _, _, _ => .error .custom            -- index out of range: serde `invalid_value`
  | vt :: _, 0, idx, s =>
    match vt with
    | .unit => .ok (.unitVariant idx, s)
    | .newtypeStruct t => thenG (decG F t s) fun v s' => .ok (.newtypeVariant idx v, s')
    | .tuple ts => thenG (decTupleG F ts s) fun vs s' => .ok (.tupleVariant idx vs, s')
    | .struct ts => thenG (decTupleG F ts s) fun vs s' => .ok (.structVariant idx vs, s')
    | _ => .error .custom                    -- ill-formed variant descriptor (never generated)
  | _ :: rest, k+1, idx, s => decVariantG F rest k idx s
end

/-- mirrors `SeqAccess::size_hint` for an arbitrary flavour:
`match flavor.size_hint() { Some(size) if size < len => None, _ => Some(len) }`. -/
def seqHintG {σ : Type} (F : DeFlavor σ) (s : σ) (len : Nat) : Option Nat :=
  seqSizeHintF (F.sizeHint s) len

/-! ## 3. `Slice` at the index level

`mem` is the allocation the two raw pointers point into, `cursor` / `end_` are
offsets into it (`Slice::new(sli)`: `mem = sli`, `cursor = 0`, `end_ = sli.len()`).
A dereference or a `from_raw_parts` outside the allocation is undefined
behaviour in Rust; the model makes it the explicit outcome `.error .panic`, so
that "every read is inside `[cursor, end)`" is the ordinary theorem
`slice_reads_in_bounds` (Props/C11). -/
structure SliceDeSt where
  mem : List Byte
  cursor : Nat
  end_ : Nat
  deriving Repr

def SliceDe : DeFlavor SliceDeSt where
  pop s :=                          -- `if cursor == end {Err} else {*cursor; cursor.add(1)}`
    if s.cursor = s.end_ then .error .unexpectedEnd
    else match s.mem[s.cursor]? with
      | none => .error .panic       -- read outside the allocation
      | some b => .ok (b, { s with cursor := s.cursor + 1 })
  tryTakeN s ct :=                  -- `remain = end - cursor; if remain < ct {Err} else {from_raw_parts(cursor, ct)}`
    if s.end_ - s.cursor < ct then .error .unexpectedEnd
    else if s.mem.length < s.cursor + ct then .error .panic   -- slice outside the allocation
    else .ok (s.mem.extract s.cursor (s.cursor + ct), { s with cursor := s.cursor + ct })
  sizeHint s := some (s.end_ - s.cursor)

/-- mirrors `Slice::new`. -/
def SliceDeSt.new (sli : List Byte) : SliceDeSt := ⟨sli, 0, sli.length⟩

/-- mirrors `Slice::finalize`: `from_raw_parts(cursor, end - cursor)`. -/
def SliceDe.finalize (s : SliceDeSt) : List Byte := s.mem.extract s.cursor s.end_

/-- mirrors `take_from_bytes` through the index-level flavour. -/
def takeFromBytesG (t : Ty) (bs : List Byte) : R (Val × List Byte) :=
  match decG SliceDe t (SliceDeSt.new bs) with
  | .error e => .error e
  | .ok (v, s) => .ok (v, SliceDe.finalize s)

/-! ## 4. `IOReader` / `EIOReader`: a byte reader plus a scratch buffer

* `stream` — the bytes the reader has not delivered yet (its future);
* `fault` — `some k`: the reader reports an I/O error instead of delivering the
  byte with absolute index `k` (so exactly `k` bytes can ever be delivered);
  `none`: only end-of-stream ends it;
* `delivered` — how many bytes have been pulled from the reader so far;
* `scratchCap` — length of the caller's scratch buffer `buff`;
* `scratchUsed` — offset of `SlidingBuffer.cursor` in it;
* `slots` — `(offset, length)` of every `&'de mut [u8]` handed out by
  `SlidingBuffer::take_n`, in order (these are the borrowed `&'de str` /
  `&'de [u8]` the decoded value points into). -/
structure IOReaderSt where
  stream : List Byte
  fault : Option Nat
  delivered : Nat
  scratchCap : Nat
  scratchUsed : Nat
  slots : List (Nat × Nat)
  deriving Repr

/-- may the reader deliver bytes up to (excluding) absolute index `n`? -/
def faultOk : Option Nat → Nat → Bool
  | none, _ => true
  | some k, n => decide (n ≤ k)

/-- model of `reader.read_exact(buf)`, `buf.len() = n`: all `n` bytes, the
stream advanced by exactly `n`; or an error (end of stream / fault within the
next `n` bytes).  `read_exact(&mut [])` returns `Ok(())` without calling the
reader (`while !buf.is_empty() { … }`), so `n = 0` always succeeds. -/
def IOReaderSt.readExact (st : IOReaderSt) (n : Nat) : R (List Byte × IOReaderSt) :=
  if st.stream.length < n then .error .unexpectedEnd
  else if n = 0 ∨ faultOk st.fault (st.delivered + n) = true then
    .ok (st.stream.take n, { st with stream := st.stream.drop n, delivered := st.delivered + n })
  else .error .unexpectedEnd

/-- mirrors `IOReader` / `EIOReader`.

`try_take_n(ct)` is `let buff = self.buff.take_n(ct)?; self.reader.read_exact(buff)…?`:
the scratch check comes FIRST (a scratch buffer that is too small fails without
touching the reader), and the slot is carved off the scratch buffer BEFORE the
read can fail.  In Rust the flavour state after a failed read therefore has
`scratchUsed` already advanced by `ct` (the slot is lost, holding a partial
read); that state is only reachable through `Deserializer::finalize` after a
failed `deserialize`, which `from_io` / `from_eio` never do (they return the
error and drop the flavour), so the model drops it too. -/
def IOReader : DeFlavor IOReaderSt where
  pop st :=                         -- `let mut val = [0; 1]; reader.read_exact(&mut val)`
    match st.stream with
    | [] => .error .unexpectedEnd
    | b :: rest =>
      if faultOk st.fault (st.delivered + 1) then
        .ok (b, { st with stream := rest, delivered := st.delivered + 1 })
      else .error .unexpectedEnd
  tryTakeN st ct :=
    if st.scratchCap - st.scratchUsed < ct then .error .unexpectedEnd     -- SlidingBuffer::take_n
    else match st.readExact ct with
      | .error e => .error e
      | .ok (bs, st') =>
        .ok (bs, { st' with scratchUsed := st.scratchUsed + ct,
                            slots := st.slots ++ [(st.scratchUsed, ct)] })
  sizeHint st := some (st.scratchCap - st.scratchUsed)     -- `Some(self.buff.size())`

/-- mirrors `IOReader::new(reader, buff)`. -/
def IOReaderSt.new (stream : List Byte) (fault : Option Nat) (scratchCap : Nat) : IOReaderSt :=
  ⟨stream, fault, 0, scratchCap, 0, []⟩

/-- unused scratch handed back by `finalize` (`SlidingBuffer::complete`). -/
def IOReaderSt.scratchLeft (st : IOReaderSt) : Nat := st.scratchCap - st.scratchUsed

/-- mirrors `from_io` / `from_eio`: `T::deserialize(&mut de)?; Ok((t, de.finalize()?))`;
`finalize` returns `(reader, remaining scratch)`, both of which are read off
the final state (`stream` / `delivered`, `scratchLeft`). -/
def fromIo (t : Ty) (st : IOReaderSt) : R (Val × IOReaderSt) := decG IOReader t st

/-- what the caller does with the `(reader, rest_of_scratch)` returned by
`from_io` to read the next message: `IOReader::new(reader, rest_of_scratch)`.
The reader keeps its position (and its fault); the new scratch buffer is the
unused tail of the old one, offsets restart at 0. -/
def IOReaderSt.next (st : IOReaderSt) : IOReaderSt :=
  { st with scratchCap := st.scratchCap - st.scratchUsed, scratchUsed := 0, slots := [] }

/-- consecutive `from_io` calls on one reader, each with the scratch left over
by the previous one. -/
def fromIoSeq : List Ty → IOReaderSt → R (List Val × IOReaderSt)
  | [], st => .ok ([], st)
  | t :: ts, st =>
    match fromIo t st with
    | .error e => .error e
    | .ok (v, st1) =>
      match fromIoSeq ts st1.next with
      | .error e => .error e
      | .ok (vs, st2) => .ok (v :: vs, st2)

/-! ### scratch demand of a value -/

mutual
/-- total scratch bytes decoding `v` through a reader needs: one slot per
`try_take_n` call, i.e. per `str` / `bytes` / `char` / `f32` / `f64` leaf. -/
def need : Val → Nat
  | .f32 _ => 4
  | .f64 _ => 8
  | .char c => (utf8Encode c).length
  | .str s => s.length
  | .bytes b => b.length
  | .some v => need v
  | .newtypeStruct v => need v
  | .newtypeVariant _ v => need v
  | .seq vs => needList vs
  | .tuple vs => needList vs
  | .tupleStruct vs => needList vs
  | .tupleVariant _ vs => needList vs
  | .map kvs => needList kvs
  | .struct vs => needList vs
  | .structVariant _ vs => needList vs
  | .bool _ | .u _ _ | .i _ _ | .none | .unit | .unitStruct | .unitVariant _ => 0
def needList : List Val → Nat
  | [] => 0
  | v :: vs => need v + needList vs
end

mutual
/-- the slot lengths, in the order the slots are taken. -/
def leaves : Val → List Nat
  | .f32 _ => [4]
  | .f64 _ => [8]
  | .char c => [(utf8Encode c).length]
  | .str s => [s.length]
  | .bytes b => [b.length]
  | .some v => leaves v
  | .newtypeStruct v => leaves v
  | .newtypeVariant _ v => leaves v
  | .seq vs => leavesList vs
  | .tuple vs => leavesList vs
  | .tupleStruct vs => leavesList vs
  | .tupleVariant _ vs => leavesList vs
  | .map kvs => leavesList kvs
  | .struct vs => leavesList vs
  | .structVariant _ vs => leavesList vs
  | .bool _ | .u _ _ | .i _ _ | .none | .unit | .unitStruct | .unitVariant _ => []
def leavesList : List Val → List Nat
  | [] => []
  | v :: vs => leaves v ++ leavesList vs
end

/-- consecutive slots of the given lengths starting at offset `off`. -/
def mkSlots : Nat → List Nat → List (Nat × Nat)
  | _, [] => []
  | off, n :: ns => (off, n) :: mkSlots (off + n) ns

/-! ## 5. `WriteFlavor`: a byte writer as a serialization flavour

`written` — everything the sink has accepted so far; `failAt = some k` — the
sink reports an error instead of accepting the byte with absolute index `k`.
`write_all(bs)` is atomic per call in the model (see the header: partial-write
schedules inside `write_all` are invisible to `WriteFlavor`); when the fault
index lies inside `bs` the bytes before it have been accepted and the call
fails.  `flushOk = false` models a sink whose `flush` fails. -/
structure WriterSt where
  written : List Byte
  failAt : Option Nat
  deriving Repr

/-- model of `writer.write_all(bs)`. -/
def WriterSt.writeAll (s : WriterSt) (bs : List Byte) : WriterSt × Option Err :=
  match s.failAt with
  | none => ({ s with written := s.written ++ bs }, none)
  | some k =>
    if s.written.length + bs.length ≤ k then ({ s with written := s.written ++ bs }, none)
    else ({ s with written := s.written ++ bs.take (k - s.written.length) }, some .bufferFull)

/-- mirrors `ser::flavors::io::WriteFlavor` / `eio::WriteFlavor`:
`try_push(b) = write_all(&[b])`, `try_extend(bs) = write_all(bs)`, every error
→ `SerializeBufferFull`; `finalize = flush` (error → `SerializeBufferFull`) and
returns the writer (observed as what it has accepted).  No `IndexMut`. -/
def WriteFlF (flushOk : Bool) : Flavor WriterSt (List Byte) where
  tryPush s b := s.writeAll [b]
  tryExtend s bs := s.writeAll bs
  finalize s := (s, if flushOk then .ok s.written else .error .bufferFull)
  setAt _ _ _ := none

def WriteFl : Flavor WriterSt (List Byte) := WriteFlF true

/-- mirrors `to_io` / `to_eio`: `serialize_with_flavor(value, WriteFlavor::new(writer))`. -/
def toIo (v : Val) (st : WriterSt) : WriterSt × R (List Byte) := serializeWith WriteFl st v

end Postcard
