import Postcard.Model.Varint
import Postcard.Model.DataModel
/-
  Postcard.Model.Ser — mirrors source/postcard/src/ser/serializer.rs:
  one clause per `serialize_*` method.  `enc v` is the concatenation of all
  bytes handed to the flavour; `emit v` (Model/Flavor.lean) refines it to the
  exact sequence of `try_push`/`try_extend` calls.
-/
namespace Postcard

/-- two's complement bit pattern of `x` at width `bits` (`as uN`). -/
def toBits (bits : Nat) (x : Int) : Nat := (x % (2 ^ bits : Int)).toNat

mutual
def enc : Val → List Byte
  | .bool b => [if b then 1 else 0]                       -- serialize_bool → serialize_u8
  | .u .w8 n => [UInt8.ofNat n]                           -- serialize_u8: try_push(v)
  | .u w n => encVarint w.bits n                          -- serialize_u16..u128
  | .i .w8 x => [UInt8.ofNat (toBits 8 x)]                -- serialize_i8: v.to_le_bytes()[0]
  | .i w x => encVarint w.bits (zigzag w.bits x)          -- serialize_i16..i128
  | .f32 b => leBytes 4 b                                 -- v.to_bits().to_le_bytes()
  | .f64 b => leBytes 8 b
  | .char c =>                                            -- encode_utf8 then serialize_str
    let s := utf8Encode c
    encVarint 64 s.length ++ s
  | .str s => encVarint 64 s.length ++ s                  -- varint(usize len) ++ bytes
  | .bytes b => encVarint 64 b.length ++ b
  | .none => [0]
  | .some v => 1 :: enc v
  | .unit => []
  | .unitStruct => []
  | .unitVariant idx => encVarint 32 idx
  | .newtypeStruct v => enc v
  | .newtypeVariant idx v => encVarint 32 idx ++ enc v
  | .seq vs => encVarint 64 vs.length ++ encList vs
  | .tuple vs => encList vs
  | .tupleStruct vs => encList vs
  | .tupleVariant idx vs => encVarint 32 idx ++ encList vs
  | .map kvs => encVarint 64 (kvs.length / 2) ++ encList kvs
  | .struct vs => encList vs
  | .structVariant idx vs => encVarint 32 idx ++ encList vs
def encList : List Val → List Byte
  | [] => []
  | v :: vs => enc v ++ encList vs
end

end Postcard
