import Postcard.Model.Basic
import Postcard.Model.Flavor
/-
  Postcard.Model.Cobs — mirrors
    * cobs-0.2.3/src/enc.rs   : `EncoderState`, `PushResult`, `push`, `finalize`
    * postcard/src/ser/flavors.rs : `struct Cobs<B>`, `Cobs::try_new`,
                                    `impl Flavor for Cobs<B>`
    * cobs-0.2.3/src/dec.rs   : macro `decode_raw!` instantiated with
                                `$src = $dst = buff` (`decode_in_place`,
                                `decode_in_place_report`)
    * postcard/src/de/mod.rs  : `from_bytes_cobs`, `take_from_bytes_cobs`

  Conventions: a Rust panic (slice index out of range, `split_at_mut` beyond
  the length, `usize` underflow, `u8` overflow in a debug build) is the explicit
  outcome `Err.panic`, so that "never panics" is an ordinary theorem.  The `u8`
  fields of `EncoderState` are `Nat`s reduced `% 256` after each `+= 1`
  (release-build wrap-around made explicit); `Props/C06.lean` proves the
  reduction never fires.
-/
namespace Postcard

/-! ## enc.rs -/

/-- mirrors `struct EncoderState { code_idx: usize, num_bt_sent: u8, offset_idx: u8 }`. -/
structure EncSt where
  codeIdx : Nat
  numBtSent : Nat
  offsetIdx : Nat
  deriving Repr, DecidableEq

/-- mirrors `impl Default for EncoderState`. -/
def EncSt.default : EncSt := { codeIdx := 0, numBtSent := 1, offsetIdx := 1 }

/-- mirrors `enum PushResult`. -/
inductive PushResult
  | addSingle (b : Byte)
  | modifyFromStartAndSkip (idx : Nat) (mval : Byte)
  | modifyFromStartAndPushAndSkip (idx : Nat) (mval : Byte) (nval : Byte)
  deriving Repr, DecidableEq

/-- mirrors `EncoderState::push`. -/
def EncSt.push (e : EncSt) (data : Byte) : EncSt × PushResult :=
  if data = 0 then
    ({ codeIdx := e.codeIdx + e.offsetIdx, numBtSent := 1, offsetIdx := 1 },
      .modifyFromStartAndSkip e.codeIdx (UInt8.ofNat e.numBtSent))
  else
    let nbs := (e.numBtSent + 1) % 256      -- self.num_bt_sent += 1
    let off := (e.offsetIdx + 1) % 256      -- self.offset_idx += 1
    if 0xFF = nbs then
      ({ codeIdx := e.codeIdx + off, numBtSent := 1, offsetIdx := 1 },
        .modifyFromStartAndPushAndSkip e.codeIdx (UInt8.ofNat nbs) data)
    else
      ({ codeIdx := e.codeIdx, numBtSent := nbs, offsetIdx := off }, .addSingle data)

/-- mirrors `EncoderState::finalize`. -/
def EncSt.finalize (e : EncSt) : Nat × Byte := (e.codeIdx, UInt8.ofNat e.numBtSent)

/-! ## ser/flavors.rs — `Cobs<B>` -/

/-- mirrors `<Cobs<B> as Flavor>::try_push`; `self.flav[idx] = mval` is
`F.setAt`, whose `none` is the `IndexMut` panic. -/
def Cobs.push {σ ω} (F : Flavor σ ω) (st : σ × EncSt) (data : Byte) : (σ × EncSt) × Option Err :=
  match st.2.push data with
  | (e', .addSingle n) =>
    match F.tryPush st.1 n with
    | (s', r) => ((s', e'), r)
  | (e', .modifyFromStartAndSkip idx mval) =>
    match F.setAt st.1 idx mval with
    | none => ((st.1, e'), some .panic)
    | some s1 =>
      match F.tryPush s1 0 with
      | (s2, r) => ((s2, e'), r)
  | (e', .modifyFromStartAndPushAndSkip idx mval nval) =>
    match F.setAt st.1 idx mval with
    | none => ((st.1, e'), some .panic)
    | some s1 =>
      match F.tryPush s1 nval with
      | (s2, some err) => ((s2, e'), some err)          -- `?`
      | (s2, none) =>
        match F.tryPush s2 0 with
        | (s3, r) => ((s3, e'), r)

/-- mirrors `<Cobs<B> as Flavor>::finalize`. -/
def Cobs.fin {σ ω} (F : Flavor σ ω) (st : σ × EncSt) : (σ × EncSt) × R ω :=
  match st.2.finalize with
  | (idx, mval) =>
    match F.setAt st.1 idx mval with
    | none => (st, .error .panic)
    | some s1 =>
      match F.tryPush s1 0 with
      | (s2, some err) => ((s2, st.2), .error err)      -- `?`
      | (s2, none) =>
        match F.finalize s2 with
        | (s3, r) => ((s3, st.2), r)

/-- mirrors `impl<B> Flavor for Cobs<B>`.  `try_extend` is NOT overridden, so
the trait default applies.  `Cobs<B>` has no `IndexMut`. -/
def Cobs {σ ω} (F : Flavor σ ω) : Flavor (σ × EncSt) ω where
  tryPush := Cobs.push F
  tryExtend := defaultExtend (Cobs.push F)
  finalize := Cobs.fin F
  setAt _ _ _ := none

/-- mirrors `Cobs::try_new`: push the placeholder for the first code byte.
Returns the flavour state and `none` for `Ok`. -/
def Cobs.tryNew {σ ω} (F : Flavor σ ω) (s : σ) : (σ × EncSt) × Option Err :=
  match F.tryPush s 0 with
  | (s', none) => ((s', EncSt.default), none)
  | (s', some .panic) => ((s', EncSt.default), some .panic)
  | (s', some _) => ((s', EncSt.default), some .bufferFull)   -- map_err(|_| SerializeBufferFull)

/-! ## dec.rs — `decode_raw!(buff, buff)` -/

/-- the inner `for _ in 1..code { dst[di] = src[si]; si += 1; di += 1 }`, `n`
iterations, on the single buffer.  Result: buffer and `(source_index, dest_index)`. -/
def copyLoop : Nat → List Byte → Nat → Nat → List Byte × R (Nat × Nat)
  | 0, buf, si, di => (buf, .ok (si, di))
  | n + 1, buf, si, di =>
    match buf[si]? with
    | none => (buf, .error .panic)                       -- `$src[source_index]` out of range
    | some b =>
      if di < buf.length then copyLoop n (buf.set di b) (si + 1) (di + 1)
      else (buf, .error .panic)                          -- `$dst[dest_index]` out of range

/-- the `while source_index < src_end` loop.  Result: buffer and
`(dst_used, src_used)`.  Running out of `fuel` is reported as `.panic` (it is
proved unreachable: each iteration consumes at least one source byte). -/
def decodeLoop (srcEnd : Nat) : Nat → List Byte → Nat → Nat → List Byte × R (Nat × Nat)
  | 0, buf, _, _ => (buf, .error .panic)
  | fuel + 1, buf, si, di =>
    if si < srcEnd then
      match buf[si]? with
      | none => (buf, .error .panic)                     -- `$src[source_index]`
      | some code =>
        if si + code.toNat > srcEnd ∧ code ≠ 1 then (buf, .error .badEncoding)   -- `return Err(())`
        else
          match copyLoop (code.toNat - 1) buf (si + 1) di with   -- `for _ in 1..code`
          | (buf1, .error e) => (buf1, .error e)
          | (buf1, .ok (si1, di1)) =>
            if 0xFF ≠ code ∧ si1 < srcEnd then
              if di1 < buf1.length then decodeLoop srcEnd fuel (buf1.set di1 0) si1 (di1 + 1)
              else (buf1, .error .panic)                 -- `$dst[dest_index] = 0`
            else decodeLoop srcEnd fuel buf1 si1 di1
    else (buf, .ok (di, si))

/-- `decode_raw!(buff, buff)` keeping the buffer also on failure (the caller's
buffer is mutated in place whatever the outcome).  `src_end` is
`position(|b| *b == 0)` or `len` — exactly `List.findIdx`. -/
def decodeRawSt (buf : List Byte) : List Byte × R (Nat × Nat) :=
  decodeLoop (buf.findIdx (· == 0)) (buf.length + 1) buf 0 0

/-- `decode_in_place_report`: the buffer after decoding, `dst_used`, `src_used`. -/
def decodeRaw (buf : List Byte) : R (List Byte × Nat × Nat) :=
  match decodeRawSt buf with
  | (buf', .ok (dstUsed, srcUsed)) => .ok (buf', dstUsed, srcUsed)
  | (_, .error e) => .error e

/-! ## de/mod.rs -/

/-- mirrors `from_bytes_cobs`; `decF` stands for `from_bytes::<T>`.  Second
component: contents of the caller's buffer after the call. -/
def fromBytesCobs {α} (decF : List Byte → R α) (buf : List Byte) : R α × List Byte :=
  match decodeRawSt buf with
  | (buf1, .error .panic) => (.error .panic, buf1)
  | (buf1, .error _) => (.error .badEncoding, buf1)      -- map_err(|_| DeserializeBadEncoding)
  | (buf1, .ok (sz, _)) =>
    if sz ≤ buf1.length then (decF (buf1.take sz), buf1)
    else (.error .panic, buf1)                           -- `&s[..sz]` out of range

/-- mirrors `take_from_bytes_cobs`. -/
def takeFromBytesCobs {α} (decF : List Byte → R α) (buf : List Byte) :
    R (α × List Byte) × List Byte :=
  match decodeRawSt buf with
  | (buf1, .error .panic) => (.error .panic, buf1)
  | (buf1, .error _) => (.error .badEncoding, buf1)
  | (buf1, .ok (dstUsed, srcUsed0)) =>
    -- if s.get(report.src_used) == Some(&0) { report.src_used += 1 }
    let srcUsed := if buf1[srcUsed0]? = some 0 then srcUsed0 + 1 else srcUsed0
    -- s.split_at_mut(report.dst_used)
    if buf1.length < dstUsed then (.error .panic, buf1)
    else
      let dstPart := buf1.take dstUsed
      let dstUnused := buf1.drop dstUsed
      -- report.src_used - report.dst_used  (underflow: panic in debug; in release it wraps
      -- to a value > len and the following split_at_mut panics)
      if srcUsed < dstUsed then (.error .panic, buf1)
      -- dst_unused.split_at_mut(..)
      else if dstUnused.length < srcUsed - dstUsed then (.error .panic, buf1)
      else
        let srcUnused := dstUnused.drop (srcUsed - dstUsed)
        match decF dstPart with
        | .error e => (.error e, buf1)
        | .ok t => (.ok (t, srcUnused), buf1)

end Postcard
