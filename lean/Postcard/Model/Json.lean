import Postcard.Model.Basic
import Postcard.Model.Utf8
/-
  Postcard.Model.Json — model of the parts of `serde_json` (1.0.140, default
  features: no `preserve_order`, no `arbitrary_precision`) that postcard-dyn
  calls.  EXTERNAL, MODELLED (not verified): `serde_json::Value`,
  `serde_json::Number` (`N::PosInt(u64) | N::NegInt(i64) | N::Float(f64)`),
  `serde_json::Map` (= `BTreeMap<String, Value>`: keys unique, iteration in
  ascending byte order of the keys).

  Floats are carried as their IEEE-754 bit patterns; the conversions between
  number kinds are a parameter (`FloatOps`) so that the model stays
  kernel-reducible; the driver instantiates it with Lean's `Float`/`Float32`.
  Core Lean only.
-/
namespace Postcard

/-- mirrors `serde_json::Value` with `Number` inlined:
`posInt` = `N::PosInt`, `negInt` = `N::NegInt` (always negative), `float` =
`N::Float` (always finite; bits of the f64).  `obj` is an association list in
iteration order of the `BTreeMap`. -/
inductive Json
  | null
  | bool (b : Bool)
  | posInt (n : Nat)
  | negInt (x : Int)
  | float (bits : Nat)
  | str (s : List Byte)
  | arr (xs : List Json)
  | obj (kvs : List (List Byte × Json))
  deriving Repr, Inhabited

/-- The float conversions postcard-dyn and serde_json perform (`as f32`,
`f32 → f64` (`.into()` / `as f64`), `u64 as f64`, `i64 as f64`, `is_finite`),
on bit patterns. -/
structure FloatOps where
  f64ToF32 : Nat → Nat
  f32ToF64 : Nat → Nat
  u64ToF64 : Nat → Nat
  i64ToF64 : Int → Nat
  isFinite64 : Nat → Bool
  isFinite32 : Nat → Bool

/-- `String`'s `Ord`: lexicographic on bytes. -/
def bytesLt : List Byte → List Byte → Bool
  | [], [] => false
  | [], _ :: _ => true
  | _ :: _, [] => false
  | a :: as, b :: bs => if a.toNat < b.toNat then true else if a.toNat = b.toNat then bytesLt as bs else false

/-- every key in the list is greater than `k`. -/
def allKeysGt (k : List Byte) : List (List Byte × Json) → Bool
  | [] => true
  | (k', _) :: rest => bytesLt k k' && allKeysGt k rest

/-- keys strictly ascending (what iterating a `BTreeMap<String, _>` yields),
stated pairwise: each key is below every later key. -/
def keysPairwiseLt : List (List Byte × Json) → Bool
  | [] => true
  | (k, _) :: rest => allKeysGt k rest && keysPairwiseLt rest

mutual
/-- what a `serde_json::Value` can be (64-bit target: `String`/`Vec`/`Map` lengths fit a usize). -/
def Json.wf (fo : FloatOps) : Json → Bool
  | .null => true
  | .bool _ => true
  | .posInt n => decide (n < 2 ^ 64)
  | .negInt x => decide (-(2 ^ 63 : Int) ≤ x) && decide (x < 0)
  | .float b => decide (b < 2 ^ 64) && fo.isFinite64 b
  | .str s => utf8Valid s && decide (s.length < 2 ^ 64)
  | .arr xs => decide (xs.length < 2 ^ 64) && Json.wfList fo xs
  | .obj kvs => decide (kvs.length < 2 ^ 64) && keysPairwiseLt kvs && Json.wfKvs fo kvs
def Json.wfList (fo : FloatOps) : List Json → Bool
  | [] => true
  | x :: xs => Json.wf fo x && Json.wfList fo xs
def Json.wfKvs (fo : FloatOps) : List (List Byte × Json) → Bool
  | [] => true
  | (k, v) :: rest => utf8Valid k && decide (k.length < 2 ^ 64) && Json.wf fo v && Json.wfKvs fo rest
end

/-! ### accessors (serde_json/src/value/mod.rs, number.rs) -/

/-- mirrors `Value::is_null`. -/
def Json.isNull : Json → Bool
  | .null => true
  | _ => false

/-- mirrors `Value::as_bool`. -/
def Json.asBool : Json → Option Bool
  | .bool b => some b
  | _ => none

/-- mirrors `Value::as_u64` → `Number::as_u64`: `PosInt` only. -/
def Json.asU64 : Json → Option Nat
  | .posInt n => some n
  | _ => none

/-- mirrors `Value::as_i64` → `Number::as_i64`: `PosInt(n)` if `n ≤ i64::MAX`, or `NegInt`. -/
def Json.asI64 : Json → Option Int
  | .posInt n => if n ≤ 2 ^ 63 - 1 then some (n : Int) else none
  | .negInt x => some x
  | _ => none

/-- mirrors `Value::as_f64` → `Number::as_f64`: any number, converted (`n as f64`). -/
def Json.asF64 (fo : FloatOps) : Json → Option Nat
  | .posInt n => some (fo.u64ToF64 n)
  | .negInt x => some (fo.i64ToF64 x)
  | .float b => some b
  | _ => none

/-- mirrors `Value::as_str`. -/
def Json.asStr : Json → Option (List Byte)
  | .str s => some s
  | _ => none

/-- mirrors `Value::as_array`. -/
def Json.asArray : Json → Option (List Json)
  | .arr xs => some xs
  | _ => none

/-- mirrors `Value::as_object`. -/
def Json.asObject : Json → Option (List (List Byte × Json))
  | .obj kvs => some kvs
  | _ => none

/-! ### constructors -/

/-- mirrors `Number::from(iN)` (`impl_from_signed!`): `if i < 0 {NegInt(i)} else {PosInt(i as u64)}`. -/
def Json.ofI64 (x : Int) : Json := if x < 0 then .negInt x else .posInt x.toNat

/-- mirrors `Number::from_f64(f)`: `None` unless finite. -/
def Json.numFromF64 (fo : FloatOps) (b : Nat) : Option Json :=
  if fo.isFinite64 b then some (.float b) else none

/-- mirrors `Value::from(f64)`: `Number::from_f64(f).map_or(Value::Null, Value::Number)`. -/
def Json.ofF64 (fo : FloatOps) (b : Nat) : Json :=
  match Json.numFromF64 fo b with
  | some j => j
  | none => .null

/-- mirrors `Value::from(f32)`: `Number::from_f32(f)` = `if f.is_finite() {Float(f as f64)}`, else `Null`. -/
def Json.ofF32 (fo : FloatOps) (b : Nat) : Json :=
  if fo.isFinite32 b then .float (fo.f32ToF64 b) else .null

/-! ### `Map` = `BTreeMap<String, Value>` -/

/-- mirrors `Map::get(key)`.  Linear first-match lookup; coincides with the
B-tree lookup on lists with strictly ascending keys (`Json.wf`). -/
def objGet (key : List Byte) : List (List Byte × Json) → Option Json
  | [] => none
  | (k, v) :: rest => if k = key then some v else objGet key rest

/-- mirrors `Map::insert(k, v)`: replace the value of an existing key, else
insert at the sorted position. -/
def objInsert (key : List Byte) (val : Json) : List (List Byte × Json) → List (List Byte × Json)
  | [] => [(key, val)]
  | (k, v) :: rest =>
    if k = key then (key, val) :: rest
    else if bytesLt key k then (key, val) :: (k, v) :: rest
    else (k, v) :: objInsert key val rest

/-- `for (k, v) in pairs { map.insert(k, v) }`. -/
def objInsertAll (acc : List (List Byte × Json)) : List (List Byte × Json) → List (List Byte × Json)
  | [] => acc
  | (k, v) :: rest => objInsertAll (objInsert k v acc) rest

/-- mirrors `value.get(key)` on an object (`None` on non-objects). -/
def Json.get (key : List Byte) : Json → Option Json
  | .obj kvs => objGet key kvs
  | _ => none

end Postcard
