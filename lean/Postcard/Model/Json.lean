import Postcard.Model.Basic
import Postcard.Model.Utf8
import Postcard.Model.Schema
import Postcard.Model.SchemaSer
import Postcard.Model.CallTree
/-
  Postcard.Model.Json — model of the parts of `serde_json` (1.0.140, default
  features: no `preserve_order`, no `arbitrary_precision`) that postcard-dyn
  calls.  EXTERNAL, MODELLED (not verified): `serde_json::Value`,
  `serde_json::Number` (`N::PosInt(u64) | N::NegInt(i64) | N::Float(f64)`),
  `serde_json::Map` (= `BTreeMap<String, Value>`: keys unique, iteration in
  ascending byte order of the keys).

  Floats are carried as their IEEE-754 bit patterns; the conversions between
  number kinds are a parameter (`FloatOps`) so that the model stays
  kernel-reducible; the driver instantiates it with Lean's `Float`/`Float32`.

  Last section: `OwnedDataModelType` ⇄ `serde_json::Value` (`jsonOfSchema` =
  `serde_json::to_value(&schema)`, `schemaOfJson` = `serde_json::from_value`),
  i.e. what serde_json does with serde-derive's externally tagged enums; used
  by the `Schema` kind of postcard-dyn.
  Core Lean only.
-/
namespace Postcard

/-- mirrors `serde_json::Value` with `Number` inlined:
`posInt` = `N::PosInt`, `negInt` = `N::NegInt` (always negative), `float` =
`N::Float` (always finite; bits of the f64).  `obj` is an association list in
iteration order of the `BTreeMap`. -/
inductive Json
  | null
  | bool (b : Bool)
  | posInt (n : Nat)
  | negInt (x : Int)
  | float (bits : Nat)
  | str (s : List Byte)
  | arr (xs : List Json)
  | obj (kvs : List (List Byte × Json))
  deriving Repr, Inhabited

/-- The float conversions postcard-dyn and serde_json perform (`as f32`,
`f32 → f64` (`.into()` / `as f64`), `u64 as f64`, `i64 as f64`, `is_finite`),
on bit patterns. -/
structure FloatOps where
  f64ToF32 : Nat → Nat
  f32ToF64 : Nat → Nat
  u64ToF64 : Nat → Nat
  i64ToF64 : Int → Nat
  isFinite64 : Nat → Bool
  isFinite32 : Nat → Bool

/-- `String`'s `Ord`: lexicographic on bytes. -/
def bytesLt : List Byte → List Byte → Bool
  | [], [] => false
  | [], _ :: _ => true
  | _ :: _, [] => false
  | a :: as, b :: bs => if a.toNat < b.toNat then true else if a.toNat = b.toNat then bytesLt as bs else false

/-- every key in the list is greater than `k`. -/
def allKeysGt (k : List Byte) : List (List Byte × Json) → Bool
  | [] => true
  | (k', _) :: rest => bytesLt k k' && allKeysGt k rest

/-- keys strictly ascending (what iterating a `BTreeMap<String, _>` yields),
stated pairwise: each key is below every later key. -/
def keysPairwiseLt : List (List Byte × Json) → Bool
  | [] => true
  | (k, _) :: rest => allKeysGt k rest && keysPairwiseLt rest

mutual
/-- what a `serde_json::Value` can be (64-bit target: `String`/`Vec`/`Map` lengths fit a usize). -/
def Json.wf (fo : FloatOps) : Json → Bool
  | .null => true
  | .bool _ => true
  | .posInt n => decide (n < 2 ^ 64)
  | .negInt x => decide (-(2 ^ 63 : Int) ≤ x) && decide (x < 0)
  | .float b => decide (b < 2 ^ 64) && fo.isFinite64 b
  | .str s => utf8Valid s && decide (s.length < 2 ^ 64)
  | .arr xs => decide (xs.length < 2 ^ 64) && Json.wfList fo xs
  | .obj kvs => decide (kvs.length < 2 ^ 64) && keysPairwiseLt kvs && Json.wfKvs fo kvs
def Json.wfList (fo : FloatOps) : List Json → Bool
  | [] => true
  | x :: xs => Json.wf fo x && Json.wfList fo xs
def Json.wfKvs (fo : FloatOps) : List (List Byte × Json) → Bool
  | [] => true
  | (k, v) :: rest => utf8Valid k && decide (k.length < 2 ^ 64) && Json.wf fo v && Json.wfKvs fo rest
end

/-! ### accessors (serde_json/src/value/mod.rs, number.rs) -/

/-- mirrors `Value::is_null`. -/
def Json.isNull : Json → Bool
  | .null => true
  | _ => false

/-- mirrors `Value::as_bool`. -/
def Json.asBool : Json → Option Bool
  | .bool b => some b
  | _ => none

/-- mirrors `Value::as_u64` → `Number::as_u64`: `PosInt` only. -/
def Json.asU64 : Json → Option Nat
  | .posInt n => some n
  | _ => none

/-- mirrors `Value::as_i64` → `Number::as_i64`: `PosInt(n)` if `n ≤ i64::MAX`, or `NegInt`. -/
def Json.asI64 : Json → Option Int
  | .posInt n => if n ≤ 2 ^ 63 - 1 then some (n : Int) else none
  | .negInt x => some x
  | _ => none

/-- mirrors `Value::as_f64` → `Number::as_f64`: any number, converted (`n as f64`). -/
def Json.asF64 (fo : FloatOps) : Json → Option Nat
  | .posInt n => some (fo.u64ToF64 n)
  | .negInt x => some (fo.i64ToF64 x)
  | .float b => some b
  | _ => none

/-- mirrors `Value::as_str`. -/
def Json.asStr : Json → Option (List Byte)
  | .str s => some s
  | _ => none

/-- mirrors `Value::as_array`. -/
def Json.asArray : Json → Option (List Json)
  | .arr xs => some xs
  | _ => none

/-- mirrors `Value::as_object`. -/
def Json.asObject : Json → Option (List (List Byte × Json))
  | .obj kvs => some kvs
  | _ => none

/-! ### constructors -/

/-- mirrors `Number::from(iN)` (`impl_from_signed!`): `if i < 0 {NegInt(i)} else {PosInt(i as u64)}`. -/
def Json.ofI64 (x : Int) : Json := if x < 0 then .negInt x else .posInt x.toNat

/-- mirrors `Number::from_f64(f)`: `None` unless finite. -/
def Json.numFromF64 (fo : FloatOps) (b : Nat) : Option Json :=
  if fo.isFinite64 b then some (.float b) else none

/-- mirrors `Value::from(f64)`: `Number::from_f64(f).map_or(Value::Null, Value::Number)`. -/
def Json.ofF64 (fo : FloatOps) (b : Nat) : Json :=
  match Json.numFromF64 fo b with
  | some j => j
  | none => .null

/-- mirrors `Value::from(f32)`: `Number::from_f32(f)` = `if f.is_finite() {Float(f as f64)}`, else `Null`. -/
def Json.ofF32 (fo : FloatOps) (b : Nat) : Json :=
  if fo.isFinite32 b then .float (fo.f32ToF64 b) else .null

/-! ### `Map` = `BTreeMap<String, Value>` -/

/-- mirrors `Map::get(key)`.  Linear first-match lookup; coincides with the
B-tree lookup on lists with strictly ascending keys (`Json.wf`). -/
def objGet (key : List Byte) : List (List Byte × Json) → Option Json
  | [] => none
  | (k, v) :: rest => if k = key then some v else objGet key rest

/-- mirrors `Map::insert(k, v)`: replace the value of an existing key, else
insert at the sorted position. -/
def objInsert (key : List Byte) (val : Json) : List (List Byte × Json) → List (List Byte × Json)
  | [] => [(key, val)]
  | (k, v) :: rest =>
    if k = key then (key, val) :: rest
    else if bytesLt key k then (key, val) :: (k, v) :: rest
    else (k, v) :: objInsert key val rest

/-- `for (k, v) in pairs { map.insert(k, v) }`. -/
def objInsertAll (acc : List (List Byte × Json)) : List (List Byte × Json) → List (List Byte × Json)
  | [] => acc
  | (k, v) :: rest => objInsertAll (objInsert k v acc) rest

/-- mirrors `value.get(key)` on an object (`None` on non-objects). -/
def Json.get (key : List Byte) : Json → Option Json
  | .obj kvs => objGet key kvs
  | _ => none

/-! ### `str::chars()` -/

/-- mirrors `s.chars().count() == 1` (ser.rs) and
`matches!((chars.next(), chars.next()), (Some(_), None))` (de.rs) on a VALID
UTF-8 string: the first scalar exhausts the string. -/
def oneScalar (s : List Byte) : Bool :=
  match utf8Next s with
  | some (_, []) => true
  | _ => false

/-! ### `OwnedDataModelType` ⇄ `serde_json::Value`

serde-derive, externally tagged (the default): a unit variant is the string of
its identifier, a newtype variant `{identifier: inner}`, a struct variant
`{identifier: {field: value, …}}`; a struct is an object; `Box<T>` is
transparent, `Box<str>` a string, `Box<[T]>` an array.  Object entries are in
ascending key order (`BTreeMap`).  The identifiers are `kindName` /
`dataKindName` (Model/CallTree.lean), the same the call tree `ctSchema` carries. -/

/-- all kinds, in declaration order. -/
def allKinds : List SchemaKind :=
  [.bool, .i8, .u8, .i16, .i32, .i64, .i128, .u16, .u32, .u64, .u128, .usize, .isize, .f32, .f64,
   .char, .string, .byteArray, .option, .unit, .seq, .tuple, .map, .struct, .enum, .schema]

def allDataKinds : List DataKind := [.unit, .newtype, .tuple, .struct]

/-- mirrors serde-derive's `__FieldVisitor::visit_str` for `OwnedDataModelType`:
`match v { "Bool" => __field0, …, _ => Err(unknown_variant) }`. -/
def kindOfName (n : Name) : Option SchemaKind := allKinds.find? fun k => kindName k = n

/-- the same for `OwnedData`. -/
def dataKindOfName (n : Name) : Option DataKind := allDataKinds.find? fun k => dataKindName k = n

/-- the unit variants of `OwnedDataModelType`. -/
def schemaOfUnitKind : SchemaKind → Option Schema
  | .bool => some .bool | .i8 => some .i8 | .u8 => some .u8 | .i16 => some .i16
  | .i32 => some .i32 | .i64 => some .i64 | .i128 => some .i128 | .u16 => some .u16
  | .u32 => some .u32 | .u64 => some .u64 | .u128 => some .u128 | .usize => some .usize
  | .isize => some .isize | .f32 => some .f32 | .f64 => some .f64 | .char => some .char
  | .string => some .string | .byteArray => some .byteArray | .unit => some .unit
  | .schema => some .schema
  | .option => none | .seq => none | .tuple => none | .map => none | .struct => none | .enum => none

mutual
/-- mirrors `serde_json::to_value(&schema)` for `schema : OwnedDataModelType`
(never fails: no map with non-string keys, no 128-bit integers). -/
def jsonOfSchema : Schema → Json
  | .option t => .obj [(kindName .option, jsonOfSchema t)]
  | .seq t => .obj [(kindName .seq, jsonOfSchema t)]
  | .tuple ts => .obj [(kindName .tuple, .arr (jsonOfSchemaList ts))]
  | .map k v =>
    .obj [(kindName .map, .obj [(ascii "key", jsonOfSchema k), (ascii "val", jsonOfSchema v)])]
  | .struct n d =>
    .obj [(kindName .struct, .obj [(ascii "data", jsonOfData d), (ascii "name", .str n)])]
  | .enum n vs =>
    .obj [(kindName .enum, .obj [(ascii "name", .str n), (ascii "variants", .arr (jsonOfVariants vs))])]
  | .bool => .str (kindName .bool)
  | .i8 => .str (kindName .i8)
  | .u8 => .str (kindName .u8)
  | .i16 => .str (kindName .i16)
  | .i32 => .str (kindName .i32)
  | .i64 => .str (kindName .i64)
  | .i128 => .str (kindName .i128)
  | .u16 => .str (kindName .u16)
  | .u32 => .str (kindName .u32)
  | .u64 => .str (kindName .u64)
  | .u128 => .str (kindName .u128)
  | .usize => .str (kindName .usize)
  | .isize => .str (kindName .isize)
  | .f32 => .str (kindName .f32)
  | .f64 => .str (kindName .f64)
  | .char => .str (kindName .char)
  | .string => .str (kindName .string)
  | .byteArray => .str (kindName .byteArray)
  | .unit => .str (kindName .unit)
  | .schema => .str (kindName .schema)
def jsonOfSchemaList : List Schema → List Json
  | [] => []
  | t :: ts => jsonOfSchema t :: jsonOfSchemaList ts
/-- `OwnedData`. -/
def jsonOfData : SData → Json
  | .unit => .str (dataKindName .unit)
  | .newtype t => .obj [(dataKindName .newtype, jsonOfSchema t)]
  | .tuple ts => .obj [(dataKindName .tuple, .arr (jsonOfSchemaList ts))]
  | .struct fs => .obj [(dataKindName .struct, .arr (jsonOfFields fs))]
/-- elements: `OwnedNamedField { name, ty }`. -/
def jsonOfFields : List SField → List Json
  | [] => []
  | .mk n t :: fs => .obj [(ascii "name", .str n), (ascii "ty", jsonOfSchema t)] :: jsonOfFields fs
/-- elements: `OwnedVariant { name, data }` (keys ascending: `data` < `name`). -/
def jsonOfVariants : List SVariant → List Json
  | [] => []
  | .mk n d :: vs => .obj [(ascii "data", jsonOfData d), (ascii "name", .str n)] :: jsonOfVariants vs
end

/-- `Box<str>` field of a derived struct read from an object: `obj[key]` must be
present (`missing_field` otherwise) and a `Value::String`. -/
def nameGet (key : Name) (kvs : List (List Byte × Json)) : Option Name :=
  match objGet key kvs with
  | some (.str s) => some s
  | _ => none

mutual
/-- mirrors `serde_json::from_value::<OwnedDataModelType>(value)` (`none` = any `Err`).
`Value::deserialize_enum`: a string is a variant without payload, an object
with exactly one entry is `variant: payload`, anything else is an error.
`VariantDeserializer`: `unit_variant` accepts no payload or a `null` payload;
`newtype_variant` requires a payload; `struct_variant` requires an OBJECT
payload (serde-derive's `visit_map`: unknown keys ignored, missing fields an
error; duplicates cannot occur in a `BTreeMap`). -/
def schemaOfJson : Json → Option Schema
  | .str s =>
    match kindOfName s with
    | none => none                                   -- unknown_variant
    | some k => schemaOfUnitKind k                         -- payload-carrying variants: invalid_type(UnitVariant)
  | .obj [(k, v)] =>
    match kindOfName k with
    | none => none
    | some .option =>                                -- Option(Box<Self>)
      match schemaOfJson v with
      | some t => some (.option t)
      | none => none
    | some .seq =>                                   -- Seq(Box<Self>)
      match schemaOfJson v with
      | some t => some (.seq t)
      | none => none
    | some .tuple =>                                 -- Tuple(Box<[Self]>): `Vec<T>` needs an array
      match v with
      | .arr xs =>
        match schemaOfJsonList xs with
        | some ts => some (.tuple ts)
        | none => none
      | _ => none
    | some .map =>                                   -- Map { key, val }
      match v with
      | .obj kvs =>
        match schemaGet (ascii "key") kvs, schemaGet (ascii "val") kvs with
        | some a, some b => some (.map a b)
        | _, _ => none
      | _ => none
    | some .struct =>                                -- Struct { name, data }
      match v with
      | .obj kvs =>
        match nameGet (ascii "name") kvs, dataGet (ascii "data") kvs with
        | some n, some d => some (.struct n d)
        | _, _ => none
      | _ => none
    | some .enum =>                                  -- Enum { name, variants }
      match v with
      | .obj kvs =>
        match nameGet (ascii "name") kvs, variantsGet (ascii "variants") kvs with
        | some n, some vs => some (.enum n vs)
        | _, _ => none
      | _ => none
    | some kd =>                                     -- unit variant with a payload: `<()>::deserialize(payload)`
      match v with
      | .null => schemaOfUnitKind kd
      | _ => none
  | _ => none                                        -- invalid_type / "map with a single key"
/-- `Vec<OwnedDataModelType>` from the elements of an array. -/
def schemaOfJsonList : List Json → Option (List Schema)
  | [] => some []
  | x :: xs =>
    match schemaOfJson x, schemaOfJsonList xs with
    | some t, some ts => some (t :: ts)
    | _, _ => none
/-- field `key : OwnedDataModelType` of a struct (variant) read from an object. -/
def schemaGet (key : Name) : List (List Byte × Json) → Option Schema
  | [] => none                                       -- missing_field
  | (k, v) :: rest => if k = key then schemaOfJson v else schemaGet key rest
/-- `serde_json::from_value::<OwnedData>`. -/
def dataOfJson : Json → Option SData
  | .str s =>
    match dataKindOfName s with
    | some .unit => some .unit
    | _ => none
  | .obj [(k, v)] =>
    match dataKindOfName k with
    | none => none
    | some .unit =>
      match v with
      | .null => some .unit
      | _ => none
    | some .newtype =>
      match schemaOfJson v with
      | some t => some (.newtype t)
      | none => none
    | some .tuple =>
      match v with
      | .arr xs =>
        match schemaOfJsonList xs with
        | some ts => some (.tuple ts)
        | none => none
      | _ => none
    | some .struct =>
      match v with
      | .arr xs =>
        match fieldsOfJsonList xs with
        | some fs => some (.struct fs)
        | none => none
      | _ => none
  | _ => none
def dataGet (key : Name) : List (List Byte × Json) → Option SData
  | [] => none
  | (k, v) :: rest => if k = key then dataOfJson v else dataGet key rest
/-- `OwnedNamedField` (`Value::deserialize_struct`): an object, or an array of
exactly the two fields in declaration order (`visit_seq`). -/
def fieldOfJson : Json → Option SField
  | .arr [.str n, t] =>
    match schemaOfJson t with
    | some ty => some (.mk n ty)
    | none => none
  | .obj kvs =>
    match nameGet (ascii "name") kvs, schemaGet (ascii "ty") kvs with
    | some n, some ty => some (.mk n ty)
    | _, _ => none
  | _ => none
def fieldsOfJsonList : List Json → Option (List SField)
  | [] => some []
  | x :: xs =>
    match fieldOfJson x, fieldsOfJsonList xs with
    | some f, some fs => some (f :: fs)
    | _, _ => none
/-- `OwnedVariant`: an object, or the array `[name, data]`. -/
def variantOfJson : Json → Option SVariant
  | .arr [.str n, d] =>
    match dataOfJson d with
    | some data => some (.mk n data)
    | none => none
  | .obj kvs =>
    match nameGet (ascii "name") kvs, dataGet (ascii "data") kvs with
    | some n, some data => some (.mk n data)
    | _, _ => none
  | _ => none
def variantsOfJsonList : List Json → Option (List SVariant)
  | [] => some []
  | x :: xs =>
    match variantOfJson x, variantsOfJsonList xs with
    | some v, some vs => some (v :: vs)
    | _, _ => none
/-- field `key : Box<[OwnedVariant]>` of `Enum { .. }` read from an object. -/
def variantsGet (key : Name) : List (List Byte × Json) → Option (List SVariant)
  | [] => none
  | (k, v) :: rest =>
    if k = key then
      match v with
      | .arr xs => variantsOfJsonList xs
      | _ => none
    else variantsGet key rest
end

mutual
/-- heap cost of a `Value` as `allocDyn` (Model/Dyn.lean) counts: 1 per node,
the bytes of every `String`, 1 per map entry (plus its key bytes). -/
def Json.cost : Json → Nat
  | .str s => 1 + s.length
  | .arr xs => 1 + Json.costList xs
  | .obj kvs => 1 + Json.costKvs kvs
  | _ => 1
def Json.costList : List Json → Nat
  | [] => 0
  | x :: xs => x.cost + Json.costList xs
def Json.costKvs : List (List Byte × Json) → Nat
  | [] => 0
  | (k, v) :: rest => k.length + 1 + v.cost + Json.costKvs rest
end

end Postcard
