import Postcard.Model.Dyn
/-!
# Cost-bound definitions for the dynamic decoder (C18)

`minWidth s`     — a lower bound on the bytes any successful `dynDe _ s` consumes;
`minWidthPos s`  — every reachable `Seq` element type has positive `minWidth`;
`allocW' s`      — the constant of the bound `allocDyn fo s bs ≤ allocW' s * (bs.length + 1)`
                   (theorem `dyn_alloc_bound`, Props/C18Alloc.lean).
The driver prints them with every `dynde` answer so the check can compare the real
allocation with the model's count and the proved bound.
-/
namespace Postcard

mutual
/-- a lower bound on the number of bytes any successful decode under the schema consumes. -/
def minWidth : Schema → Nat
  | .unit => 0
  | .f32 => 4
  | .f64 => 8
  | .tuple ts => minWidthList ts
  | .struct _ d => minWidthData d
  | _ => 1
def minWidthList : List Schema → Nat
  | [] => 0
  | t :: ts => minWidth t + minWidthList ts
def minWidthData : SData → Nat
  | .unit => 0
  | .newtype t => minWidth t
  | .tuple ts => minWidthList ts
  | .struct fs => minWidthFields fs
def minWidthFields : List SField → Nat
  | [] => 0
  | .mk _ t :: fs => minWidth t + minWidthFields fs
end

mutual
/-- every `Seq` element type that the decoder can reach has `0 < minWidth`.  A `Map` whose key
schema is not `String` is rejected before anything is decoded, so its value type is unconstrained;
the key schema itself is never decoded. -/
def minWidthPos : Schema → Bool
  | .option t => minWidthPos t
  | .seq t => decide (0 < minWidth t) && minWidthPos t
  | .tuple ts => minWidthPosList ts
  | .map .string v => minWidthPos v
  | .struct _ d => minWidthPosData d
  | .enum _ vs => minWidthPosVariants vs
  | _ => true
def minWidthPosList : List Schema → Bool
  | [] => true
  | t :: ts => minWidthPos t && minWidthPosList ts
def minWidthPosData : SData → Bool
  | .unit => true
  | .newtype t => minWidthPos t
  | .tuple ts => minWidthPosList ts
  | .struct fs => minWidthPosFields fs
def minWidthPosFields : List SField → Bool
  | [] => true
  | .mk _ t :: fs => minWidthPos t && minWidthPosFields fs
def minWidthPosVariants : List SVariant → Bool
  | [] => true
  | .mk _ d :: vs => minWidthPosData d && minWidthPosVariants vs
end

mutual
/-- the constant of the bound `allocDyn fo s bs ≤ allocW' s * (bs.length + 1)`. -/
def allocW' : Schema → Nat
  | .option t => allocW' t
  | .seq t => 2 * allocW' t + 1
  | .tuple ts => allocW'List ts + 1
  | .map _ v => allocW' v + 2
  | .struct _ d => allocW'Data d
  | .enum _ vs => allocW'Variants vs + 1
  | .schema => 14
  | _ => 1
def allocW'List : List Schema → Nat
  | [] => 0
  | t :: ts => allocW' t + allocW'List ts
def allocW'Data : SData → Nat
  | .unit => 1
  | .newtype t => allocW' t
  | .tuple ts => allocW'List ts + 1
  | .struct fs => allocW'Fields fs + 1
def allocW'Fields : List SField → Nat
  | [] => 0
  | .mk n t :: fs => allocW' t + n.length + 1 + allocW'Fields fs
/-- the MAXIMUM over the variants of: name length + 2 + weight of the payload. -/
def allocW'Variants : List SVariant → Nat
  | [] => 0
  | .mk n d :: vs => max (n.length + 2 + allocW'Data d) (allocW'Variants vs)
end

end Postcard
