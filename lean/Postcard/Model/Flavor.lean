import Postcard.Model.Ser
/-
  Postcard.Model.Flavor — mirrors source/postcard/src/ser/flavors.rs (the
  `Flavor` trait, the storage flavours `Slice`, `HVec<B>`, `AllocVec`,
  `ExtendFlavor`, `Size`) and `serialize_with_flavor` from ser/mod.rs.

  A flavour is a state machine.  A Rust `&mut self` method returning
  `Result<()>` becomes `σ → … → σ × Option Err` (`none` = `Ok(())`): the state
  AFTER a failed call is kept, because what a failed call has already written
  to the caller's buffer is observable (property C05).  `IndexMut` (needed by
  the COBS modifier) is `setAt`, with `none` = the Rust panic (assert / slice
  index out of range).
-/
namespace Postcard

structure Flavor (σ ω : Type) where
  tryPush   : σ → Byte → σ × Option Err
  tryExtend : σ → List Byte → σ × Option Err
  finalize  : σ → σ × R ω
  setAt     : σ → Nat → Byte → Option σ

/-- mirrors the default method `Flavor::try_extend`:
`data.iter().try_for_each(|d| self.try_push(*d))` — stops at the first error. -/
def defaultExtend {σ : Type} (push : σ → Byte → σ × Option Err) : σ → List Byte → σ × Option Err
  | s, [] => (s, none)
  | s, b :: bs =>
    match push s b with
    | (s', none) => defaultExtend push s' bs
    | (s', some e) => (s', some e)

/-! ### Slice — a caller-provided `&mut [u8]`.  `mem` is the whole buffer
(`start = 0`, `end = mem.length`), `cursor` the write position. -/
structure SliceSt where
  mem : List Byte
  cursor : Nat
  deriving Repr

/-- overwrite `mem[at .. at+bs.length]` (mirrors `copy_nonoverlapping`). -/
def writeAt (mem : List Byte) (pos : Nat) (bs : List Byte) : List Byte :=
  mem.take pos ++ bs ++ mem.drop (pos + bs.length)

def Slice : Flavor SliceSt (List Byte) where
  tryPush s b :=            -- mirrors Slice::try_push
    if s.cursor = s.mem.length then (s, some .bufferFull)
    else ({ mem := s.mem.set s.cursor b, cursor := s.cursor + 1 }, none)
  tryExtend s bs :=         -- mirrors Slice::try_extend (all-or-nothing)
    let remain := s.mem.length - s.cursor
    if bs.length > remain then (s, some .bufferFull)
    else ({ mem := writeAt s.mem s.cursor bs, cursor := s.cursor + bs.length }, none)
  finalize s := (s, .ok (s.mem.take s.cursor))     -- from_raw_parts_mut(start, used)
  setAt s idx b :=          -- mirrors IndexMut: assert!(idx < len)
    if idx < s.mem.length then some { s with mem := s.mem.set idx b } else none

/-! ### HVec<B> — `heapless::Vec<u8, B>`; `push`/`extend_from_slice` fail
atomically when capacity would be exceeded; indexing panics beyond `len`. -/
structure HVecSt where
  cap : Nat
  vec : List Byte
  deriving Repr

def HVec : Flavor HVecSt (List Byte) where
  tryPush s b :=
    if s.vec.length < s.cap then ({ s with vec := s.vec ++ [b] }, none) else (s, some .bufferFull)
  tryExtend s bs :=
    if s.vec.length + bs.length > s.cap then (s, some .bufferFull)
    else ({ s with vec := s.vec ++ bs }, none)
  finalize s := (s, .ok s.vec)
  setAt s idx b := if idx < s.vec.length then some { s with vec := s.vec.set idx b } else none

/-! ### AllocVec / StdVec / ExtendFlavor<Vec<u8>> — growable, never fail. -/
def AllocVec : Flavor (List Byte) (List Byte) where
  tryPush s b := (s ++ [b], none)
  tryExtend s bs := (s ++ bs, none)
  finalize s := (s, .ok s)
  setAt s idx b := if idx < s.length then some (s.set idx b) else none

/-! ### Size — counts, writes nothing. -/
def SizeFl : Flavor Nat Nat where
  tryPush s _ := (s + 1, none)
  tryExtend s bs := (s + bs.length, none)
  finalize s := (s, .ok s)
  setAt _ _ _ := none

/-! ### The calls the serializer makes.  `emit v` is the exact sequence of
`try_push` / `try_extend` calls issued by `Serializer` for `v`
(ser/serializer.rs): `serialize_u8` pushes, varints / floats / payloads extend. -/
inductive Chunk
  | push (b : Byte)
  | extend (bs : List Byte)
  deriving Repr

def Chunk.bytes : Chunk → List Byte
  | .push b => [b]
  | .extend bs => bs

mutual
def emit : Val → List Chunk
  | .bool b => [.push (if b then 1 else 0)]
  | .u .w8 n => [.push (UInt8.ofNat n)]
  | .u w n => [.extend (encVarint w.bits n)]
  | .i .w8 x => [.push (UInt8.ofNat (toBits 8 x))]
  | .i w x => [.extend (encVarint w.bits (zigzag w.bits x))]
  | .f32 b => [.extend (leBytes 4 b)]
  | .f64 b => [.extend (leBytes 8 b)]
  | .char c => let s := utf8Encode c; [.extend (encVarint 64 s.length), .extend s]
  | .str s => [.extend (encVarint 64 s.length), .extend s]
  | .bytes b => [.extend (encVarint 64 b.length), .extend b]
  | .none => [.push 0]
  | .some v => .push 1 :: emit v
  | .unit => []
  | .unitStruct => []
  | .unitVariant idx => [.extend (encVarint 32 idx)]
  | .newtypeStruct v => emit v
  | .newtypeVariant idx v => .extend (encVarint 32 idx) :: emit v
  | .seq vs => .extend (encVarint 64 vs.length) :: emitList vs
  | .tuple vs => emitList vs
  | .tupleStruct vs => emitList vs
  | .tupleVariant idx vs => .extend (encVarint 32 idx) :: emitList vs
  | .map kvs => .extend (encVarint 64 (kvs.length / 2)) :: emitList kvs
  | .struct vs => emitList vs
  | .structVariant idx vs => .extend (encVarint 32 idx) :: emitList vs
def emitList : List Val → List Chunk
  | [] => []
  | v :: vs => emit v ++ emitList vs
end

/-- feed one call to a flavour -/
def Flavor.step {σ ω} (F : Flavor σ ω) (s : σ) : Chunk → σ × Option Err
  | .push b => F.tryPush s b
  | .extend bs => F.tryExtend s bs

/-- feed a call sequence; stops at the first failing call (the serializer
propagates the error with `?`). -/
def Flavor.feed {σ ω} (F : Flavor σ ω) : σ → List Chunk → σ × Option Err
  | s, [] => (s, none)
  | s, c :: cs =>
    match F.step s c with
    | (s', none) => F.feed s' cs
    | (s', some e) => (s', some e)

/-- mirrors `serialize_with_flavor`: run the serializer, then `finalize`;
every storage error surfaces as `SerializeBufferFull` (the serializer methods
and `serialize_with_flavor` all `map_err(|_| SerializeBufferFull)`). Returns the
final flavour state too (for what-was-written observations).  A modelled panic
(`Err.panic`, from an out-of-range `IndexMut`) is not an error value in Rust and
is therefore propagated unchanged. -/
def serializeWith {σ ω} (F : Flavor σ ω) (s0 : σ) (v : Val) : σ × R ω :=
  match F.feed s0 (emit v) with
  | (s, some .panic) => (s, .error .panic)
  | (s, some _) => (s, .error .bufferFull)
  | (s, none) =>
    match F.finalize s with
    | (s', .ok out) => (s', .ok out)
    | (s', .error .panic) => (s', .error .panic)
    | (s', .error _) => (s', .error .bufferFull)

end Postcard
