import Postcard.Model.Flavor
import Postcard.Model.De
/-
  Postcard.Model.Entry — the public entry points of source/postcard/src/ser/mod.rs
  and source/postcard/src/de/mod.rs (plain framing; the COBS / CRC entry points
  live with their flavours), plus the three serializer methods whose behaviour
  is not a function of a `Val`: `serialize_seq(None)`, `serialize_map(None)` and
  `collect_str` (ser/serializer.rs).
-/
namespace Postcard

/-- mirrors `to_allocvec` / `to_stdvec` / `to_extend(.., Vec::new())`:
`serialize_with_flavor(value, AllocVec::new())`. -/
def toAllocVec (v : Val) : R (List Byte) := (serializeWith AllocVec [] v).2

/-- mirrors `to_slice(value, buf)`: `serialize_with_flavor(value, Slice::new(buf))`.
The first component is the final flavour state (what the caller's buffer
holds afterwards), the second the returned `Result<&mut [u8]>`. -/
def toSlice (v : Val) (buf : List Byte) : SliceSt × R (List Byte) :=
  serializeWith Slice ⟨buf, 0⟩ v

/-- mirrors `to_vec::<T, B>(value)`: `serialize_with_flavor(value, HVec::<B>::default())`. -/
def toHVec (cap : Nat) (v : Val) : HVecSt × R (List Byte) :=
  serializeWith HVec ⟨cap, []⟩ v

/-- mirrors `serialized_size(value)`: `serialize_with_flavor(value, Size::default())`. -/
def serializedSize (v : Val) : R Nat := (serializeWith SizeFl 0 v).2

/-- mirrors `take_from_bytes::<T>(s)`: `T::deserialize(&mut de)?; Ok((t, de.finalize()?))`
(`Slice::finalize` returns the unconsumed remainder). -/
def takeFromBytes (t : Ty) (bs : List Byte) : R (Val × List Byte) := dec t bs

/-- mirrors `from_bytes::<T>(s)`: like `take_from_bytes`, remainder discarded. -/
def fromBytes (t : Ty) (bs : List Byte) : R Val := (dec t bs).map (·.1)

/-- mirrors `serialize_seq(len)` / `serialize_map(len)`:
`try_push_varint_usize(len.ok_or(SerializeSeqLengthUnknown)?)` — the calls
issued to the flavour, or the error raised BEFORE any call. -/
def serSeqHeader : Option Nat → R (List Chunk)
  | none => .error .seqLengthUnknown
  | some n => .ok [.extend (encVarint 64 n)]

/-- mirrors `collect_str(value)` when both formatting passes succeed:
pass 1 (`CountWriter`) sums the lengths of the `write_str` pieces, the sum is
written as a `usize` varint, pass 2 (`FmtWriter`) hands every `write_str` piece
to `try_extend`.  `pass1` / `pass2` are the pieces produced by the two runs of
the `Display` implementation. -/
def collectStr (pass1 pass2 : List (List Byte)) : List Chunk :=
  .extend (encVarint 64 (pass1.map List.length).sum) :: pass2.map .extend

/-- pass 2 of `collect_str` over a flavour: every `write_str` piece goes to `try_extend`; the
`FmtWriter` maps any flavour error to `fmt::Error`, which stops the formatter and comes out as
`CollectStrError` (a Rust panic stays a panic). -/
def collectPieces {σ ω} (F : Flavor σ ω) : σ → List (List Byte) → σ × Option Err
  | s, [] => (s, none)
  | s, p :: ps =>
    match F.tryExtend s p with
    | (s', none) => collectPieces F s' ps
    | (s', some .panic) => (s', some .panic)
    | (s', some _) => (s', some .collectStr)

/-- mirrors `serialize_with_flavor(&DisplayValue, flavour)` for a value serialised through
`collect_str` whose `Display` implementation writes `pieces` (the same on both passes):
the byte total as a `usize` varint (`try_push_varint_usize`, an error mapped to
`SerializeBufferFull`), then the pieces, then `finalize`. -/
def collectStrWith {σ ω} (F : Flavor σ ω) (s0 : σ) (pieces : List (List Byte)) : σ × R ω :=
  match F.tryExtend s0 (encVarint 64 (pieces.map List.length).sum) with
  | (s, some .panic) => (s, .error .panic)
  | (s, some _) => (s, .error .bufferFull)
  | (s, none) =>
    match collectPieces F s pieces with
    | (s', some e) => (s', .error e)
    | (s', none) =>
      match F.finalize s' with
      | (s'', .ok out) => (s'', .ok out)
      | (s'', .error .panic) => (s'', .error .panic)
      | (s'', .error _) => (s'', .error .bufferFull)

end Postcard

namespace Postcard

/-- mirrors serde's `iterator_len_hint` used by the DEFAULT `Serializer::collect_seq` /
`collect_map` (postcard does not override them): the length is known only when the
iterator's `size_hint()` is exact.  MODELLED (serde). -/
def iteratorLenHint (lo : Nat) (hi : Option Nat) : Option Nat :=
  match hi with
  | some h => if lo = h then some lo else none
  | none => none

/-- `collect_seq(iter)` = `serialize_seq(iterator_len_hint(&iter))`, then the elements. -/
def collectHeader (lo : Nat) (hi : Option Nat) : R (List Chunk) :=
  serSeqHeader (iteratorLenHint lo hi)

end Postcard
