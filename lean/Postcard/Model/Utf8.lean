import Postcard.Model.Basic
/-
  Postcard.Model.Utf8 — model of the pieces of `core` that postcard calls for
  strings and chars: `core::str::from_utf8` (validity per Unicode Table 3-7),
  `char::encode_utf8`, `str::chars().next()`.
  MODELLED, NOT VERIFIED: this is external (libcore) behaviour; the
  correspondence check compares it with the real thing on every char
  (thorough) / boundary chars and adversarial byte strings (quick).
-/
namespace Postcard

def isScalar (c : Nat) : Bool := c < 0xD800 || (0xE000 ≤ c && c < 0x110000)

/-- mirrors `char::encode_utf8`. -/
def utf8Encode (c : Nat) : List Byte :=
  if c < 0x80 then [UInt8.ofNat c]
  else if c < 0x800 then [UInt8.ofNat (0xC0 + c / 64), UInt8.ofNat (0x80 + c % 64)]
  else if c < 0x10000 then
    [UInt8.ofNat (0xE0 + c / 4096), UInt8.ofNat (0x80 + c / 64 % 64), UInt8.ofNat (0x80 + c % 64)]
  else
    [UInt8.ofNat (0xF0 + c / 262144), UInt8.ofNat (0x80 + c / 4096 % 64),
     UInt8.ofNat (0x80 + c / 64 % 64), UInt8.ofNat (0x80 + c % 64)]

@[inline] def isCont (b : Byte) : Bool := 0x80 ≤ b.toNat && b.toNat ≤ 0xBF

/-- Decode and validate the first scalar of a byte string (well-formed UTF-8
byte sequences, Unicode Table 3-7).  Returns the scalar and the rest. -/
def utf8Next : List Byte → Option (Nat × List Byte)
  | [] => none
  | b0 :: rest =>
    let n0 := b0.toNat
    if n0 < 0x80 then some (n0, rest)
    else if 0xC2 ≤ n0 ∧ n0 ≤ 0xDF then
      match rest with
      | b1 :: rest => if isCont b1 then some ((n0 - 0xC0) * 64 + (b1.toNat - 0x80), rest) else none
      | _ => none
    else if 0xE0 ≤ n0 ∧ n0 ≤ 0xEF then
      match rest with
      | b1 :: b2 :: rest =>
        let lo := if n0 = 0xE0 then 0xA0 else 0x80
        let hi := if n0 = 0xED then 0x9F else 0xBF
        if lo ≤ b1.toNat ∧ b1.toNat ≤ hi ∧ isCont b2 then
          some ((n0 - 0xE0) * 4096 + (b1.toNat - 0x80) * 64 + (b2.toNat - 0x80), rest)
        else none
      | _ => none
    else if 0xF0 ≤ n0 ∧ n0 ≤ 0xF4 then
      match rest with
      | b1 :: b2 :: b3 :: rest =>
        let lo := if n0 = 0xF0 then 0x90 else 0x80
        let hi := if n0 = 0xF4 then 0x8F else 0xBF
        if lo ≤ b1.toNat ∧ b1.toNat ≤ hi ∧ isCont b2 ∧ isCont b3 then
          some ((n0 - 0xF0) * 262144 + (b1.toNat - 0x80) * 4096 + (b2.toNat - 0x80) * 64
                + (b3.toNat - 0x80), rest)
        else none
      | _ => none
    else none

/-- mirrors `core::str::from_utf8(bs).is_ok()`; fuel = length bound. -/
def utf8ValidFuel : Nat → List Byte → Bool
  | _, [] => true
  | 0, _ :: _ => false
  | fuel+1, bs =>
    match utf8Next bs with
    | some (_, rest) => utf8ValidFuel fuel rest
    | none => false

def utf8Valid (bs : List Byte) : Bool := utf8ValidFuel bs.length bs

end Postcard
