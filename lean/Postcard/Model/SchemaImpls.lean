import Postcard.Model.CallTree
/-
  Postcard.Model.SchemaImpls — the Rust types that have BOTH a
  `postcard_schema::Schema` impl and a `serde::Serialize` impl, what schema the
  former declares (`schemaOf`) and what call tree the latter emits
  (`callTree`).

  `schemaOf` mirrors (one `RTy` constructor per impl row / macro arm)
  * source/postcard-schema/src/impls/builtins_nostd.rs  (`impl_schema!` table,
    tuple arms 1–6, `Option`, `Result`, `&T`, `[T]`, `[T; N]`, the four ranges),
  * impls/builtins_alloc.rs + impls/builtins_std.rs (`Vec`, `String`, `PathBuf`,
    `HashMap`, `BTreeMap`, `HashSet`, `BTreeSet`),
  * impls/heapless_v0_7.rs, impls/heapless_v0_8.rs (`Vec<T, N>`, `String<N>`),
  * impls/uuid_v1_0.rs (`Uuid`), impls/chrono_v0_4.rs (`DateTime<Tz>`),
    impls/nalgebra_v0_33.rs (`Matrix<T, Const<R>, Const<C>, ArrayStorage<T,R,C>>`),
  * impls/mod.rs (`DataModelType`), schema/owned.rs (`OwnedDataModelType`),
    key/mod.rs (`Key`),
  * source/postcard-derive/src/schema.rs (`#[derive(Schema)]`: `generate_type`,
    `generate_struct`, `generate_variants`).  `schemaOf` takes a flag
    `repaired : Bool`: `schemaOf true` is the CURRENT derive (field and variant
    names are `ident.unraw().to_string()`), `schemaOf false` the derive before
    the raw-identifier repair (`ident.to_string()`, keeping `r#`).  The flag
    affects nothing but the field / variant names of derived types.
  There is NO `Schema` impl for `usize`, `isize`, `&mut T`, `Box<T>`, `Cow`,
  `Rc`/`Arc`, `RangeFull`/`RangeToInclusive`, `NaiveDateTime` & co., tuples of
  arity 0 (that is `()`) or > 6; these are therefore not in `RTy`.

  `callTree` is MODELLED (external code): serde's `impl Serialize`
  (serde_core-1.0.228 src/ser/impls.rs), serde_derive's output, heapless
  0.7.17 / 0.8.0 src/ser.rs, uuid-1.26.1 src/external/serde_support.rs
  (`is_human_readable() == false` for postcard ⇒ `serialize_bytes`),
  chrono-0.4.45 src/datetime/serde.rs (`collect_str` of the RFC 3339 text,
  for every serializer), nalgebra-0.33.3 src/base/array_storage.rs
  (`serialize_tuple(R * C)` over `as_slice()`, column-major), and was compared
  with a recording `Serializer` on the real crates (see the report).

  Generic and lifetime-carrying derived types are their instances: `RTy` is a
  grammar of CLOSED types (`Gen<u8, NT>` is a `dstruct` whose field types are
  `u8` and `Option<NT>`; a `&'a str` field is `ref str`).  `RTy` does not track
  `Sized`: it contains e.g. `Option<str>`, which is not a Rust type; the
  theorems hold for these as well.
-/
namespace Postcard

/-- a Rust identifier: `raw = true` for `r#name`. -/
structure Ident where
  raw : Bool
  name : Name
  deriving Repr, Inhabited

/-- `ident.to_string()`: for a raw identifier this INCLUDES the `r#` prefix. -/
def Ident.rawName (i : Ident) : Name := if i.raw then ascii "r#" ++ i.name else i.name

/-- `ident.unraw().to_string()`: the identifier without any `r#` prefix. -/
def Ident.unrawName (i : Ident) : Name := i.name

/-- the name `#[derive(Schema)]` gives a FIELD or a VARIANT
(postcard-derive/src/schema.rs, `generate_struct` / `generate_variants` /
the `Data::Enum` arm of `generate_type`).
* `repaired = true` — the CURRENT derive: `v.ident.unraw().to_string()`,
  `f.ident.as_ref().unwrap().unraw().to_string()`;
* `repaired = false` — the derive BEFORE the repair: `v.ident.to_string()`,
  `f.ident.as_ref().unwrap().to_string()`, which kept the `r#` prefix of a raw
  identifier (see `C14.raw_ident_not_conforms`). -/
def Ident.schemaName (repaired : Bool) (i : Ident) : Name :=
  if repaired then i.unrawName else i.rawName

/-- the name `#[derive(Schema)]` gives the struct / enum TYPE: `name.to_string()`
(`generate_type(&input.data, span, name.to_string())`), before and after the
repair; it keeps the `r#` prefix.  Type names are not compared by `conforms`. -/
def Ident.schemaTypeName (i : Ident) : Name := i.rawName

/-- serde_derive names types, variants and fields by `ident.unraw().to_string()`
(serde_derive/src/internals/attr.rs `Name::from(&unraw(ident))`). -/
def Ident.serdeName (i : Ident) : Name := i.unrawName

/-- the identifier is not a raw identifier -/
def Ident.plain (i : Ident) : Bool := !i.raw

/-- an ordinary identifier -/
def Ident.ofString (s : String) : Ident := ⟨false, ascii s⟩

mutual
inductive RTy
  -- impl_schema! table
  | uint (w : IntW)                 -- u8 u16 u32 u64 u128
  | sint (w : IntW)                 -- i8 i16 i32 i64 i128
  | nonZeroU (w : IntW)             -- NonZeroU8 … NonZeroU128
  | nonZeroI (w : IntW)             -- NonZeroI8 … NonZeroI128
  | bool | f32 | f64 | char
  | str                             -- `str`
  | unit                            -- `()`
  | tuple (ts : List RTy)           -- `(A,)` … `(A,B,C,D,E,F)`   (arity 1–6: `RTy.wf`)
  | option (t : RTy)
  | result (t e : RTy)
  | ref (t : RTy)                   -- `&'_ T`
  | slice (t : RTy)                 -- `[T]`
  | array (t : RTy) (n : Nat)       -- `[T; N]`  (serde: N ≤ 32: `RTy.wf`)
  | range (t : RTy) | rangeInclusive (t : RTy) | rangeFrom (t : RTy) | rangeTo (t : RTy)
  -- alloc / std
  | vec (t : RTy) | string | pathBuf
  | hashMap (k v : RTy) | btreeMap (k v : RTy) | hashSet (t : RTy) | btreeSet (t : RTy)
  -- heapless 0.7 / 0.8
  | hVec07 (t : RTy) (n : Nat) | hString07 (n : Nat)
  | hVec08 (t : RTy) (n : Nat) | hString08 (n : Nat)
  -- uuid, chrono, nalgebra
  | uuid
  | dateTime                        -- `DateTime<Tz>`, any `Tz : TimeZone`
  | matrix (t : RTy) (r c : Nat)    -- `Matrix<T, Const<R>, Const<C>, ArrayStorage<T, R, C>>`
  -- the crate's own types
  | key | dataModelType | ownedDataModelType
  -- #[derive(Schema)] + #[derive(Serialize)]
  | dstruct (id : Ident) (fields : DeriveFields)
  | denum (id : Ident) (variants : List DeriveVariant)
inductive DeriveFields
  | unit                            -- `struct S;`            / `V`
  | unnamed (ts : List RTy)         -- `struct S(A, B);`      / `V(A, B)`
  | named (fs : List DeriveField)        -- `struct S { a: A }`    / `V { a: A }`
inductive DeriveField
  | mk (id : Ident) (ty : RTy)
inductive DeriveVariant
  | mk (id : Ident) (fields : DeriveFields)
end

def uSchema : IntW → Schema
  | .w8 => .u8 | .w16 => .u16 | .w32 => .u32 | .w64 => .u64 | .w128 => .u128

def iSchema : IntW → Schema
  | .w8 => .i8 | .w16 => .i16 | .w32 => .i32 | .w64 => .i64 | .w128 => .i128

mutual
/-- `<T as Schema>::SCHEMA`.  `repaired` selects the version of
`#[derive(Schema)]` (see `Ident.schemaName`): `schemaOf true` is the current
(repaired) derive, `schemaOf false` the derive before the raw-identifier repair.
The flag only affects derived structs / enums. -/
def schemaOf (repaired : Bool) : RTy → Schema
  | .uint w => uSchema w
  | .sint w => iSchema w
  | .nonZeroU w => uSchema w                          -- NonZeroU8: DataModelType::U8, …
  | .nonZeroI w => iSchema w
  | .bool => .bool
  | .f32 => .f32
  | .f64 => .f64
  | .char => .char
  | .str => .string
  | .unit => .unit
  | .tuple ts => .tuple (schemaOfList repaired ts)    -- Tuple(&[$($generic::SCHEMA),*])
  | .option t => .option (schemaOf repaired t)
  | .result t e =>
    .enum (ascii "Result<T, E>")
      [.mk (ascii "Ok") (.newtype (schemaOf repaired t)),
       .mk (ascii "Err") (.newtype (schemaOf repaired e))]
  | .ref t => schemaOf repaired t                     -- T::SCHEMA
  | .slice t => .seq (schemaOf repaired t)
  | .array t n => .tuple (List.replicate n (schemaOf repaired t))   -- Tuple(&[T::SCHEMA; N])
  | .range t =>
    .struct (ascii "Range<T>")
      (.struct [.mk (ascii "start") (schemaOf repaired t), .mk (ascii "end") (schemaOf repaired t)])
  | .rangeInclusive t =>
    .struct (ascii "RangeInclusive<T>")
      (.struct [.mk (ascii "start") (schemaOf repaired t), .mk (ascii "end") (schemaOf repaired t)])
  | .rangeFrom t =>
    .struct (ascii "RangeFrom<T>") (.struct [.mk (ascii "start") (schemaOf repaired t)])
  | .rangeTo t => .struct (ascii "RangeTo<T>") (.struct [.mk (ascii "end") (schemaOf repaired t)])
  | .vec t => .seq (schemaOf repaired t)
  | .string => .string
  | .pathBuf => .string
  | .hashMap k v => .map (schemaOf repaired k) (schemaOf repaired v)
  | .btreeMap k v => .map (schemaOf repaired k) (schemaOf repaired v)
  | .hashSet t => .seq (schemaOf repaired t)
  | .btreeSet t => .seq (schemaOf repaired t)
  | .hVec07 t _ => .seq (schemaOf repaired t)
  | .hString07 _ => .string
  | .hVec08 t _ => .seq (schemaOf repaired t)
  | .hString08 _ => .string
  | .uuid => .byteArray
  | .dateTime => .string
  | .matrix t r c =>                                  -- flatten(&[[T::SCHEMA; R]; C])
    .tuple (List.replicate (c * r) (schemaOf repaired t))
  | .key => .struct (ascii "Key") (.newtype (.tuple (List.replicate 8 .u8)))
  | .dataModelType => .schema
  | .ownedDataModelType => .schema
  | .dstruct id fields => .struct id.schemaTypeName (schemaOfFields repaired fields)
  | .denum id variants => .enum id.schemaTypeName (schemaOfVariants repaired variants)
termination_by structural r => r
def schemaOfList (repaired : Bool) : List RTy → List Schema
  | [] => []
  | t :: ts => schemaOf repaired t :: schemaOfList repaired ts
termination_by structural ts => ts
/-- `generate_struct` / `generate_variants` (textually the same function):
`Fields::Unit` → `Data::Unit`; `Fields::Unnamed` with exactly one field →
`Data::Newtype`, otherwise (0, 2, 3, …) → `Data::Tuple`; `Fields::Named` →
`Data::Struct`, in declaration order. -/
def schemaOfFields (repaired : Bool) : DeriveFields → SData
  | .unit => .unit
  | .unnamed [t] => .newtype (schemaOf repaired t)
  | .unnamed ts => .tuple (schemaOfList repaired ts)
  | .named fs => .struct (schemaOfNamed repaired fs)
termination_by structural d => d
def schemaOfNamed (repaired : Bool) : List DeriveField → List SField
  | [] => []
  | .mk id t :: fs =>
    .mk (id.schemaName repaired) (schemaOf repaired t) :: schemaOfNamed repaired fs
termination_by structural fs => fs
def schemaOfVariants (repaired : Bool) : List DeriveVariant → List SVariant
  | [] => []
  | .mk id d :: vs =>
    .mk (id.schemaName repaired) (schemaOfFields repaired d) :: schemaOfVariants repaired vs
termination_by structural vs => vs
end

/-! ## Values -/

/-- a description of a Rust value, to be read together with its type. -/
inductive RV
  | bool (b : Bool)
  | nat (n : Nat)            -- unsigned / NonZeroU* value, float bit pattern, `char` scalar value
  | int (x : Int)            -- signed / NonZeroI* value
  | text (s : List Byte)     -- the bytes of a str / String / path / date-time text / Uuid / Key
  | none
  | some (v : RV)
  | unit
  | list (vs : List RV)      -- tuple, array, slice, Vec; a set in ITERATION order; a map as
                             -- `k₀ v₀ k₁ v₁ …` in iteration order; a matrix in storage
                             -- (column-major) order; the fields of a struct in declaration order
  | variant (idx : Nat) (fields : List RV)   -- enum value: declaration position + fields
  | schema (s : Schema)      -- a `DataModelType` / `OwnedDataModelType` value
  deriving Inhabited

/-- `Iterator::try_for_each(serialize_element)` -/
def optMap (f : RV → Option CT) : List RV → Option (List CT)
  | [] => some []
  | v :: vs =>
    match f v, optMap f vs with
    | some c, some cs => some (c :: cs)
    | _, _ => none

/-- `serialize_entry(k, v)` for every entry of a flat key/value list -/
def optMapKV (fk fv : RV → Option CT) : List RV → Option (List CT)
  | [] => some []
  | [_] => none
  | k :: v :: rest =>
    match fk k, fv v, optMapKV fk fv rest with
    | some ck, some cv, some cs => some (ck :: cv :: cs)
    | _, _, _ => none

/-- `serialize_str(s)` for a `str` (valid UTF-8, length a `usize`) -/
def strCall (s : List Byte) : Option CT :=
  if utf8Valid s = true ∧ s.length < 2 ^ 64 then some (.str s) else none

/-- `serialize_seq(Some(len))` + elements + `end` -/
def seqCall (len : Nat) (cs : Option (List CT)) : Option CT :=
  if len < 2 ^ 64 then cs.map .seq else none

/-- serde: `Ok(v) => serialize_newtype_variant("Result", 0, "Ok", v)`,
`Err(e) => serialize_newtype_variant("Result", 1, "Err", e)` -/
def resultCall (ft fe : RV → Option CT) : Nat → List RV → Option CT
  | 0, [v] => (ft v).map (.newtypeVariant (ascii "Result") 0 (ascii "Ok"))
  | 1, [v] => (fe v).map (.newtypeVariant (ascii "Result") 1 (ascii "Err"))
  | _, _ => none

/-- `serialize_struct(name, 2)`, `serialize_field(n1, a)`, `serialize_field(n2, b)`, `end` -/
def structCall2 (name n1 n2 : Name) (f : RV → Option CT) : List RV → Option CT
  | [a, b] =>
    match f a, f b with
    | some ca, some cb => some (.struct name [n1, n2] [ca, cb])
    | _, _ => none
  | _ => none

/-- `serialize_struct(name, 1)`, `serialize_field(n1, a)`, `end` -/
def structCall1 (name n1 : Name) (f : RV → Option CT) : List RV → Option CT
  | [a] => (f a).map (fun ca => .struct name [n1] [ca])
  | _ => none

/-- what serde_derive calls for the four field shapes of a struct (`s`) or of
variant `idx` of an enum (`v`). -/
inductive Head
  | s (name : Name)
  | v (ename : Name) (idx : Nat) (vname : Name)

def Head.unit : Head → CT
  | .s n => .unitStruct n
  | .v e i vn => .unitVariant e i vn
def Head.newtype : Head → CT → CT
  | .s n, c => .newtypeStruct n c
  | .v e i vn, c => .newtypeVariant e i vn c
def Head.tuple : Head → List CT → CT
  | .s n, cs => .tupleStruct n cs
  | .v e i vn, cs => .tupleVariant e i vn cs
def Head.struct : Head → List Name → List CT → CT
  | .s n, ns, cs => .struct n ns cs
  | .v e i vn, ns, cs => .structVariant e i vn ns cs

/-- the keys serde_derive passes to `serialize_field`, in declaration order -/
def serdeFieldNames : List DeriveField → List Name
  | [] => []
  | .mk id _ :: fs => id.serdeName :: serdeFieldNames fs

mutual
/-- `<T as Serialize>::serialize` as a call tree; `none` if `v` does not
describe a value of type `r`, or if serialisation fails (`PathBuf` that is not
UTF-8: serde returns `Error::custom("path contains invalid UTF-8 characters")`). -/
def callTree : RTy → RV → Option CT
  | .uint w, .nat n => if n < 2 ^ w.bits then some (.u w n) else none
  | .sint w, .int x => if w.inRangeI x = true then some (.i w x) else none
  | .nonZeroU w, .nat n =>                               -- self.get().serialize(serializer)
    if 0 < n ∧ n < 2 ^ w.bits then some (.u w n) else none
  | .nonZeroI w, .int x => if x ≠ 0 ∧ w.inRangeI x = true then some (.i w x) else none
  | .bool, .bool b => some (.bool b)
  | .f32, .nat b => if b < 2 ^ 32 then some (.f32 b) else none
  | .f64, .nat b => if b < 2 ^ 64 then some (.f64 b) else none
  | .char, .nat c => if isScalar c = true then some (.char c) else none
  | .str, .text s => strCall s
  | .unit, .unit => some .unit
  | .tuple ts, .list vs => (callTrees ts vs).map .tuple       -- serialize_tuple(len)
  | .option _, .none => some .none
  | .option t, .some v => (callTree t v).map .some
  | .result t e, .variant idx fs => resultCall (callTree t) (callTree e) idx fs
  | .ref t, v => callTree t v                                -- (**self).serialize(serializer)
  | .slice t, .list vs => seqCall vs.length (optMap (callTree t) vs)   -- collect_seq
  | .array t n, .list vs =>                                  -- serialize_tuple(N)
    if vs.length = n then (optMap (callTree t) vs).map .tuple else none
  | .range t, .list vs =>                                    -- struct Range { start, end }
    structCall2 (ascii "Range") (ascii "start") (ascii "end") (callTree t) vs
  | .rangeInclusive t, .list vs =>
    structCall2 (ascii "RangeInclusive") (ascii "start") (ascii "end") (callTree t) vs
  | .rangeFrom t, .list vs => structCall1 (ascii "RangeFrom") (ascii "start") (callTree t) vs
  | .rangeTo t, .list vs => structCall1 (ascii "RangeTo") (ascii "end") (callTree t) vs
  | .vec t, .list vs => seqCall vs.length (optMap (callTree t) vs)
  | .string, .text s => strCall s
  | .pathBuf, .text s => strCall s              -- `match self.to_str() { Some(s) => s.serialize(..), None => Err(..) }`
  | .hashMap k v, .list kvs =>                  -- collect_map: serialize_map(Some(len)), entries
    if kvs.length / 2 < 2 ^ 64 then (optMapKV (callTree k) (callTree v) kvs).map .map else none
  | .btreeMap k v, .list kvs =>
    if kvs.length / 2 < 2 ^ 64 then (optMapKV (callTree k) (callTree v) kvs).map .map else none
  | .hashSet t, .list vs => seqCall vs.length (optMap (callTree t) vs)
  | .btreeSet t, .list vs => seqCall vs.length (optMap (callTree t) vs)
  | .hVec07 t n, .list vs =>
    if vs.length ≤ n then seqCall vs.length (optMap (callTree t) vs) else none
  | .hString07 n, .text s => if s.length ≤ n then strCall s else none
  | .hVec08 t n, .list vs =>
    if vs.length ≤ n then seqCall vs.length (optMap (callTree t) vs) else none
  | .hString08 n, .text s => if s.length ≤ n then strCall s else none
  | .uuid, .text bs => if bs.length = 16 then some (.bytes bs) else none  -- serialize_bytes(as_bytes())
  | .dateTime, .text s => strCall s                          -- collect_str(RFC 3339 text)
  | .matrix t r c, .list vs =>                               -- serialize_tuple(R * C)
    if vs.length = c * r then (optMap (callTree t) vs).map .tuple else none
  | .key, .text bs =>                                        -- #[derive(Serialize)] struct Key([u8; 8])
    if bs.length = 8 then
      some (.newtypeStruct (ascii "Key") (.tuple (bs.map (fun b => .u .w8 b.toNat))))
    else none
  | .dataModelType, .schema s => if s.wf = true then some (ctSchema false s) else none
  | .ownedDataModelType, .schema s => if s.wf = true then some (ctSchema true s) else none
  | .dstruct id fields, .list vs => callData (.s id.serdeName) fields vs
  | .denum id variants, .variant idx vs =>
    if idx < 2 ^ 32 then callVariant id.serdeName idx variants idx vs else none
  | _, _ => none
termination_by structural r => r
/-- tuple elements / unnamed fields: pointwise, same arity -/
def callTrees : List RTy → List RV → Option (List CT)
  | [], [] => some []
  | t :: ts, v :: vs =>
    match callTree t v, callTrees ts vs with
    | some c, some cs => some (c :: cs)
    | _, _ => none
  | _, _ => none
termination_by structural ts => ts
/-- serde_derive: no fields → unit struct/variant; exactly one unnamed field →
newtype struct/variant; other unnamed → tuple struct/variant; named →
struct / struct variant with `serialize_field(name, value)` in declaration order. -/
def callData (h : Head) : DeriveFields → List RV → Option CT
  | .unit, [] => some h.unit
  | .unit, _ :: _ => none
  | .unnamed [t], [v] => (callTree t v).map h.newtype
  | .unnamed [_], [] => none
  | .unnamed [_], _ :: _ :: _ => none
  | .unnamed [], vs => (callTrees [] vs).map h.tuple
  | .unnamed (t :: t' :: ts), vs => (callTrees (t :: t' :: ts) vs).map h.tuple
  | .named fs, vs => (callNamed fs vs).map (h.struct (serdeFieldNames fs))
termination_by structural d => d
def callNamed : List DeriveField → List RV → Option (List CT)
  | [], [] => some []
  | .mk _ t :: fs, v :: vs =>
    match callTree t v, callNamed fs vs with
    | some c, some cs => some (c :: cs)
    | _, _ => none
  | _, _ => none
termination_by structural fs => fs
/-- walk to variant `k` (`idx` is the declaration position = serde's `variant_index`) -/
def callVariant (ename : Name) (idx : Nat) : List DeriveVariant → Nat → List RV → Option CT
  | [], _, _ => none
  | .mk id d :: _, 0, vs => callData (.v ename idx id.serdeName) d vs
  | _ :: rest, k+1, vs => callVariant ename idx rest k vs
termination_by structural variants => variants
end

/-! ## Scope -/

mutual
/-- `r` is a type that really has both impls:
* tuples: arity 1–6 (the `impl_schema!(tuple => …)` arms);
* arrays: `N ≤ 32` (serde implements `Serialize` for `[T; 0]` … `[T; 32]` only).
No condition on identifiers: raw identifiers (`r#type`) are in scope. -/
def RTy.wf : RTy → Bool
  | .tuple ts => decide (1 ≤ ts.length) && decide (ts.length ≤ 6) && RTy.wfList ts
  | .option t => t.wf
  | .result t e => t.wf && e.wf
  | .ref t => t.wf
  | .slice t => t.wf
  | .array t n => decide (n ≤ 32) && t.wf
  | .range t => t.wf
  | .rangeInclusive t => t.wf
  | .rangeFrom t => t.wf
  | .rangeTo t => t.wf
  | .vec t => t.wf
  | .hashMap k v => k.wf && v.wf
  | .btreeMap k v => k.wf && v.wf
  | .hashSet t => t.wf
  | .btreeSet t => t.wf
  | .hVec07 t _ => t.wf
  | .hVec08 t _ => t.wf
  | .matrix t _ _ => t.wf
  | .dstruct _ fields => fields.wf
  | .denum _ variants => DeriveVariant.wfList variants
  | _ => true
termination_by structural r => r
def RTy.wfList : List RTy → Bool
  | [] => true
  | t :: ts => t.wf && RTy.wfList ts
termination_by structural ts => ts
def DeriveFields.wf : DeriveFields → Bool
  | .unit => true
  | .unnamed ts => RTy.wfList ts
  | .named fs => DeriveField.wfList fs
termination_by structural d => d
def DeriveField.wfList : List DeriveField → Bool
  | [] => true
  | .mk _ t :: fs => t.wf && DeriveField.wfList fs
termination_by structural fs => fs
def DeriveVariant.wfList : List DeriveVariant → Bool
  | [] => true
  | .mk _ d :: vs => d.wf && DeriveVariant.wfList vs
termination_by structural vs => vs
end

/-- the derive version `repaired` names the field / variant `i` as serde_derive
does: always for the repaired derive, only for a non-raw identifier before. -/
def Ident.sameAsSerde (repaired : Bool) (i : Ident) : Bool := repaired || i.plain

mutual
/-- the derive inputs on which `#[derive(Schema)]` (version `repaired`) and
`#[derive(Serialize)]` agree on names: every FIELD and VARIANT identifier
anywhere in `r` satisfies `Ident.sameAsSerde repaired`.
`RTy.namesOk true r` holds for every `r` (`RTy.namesOk_true`);
`RTy.namesOk false r` says: no raw identifier as a field or variant name. -/
def RTy.namesOk (repaired : Bool) : RTy → Bool
  | .tuple ts => RTy.namesOkList repaired ts
  | .option t => t.namesOk repaired
  | .result t e => t.namesOk repaired && e.namesOk repaired
  | .ref t => t.namesOk repaired
  | .slice t => t.namesOk repaired
  | .array t _ => t.namesOk repaired
  | .range t => t.namesOk repaired
  | .rangeInclusive t => t.namesOk repaired
  | .rangeFrom t => t.namesOk repaired
  | .rangeTo t => t.namesOk repaired
  | .vec t => t.namesOk repaired
  | .hashMap k v => k.namesOk repaired && v.namesOk repaired
  | .btreeMap k v => k.namesOk repaired && v.namesOk repaired
  | .hashSet t => t.namesOk repaired
  | .btreeSet t => t.namesOk repaired
  | .hVec07 t _ => t.namesOk repaired
  | .hVec08 t _ => t.namesOk repaired
  | .matrix t _ _ => t.namesOk repaired
  | .dstruct _ fields => fields.namesOk repaired
  | .denum _ variants => DeriveVariant.namesOkList repaired variants
  | _ => true
termination_by structural r => r
def RTy.namesOkList (repaired : Bool) : List RTy → Bool
  | [] => true
  | t :: ts => t.namesOk repaired && RTy.namesOkList repaired ts
termination_by structural ts => ts
def DeriveFields.namesOk (repaired : Bool) : DeriveFields → Bool
  | .unit => true
  | .unnamed ts => RTy.namesOkList repaired ts
  | .named fs => DeriveField.namesOkList repaired fs
termination_by structural d => d
def DeriveField.namesOkList (repaired : Bool) : List DeriveField → Bool
  | [] => true
  | .mk id t :: fs =>
    id.sameAsSerde repaired && t.namesOk repaired && DeriveField.namesOkList repaired fs
termination_by structural fs => fs
def DeriveVariant.namesOkList (repaired : Bool) : List DeriveVariant → Bool
  | [] => true
  | .mk id d :: vs =>
    id.sameAsSerde repaired && d.namesOk repaired && DeriveVariant.namesOkList repaired vs
termination_by structural vs => vs
end

end Postcard
