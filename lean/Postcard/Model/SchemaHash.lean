import Postcard.Model.Basic
import Postcard.Model.Schema
/-
  Postcard.Model.SchemaHash — executable model of
  source/postcard-schema/src/key/hash.rs.

  The Rust file contains TWO hand-duplicated tree hashers: module `fnv1a64`
  (const, over the borrowed `DataModelType`) and module `fnv1a64_owned` (over
  `OwnedDataModelType`).  They are modelled here as TWO separate families of
  functions over the one shared tree type `Schema` (Model/Schema.lean), each arm
  carrying its own literal tag byte exactly as in the Rust arm it mirrors.
  Nothing is shared between the two copies except `hashUpdate` (which the Rust
  owned module also re-uses via `use super::fnv1a64::*`), so a typo in one copy
  is representable and `Props/C16.hashers_agree` is a real theorem.

  Rust `while idx < xs.len() { state = f(state, xs[idx]); idx += 1 }` loops are
  structural recursion over the list (`…List` helpers).
-/
namespace Postcard

/-- mirrors hash.rs::Fnv1a64Hasher::BASIS -/
def FNV_BASIS : UInt64 := 0xcbf29ce484222325
/-- mirrors hash.rs::Fnv1a64Hasher::PRIME -/
def FNV_PRIME : UInt64 := 0x00000100000001b3

-- mirrors hash.rs::fnv1a64::hash_update  (also Fnv1a64Hasher::update)
def hashUpdate : UInt64 → List Byte → UInt64
  | state, [] => state
  | state, b :: bytes =>
    let ext := b.toUInt64                 -- bytes[idx] as u64
    let state := state ^^^ ext            -- state ^= ext
    let state := state * FNV_PRIME        -- state.wrapping_mul(PRIME)
    hashUpdate state bytes

-- mirrors hash.rs::fnv1a64::hash_update_str  (`s.as_bytes()`; names and paths
-- are already byte strings in the model)
def hashUpdateStr (state : UInt64) (s : List Byte) : UInt64 := hashUpdate state s

/-- mirrors `u64::to_le_bytes` (hash.rs::Fnv1a64Hasher::digest_bytes and the
`.to_le_bytes()` at the end of `hash_ty_path` / `hash_ty_path_owned`) -/
def u64le (x : UInt64) : List Byte := leBytes 8 x.toNat

/-! ## module `fnv1a64` — borrowed / const hasher -/

mutual
-- mirrors hash.rs::fnv1a64::hash_sdm_type
def hashSdmType : UInt64 → Schema → UInt64
  | state, .bool => hashUpdate state [0x11]
  | state, .i8 => hashUpdate state [0xC5]
  | state, .u8 => hashUpdate state [0x3D]
  | state, .i16 => hashUpdate state [0x1D]
  | state, .i32 => hashUpdate state [0x0D]
  | state, .i64 => hashUpdate state [0x0B]
  | state, .i128 => hashUpdate state [0x02]
  | state, .u16 => hashUpdate state [0x83]
  | state, .u32 => hashUpdate state [0xD3]
  | state, .u64 => hashUpdate state [0x13]
  | state, .u128 => hashUpdate state [0x8B]
  | state, .usize => hashUpdate state [0x6B]
  | state, .isize => hashUpdate state [0xAD]
  | state, .f32 => hashUpdate state [0xEF]
  | state, .f64 => hashUpdate state [0x71]
  | state, .char => hashUpdate state [0xC1]
  | state, .string => hashUpdate state [0x25]
  | state, .byteArray => hashUpdate state [0x65]
  | state, .option t =>
    let state := hashUpdate state [0x6D]
    hashSdmType state t
  | state, .unit => hashUpdate state [0x47]
  | state, .seq t =>
    let state := hashUpdate state [0x03]
    hashSdmType state t
  | state, .tuple ts =>
    let state := hashUpdate state [0xA7]
    hashSdmTypeList state ts
  | state, .map key val =>
    let state := hashUpdate state [0x4F]
    let state := hashSdmType state key
    hashSdmType state val
  | state, .struct name data => hashStruct state name data
  | state, .enum _ variants =>
    let state := hashUpdate state [0xE9]
    hashVariantList state variants
  | state, .schema => hashUpdate state [0xE5]
-- the `while idx < ts.len() { state = hash_sdm_type(state, ts[idx]); .. }` loop
def hashSdmTypeList : UInt64 → List Schema → UInt64
  | state, [] => state
  | state, t :: ts => hashSdmTypeList (hashSdmType state t) ts
-- mirrors hash.rs::fnv1a64::hash_struct   (`_name` is ignored)
def hashStruct : UInt64 → Name → SData → UInt64
  | state, _name, .unit => hashUpdate state [0xBF]
  | state, _name, .newtype dmt =>
    let state := hashUpdate state [0x9D]
    hashSdmType state dmt
  | state, _name, .tuple dmts =>
    let state := hashUpdate state [0x05]
    hashSdmTypeList state dmts
  | state, _name, .struct nfs =>
    let state := hashUpdate state [0x7F]
    hashNamedFieldList state nfs
-- mirrors hash.rs::fnv1a64::hash_variant
def hashVariant : UInt64 → SVariant → UInt64
  | state, .mk name .unit =>
    let state := hashUpdate state name
    hashUpdate state [0xB5]
  | state, .mk name (.newtype t) =>
    let state := hashUpdate state name
    let state := hashUpdate state [0xDF]
    hashSdmType state t
  | state, .mk name (.tuple ts) =>
    let state := hashUpdate state name
    let state := hashUpdate state [0xC7]
    hashSdmTypeList state ts
  | state, .mk name (.struct fields) =>
    let state := hashUpdate state name
    let state := hashUpdate state [0x67]
    hashNamedFieldList state fields
-- the `while idx < variants.len() { state = hash_variant(..) }` loop
def hashVariantList : UInt64 → List SVariant → UInt64
  | state, [] => state
  | state, v :: vs => hashVariantList (hashVariant state v) vs
-- mirrors hash.rs::fnv1a64::hash_named_field
def hashNamedField : UInt64 → SField → UInt64
  | state, .mk name ty =>
    let state := hashUpdate state name
    hashSdmType state ty
-- the `while idx < nfs.len() { state = hash_named_field(..) }` loop
def hashNamedFieldList : UInt64 → List SField → UInt64
  | state, [] => state
  | state, f :: fs => hashNamedFieldList (hashNamedField state f) fs
end

-- mirrors hash.rs::fnv1a64::hash_ty_path  (= key/mod.rs::Key::for_path)
def hashTyPath (path : List Byte) (sch : Schema) : List Byte :=
  let state := hashUpdateStr FNV_BASIS path
  u64le (hashSdmType state sch)

/-! ## module `fnv1a64_owned` — the hand-duplicated copy -/

mutual
-- mirrors hash.rs::fnv1a64_owned::hash_sdm_type_owned
def hashSdmTypeOwned : UInt64 → Schema → UInt64
  | state, .bool => hashUpdate state [0x11]
  | state, .i8 => hashUpdate state [0xC5]
  | state, .u8 => hashUpdate state [0x3D]
  | state, .i16 => hashUpdate state [0x1D]
  | state, .i32 => hashUpdate state [0x0D]
  | state, .i64 => hashUpdate state [0x0B]
  | state, .i128 => hashUpdate state [0x02]
  | state, .u16 => hashUpdate state [0x83]
  | state, .u32 => hashUpdate state [0xD3]
  | state, .u64 => hashUpdate state [0x13]
  | state, .u128 => hashUpdate state [0x8B]
  | state, .usize => hashUpdate state [0x6B]
  | state, .isize => hashUpdate state [0xAD]
  | state, .f32 => hashUpdate state [0xEF]
  | state, .f64 => hashUpdate state [0x71]
  | state, .char => hashUpdate state [0xC1]
  | state, .string => hashUpdate state [0x25]
  | state, .byteArray => hashUpdate state [0x65]
  | state, .option t =>
    let state := hashUpdate state [0x6D]
    hashSdmTypeOwned state t
  | state, .unit => hashUpdate state [0x47]
  | state, .seq t =>
    let state := hashUpdate state [0x03]
    hashSdmTypeOwned state t
  | state, .tuple ts =>
    let state := hashUpdate state [0xA7]
    hashSdmTypeOwnedList state ts
  | state, .map key val =>
    let state := hashUpdate state [0x4F]
    let state := hashSdmTypeOwned state key
    hashSdmTypeOwned state val
  | state, .struct name data => hashStructOwned state name data
  | state, .enum _ variants =>
    let state := hashUpdate state [0xE9]
    hashVariantOwnedList state variants
  | state, .schema => hashUpdate state [0xE5]
-- the `while idx < ts.len() { state = hash_sdm_type_owned(state, &ts[idx]); .. }` loop
def hashSdmTypeOwnedList : UInt64 → List Schema → UInt64
  | state, [] => state
  | state, t :: ts => hashSdmTypeOwnedList (hashSdmTypeOwned state t) ts
-- mirrors hash.rs::fnv1a64_owned::hash_struct   (`_name` is ignored)
def hashStructOwned : UInt64 → Name → SData → UInt64
  | state, _name, .unit => hashUpdate state [0xBF]
  | state, _name, .newtype dmt =>
    let state := hashUpdate state [0x9D]
    hashSdmTypeOwned state dmt
  | state, _name, .tuple dmts =>
    let state := hashUpdate state [0x05]
    hashSdmTypeOwnedList state dmts
  | state, _name, .struct nfs =>
    let state := hashUpdate state [0x7F]
    hashNamedFieldOwnedList state nfs
-- mirrors hash.rs::fnv1a64_owned::hash_variant
def hashVariantOwned : UInt64 → SVariant → UInt64
  | state, .mk name .unit =>
    let state := hashUpdate state name
    hashUpdate state [0xB5]
  | state, .mk name (.newtype t) =>
    let state := hashUpdate state name
    let state := hashUpdate state [0xDF]
    hashSdmTypeOwned state t
  | state, .mk name (.tuple ts) =>
    let state := hashUpdate state name
    let state := hashUpdate state [0xC7]
    hashSdmTypeOwnedList state ts
  | state, .mk name (.struct fields) =>
    let state := hashUpdate state name
    let state := hashUpdate state [0x67]
    hashNamedFieldOwnedList state fields
-- the `while idx < variants.len() { state = hash_variant(..) }` loop
def hashVariantOwnedList : UInt64 → List SVariant → UInt64
  | state, [] => state
  | state, v :: vs => hashVariantOwnedList (hashVariantOwned state v) vs
-- mirrors hash.rs::fnv1a64_owned::hash_named_field
def hashNamedFieldOwned : UInt64 → SField → UInt64
  | state, .mk name ty =>
    let state := hashUpdate state name
    hashSdmTypeOwned state ty
-- the `while idx < nfs.len() { state = hash_named_field(..) }` loop
def hashNamedFieldOwnedList : UInt64 → List SField → UInt64
  | state, [] => state
  | state, f :: fs => hashNamedFieldOwnedList (hashNamedFieldOwned state f) fs
end

-- mirrors hash.rs::fnv1a64_owned::hash_ty_path_owned
-- (= key/mod.rs::Key::for_owned_schema_path)
def hashTyPathOwned (path : List Byte) (ty : Schema) : List Byte :=
  let state := hashUpdateStr FNV_BASIS path
  u64le (hashSdmTypeOwned state ty)

end Postcard
