import Postcard.Model.Schema
import Postcard.Model.Ser
import Postcard.Model.De
/-
  Postcard.Model.SchemaSer — how the schema types themselves go over the wire.

  mirrors
  * source/postcard-schema/src/schema/mod.rs: `#[derive(Serialize)]` on
    `DataModelType`, `Data`, `NamedField`, `Variant`  (→ `idxBorrowed`,
    `dataIdxBorrowed`, `serBorrowed…`);
  * source/postcard-schema/src/schema/owned.rs: `#[derive(Serialize,
    Deserialize)]` on `OwnedDataModelType`, `OwnedData`, `OwnedNamedField`,
    `OwnedVariant` (→ `idxOwned`, `dataIdxOwned`, `serOwned…`, `decOwned…`) and
    the four `From<&Borrowed> for Owned` impls (→ `conv…`).

  serde-derive: the variant index is the position of the variant in the enum
  DECLARATION; a unit variant is `serialize_unit_variant(idx)`, a one-field
  tuple variant `serialize_newtype_variant(idx, inner)`, a variant with named
  fields `serialize_struct_variant(idx, fields in order)`, a struct
  `serialize_struct(fields in order)`.  `&T`, `Box<T>` are transparent;
  `&str`/`Box<str>` are `serialize_str`; `&[T]`/`Box<[T]>` are
  `serialize_seq(Some(len))`.

  The two declarations are transcribed SEPARATELY (two tables, two
  serialisers) so that a reordering in only one of them is a change to only
  one of the tables and makes `C15.tables_equal` fail.
-/
namespace Postcard

/-- the 26 node kinds of `DataModelType` / `OwnedDataModelType` -/
inductive SchemaKind
  | bool | i8 | u8 | i16 | i32 | i64 | i128 | u16 | u32 | u64 | u128
  | usize | isize | f32 | f64 | char | string | byteArray
  | option | unit | seq | tuple | map | struct | enum | schema
  deriving DecidableEq, Repr, Inhabited

/-- the 4 kinds of `Data` / `OwnedData` -/
inductive DataKind
  | unit | newtype | tuple | struct
  deriving DecidableEq, Repr, Inhabited

def Schema.kind : Schema → SchemaKind
  | .bool => .bool | .i8 => .i8 | .u8 => .u8 | .i16 => .i16 | .i32 => .i32 | .i64 => .i64
  | .i128 => .i128 | .u16 => .u16 | .u32 => .u32 | .u64 => .u64 | .u128 => .u128
  | .usize => .usize | .isize => .isize | .f32 => .f32 | .f64 => .f64 | .char => .char
  | .string => .string | .byteArray => .byteArray | .option _ => .option | .unit => .unit
  | .seq _ => .seq | .tuple _ => .tuple | .map _ _ => .map | .struct _ _ => .struct
  | .enum _ _ => .enum | .schema => .schema

def SData.kind : SData → DataKind
  | .unit => .unit | .newtype _ => .newtype | .tuple _ => .tuple | .struct _ => .struct

/-! ## Variant indices: the two declarations -/

/-- declaration order of `enum DataModelType` in schema/mod.rs -/
def idxBorrowed : SchemaKind → Nat
  | .bool => 0
  | .i8 => 1
  | .u8 => 2
  | .i16 => 3
  | .i32 => 4
  | .i64 => 5
  | .i128 => 6
  | .u16 => 7
  | .u32 => 8
  | .u64 => 9
  | .u128 => 10
  | .usize => 11
  | .isize => 12
  | .f32 => 13
  | .f64 => 14
  | .char => 15
  | .string => 16
  | .byteArray => 17
  | .option => 18
  | .unit => 19
  | .seq => 20
  | .tuple => 21
  | .map => 22
  | .struct => 23
  | .enum => 24
  | .schema => 25

/-- declaration order of `enum OwnedDataModelType` in schema/owned.rs -/
def idxOwned : SchemaKind → Nat
  | .bool => 0
  | .i8 => 1
  | .u8 => 2
  | .i16 => 3
  | .i32 => 4
  | .i64 => 5
  | .i128 => 6
  | .u16 => 7
  | .u32 => 8
  | .u64 => 9
  | .u128 => 10
  | .usize => 11
  | .isize => 12
  | .f32 => 13
  | .f64 => 14
  | .char => 15
  | .string => 16
  | .byteArray => 17
  | .option => 18
  | .unit => 19
  | .seq => 20
  | .tuple => 21
  | .map => 22
  | .struct => 23
  | .enum => 24
  | .schema => 25

/-- declaration order of `enum Data` in schema/mod.rs -/
def dataIdxBorrowed : DataKind → Nat
  | .unit => 0
  | .newtype => 1
  | .tuple => 2
  | .struct => 3

/-- declaration order of `enum OwnedData` in schema/owned.rs -/
def dataIdxOwned : DataKind → Nat
  | .unit => 0
  | .newtype => 1
  | .tuple => 2
  | .struct => 3

/-! ## `Serialize` for the borrowed family (schema/mod.rs) -/

mutual
/-- `<DataModelType as Serialize>::serialize` as a serde data-model value. -/
def serBorrowed : Schema → Val
  | .bool => .unitVariant (idxBorrowed .bool)
  | .i8 => .unitVariant (idxBorrowed .i8)
  | .u8 => .unitVariant (idxBorrowed .u8)
  | .i16 => .unitVariant (idxBorrowed .i16)
  | .i32 => .unitVariant (idxBorrowed .i32)
  | .i64 => .unitVariant (idxBorrowed .i64)
  | .i128 => .unitVariant (idxBorrowed .i128)
  | .u16 => .unitVariant (idxBorrowed .u16)
  | .u32 => .unitVariant (idxBorrowed .u32)
  | .u64 => .unitVariant (idxBorrowed .u64)
  | .u128 => .unitVariant (idxBorrowed .u128)
  | .usize => .unitVariant (idxBorrowed .usize)
  | .isize => .unitVariant (idxBorrowed .isize)
  | .f32 => .unitVariant (idxBorrowed .f32)
  | .f64 => .unitVariant (idxBorrowed .f64)
  | .char => .unitVariant (idxBorrowed .char)
  | .string => .unitVariant (idxBorrowed .string)
  | .byteArray => .unitVariant (idxBorrowed .byteArray)
  | .option t => .newtypeVariant (idxBorrowed .option) (serBorrowed t)     -- Option(&'static Self)
  | .unit => .unitVariant (idxBorrowed .unit)
  | .seq t => .newtypeVariant (idxBorrowed .seq) (serBorrowed t)           -- Seq(&'static Self)
  | .tuple ts =>                                               -- Tuple(&'static [&'static Self])
    .newtypeVariant (idxBorrowed .tuple) (.seq (serBorrowedList ts))
  | .map k v => .structVariant (idxBorrowed .map) [serBorrowed k, serBorrowed v]   -- Map { key, val }
  | .struct n d => .structVariant (idxBorrowed .struct) [.str n, serBorrowedData d] -- Struct { name, data }
  | .enum n vs =>                                              -- Enum { name, variants }
    .structVariant (idxBorrowed .enum) [.str n, .seq (serBorrowedVariants vs)]
  | .schema => .unitVariant (idxBorrowed .schema)
termination_by structural s => s
def serBorrowedList : List Schema → List Val
  | [] => []
  | t :: ts => serBorrowed t :: serBorrowedList ts
termination_by structural ts => ts
/-- `<Data as Serialize>::serialize` -/
def serBorrowedData : SData → Val
  | .unit => .unitVariant (dataIdxBorrowed .unit)
  | .newtype t => .newtypeVariant (dataIdxBorrowed .newtype) (serBorrowed t)
  | .tuple ts => .newtypeVariant (dataIdxBorrowed .tuple) (.seq (serBorrowedList ts))
  | .struct fs => .newtypeVariant (dataIdxBorrowed .struct) (.seq (serBorrowedFields fs))
termination_by structural d => d
/-- elements are `<NamedField as Serialize>`: `struct { name, ty }` -/
def serBorrowedFields : List SField → List Val
  | [] => []
  | .mk n t :: fs => .struct [.str n, serBorrowed t] :: serBorrowedFields fs
termination_by structural fs => fs
/-- elements are `<Variant as Serialize>`: `struct { name, data }` -/
def serBorrowedVariants : List SVariant → List Val
  | [] => []
  | .mk n d :: vs => .struct [.str n, serBorrowedData d] :: serBorrowedVariants vs
termination_by structural vs => vs
end

/-! ## `Serialize` for the owned family (schema/owned.rs) -/

mutual
/-- `<OwnedDataModelType as Serialize>::serialize` as a serde data-model value. -/
def serOwned : Schema → Val
  | .bool => .unitVariant (idxOwned .bool)
  | .i8 => .unitVariant (idxOwned .i8)
  | .u8 => .unitVariant (idxOwned .u8)
  | .i16 => .unitVariant (idxOwned .i16)
  | .i32 => .unitVariant (idxOwned .i32)
  | .i64 => .unitVariant (idxOwned .i64)
  | .i128 => .unitVariant (idxOwned .i128)
  | .u16 => .unitVariant (idxOwned .u16)
  | .u32 => .unitVariant (idxOwned .u32)
  | .u64 => .unitVariant (idxOwned .u64)
  | .u128 => .unitVariant (idxOwned .u128)
  | .usize => .unitVariant (idxOwned .usize)
  | .isize => .unitVariant (idxOwned .isize)
  | .f32 => .unitVariant (idxOwned .f32)
  | .f64 => .unitVariant (idxOwned .f64)
  | .char => .unitVariant (idxOwned .char)
  | .string => .unitVariant (idxOwned .string)
  | .byteArray => .unitVariant (idxOwned .byteArray)
  | .option t => .newtypeVariant (idxOwned .option) (serOwned t)           -- Option(Box<Self>)
  | .unit => .unitVariant (idxOwned .unit)
  | .seq t => .newtypeVariant (idxOwned .seq) (serOwned t)                 -- Seq(Box<Self>)
  | .tuple ts => .newtypeVariant (idxOwned .tuple) (.seq (serOwnedList ts)) -- Tuple(Box<[Self]>)
  | .map k v => .structVariant (idxOwned .map) [serOwned k, serOwned v]
  | .struct n d => .structVariant (idxOwned .struct) [.str n, serOwnedData d]
  | .enum n vs => .structVariant (idxOwned .enum) [.str n, .seq (serOwnedVariants vs)]
  | .schema => .unitVariant (idxOwned .schema)
termination_by structural s => s
def serOwnedList : List Schema → List Val
  | [] => []
  | t :: ts => serOwned t :: serOwnedList ts
termination_by structural ts => ts
/-- `<OwnedData as Serialize>::serialize` -/
def serOwnedData : SData → Val
  | .unit => .unitVariant (dataIdxOwned .unit)
  | .newtype t => .newtypeVariant (dataIdxOwned .newtype) (serOwned t)
  | .tuple ts => .newtypeVariant (dataIdxOwned .tuple) (.seq (serOwnedList ts))
  | .struct fs => .newtypeVariant (dataIdxOwned .struct) (.seq (serOwnedFields fs))
termination_by structural d => d
/-- elements are `<OwnedNamedField as Serialize>`: `struct { name, ty }` -/
def serOwnedFields : List SField → List Val
  | [] => []
  | .mk n t :: fs => .struct [.str n, serOwned t] :: serOwnedFields fs
termination_by structural fs => fs
/-- elements are `<OwnedVariant as Serialize>`: `struct { name, data }` -/
def serOwnedVariants : List SVariant → List Val
  | [] => []
  | .mk n d :: vs => .struct [.str n, serOwnedData d] :: serOwnedVariants vs
termination_by structural vs => vs
end

/-! ## `From<&Borrowed> for Owned` (schema/owned.rs) -/

mutual
/-- mirrors `impl From<&DataModelType> for OwnedDataModelType`, arm by arm. -/
def conv : Schema → Schema
  | .bool => .bool
  | .i8 => .i8
  | .u8 => .u8
  | .i16 => .i16
  | .i32 => .i32
  | .i64 => .i64
  | .i128 => .i128
  | .u16 => .u16
  | .u32 => .u32
  | .u64 => .u64
  | .u128 => .u128
  | .usize => .usize
  | .isize => .isize
  | .f32 => .f32
  | .f64 => .f64
  | .char => .char
  | .string => .string
  | .byteArray => .byteArray
  | .option o => .option (conv o)
  | .unit => .unit
  | .seq s => .seq (conv s)
  | .tuple t => .tuple (convList t)                    -- t.iter().map(|i| (*i).into()).collect()
  | .map key val => .map (conv key) (conv val)
  | .struct name data => .struct name (convData data)
  | .enum name variants => .enum name (convVariants variants)
  | .schema => .schema
termination_by structural s => s
def convList : List Schema → List Schema
  | [] => []
  | t :: ts => conv t :: convList ts
termination_by structural ts => ts
/-- mirrors `impl From<&Data> for OwnedData`. -/
def convData : SData → SData
  | .unit => .unit
  | .newtype d => .newtype (conv d)
  | .tuple d => .tuple (convList d)
  | .struct d => .struct (convFields d)
termination_by structural d => d
/-- element map is `impl From<&NamedField> for OwnedNamedField`. -/
def convFields : List SField → List SField
  | [] => []
  | .mk name ty :: fs => .mk name (conv ty) :: convFields fs
termination_by structural fs => fs
/-- element map is `impl From<&Variant> for OwnedVariant`. -/
def convVariants : List SVariant → List SVariant
  | [] => []
  | .mk name data :: vs => .mk name (convData data) :: convVariants vs
termination_by structural vs => vs
end

/-! ## `Deserialize` for the owned family over postcard -/

/-- serde-derive's `__FieldVisitor::visit_u64` for `OwnedDataModelType`:
`match v { 0 => __field0, …, 25 => __field25, _ => Err(invalid_value) }`,
fields numbered in declaration order of schema/owned.rs. -/
def kindOfIdxOwned : Nat → Option SchemaKind
  | 0 => some .bool
  | 1 => some .i8
  | 2 => some .u8
  | 3 => some .i16
  | 4 => some .i32
  | 5 => some .i64
  | 6 => some .i128
  | 7 => some .u16
  | 8 => some .u32
  | 9 => some .u64
  | 10 => some .u128
  | 11 => some .usize
  | 12 => some .isize
  | 13 => some .f32
  | 14 => some .f64
  | 15 => some .char
  | 16 => some .string
  | 17 => some .byteArray
  | 18 => some .option
  | 19 => some .unit
  | 20 => some .seq
  | 21 => some .tuple
  | 22 => some .map
  | 23 => some .struct
  | 24 => some .enum
  | 25 => some .schema
  | _ => none

/-- the same for `OwnedData`. -/
def dataKindOfIdxOwned : Nat → Option DataKind
  | 0 => some .unit
  | 1 => some .newtype
  | 2 => some .tuple
  | 3 => some .struct
  | _ => none

/-- `Box<str>`: `deserialize_string` → postcard `deserialize_str`:
varint(usize) length, `try_take_n`, `from_utf8` (else `DeserializeBadUtf8`). -/
def decName (bs : List Byte) : R (Name × List Byte) :=
  match decVarint 64 bs with
  | .error e => .error e
  | .ok (sz, r) =>
    match takeN sz r with
    | .error e => .error e
    | .ok (s, r') => if utf8Valid s then .ok (s, r') else .error .badUtf8

/-- `SeqAccess` with `len = n` driven by the `Vec<T>` visitor: `n` elements. -/
def decElems {α : Type} (f : List Byte → R (α × List Byte)) : Nat → List Byte → R (List α × List Byte)
  | 0, bs => .ok ([], bs)
  | n+1, bs =>
    match f bs with
    | .error e => .error e
    | .ok (v, r) =>
      match decElems f n r with
      | .error e => .error e
      | .ok (vs, r') => .ok (v :: vs, r')

/-- `Box<[T]>`: `deserialize_seq`: varint(usize) count, then the elements. -/
def decBoxSlice {α : Type} (f : List Byte → R (α × List Byte)) (bs : List Byte) :
    R (List α × List Byte) :=
  match decVarint 64 bs with
  | .error e => .error e
  | .ok (n, r) => decElems f n r

/-- `OwnedNamedField`: `deserialize_struct` → `visit_seq`: `name`, then `ty`. -/
def decField (decTy : List Byte → R (Schema × List Byte)) (bs : List Byte) :
    R (SField × List Byte) :=
  match decName bs with
  | .error e => .error e
  | .ok (name, r) =>
    match decTy r with
    | .error e => .error e
    | .ok (ty, r') => .ok (.mk name ty, r')

/-- `OwnedVariant`: `deserialize_struct` → `visit_seq`: `name`, then `data`. -/
def decVariantEntry (decData : List Byte → R (SData × List Byte)) (bs : List Byte) :
    R (SVariant × List Byte) :=
  match decName bs with
  | .error e => .error e
  | .ok (name, r) =>
    match decData r with
    | .error e => .error e
    | .ok (data, r') => .ok (.mk name data, r')

mutual
/-- `<OwnedDataModelType as Deserialize>::deserialize` over the postcard
deserializer: `deserialize_enum` → `variant_seed` reads a varint(u32)
discriminant → `__FieldVisitor` (out of range → `SerdeDeCustom`) → per-variant
access (`unit_variant`, `newtype_variant`, `struct_variant` = fields in order).
`fuel` bounds the nesting depth (each nested node uses one unit); running out
is reported as `.error .panic` (stack exhaustion — never reached when
`s.size ≤ fuel`, see `C15.owned_roundtrip`). -/
def decOwned : Nat → List Byte → R (Schema × List Byte)
  | 0, _ => .error .panic
  | fuel+1, bs =>
    match decVarint 32 bs with
    | .error e => .error e
    | .ok (idx, r) =>
      match kindOfIdxOwned idx with
      | none => .error .custom
      | some .bool => .ok (.bool, r)
      | some .i8 => .ok (.i8, r)
      | some .u8 => .ok (.u8, r)
      | some .i16 => .ok (.i16, r)
      | some .i32 => .ok (.i32, r)
      | some .i64 => .ok (.i64, r)
      | some .i128 => .ok (.i128, r)
      | some .u16 => .ok (.u16, r)
      | some .u32 => .ok (.u32, r)
      | some .u64 => .ok (.u64, r)
      | some .u128 => .ok (.u128, r)
      | some .usize => .ok (.usize, r)
      | some .isize => .ok (.isize, r)
      | some .f32 => .ok (.f32, r)
      | some .f64 => .ok (.f64, r)
      | some .char => .ok (.char, r)
      | some .string => .ok (.string, r)
      | some .byteArray => .ok (.byteArray, r)
      | some .option =>
        match decOwned fuel r with
        | .error e => .error e
        | .ok (t, r') => .ok (.option t, r')
      | some .unit => .ok (.unit, r)
      | some .seq =>
        match decOwned fuel r with
        | .error e => .error e
        | .ok (t, r') => .ok (.seq t, r')
      | some .tuple =>
        match decBoxSlice (decOwned fuel) r with
        | .error e => .error e
        | .ok (ts, r') => .ok (.tuple ts, r')
      | some .map =>
        match decOwned fuel r with
        | .error e => .error e
        | .ok (k, r') =>
          match decOwned fuel r' with
          | .error e => .error e
          | .ok (v, r'') => .ok (.map k v, r'')
      | some .struct =>
        match decName r with
        | .error e => .error e
        | .ok (name, r') =>
          match decOwnedData fuel r' with
          | .error e => .error e
          | .ok (data, r'') => .ok (.struct name data, r'')
      | some .enum =>
        match decName r with
        | .error e => .error e
        | .ok (name, r') =>
          match decBoxSlice (decVariantEntry (decOwnedData fuel)) r' with
          | .error e => .error e
          | .ok (vs, r'') => .ok (.enum name vs, r'')
      | some .schema => .ok (.schema, r)
termination_by structural fuel => fuel
/-- `<OwnedData as Deserialize>::deserialize`. -/
def decOwnedData : Nat → List Byte → R (SData × List Byte)
  | 0, _ => .error .panic
  | fuel+1, bs =>
    match decVarint 32 bs with
    | .error e => .error e
    | .ok (idx, r) =>
      match dataKindOfIdxOwned idx with
      | none => .error .custom
      | some .unit => .ok (.unit, r)
      | some .newtype =>
        match decOwned fuel r with
        | .error e => .error e
        | .ok (t, r') => .ok (.newtype t, r')
      | some .tuple =>
        match decBoxSlice (decOwned fuel) r with
        | .error e => .error e
        | .ok (ts, r') => .ok (.tuple ts, r')
      | some .struct =>
        match decBoxSlice (decField (decOwned fuel)) r with
        | .error e => .error e
        | .ok (fs, r') => .ok (.struct fs, r')
termination_by structural fuel => fuel
end

/-- `postcard::from_bytes::<OwnedDataModelType>` minus the trailing-bytes
policy (postcard ignores the remainder).  Every node consumes at least one
byte, so `bs.length + 1` units of fuel are never exhausted before the input. -/
def decOwnedBytes (bs : List Byte) : R (Schema × List Byte) := decOwned (bs.length + 1) bs

/-! ## Well-formedness: what a Rust value of these types can be -/

/-- a `str`: valid UTF-8, length representable as usize -/
def nameOk (n : Name) : Bool := utf8Valid n && decide (n.length < 2 ^ 64)

mutual
def Schema.wf : Schema → Bool
  | .option t => t.wf
  | .seq t => t.wf
  | .tuple ts => decide (ts.length < 2 ^ 64) && Schema.wfList ts
  | .map k v => k.wf && v.wf
  | .struct n d => nameOk n && d.wf
  | .enum n vs => nameOk n && decide (vs.length < 2 ^ 64) && SVariant.wfList vs
  | _ => true
termination_by structural s => s
def Schema.wfList : List Schema → Bool
  | [] => true
  | t :: ts => t.wf && Schema.wfList ts
termination_by structural ts => ts
def SData.wf : SData → Bool
  | .unit => true
  | .newtype t => t.wf
  | .tuple ts => decide (ts.length < 2 ^ 64) && Schema.wfList ts
  | .struct fs => decide (fs.length < 2 ^ 64) && SField.wfList fs
termination_by structural d => d
def SField.wfList : List SField → Bool
  | [] => true
  | .mk n t :: fs => nameOk n && t.wf && SField.wfList fs
termination_by structural fs => fs
def SVariant.wfList : List SVariant → Bool
  | [] => true
  | .mk n d :: vs => nameOk n && d.wf && SVariant.wfList vs
termination_by structural vs => vs
end

/-- every name is valid UTF-8 and every length fits a 64-bit usize -/
def SchemaWf (s : Schema) : Prop := s.wf = true

instance (s : Schema) : Decidable (SchemaWf s) := inferInstanceAs (Decidable (s.wf = true))

end Postcard
