import Postcard.Model.Entry
import Postcard.Model.Cobs
/-!
# Framed fixed-storage entry points and the accumulator's decoder

`to_slice_cobs`, `to_vec_cobs` (ser/mod.rs) and the decoder `CobsAccumulator::feed`
applies to a completed frame.  The driver's `sercap cobs slice|hvec` and `acc` ops run
exactly these definitions; `Props/EndToEnd.lean` and `Props/C05Framed.lean` prove
their thresholds and round trips.
-/
namespace Postcard

/-! ## entry points that were not yet modelled -/

/-- mirrors `to_slice_cobs(value, buf)` (ser/mod.rs):
`serialize_with_flavor(value, Cobs::try_new(Slice::new(buf))?)`.
First component: the final `Slice` state (what the caller's buffer holds
afterwards); second: the returned `Result<&mut [u8]>`.  The `?` after
`try_new` returns its error (already mapped to `SerializeBufferFull`). -/
def toSliceCobs (v : Val) (buf : List Byte) : SliceSt × R (List Byte) :=
  match Cobs.tryNew Slice ⟨buf, 0⟩ with
  | (st, some e) => (st.1, .error e)
  | (st, none) =>
    let r := serializeWith (Cobs Slice) st v
    (r.1.1, r.2)

/-- mirrors `to_vec_cobs::<T, B>(value)` (ser/mod.rs):
`serialize_with_flavor(value, Cobs::try_new(HVec::default())?)`, `B = cap`. -/
def toHVecCobs (cap : Nat) (v : Val) : HVecSt × R (List Byte) :=
  match Cobs.tryNew HVec ⟨cap, []⟩ with
  | (st, some e) => (st.1, .error e)
  | (st, none) =>
    let r := serializeWith (Cobs HVec) st v
    (r.1.1, r.2)

/-- The decoder the accumulator is used with for target type `t`:
`from_bytes_cobs::<T>(&mut self.buf[..self.idx])`, any `Err(_)` collapsed to
`none` (`Acc.feed` only distinguishes `Ok` from `Err`). -/
def accDecoder (t : Ty) (frame : List Byte) : Option Val :=
  match (fromBytesCobs (fromBytes t) frame).1 with
  | .ok v => some v
  | .error _ => none

end Postcard
