import Postcard.Model.Schema
import Postcard.Model.SchemaFmt
import Postcard.Model.SchemaSer
import Postcard.Model.DataModel
import Postcard.Model.Ser
/-
  Postcard.Model.CallTree — a serde data-model value DECORATED with the names
  that `Serialize` implementations hand to the `Serializer`
  (`serialize_struct(name, len)` / `SerializeStruct::serialize_field(key, _)` /
  `serialize_*_variant(name, variant_index, variant, …)` …).

  `Val` (Model/DataModel.lean) is what postcard's serializer keeps of such a
  call sequence (postcard ignores every name); `CT.erase` forgets the names,
  so `enc c.erase` are the wire bytes of the call tree `c`.

  One constructor per `serde::Serializer` method.  `collect_str` is postcard's
  override (ser/serializer.rs: count the bytes, write `varint(len)`, write the
  bytes) = the bytes of `serialize_str(&v.to_string())`, so it is `.str`.
  Maps are flat (`k₀ v₀ k₁ v₁ …`) as in `Val`.  Named fields are two parallel
  lists (`fnames[i]` is the key passed with `cs[i]`) so that all nesting goes
  through `List CT` only.

  Also here: `ctSchema`, the call tree of a schema VALUE (`DataModelType` /
  `OwnedDataModelType`, serde-derive output incl. names), the decorated
  version of `serBorrowed` / `serOwned` of Model/SchemaSer.lean.
-/
namespace Postcard

inductive CT
  | bool (b : Bool)
  | u (w : IntW) (n : Nat)
  | i (w : IntW) (x : Int)
  | f32 (bits : Nat)
  | f64 (bits : Nat)
  | char (c : Nat)
  | str (utf8 : List Byte)
  | bytes (bs : List Byte)
  | none
  | some (c : CT)
  | unit
  | unitStruct (name : Name)
  | unitVariant (ename : Name) (idx : Nat) (vname : Name)
  | newtypeStruct (name : Name) (c : CT)
  | newtypeVariant (ename : Name) (idx : Nat) (vname : Name) (c : CT)
  | seq (cs : List CT)
  | tuple (cs : List CT)
  | tupleStruct (name : Name) (cs : List CT)
  | tupleVariant (ename : Name) (idx : Nat) (vname : Name) (cs : List CT)
  | map (kvs : List CT)
  | struct (name : Name) (fnames : List Name) (cs : List CT)
  | structVariant (ename : Name) (idx : Nat) (vname : Name) (fnames : List Name) (cs : List CT)
  deriving Repr, Inhabited

mutual
/-- forget the names: what postcard's `Serializer` sees. -/
def CT.erase : CT → Val
  | .bool b => .bool b
  | .u w n => .u w n
  | .i w x => .i w x
  | .f32 b => .f32 b
  | .f64 b => .f64 b
  | .char c => .char c
  | .str s => .str s
  | .bytes b => .bytes b
  | .none => .none
  | .some c => .some c.erase
  | .unit => .unit
  | .unitStruct _ => .unitStruct
  | .unitVariant _ idx _ => .unitVariant idx
  | .newtypeStruct _ c => .newtypeStruct c.erase
  | .newtypeVariant _ idx _ c => .newtypeVariant idx c.erase
  | .seq cs => .seq (CT.eraseList cs)
  | .tuple cs => .tuple (CT.eraseList cs)
  | .tupleStruct _ cs => .tupleStruct (CT.eraseList cs)
  | .tupleVariant _ idx _ cs => .tupleVariant idx (CT.eraseList cs)
  | .map kvs => .map (CT.eraseList kvs)
  | .struct _ _ cs => .struct (CT.eraseList cs)
  | .structVariant _ idx _ _ cs => .structVariant idx (CT.eraseList cs)
def CT.eraseList : List CT → List Val
  | [] => []
  | c :: cs => c.erase :: CT.eraseList cs
end

/-! ## What a Rust value can be (type-free part of `hasTy`) -/

mutual
/-- integers in range of their width, float bit patterns of the right size,
`char` a Unicode scalar value, `str` valid UTF-8, every length representable
as a 64-bit `usize`, every variant index a `u32`. -/
def Val.wfVal : Val → Bool
  | .bool _ => true
  | .u w n => decide (n < 2 ^ w.bits)
  | .i w x => w.inRangeI x
  | .f32 b => decide (b < 2 ^ 32)
  | .f64 b => decide (b < 2 ^ 64)
  | .char c => isScalar c
  | .str s => utf8Valid s && decide (s.length < 2 ^ 64)
  | .bytes b => decide (b.length < 2 ^ 64)
  | .none => true
  | .some v => v.wfVal
  | .unit => true
  | .unitStruct => true
  | .unitVariant idx => decide (idx < 2 ^ 32)
  | .newtypeStruct v => v.wfVal
  | .newtypeVariant idx v => decide (idx < 2 ^ 32) && v.wfVal
  | .seq vs => decide (vs.length < 2 ^ 64) && Val.wfValList vs
  | .tuple vs => Val.wfValList vs
  | .tupleStruct vs => Val.wfValList vs
  | .tupleVariant idx vs => decide (idx < 2 ^ 32) && Val.wfValList vs
  | .map kvs => decide (kvs.length / 2 < 2 ^ 64) && Val.wfValList kvs
  | .struct vs => Val.wfValList vs
  | .structVariant idx vs => decide (idx < 2 ^ 32) && Val.wfValList vs
def Val.wfValList : List Val → Bool
  | [] => true
  | v :: vs => v.wfVal && Val.wfValList vs
end

/-- the same for a call tree (names carry no such constraint for the wire). -/
def CT.wfVal (c : CT) : Bool := c.erase.wfVal

/-! ## Call tree of a schema value -/

/-- variant identifiers of `enum DataModelType` / `enum OwnedDataModelType`
(schema/mod.rs, schema/owned.rs: the two declarations use the same
identifiers). -/
def kindName : SchemaKind → Name
  | .bool => ascii "Bool"
  | .i8 => ascii "I8"
  | .u8 => ascii "U8"
  | .i16 => ascii "I16"
  | .i32 => ascii "I32"
  | .i64 => ascii "I64"
  | .i128 => ascii "I128"
  | .u16 => ascii "U16"
  | .u32 => ascii "U32"
  | .u64 => ascii "U64"
  | .u128 => ascii "U128"
  | .usize => ascii "Usize"
  | .isize => ascii "Isize"
  | .f32 => ascii "F32"
  | .f64 => ascii "F64"
  | .char => ascii "Char"
  | .string => ascii "String"
  | .byteArray => ascii "ByteArray"
  | .option => ascii "Option"
  | .unit => ascii "Unit"
  | .seq => ascii "Seq"
  | .tuple => ascii "Tuple"
  | .map => ascii "Map"
  | .struct => ascii "Struct"
  | .enum => ascii "Enum"
  | .schema => ascii "Schema"

/-- variant identifiers of `enum Data` / `enum OwnedData`. -/
def dataKindName : DataKind → Name
  | .unit => ascii "Unit"
  | .newtype => ascii "Newtype"
  | .tuple => ascii "Tuple"
  | .struct => ascii "Struct"

/-- the four type names of one family: `owned = false` is schema/mod.rs,
`owned = true` is schema/owned.rs. -/
def dmtName (owned : Bool) : Name :=
  if owned then ascii "OwnedDataModelType" else ascii "DataModelType"
def dataName (owned : Bool) : Name := if owned then ascii "OwnedData" else ascii "Data"
def fieldName (owned : Bool) : Name :=
  if owned then ascii "OwnedNamedField" else ascii "NamedField"
def variantName (owned : Bool) : Name := if owned then ascii "OwnedVariant" else ascii "Variant"

/-- variant index table of one family. -/
def idxOf (owned : Bool) (k : SchemaKind) : Nat := if owned then idxOwned k else idxBorrowed k
def dataIdxOf (owned : Bool) (k : DataKind) : Nat :=
  if owned then dataIdxOwned k else dataIdxBorrowed k

mutual
/-- serde-derive output for `DataModelType` (`o = false`) / `OwnedDataModelType`
(`o = true`): as `serBorrowed` / `serOwned`, with the names. -/
def ctSchema (o : Bool) : Schema → CT
  | .bool => .unitVariant (dmtName o) (idxOf o .bool) (kindName .bool)
  | .i8 => .unitVariant (dmtName o) (idxOf o .i8) (kindName .i8)
  | .u8 => .unitVariant (dmtName o) (idxOf o .u8) (kindName .u8)
  | .i16 => .unitVariant (dmtName o) (idxOf o .i16) (kindName .i16)
  | .i32 => .unitVariant (dmtName o) (idxOf o .i32) (kindName .i32)
  | .i64 => .unitVariant (dmtName o) (idxOf o .i64) (kindName .i64)
  | .i128 => .unitVariant (dmtName o) (idxOf o .i128) (kindName .i128)
  | .u16 => .unitVariant (dmtName o) (idxOf o .u16) (kindName .u16)
  | .u32 => .unitVariant (dmtName o) (idxOf o .u32) (kindName .u32)
  | .u64 => .unitVariant (dmtName o) (idxOf o .u64) (kindName .u64)
  | .u128 => .unitVariant (dmtName o) (idxOf o .u128) (kindName .u128)
  | .usize => .unitVariant (dmtName o) (idxOf o .usize) (kindName .usize)
  | .isize => .unitVariant (dmtName o) (idxOf o .isize) (kindName .isize)
  | .f32 => .unitVariant (dmtName o) (idxOf o .f32) (kindName .f32)
  | .f64 => .unitVariant (dmtName o) (idxOf o .f64) (kindName .f64)
  | .char => .unitVariant (dmtName o) (idxOf o .char) (kindName .char)
  | .string => .unitVariant (dmtName o) (idxOf o .string) (kindName .string)
  | .byteArray => .unitVariant (dmtName o) (idxOf o .byteArray) (kindName .byteArray)
  | .option t => .newtypeVariant (dmtName o) (idxOf o .option) (kindName .option) (ctSchema o t)
  | .unit => .unitVariant (dmtName o) (idxOf o .unit) (kindName .unit)
  | .seq t => .newtypeVariant (dmtName o) (idxOf o .seq) (kindName .seq) (ctSchema o t)
  | .tuple ts =>
    .newtypeVariant (dmtName o) (idxOf o .tuple) (kindName .tuple) (.seq (ctSchemaList o ts))
  | .map k v =>
    .structVariant (dmtName o) (idxOf o .map) (kindName .map) [ascii "key", ascii "val"]
      [ctSchema o k, ctSchema o v]
  | .struct n d =>
    .structVariant (dmtName o) (idxOf o .struct) (kindName .struct) [ascii "name", ascii "data"]
      [.str n, ctSchemaData o d]
  | .enum n vs =>
    .structVariant (dmtName o) (idxOf o .enum) (kindName .enum) [ascii "name", ascii "variants"]
      [.str n, .seq (ctSchemaVariants o vs)]
  | .schema => .unitVariant (dmtName o) (idxOf o .schema) (kindName .schema)
termination_by structural s => s
def ctSchemaList (o : Bool) : List Schema → List CT
  | [] => []
  | t :: ts => ctSchema o t :: ctSchemaList o ts
termination_by structural ts => ts
/-- serde-derive output for `Data` / `OwnedData`. -/
def ctSchemaData (o : Bool) : SData → CT
  | .unit => .unitVariant (dataName o) (dataIdxOf o .unit) (dataKindName .unit)
  | .newtype t =>
    .newtypeVariant (dataName o) (dataIdxOf o .newtype) (dataKindName .newtype) (ctSchema o t)
  | .tuple ts =>
    .newtypeVariant (dataName o) (dataIdxOf o .tuple) (dataKindName .tuple)
      (.seq (ctSchemaList o ts))
  | .struct fs =>
    .newtypeVariant (dataName o) (dataIdxOf o .struct) (dataKindName .struct)
      (.seq (ctSchemaFields o fs))
termination_by structural d => d
/-- elements: `NamedField` / `OwnedNamedField` = `struct { name, ty }`. -/
def ctSchemaFields (o : Bool) : List SField → List CT
  | [] => []
  | .mk n t :: fs =>
    .struct (fieldName o) [ascii "name", ascii "ty"] [.str n, ctSchema o t] :: ctSchemaFields o fs
termination_by structural fs => fs
/-- elements: `Variant` / `OwnedVariant` = `struct { name, data }`. -/
def ctSchemaVariants (o : Bool) : List SVariant → List CT
  | [] => []
  | .mk n d :: vs =>
    .struct (variantName o) [ascii "name", ascii "data"] [.str n, ctSchemaData o d]
      :: ctSchemaVariants o vs
termination_by structural vs => vs
end

end Postcard
