import Postcard.Model.Sexp
import Postcard.Model.MaxSize
/-
  Postcard.Model.SexpMTy — line-protocol codec for the MaxSize type grammar
  (driver side; trusted glue). Mirrors harness/src/ops_maxsize.rs.
-/
namespace Postcard

def intOfName (s : String) : Option (Bool × IntW) :=
  match s.toList with
  | 'u' :: w => (IntW.ofSuffix (String.ofList w)).map (fun w => (false, w))
  | 'i' :: w => (IntW.ofSuffix (String.ofList w)).map (fun w => (true, w))
  | _ => none

mutual
partial def mtyOfSexp : Sexp → Option MTy
  | .atom "bool" => some .bool
  | .atom "usize" => some .usize
  | .atom "isize" => some .isize
  | .atom "nzusize" => some .nonZeroUsize
  | .atom "nzisize" => some .nonZeroIsize
  | .atom "f32" => some .f32
  | .atom "f64" => some .f64
  | .atom "char" => some .char
  | .atom "unit" => some .unit
  | .atom "phantom" => some .phantom
  | .atom a => (intOfName a).map (fun p => .int p.1 p.2)
  | .list [.atom "nz", .atom a] => (intOfName a).map (fun p => .nonZero p.1 p.2)
  | .list [.atom "option", t] => (mtyOfSexp t).map .option
  | .list [.atom "result", t, e] =>
    match mtyOfSexp t, mtyOfSexp e with | some t, some e => some (.result t e) | _, _ => none
  | .list [.atom "array", t, .atom n] =>
    match mtyOfSexp t, n.toNat? with | some t, some n => some (.array t n) | _, _ => none
  | .list (.atom "tuple" :: ts) => (mtysOfSexp ts).map .tuple
  | .list [.atom "range", t] => (mtyOfSexp t).map .range
  | .list [.atom "rangeinc", t] => (mtyOfSexp t).map .rangeInclusive
  | .list [.atom "rangefrom", t] => (mtyOfSexp t).map .rangeFrom
  | .list [.atom "rangeto", t] => (mtyOfSexp t).map .rangeTo
  | .list [.atom "ref", t] => (mtyOfSexp t).map .ref
  | .list [.atom "hvec", t, .atom n] =>
    match mtyOfSexp t, n.toNat? with | some t, some n => some (.hvec t n) | _, _ => none
  | .list [.atom "hstring", .atom n] => n.toNat?.map .hstring
  | .list [.atom "dstruct", f] => (dfieldsOfSexp f).map .dstruct
  | .list (.atom "denum" :: vs) => (dfieldsListOfSexp vs).map .denum
  | _ => none
partial def mtysOfSexp : List Sexp → Option (List MTy)
  | [] => some []
  | x :: xs => match mtyOfSexp x, mtysOfSexp xs with
    | some v, some vs => some (v :: vs) | _, _ => none
partial def dfieldsOfSexp : Sexp → Option DFields
  | .atom "unit" => some .unit
  | .list (.atom "unnamed" :: ts) => (mtysOfSexp ts).map .unnamed
  | .list (.atom "named" :: ts) => (mtysOfSexp ts).map .named
  | _ => none
partial def dfieldsListOfSexp : List Sexp → Option (List DFields)
  | [] => some []
  | x :: xs => match dfieldsOfSexp x, dfieldsListOfSexp xs with
    | some v, some vs => some (v :: vs) | _, _ => none
end

end Postcard
