/-
  Postcard.Model.SizeHint — the pre-allocation logic a collection visitor runs
  before it pulls the first element.  Core Lean only.

  mirrors source/postcard/src/de/deserializer.rs::SeqAccess::size_hint
    `match self.deserializer.flavor.size_hint() {
        Some(size) if size < self.len => None, _ => Some(self.len) }`
  with source/postcard/src/de/flavors.rs::Slice::size_hint = `Some(self.end - self.cursor)`
  (the number of remaining input bytes), MapAccess::size_hint = `Some(self.len)`,
  and serde_core/src/private/size_hint.rs::cautious::<Element>
    `if size_of::<Element>() == 0 { 0 }
     else { min(hint.unwrap_or(0), MAX_PREALLOC_BYTES / size_of::<Element>()) }`
  with `MAX_PREALLOC_BYTES = 1024 * 1024`, which is what `Vec<T>`, `VecDeque<T>`,
  `HashMap<K, V>`, … visitors pass to `with_capacity`.
  MODELLED, NOT VERIFIED: `cautious` is external (serde) behaviour.
-/
namespace Postcard

/-- serde's `MAX_PREALLOC_BYTES`. -/
def maxPreallocBytes : Nat := 1048576

/-- `SeqAccess::size_hint` over the `Slice` flavour: `remaining` = input bytes
not yet consumed, `len` = the element count the input claims. -/
def seqSizeHint (remaining len : Nat) : Option Nat :=
  if remaining < len then none else some len

/-- the same for an arbitrary flavour whose own `size_hint()` is `flavorHint`
(the trait default is `None`: then the claimed length is passed on unchecked). -/
def seqSizeHintF (flavorHint : Option Nat) (len : Nat) : Option Nat :=
  match flavorHint with
  | some size => if size < len then none else some len
  | none => some len

/-- `MapAccess::size_hint`: the claimed pair count, unconditionally. -/
def mapSizeHint (len : Nat) : Option Nat := some len

/-- serde `size_hint::cautious::<Element>(hint)`, `elemSize = size_of::<Element>()`. -/
def cautious (elemSize : Nat) (hint : Option Nat) : Nat :=
  if elemSize = 0 then 0 else min (hint.getD 0) (1048576 / elemSize)

end Postcard
