import Postcard.Model.Varint
import Postcard.Model.DataModel
/-
  Postcard.Model.De — mirrors source/postcard/src/de/deserializer.rs over the
  `Slice` flavour (`pop` = head of the list or UnexpectedEnd, `try_take_n` =
  split or UnexpectedEnd; index-level model of the pointer arithmetic is in
  Model/DeFlavor.lean).  One clause per `deserialize_*` method; the visitor side
  (what serde / serde-derive generated code does with the access objects) is
  MODELLED: a seq visitor pulls elements until `None`, tuple/struct visitors
  pull exactly their arity, a derived enum maps the u32 index to a variant or
  fails with a custom error.
-/
namespace Postcard

/-- mirrors `Slice::try_take_n`. -/
def takeN (n : Nat) (bs : List Byte) : R (List Byte × List Byte) :=
  if bs.length < n then .error .unexpectedEnd else .ok (bs.take n, bs.drop n)

/-- `SeqAccess` with `len = n` driven by a visitor that pulls until `None`. -/
def decN (f : List Byte → R (Val × List Byte)) : Nat → List Byte → R (List Val × List Byte)
  | 0, bs => .ok ([], bs)
  | n+1, bs =>
    match f bs with
    | .error e => .error e
    | .ok (v, r) =>
      match decN f n r with
      | .error e => .error e
      | .ok (vs, r') => .ok (v :: vs, r')

/-- `MapAccess` with `len = n`: key then value, n times (flat result). -/
def decKV (fk fv : List Byte → R (Val × List Byte)) : Nat → List Byte → R (List Val × List Byte)
  | 0, bs => .ok ([], bs)
  | n+1, bs =>
    match fk bs with
    | .error e => .error e
    | .ok (k, r) =>
      match fv r with
      | .error e => .error e
      | .ok (v, r') =>
        match decKV fk fv n r' with
        | .error e => .error e
        | .ok (kvs, r'') => .ok (k :: v :: kvs, r'')

/-- signed reinterpretation (`as i8`). -/
def ofBits (bits : Nat) (n : Nat) : Int :=
  if n < 2 ^ (bits - 1) then (n : Int) else (n : Int) - (2 ^ bits : Int)

/-- mirrors `deserialize_char` (after the fix that rejects trailing scalars):
`sz = varint_usize; if sz > 4 {BadChar}; bytes = try_take_n(sz);
 from_utf8(bytes) else BadChar; exactly one char else BadChar`. -/
def decChar (bs : List Byte) : R (Val × List Byte) :=
  match decVarint 64 bs with
  | .error e => .error e
  | .ok (sz, r) =>
    if sz > 4 then .error .badChar else
    match takeN sz r with
    | .error e => .error e
    | .ok (s, r') =>
      if utf8Valid s then
        match utf8Next s with
        | some (c, []) => .ok (.char c, r')
        | _ => .error .badChar
      else .error .badChar

mutual
def dec : Ty → List Byte → R (Val × List Byte)
  | .bool, bs =>
    match bs with
    | [] => .error .unexpectedEnd
    | b :: r => if b = 0 then .ok (.bool false, r) else if b = 1 then .ok (.bool true, r)
                else .error .badBool
  | .u .w8, bs =>
    match bs with
    | [] => .error .unexpectedEnd
    | b :: r => .ok (.u .w8 b.toNat, r)
  | .u w, bs =>
    match decVarint w.bits bs with
    | .error e => .error e
    | .ok (n, r) => .ok (.u w n, r)
  | .i .w8, bs =>
    match bs with
    | [] => .error .unexpectedEnd
    | b :: r => .ok (.i .w8 (ofBits 8 b.toNat), r)
  | .i w, bs =>
    match decVarint w.bits bs with
    | .error e => .error e
    | .ok (n, r) => .ok (.i w (unzigzag n), r)
  | .f32, bs =>
    match takeN 4 bs with
    | .error e => .error e
    | .ok (b, r) => .ok (.f32 (ofLeBytes b), r)
  | .f64, bs =>
    match takeN 8 bs with
    | .error e => .error e
    | .ok (b, r) => .ok (.f64 (ofLeBytes b), r)
  | .char, bs => decChar bs
  | .str, bs =>
    match decVarint 64 bs with
    | .error e => .error e
    | .ok (sz, r) =>
      match takeN sz r with
      | .error e => .error e
      | .ok (s, r') => if utf8Valid s then .ok (.str s, r') else .error .badUtf8
  | .bytes, bs =>
    match decVarint 64 bs with
    | .error e => .error e
    | .ok (sz, r) =>
      match takeN sz r with
      | .error e => .error e
      | .ok (s, r') => .ok (.bytes s, r')
  | .option t, bs =>
    match bs with
    | [] => .error .unexpectedEnd
    | b :: r =>
      if b = 0 then .ok (.none, r)
      else if b = 1 then
        match dec t r with
        | .error e => .error e
        | .ok (v, r') => .ok (.some v, r')
      else .error .badOption
  | .unit, bs => .ok (.unit, bs)
  | .unitStruct, bs => .ok (.unitStruct, bs)
  | .newtypeStruct t, bs =>
    match dec t bs with
    | .error e => .error e
    | .ok (v, r) => .ok (.newtypeStruct v, r)
  | .seq t, bs =>
    match decVarint 64 bs with
    | .error e => .error e
    | .ok (n, r) =>
      match decN (dec t) n r with
      | .error e => .error e
      | .ok (vs, r') => .ok (.seq vs, r')
  | .tuple ts, bs =>
    match decTuple ts bs with
    | .error e => .error e
    | .ok (vs, r) => .ok (.tuple vs, r)
  | .tupleStruct ts, bs =>
    match decTuple ts bs with
    | .error e => .error e
    | .ok (vs, r) => .ok (.tupleStruct vs, r)
  | .struct ts, bs =>
    match decTuple ts bs with
    | .error e => .error e
    | .ok (vs, r) => .ok (.struct vs, r)
  | .map k v, bs =>
    match decVarint 64 bs with
    | .error e => .error e
    | .ok (n, r) =>
      match decKV (dec k) (dec v) n r with
      | .error e => .error e
      | .ok (kvs, r') => .ok (.map kvs, r')
  | .enum vts, bs =>
    match decVarint 32 bs with
    | .error e => .error e
    | .ok (idx, r) => decVariant vts idx idx r
  | .any, _ => .error .wontImplement
  | .identifier, _ => .error .wontImplement
  | .ignoredAny, _ => .error .wontImplement
/-- tuple / struct visitors: pull exactly the arity, in order. -/
def decTuple : List Ty → List Byte → R (List Val × List Byte)
  | [], bs => .ok ([], bs)
  | t :: ts, bs =>
    match dec t bs with
    | .error e => .error e
    | .ok (v, r) =>
      match decTuple ts r with
      | .error e => .error e
      | .ok (vs, r') => .ok (v :: vs, r')
/-- derived enum visitor: walk to variant `k`; `idx` is the original index. -/
def decVariant : List Ty → Nat → Nat → List Byte → R (Val × List Byte)
  | [], _, _, _ => .error .custom            -- index out of range: serde `invalid_value`
  | vt :: _, 0, idx, bs =>
    match vt with
    | .unit => .ok (.unitVariant idx, bs)
    | .newtypeStruct t =>
      match dec t bs with
      | .error e => .error e
      | .ok (v, r) => .ok (.newtypeVariant idx v, r)
    | .tuple ts =>
      match decTuple ts bs with
      | .error e => .error e
      | .ok (vs, r) => .ok (.tupleVariant idx vs, r)
    | .struct ts =>
      match decTuple ts bs with
      | .error e => .error e
      | .ok (vs, r) => .ok (.structVariant idx vs, r)
    | _ => .error .custom                    -- ill-formed variant descriptor (never generated)
  | _ :: rest, k+1, idx, bs => decVariant rest k idx bs
end

end Postcard
