import Postcard.Model.Basic
/-
  Postcard.Model.Varint — mirrors source/postcard/src/varint.rs (writers),
  source/postcard/src/de/deserializer.rs::try_take_varint_* (readers) and the
  zig-zag helpers at the bottom of ser/serializer.rs and de/deserializer.rs.

  The five Rust writers (`varint_u16/u32/u64/u128/usize`) and four readers are
  textually identical up to the integer type; the model is one function
  parameterised by the bit width `bits ∈ {16,32,64,128}` (usize = 64 on the
  host the checks run on).
-/
namespace Postcard

/-- mirrors `varint_max::<T>()`: ceil(bits/7). -/
def varintMax (bits : Nat) : Nat := (bits + (7 - 1)) / 7

/-- mirrors `max_of_last_byte::<T>()`: `(1 << (bits % 7)) - 1`. -/
def maxOfLastByte (bits : Nat) : Nat := (1 <<< (bits % 7)) - 1

/-- mirrors the `for i in 0..varint_max` loop of `varint_uN`:
`out[i] = value.to_le_bytes()[0]; if value < 128 {return out[..=i]}; out[i] |= 0x80; value >>= 7`.
`fuel` = remaining iterations.  When the loop runs out the Rust code returns
the whole buffer (`&mut out[..]`), i.e. all bytes written so far. -/
def encVarintLoop : Nat → Nat → List Byte
  | 0, _ => []
  | fuel+1, value =>
    if value < 128 then [UInt8.ofNat (value % 256)]
    else UInt8.ofNat ((value % 256) ||| 0x80) :: encVarintLoop fuel (value >>> 7)

def encVarint (bits : Nat) (n : Nat) : List Byte := encVarintLoop (varintMax bits) n

/-- mirrors `try_take_varint_uN`:
`for i in 0..varint_max { val = pop()?; carry = val & 0x7F; out |= carry << (7*i);
 if val & 0x80 == 0 { if i == varint_max-1 && val > max_of_last_byte {Err(BadVarint)} else {Ok(out)} } } Err(BadVarint)`.
The Rust shift is performed in the target width and would drop high bits of
`carry << 7*i` on the last iteration; that is unobservable because every `Ok`
result satisfies `out < 2^bits` (theorem `decVarint_lt` in Lemmas/Varint). -/
def decVarintLoop (bits : Nat) : Nat → Nat → Nat → List Byte → R (Nat × List Byte)
  | 0, _, _, _ => .error .badVarint
  | _+1, _, _, [] => .error .unexpectedEnd
  | fuel+1, i, out, val :: rest =>
    let carry := val.toNat &&& 0x7F
    let out := out ||| (carry <<< (7 * i))
    if val.toNat &&& 0x80 = 0 then
      if i = varintMax bits - 1 ∧ val.toNat > maxOfLastByte bits then .error .badVarint
      else .ok (out, rest)
    else decVarintLoop bits fuel (i+1) out rest

def decVarint (bits : Nat) (bs : List Byte) : R (Nat × List Byte) :=
  decVarintLoop bits (varintMax bits) 0 0 bs

/-- mirrors `zig_zag_iN(n) = ((n << 1) ^ (n >> (N-1))) as uN` on two's
complement: `n >> (N-1)` is 0 for `n ≥ 0` and all-ones for `n < 0`; xor with
all-ones is bitwise complement within the width, i.e. `2^N - 1 - y`. -/
def zigzag (bits : Nat) (x : Int) : Nat :=
  let y := ((2 * x) % (2 ^ bits : Int)).toNat      -- (n << 1) truncated to the width
  if x < 0 then 2 ^ bits - 1 - y else y

/-- mirrors `de_zig_zag_iN(n) = ((n >> 1) as iN) ^ (-((n & 1) as iN))`:
xor with 0 or with −1 (complement, `-(m) - 1`). -/
def unzigzag (n : Nat) : Int :=
  if n % 2 = 1 then -((n / 2 : Nat) : Int) - 1 else ((n / 2 : Nat) : Int)

end Postcard
