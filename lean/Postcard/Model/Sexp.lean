import Postcard.Model.DataModel
/-
  Postcard.Model.Sexp — the line protocol's s-expression codec (driver side).
  Grammar: see DESIGN.md §14.  Byte strings are `x<hex>` (never empty tokens).
  Trusted glue (not part of any theorem).
-/
namespace Postcard

inductive Sexp
  | atom (s : String)
  | list (xs : List Sexp)
  deriving Repr, Inhabited

namespace Sexp

def tokenize (s : String) : List String := Id.run do
  let mut toks : Array String := #[]
  let mut cur : String := ""
  for c in s.toList do
    if c == '(' || c == ')' then
      if cur != "" then toks := toks.push cur; cur := ""
      toks := toks.push (String.singleton c)
    else if c == ' ' || c == '\n' || c == '\r' || c == '\t' then
      if cur != "" then toks := toks.push cur; cur := ""
    else cur := cur.push c
  if cur != "" then toks := toks.push cur
  return toks.toList

/-- parse a sequence of s-expressions up to a closing paren; fuel = token count -/
def parseList : Nat → List String → List Sexp → Option (List Sexp × List String)
  | 0, _, _ => none
  | _+1, [], acc => some (acc.reverse, [])
  | fuel+1, t :: ts, acc =>
    if t == ")" then some (acc.reverse, ts)
    else if t == "(" then
      match parseList fuel ts [] with
      | some (xs, rest) => parseList fuel rest (.list xs :: acc)
      | none => none
    else parseList fuel ts (.atom t :: acc)

/-- parse a whole line into top-level s-expressions -/
def parseLine (s : String) : Option (List Sexp) :=
  let toks := tokenize s
  match parseList (toks.length + 1) toks [] with
  | some (xs, []) => some xs
  | _ => none

end Sexp

def hexDigit (n : Nat) : Char :=
  if n < 10 then Char.ofNat (48 + n) else Char.ofNat (87 + n)

def hexOfBytes (bs : List Byte) : String :=
  String.ofList ('x' :: bs.flatMap (fun b => [hexDigit (b.toNat / 16), hexDigit (b.toNat % 16)]))

def hexVal (c : Char) : Option Nat :=
  if '0' ≤ c ∧ c ≤ '9' then some (c.toNat - 48)
  else if 'a' ≤ c ∧ c ≤ 'f' then some (c.toNat - 87)
  else if 'A' ≤ c ∧ c ≤ 'F' then some (c.toNat - 55)
  else none

def bytesOfHexChars : List Char → Option (List Byte)
  | [] => some []
  | [_] => none
  | a :: b :: rest =>
    match hexVal a, hexVal b, bytesOfHexChars rest with
    | some x, some y, some r => some (UInt8.ofNat (x * 16 + y) :: r)
    | _, _, _ => none

def bytesOfHex (s : String) : Option (List Byte) :=
  match s.toList with
  | 'x' :: cs => bytesOfHexChars cs
  | _ => none

def natOfHexChars (cs : List Char) : Option Nat :=
  cs.foldl (fun acc c => match acc, hexVal c with
    | some a, some d => some (a * 16 + d) | _, _ => none) (some 0)

def hexFixed (digits : Nat) (n : Nat) : String :=
  String.ofList ((List.range digits).reverse.map (fun i => hexDigit (n / 16 ^ i % 16)))

def parseInt (s : String) : Option Int :=
  match s.toList with
  | '-' :: cs => (String.ofList cs).toNat?.map (fun n => -(n : Int))
  | _ => s.toNat?.map (fun n => (n : Int))

def IntW.ofSuffix : String → Option IntW
  | "8" => some .w8 | "16" => some .w16 | "32" => some .w32 | "64" => some .w64
  | "128" => some .w128 | _ => none

def IntW.suffix : IntW → String
  | .w8 => "8" | .w16 => "16" | .w32 => "32" | .w64 => "64" | .w128 => "128"

mutual
partial def valOfSexp : Sexp → Option Val
  | .atom "none" => some .none
  | .atom "unit" => some .unit
  | .atom "ustruct" => some .unitStruct
  | .list [.atom "bool", .atom b] => if b == "1" then some (.bool true) else if b == "0" then some (.bool false) else none
  | .list [.atom "f32", .atom h] => (natOfHexChars h.toList).map .f32
  | .list [.atom "f64", .atom h] => (natOfHexChars h.toList).map .f64
  | .list [.atom "char", .atom n] => n.toNat?.map .char
  | .list [.atom "str", .atom h] => (bytesOfHex h).map .str
  | .list [.atom "bytes", .atom h] => (bytesOfHex h).map .bytes
  | .list [.atom "some", v] => (valOfSexp v).map .some
  | .list [.atom "uvar", .atom i] => i.toNat?.map .unitVariant
  | .list [.atom "nstruct", v] => (valOfSexp v).map .newtypeStruct
  | .list [.atom "nvar", .atom i, v] =>
    match i.toNat?, valOfSexp v with | some i, some v => some (.newtypeVariant i v) | _, _ => none
  | .list (.atom "seq" :: vs) => (valsOfSexp vs).map .seq
  | .list (.atom "tuple" :: vs) => (valsOfSexp vs).map .tuple
  | .list (.atom "tstruct" :: vs) => (valsOfSexp vs).map .tupleStruct
  | .list (.atom "map" :: vs) => (valsOfSexp vs).map .map
  | .list (.atom "struct" :: vs) => (valsOfSexp vs).map .struct
  | .list (.atom "tvar" :: .atom i :: vs) =>
    match i.toNat?, valsOfSexp vs with | some i, some vs => some (.tupleVariant i vs) | _, _ => none
  | .list (.atom "svar" :: .atom i :: vs) =>
    match i.toNat?, valsOfSexp vs with | some i, some vs => some (.structVariant i vs) | _, _ => none
  | .list [.atom k, .atom n] =>
    match k.toList with
    | 'u' :: w => match IntW.ofSuffix (String.ofList w), n.toNat? with
      | some w, some n => some (.u w n) | _, _ => none
    | 'i' :: w => match IntW.ofSuffix (String.ofList w), parseInt n with
      | some w, some x => some (.i w x) | _, _ => none
    | _ => none
  | _ => none
partial def valsOfSexp : List Sexp → Option (List Val)
  | [] => some []
  | x :: xs => match valOfSexp x, valsOfSexp xs with
    | some v, some vs => some (v :: vs) | _, _ => none
end

mutual
partial def valToStr : Val → String
  | .bool b => if b then "(bool 1)" else "(bool 0)"
  | .u w n => s!"(u{w.suffix} {n})"
  | .i w x => s!"(i{w.suffix} {x})"
  | .f32 b => s!"(f32 {hexFixed 8 b})"
  | .f64 b => s!"(f64 {hexFixed 16 b})"
  | .char c => s!"(char {c})"
  | .str s => s!"(str {hexOfBytes s})"
  | .bytes s => s!"(bytes {hexOfBytes s})"
  | .none => "none"
  | .some v => s!"(some {valToStr v})"
  | .unit => "unit"
  | .unitStruct => "ustruct"
  | .unitVariant i => s!"(uvar {i})"
  | .newtypeStruct v => s!"(nstruct {valToStr v})"
  | .newtypeVariant i v => s!"(nvar {i} {valToStr v})"
  | .seq vs => s!"(seq{valsToStr vs})"
  | .tuple vs => s!"(tuple{valsToStr vs})"
  | .tupleStruct vs => s!"(tstruct{valsToStr vs})"
  | .tupleVariant i vs => s!"(tvar {i}{valsToStr vs})"
  | .map vs => s!"(map{valsToStr vs})"
  | .struct vs => s!"(struct{valsToStr vs})"
  | .structVariant i vs => s!"(svar {i}{valsToStr vs})"
partial def valsToStr : List Val → String
  | [] => ""
  | v :: vs => " " ++ valToStr v ++ valsToStr vs
end

mutual
partial def tyOfSexp : Sexp → Option Ty
  | .atom "bool" => some .bool
  | .atom "f32" => some .f32
  | .atom "f64" => some .f64
  | .atom "char" => some .char
  | .atom "str" => some .str
  | .atom "bytes" => some .bytes
  | .atom "unit" => some .unit
  | .atom "ustruct" => some .unitStruct
  | .atom "any" => some .any
  | .atom "identifier" => some .identifier
  | .atom "ignored" => some .ignoredAny
  | .atom k =>
    match k.toList with
    | 'u' :: w => (IntW.ofSuffix (String.ofList w)).map .u
    | 'i' :: w => (IntW.ofSuffix (String.ofList w)).map .i
    | _ => none
  | .list [.atom "option", t] => (tyOfSexp t).map .option
  | .list [.atom "nstruct", t] => (tyOfSexp t).map .newtypeStruct
  | .list [.atom "seq", t] => (tyOfSexp t).map .seq
  | .list [.atom "map", k, v] =>
    match tyOfSexp k, tyOfSexp v with | some k, some v => some (.map k v) | _, _ => none
  | .list (.atom "tuple" :: ts) => (tysOfSexp ts).map .tuple
  | .list (.atom "tstruct" :: ts) => (tysOfSexp ts).map .tupleStruct
  | .list (.atom "struct" :: ts) => (tysOfSexp ts).map .struct
  | .list (.atom "enum" :: ts) => (tysOfSexp ts).map .enum
  | _ => none
partial def tysOfSexp : List Sexp → Option (List Ty)
  | [] => some []
  | x :: xs => match tyOfSexp x, tysOfSexp xs with
    | some v, some vs => some (v :: vs) | _, _ => none
end

end Postcard
