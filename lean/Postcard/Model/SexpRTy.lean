import Postcard.Model.Sexp
import Postcard.Model.SchemaImpls
/-
  Postcard.Model.SexpRTy — line-protocol codec for the grammar of Rust types with
  a Schema impl (driver side; trusted glue). Mirrors harness/src/ops_c14.rs /
  gen_programs.py.  Identifiers are written as ASCII atoms, `r#name` = raw.
-/
namespace Postcard

def identOfAtom (s : String) : Ident :=
  match s.toList with
  | 'r' :: '#' :: rest => ⟨true, ascii (String.ofList rest)⟩
  | _ => ⟨false, ascii s⟩

mutual
partial def rtyOfSexp : Sexp → Option RTy
  | .atom "bool" => some .bool | .atom "f32" => some .f32 | .atom "f64" => some .f64
  | .atom "char" => some .char | .atom "str" => some .str | .atom "unit" => some .unit
  | .atom "string" => some .string | .atom "pathbuf" => some .pathBuf | .atom "uuid" => some .uuid
  | .atom "datetime" => some .dateTime | .atom "key" => some .key
  | .atom "dmt" => some .dataModelType | .atom "odmt" => some .ownedDataModelType
  | .atom a =>
    match a.toList with
    | 'u' :: w => (IntW.ofSuffix (String.ofList w)).map .uint
    | 'i' :: w => (IntW.ofSuffix (String.ofList w)).map .sint
    | _ => none
  | .list [.atom "nzu", .atom w] => (IntW.ofSuffix w).map .nonZeroU
  | .list [.atom "nzi", .atom w] => (IntW.ofSuffix w).map .nonZeroI
  | .list (.atom "tuple" :: ts) => (rtysOfSexp ts).map .tuple
  | .list [.atom "option", t] => (rtyOfSexp t).map .option
  | .list [.atom "result", t, e] => match rtyOfSexp t, rtyOfSexp e with | some t, some e => some (.result t e) | _, _ => none
  | .list [.atom "ref", t] => (rtyOfSexp t).map .ref
  | .list [.atom "slice", t] => (rtyOfSexp t).map .slice
  | .list [.atom "array", t, .atom n] => match rtyOfSexp t, n.toNat? with | some t, some n => some (.array t n) | _, _ => none
  | .list [.atom "range", t] => (rtyOfSexp t).map .range
  | .list [.atom "rangeinc", t] => (rtyOfSexp t).map .rangeInclusive
  | .list [.atom "rangefrom", t] => (rtyOfSexp t).map .rangeFrom
  | .list [.atom "rangeto", t] => (rtyOfSexp t).map .rangeTo
  | .list [.atom "vec", t] => (rtyOfSexp t).map .vec
  | .list [.atom "hashmap", k, v] => match rtyOfSexp k, rtyOfSexp v with | some k, some v => some (.hashMap k v) | _, _ => none
  | .list [.atom "btreemap", k, v] => match rtyOfSexp k, rtyOfSexp v with | some k, some v => some (.btreeMap k v) | _, _ => none
  | .list [.atom "hashset", t] => (rtyOfSexp t).map .hashSet
  | .list [.atom "btreeset", t] => (rtyOfSexp t).map .btreeSet
  | .list [.atom "hvec07", t, .atom n] => match rtyOfSexp t, n.toNat? with | some t, some n => some (.hVec07 t n) | _, _ => none
  | .list [.atom "hstring07", .atom n] => n.toNat?.map .hString07
  | .list [.atom "hvec08", t, .atom n] => match rtyOfSexp t, n.toNat? with | some t, some n => some (.hVec08 t n) | _, _ => none
  | .list [.atom "hstring08", .atom n] => n.toNat?.map .hString08
  | .list [.atom "matrix", t, .atom r, .atom c] =>
    match rtyOfSexp t, r.toNat?, c.toNat? with | some t, some r, some c => some (.matrix t r c) | _, _, _ => none
  | .list [.atom "dstruct", .atom n, f] => (dfOfSexp f).map (.dstruct (identOfAtom n))
  | .list (.atom "denum" :: .atom n :: vs) => (dvsOfSexp vs).map (.denum (identOfAtom n))
  | _ => none
partial def rtysOfSexp : List Sexp → Option (List RTy)
  | [] => some []
  | x :: xs => match rtyOfSexp x, rtysOfSexp xs with | some v, some vs => some (v :: vs) | _, _ => none
partial def dfOfSexp : Sexp → Option DeriveFields
  | .atom "unit" => some .unit
  | .list (.atom "unnamed" :: ts) => (rtysOfSexp ts).map .unnamed
  | .list (.atom "named" :: fs) => (dfieldsOfSexp' fs).map .named
  | _ => none
partial def dfieldsOfSexp' : List Sexp → Option (List DeriveField)
  | [] => some []
  | .list [.atom n, t] :: xs =>
    match rtyOfSexp t, dfieldsOfSexp' xs with | some t, some r => some (.mk (identOfAtom n) t :: r) | _, _ => none
  | _ => none
partial def dvsOfSexp : List Sexp → Option (List DeriveVariant)
  | [] => some []
  | .list [.atom n, f] :: xs =>
    match dfOfSexp f, dvsOfSexp xs with | some f, some r => some (.mk (identOfAtom n) f :: r) | _, _ => none
  | _ => none
end

end Postcard
