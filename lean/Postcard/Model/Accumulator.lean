import Postcard.Model.Basic
/-
  Postcard.Model.Accumulator — mirrors source/postcard/src/accumulator.rs:
  `CobsAccumulator<N>`, `FeedResult`, `feed`/`feed_ref`, `extend_unchecked`
  and the drain loop documented in the doc comment at the top of that file.

  * The accumulator state is `Acc := {n, buf}` where `n` is the const generic
    `N` and `buf` is the live prefix `self.buf[..self.idx]`, so
    `self.idx = buf.length`.  The dead part `self.buf[self.idx..]` is never
    read by the Rust code (every read is `&mut self.buf[..self.idx]`) and is
    not modelled.
  * Decoding is an abstract parameter `decF : List Byte → Option α` standing
    for `from_bytes_cobs::<T>(&mut self.buf[..self.idx])`, applied to the
    accumulated bytes INCLUDING the terminating zero; `none` = any `Err(_)`.
    All theorems are therefore valid for every target type `T`.
  * Every place where the Rust code could panic is an explicit check that
    yields `FeedRes.panic`, so that "never panics" is a theorem
    (`Props/C09.lean: feed_total`), not an assumption.
-/
namespace Postcard

/-- mirrors accumulator.rs::CobsAccumulator (`buf` = `self.buf[..self.idx]`,
`n` = const generic `N`). -/
structure Acc where
  n : Nat
  buf : List Byte
  deriving DecidableEq, Repr

/-- mirrors accumulator.rs::CobsAccumulator::new (`idx = 0`). -/
def Acc.new (n : Nat) : Acc := ⟨n, []⟩

/-- mirrors accumulator.rs::FeedResult, plus `panic` = the call panicked. -/
inductive FeedRes (α : Type)
  | consumed                               -- FeedResult::Consumed
  | overFull (rem : List Byte)             -- FeedResult::OverFull(rem)
  | deserError (rem : List Byte)           -- FeedResult::DeserError(rem)
  | success (data : α) (rem : List Byte)   -- FeedResult::Success { data, remaining }
  | panic                                  -- a Rust panic inside feed_ref
  deriving DecidableEq, Repr

/-- mirrors accumulator.rs::feed_ref `input.iter().position(|&i| i == 0)`. -/
def zeroPos : List Byte → Option Nat
  | [] => none
  | b :: bs =>
    if b = 0 then some 0
    else match zeroPos bs with
      | none => none
      | some k => some (k + 1)

/-- mirrors accumulator.rs::feed_ref `zero_pos` + `input.split_at(n + 1)`:
`some (take, release)` where `take` includes the zero.  (`split_at(n+1)` cannot
panic: `position` returns `n < input.len()`.) -/
def splitZero (input : List Byte) : Option (List Byte × List Byte) :=
  match zeroPos input with
  | none => none
  | some k => some (input.take (k + 1), input.drop (k + 1))

/-- mirrors accumulator.rs::extend_unchecked:
`let new_end = self.idx + input.len();
 self.buf[self.idx..new_end].copy_from_slice(input); self.idx = new_end;`
The slice index panics iff `new_end > N` (`self.idx ≤ new_end` always holds);
`none` = that panic. -/
def Acc.extendUnchecked (a : Acc) (input : List Byte) : Option Acc :=
  let newEnd := a.buf.length + input.length
  if newEnd ≤ a.n then some ⟨a.n, a.buf ++ input⟩ else none

/-- mirrors accumulator.rs::feed_ref (and `feed`, which only forwards to it),
branch by branch.  Result = (`FeedResult`, accumulator after the call). -/
def Acc.feed (decF : List Byte → Option α) (a : Acc) (input : List Byte) :
    FeedRes α × Acc :=
  -- if input.is_empty() { return FeedResult::Consumed; }
  if input.isEmpty then (.consumed, a)
  else
    -- let zero_pos = input.iter().position(|&i| i == 0);
    -- if let Some(n) = zero_pos { let (take, release) = input.split_at(n + 1);
    match splitZero input with
    | some (take, release) =>
      -- if (self.idx + take.len()) <= N {
      if a.buf.length + take.length ≤ a.n then
        -- self.extend_unchecked(take);
        match a.extendUnchecked take with
        | none => (.panic, a)
        | some a1 =>
          -- crate::from_bytes_cobs::<T>(&mut self.buf[..self.idx]):
          -- the slice `[..self.idx]` panics iff `idx > N`
          if a1.buf.length ≤ a1.n then
            -- Ok(t) => Success { data: t, remaining: release },
            -- Err(_) => DeserError(release);   self.idx = 0;
            match decF a1.buf with
            | some t => (.success t release, ⟨a.n, []⟩)
            | none => (.deserError release, ⟨a.n, []⟩)
          else (.panic, a1)
      else
        -- } else { self.idx = 0; FeedResult::OverFull(release) }
        (.overFull release, ⟨a.n, []⟩)
    | none =>
      -- if (self.idx + input.len()) > N {
      if a.buf.length + input.length > a.n then
        -- let new_start = N - self.idx;   (underflows iff idx > N: a panic in
        -- debug builds; in release builds it wraps to a value > input.len()
        -- and the slice below panics)
        if a.n < a.buf.length then (.panic, a)
        else
          let newStart := a.n - a.buf.length
          -- self.idx = 0; FeedResult::OverFull(&input[new_start..])
          -- (`&input[new_start..]` panics iff `new_start > input.len()`)
          if newStart ≤ input.length then (.overFull (input.drop newStart), ⟨a.n, []⟩)
          else (.panic, ⟨a.n, []⟩)
      else
        -- } else { self.extend_unchecked(input); FeedResult::Consumed }
        match a.extendUnchecked input with
        | none => (.panic, a)
        | some a1 => (.consumed, a1)

/-- The window the documented loop continues with (`none` = the loop stops).
mirrors accumulator.rs::(doc example) the four arms of
`window = match cobs_buf.feed(&window) { Consumed => break 'cobs,
 OverFull(w) => w, DeserError(w) => w, Success { remaining, .. } => remaining }`;
a panic aborts the loop. -/
def FeedRes.next : FeedRes α → Option (List Byte)
  | .consumed => none
  | .overFull w => some w
  | .deserError w => some w
  | .success _ w => some w
  | .panic => none

/-- mirrors accumulator.rs::(doc example) `'cobs: while !window.is_empty() {
 window = match cobs_buf.feed::<T>(&window) {..} }`.
Returns ((the result of every `feed` call in order, the accumulator afterwards),
`exhausted`), where `exhausted = true` iff the fuel ran out while the window
was still non-empty, i.e. the model stopped although the Rust loop would go on
(`Props/C09.lean: drain_terminates` shows this never happens for `1 ≤ n` with
the fuel used by `drainChunk`). -/
def Acc.drainX (decF : List Byte → Option α) :
    Nat → Acc → List Byte → (List (FeedRes α) × Acc) × Bool
  | 0, a, w => (([], a), !w.isEmpty)
  | fuel + 1, a, w =>
    -- while !window.is_empty()
    if w.isEmpty then (([], a), false)
    else
      match a.feed decF w with
      | (.consumed, a') => (([.consumed], a'), false)           -- break 'cobs
      | (.panic, a') => (([.panic], a'), false)                 -- unwinds
      | (.overFull w', a') =>                                   -- window = new_wind
        let d := drainX decF fuel a' w'
        ((.overFull w' :: d.1.1, d.1.2), d.2)
      | (.deserError w', a') =>                                 -- window = new_wind
        let d := drainX decF fuel a' w'
        ((.deserError w' :: d.1.1, d.1.2), d.2)
      | (.success t w', a') =>                                  -- window = remaining
        let d := drainX decF fuel a' w'
        ((.success t w' :: d.1.1, d.1.2), d.2)

/-- The documented loop without the exhaustion flag. -/
def Acc.drain (decF : List Byte → Option α) (fuel : Nat) (a : Acc) (w : List Byte) :
    List (FeedRes α) × Acc :=
  (a.drainX decF fuel w).1

/-- The documented loop run on one chunk read from the input; the fuel
`2 * c.length + 2` is never exhausted when `1 ≤ n`
(`Props/C09.lean: drain_terminates`). -/
def Acc.drainChunk (decF : List Byte → Option α) (a : Acc) (c : List Byte) :
    List (FeedRes α) × Acc :=
  a.drain decF (2 * c.length + 2) c

/-- mirrors accumulator.rs::(doc example) the outer
`while let Ok(ct) = input.read(&mut raw_buf) { .. }`: the documented loop once
per chunk, the accumulator carried over.  Returns ALL feed results (including
`consumed`) in call order and the final accumulator.  (A `panic` result does not
stop `run`; this is immaterial because `Props/C09.lean: run_total` shows that no
call panics from the fresh accumulator.) -/
def Acc.run (decF : List Byte → Option α) (a : Acc) :
    List (List Byte) → List (FeedRes α) × Acc
  | [] => ([], a)
  | c :: cs =>
    let p := a.drainChunk decF c
    let q := Acc.run decF p.2 cs
    (p.1 ++ q.1, q.2)

/-- Did any per-chunk loop of `run` exhaust its fuel? -/
def Acc.runExhausted (decF : List Byte → Option α) (a : Acc) : List (List Byte) → Bool
  | [] => false
  | c :: cs =>
    (a.drainX decF (2 * c.length + 2) c).2
      || Acc.runExhausted decF (a.drainChunk decF c).2 cs

/-- A frame-level outcome reported to the user of the loop. -/
inductive Outcome (α : Type)
  | ok (d : α)    -- Success { data, .. }
  | deserErr      -- DeserError(_)
  | overFull      -- OverFull(_)
  deriving DecidableEq, Repr

/-- `success`/`deserError`/`overFull` report something about a frame;
`consumed` (and `panic`) do not. -/
def FeedRes.isFrameResult : FeedRes α → Bool
  | .success _ _ => true
  | .deserError _ => true
  | .overFull _ => true
  | .consumed => false
  | .panic => false

/-- The frame-level outcomes among the feed results, in order. -/
def frameResults : List (FeedRes α) → List (Outcome α)
  | [] => []
  | .success d _ :: rs => .ok d :: frameResults rs
  | .deserError _ :: rs => .deserErr :: frameResults rs
  | .overFull _ :: rs => .overFull :: frameResults rs
  | .consumed :: rs => frameResults rs
  | .panic :: rs => frameResults rs

/-- Specification side: cut a byte stream at its zero bytes.  `cur` = the bytes
of the current, not yet terminated segment.  Returns the zero-terminated
segments WITHOUT their zero, and the unterminated tail. -/
def segs (cur : List Byte) : List Byte → List (List Byte) × List Byte
  | [] => ([], cur)
  | b :: bs =>
    if b = 0 then
      let p := segs [] bs
      (cur :: p.1, p.2)
    else segs (cur ++ [b]) bs

/-- Specification side: decoding one segment in isolation (its zero re-attached). -/
def isolated (decF : List Byte → Option α) (s : List Byte) : Outcome α :=
  match decF (s ++ [0]) with
  | some d => .ok d
  | none => .deserErr

/-- "Everything fits the capacity": every segment including its sentinel zero
is at most `n` bytes, and so is the unterminated tail. -/
def Fits (n : Nat) (p : List (List Byte) × List Byte) : Prop :=
  (∀ s ∈ p.1, s.length + 1 ≤ n) ∧ p.2.length ≤ n

end Postcard
