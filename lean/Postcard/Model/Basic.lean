/-
  Postcard.Model.Basic — bytes, error kinds, result type.
  Core Lean only (no Mathlib/Batteries/Std imports): the line-protocol driver
  `pcmodel` is linked from the model files.
-/
namespace Postcard

abbrev Byte := UInt8

/-- Error kinds.  mirrors source/postcard/src/error.rs (only the kinds the
properties talk about are distinguished; `custom` is serde's `de::Error::custom`
= `Error::SerdeDeCustom`).  `panic` is an explicit outcome so that "never
panics" is an ordinary theorem. -/
inductive Err
  | unexpectedEnd      -- DeserializeUnexpectedEnd
  | badVarint          -- DeserializeBadVarint
  | badBool            -- DeserializeBadBool
  | badOption          -- DeserializeBadOption
  | badUtf8            -- DeserializeBadUtf8
  | badChar            -- DeserializeBadChar
  | badEncoding        -- DeserializeBadEncoding (COBS)
  | badCrc             -- DeserializeBadCrc
  | wontImplement      -- WontImplement
  | custom             -- SerdeDeCustom (e.g. variant index out of range)
  | bufferFull         -- SerializeBufferFull
  | seqLengthUnknown   -- SerializeSeqLengthUnknown
  | collectStr         -- CollectStrError
  | panic              -- a Rust panic (index out of range, todo!(), unreachable!())
  deriving DecidableEq, Repr, Inhabited

def Err.name : Err → String
  | .unexpectedEnd => "unexpected-end"
  | .badVarint => "bad-varint"
  | .badBool => "bad-bool"
  | .badOption => "bad-option"
  | .badUtf8 => "bad-utf8"
  | .badChar => "bad-char"
  | .badEncoding => "bad-encoding"
  | .badCrc => "bad-crc"
  | .wontImplement => "wont-implement"
  | .custom => "custom"
  | .bufferFull => "buffer-full"
  | .seqLengthUnknown => "seq-length-unknown"
  | .collectStr => "collect-str"
  | .panic => "panic"

abbrev R (α : Type) := Except Err α

/-- little-endian bytes of `n`, exactly `k` of them. mirrors `to_le_bytes`. -/
def leBytes : Nat → Nat → List Byte
  | 0, _ => []
  | k+1, n => UInt8.ofNat (n % 256) :: leBytes k (n / 256)

/-- value of a little-endian byte list. mirrors `from_le_bytes`. -/
def ofLeBytes : List Byte → Nat
  | [] => 0
  | b :: bs => b.toNat + 256 * ofLeBytes bs

end Postcard
