import Postcard.Model.Sexp
import Postcard.Model.Json
/-
  Postcard.Model.SexpJson — line-protocol codec for JSON values (driver side;
  trusted glue) and the instantiation of `FloatOps` with Lean's hardware floats.
  Mirrors harness/src/ops_dyn.rs `show_json` / `parse_json`.
-/
namespace Postcard

mutual
partial def jsonOfSexp : Sexp → Option Json
  | .atom "null" => some .null
  | .atom "true" => some (.bool true)
  | .atom "false" => some (.bool false)
  | .list [.atom "u", .atom n] => n.toNat?.map .posInt
  | .list [.atom "i", .atom n] =>
    match parseInt n with
    | some x => if x < 0 then some (.negInt x) else some (.posInt x.toNat)
    | none => none
  | .list [.atom "f", .atom h] => (natOfHexChars h.toList).map .float
  | .list [.atom "s", .atom h] => (bytesOfHex h).map .str
  | .list (.atom "a" :: xs) => (jsonsOfSexp xs).map .arr
  | .list (.atom "o" :: kvs) => (jsonKvsOfSexp kvs).map .obj
  | _ => none
partial def jsonsOfSexp : List Sexp → Option (List Json)
  | [] => some []
  | x :: xs => match jsonOfSexp x, jsonsOfSexp xs with
    | some v, some vs => some (v :: vs) | _, _ => none
partial def jsonKvsOfSexp : List Sexp → Option (List (List Byte × Json))
  | [] => some []
  | .list [.atom k, v] :: xs =>
    match bytesOfHex k, jsonOfSexp v, jsonKvsOfSexp xs with
    | some k, some v, some r => some ((k, v) :: r) | _, _, _ => none
  | _ => none
end

mutual
partial def jsonToStr : Json → String
  | .null => "null"
  | .bool true => "true"
  | .bool false => "false"
  | .posInt n => s!"(u {n})"
  | .negInt x => s!"(i {x})"
  | .float b => s!"(f {hexFixed 16 b})"
  | .str s => s!"(s {hexOfBytes s})"
  | .arr xs => "(a" ++ jsonsToStr xs ++ ")"
  | .obj kvs => "(o" ++ jsonKvsToStr kvs ++ ")"
partial def jsonsToStr : List Json → String
  | [] => ""
  | x :: xs => " " ++ jsonToStr x ++ jsonsToStr xs
partial def jsonKvsToStr : List (List Byte × Json) → String
  | [] => ""
  | (k, v) :: r => s!" ({hexOfBytes k} {jsonToStr v})" ++ jsonKvsToStr r
end

/-- IEEE-754 conversions as the hardware performs them (what Rust's `as` casts do). -/
def hwFloatOps : FloatOps where
  f64ToF32 b := (Float.ofBits (UInt64.ofNat b)).toFloat32.toBits.toNat
  f32ToF64 b := (Float32.ofBits (UInt32.ofNat b)).toFloat.toBits.toNat
  u64ToF64 n := (UInt64.ofNat n).toFloat.toBits.toNat
  i64ToF64 x := (Int64.ofInt x).toFloat.toBits.toNat
  isFinite64 b := (Float.ofBits (UInt64.ofNat b)).isFinite
  isFinite32 b := (Float32.ofBits (UInt32.ofNat b)).isFinite

end Postcard
