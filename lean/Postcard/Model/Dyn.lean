import Postcard.Model.Json
import Postcard.Model.Schema
import Postcard.Model.Ser
import Postcard.Model.De
import Postcard.Model.SchemaSer
/-
  Postcard.Model.Dyn — mirrors source/postcard-dyn/src/ser.rs
  (`to_stdvec_dyn`, `ser_named_type`, private module `varint`) and
  source/postcard-dyn/src/de.rs (`from_slice_dyn`, `deserialize`, private
  module `varint`, `TakeExt`), arm by arm in source order.

  Target: 64-bit (`usize` = `u64`, `cfg(target_pointer_width = "64")`).
  State of the source: AFTER the repairs 56ed075 (de: Char), 54e78af (ser:
  Char must be one scalar), 1fcf780 (Schema kind), c903408 (tuples of every
  arity are arrays), a75b85b (I128 up to u64::MAX), b886a1b (F32 overflow).
  No `todo!()` is left; `.error .panic` remains in `DynErr` so that "never
  panics" is an ordinary theorem (the only place it could come from is the fuel
  of `decOwned`, shown unreachable in Props/C18).  Slice indexing in the Rust
  (`out[i]` with `i < varint_max`) is in range by construction.
  Core Lean only; executable (the driver links it).
-/
namespace Postcard

/-- union of `ser::Error` {SchemaMismatch, ShouldSupportButDont, Unsupported}
and `de::Error` {UnexpectedEndOfData, ShouldSupportButDont, SchemaMismatch},
plus the explicit panic outcome. -/
inductive DynErr
  | schemaMismatch
  | shouldSupportButDont
  | unsupported
  | unexpectedEnd
  | panic
  deriving DecidableEq, Repr, Inhabited

def DynErr.name : DynErr → String
  | .schemaMismatch => "schema-mismatch"
  | .shouldSupportButDont => "should-support-but-dont"
  | .unsupported => "unsupported"
  | .unexpectedEnd => "unexpected-end"
  | .panic => "panic"

abbrev DR (α : Type) := Except DynErr α

/-! ## ser.rs::varint  (the crate's private copy of postcard's varint writers) -/

/-- mirrors ser.rs::varint::varint_max. -/
def dynVarintMax (bits : Nat) : Nat := (bits + (7 - 1)) / 7

/-- mirrors the loop of ser.rs::varint::varint_{usize,u16,u32,u64,u128}:
`out[i] = value.to_le_bytes()[0]; if value < 128 {return &mut out[..=i]}; out[i] |= 0x80; value >>= 7`.
Falling out of the loop (`debug_assert_eq!(value, 0); &mut out[..]`) is
unreachable for `value < 2^bits` (Props/C18 `dynVarintLoop_returns`). -/
def dynVarintLoop : Nat → Nat → List Byte
  | 0, _ => []
  | fuel+1, value =>
    if value < 128 then [UInt8.ofNat (value % 256)]
    else UInt8.ofNat ((value % 256) ||| 0x80) :: dynVarintLoop fuel (value >>> 7)

def dynVarint (bits : Nat) (n : Nat) : List Byte := dynVarintLoop (dynVarintMax bits) n

/-- mirrors ser.rs::varint::zig_zag_i{16,32,64,128}: `((n << 1) ^ (n >> (N-1))) as uN`. -/
def dynZigzag (bits : Nat) (x : Int) : Nat :=
  let y := ((2 * x) % (2 ^ bits : Int)).toNat
  if x < 0 then 2 ^ bits - 1 - y else y

/-! ## de.rs::varint and de.rs::TakeExt -/

/-- mirrors de.rs::TakeExt::take_one. -/
def dynTakeOne : List Byte → DR (Byte × List Byte)
  | [] => .error .unexpectedEnd
  | b :: rest => .ok (b, rest)

/-- mirrors de.rs::TakeExt::take_n: `if self.len() < n {Err(UnexpectedEndOfData)} else {split_at(n)}`. -/
def dynTakeN (n : Nat) (bs : List Byte) : DR (List Byte × List Byte) :=
  if bs.length < n then .error .unexpectedEnd else .ok (bs.take n, bs.drop n)

/-- mirrors de.rs::varint::max_of_last_byte. -/
def dynMaxOfLastByte (bits : Nat) : Nat := (1 <<< (bits % 7)) - 1

/-- mirrors the loop of de.rs::varint::try_take_varint_u{16,32,64,128}. -/
def dynTakeVarintLoop (bits : Nat) : Nat → Nat → Nat → List Byte → DR (Nat × List Byte)
  | 0, _, _, _ => .error .schemaMismatch
  | _+1, _, _, [] => .error .unexpectedEnd
  | fuel+1, i, out, val :: rest =>
    let carry := val.toNat &&& 0x7F
    let out := out ||| (carry <<< (7 * i))
    if val.toNat &&& 0x80 = 0 then
      if i = dynVarintMax bits - 1 ∧ val.toNat > dynMaxOfLastByte bits then .error .schemaMismatch
      else .ok (out, rest)
    else dynTakeVarintLoop bits fuel (i+1) out rest

/-- mirrors de.rs::varint::try_take_varint_uN (`usize` = 64). -/
def dynTakeVarint (bits : Nat) (bs : List Byte) : DR (Nat × List Byte) :=
  dynTakeVarintLoop bits (dynVarintMax bits) 0 0 bs

/-- mirrors de.rs::varint::de_zig_zag_i{16,32,64,128}. -/
def dynUnzigzag (n : Nat) : Int :=
  if n % 2 = 1 then -((n / 2 : Nat) : Int) - 1 else ((n / 2 : Nat) : Int)

/-! ## ser.rs::ser_named_type -/

/-- `value.as_i64().right()?` -/
def asI64R (j : Json) : DR Int :=
  match j.asI64 with
  | none => .error .schemaMismatch
  | some x => .ok x

/-- `value.as_u64().right()?` -/
def asU64R (j : Json) : DR Nat :=
  match j.asU64 with
  | none => .error .schemaMismatch
  | some n => .ok n

/-- `value.as_i64().right()?` then `iN::try_from(val)?` (TryFromIntError → SchemaMismatch). -/
def getI (bits : Nat) (j : Json) : DR Int :=
  match j.asI64 with
  | none => .error .schemaMismatch
  | some x =>
    if -(2 ^ (bits - 1) : Int) ≤ x ∧ x < (2 ^ (bits - 1) : Int) then .ok x else .error .schemaMismatch

/-- `value.as_u64().right()?` then `uN::try_from(val)?`. -/
def getU (bits : Nat) (j : Json) : DR Nat :=
  match j.asU64 with
  | none => .error .schemaMismatch
  | some n => if n < 2 ^ bits then .ok n else .error .schemaMismatch

/-- the `for b in val { b.as_u64().right()?; u8::try_from(val)?; out.push(val) }` loop of the ByteArray arm. -/
def serByteElems : List Json → DR (List Byte)
  | [] => .ok []
  | x :: xs =>
    match getU 8 x with
    | .error e => .error e
    | .ok n =>
      match serByteElems xs with
      | .error e => .error e
      | .ok bs => .ok (UInt8.ofNat n :: bs)

/-- the `String | Char` arm; `isChar` = `*ty == OwnedDataModelType::Char`:
`if isChar && val.chars().count() != 1 {return Err(SchemaMismatch)}`. -/
def serStr (isChar : Bool) (j : Json) : DR (List Byte) :=
  match j.asStr with
  | none => .error .schemaMismatch
  | some s =>
    if isChar && !oneScalar s then .error .schemaMismatch
    else .ok (dynVarint 64 s.length ++ s)

/-- `for b in val { ser_named_type(ty, b, out)?; }` -/
def serAll (f : Json → DR (List Byte)) : List Json → DR (List Byte)
  | [] => .ok []
  | x :: xs =>
    match f x with
    | .error e => .error e
    | .ok a =>
      match serAll f xs with
      | .error e => .error e
      | .ok b => .ok (a ++ b)

/-- `for (k, v) in obj.iter() { varint_usize(k.len()); k.as_bytes(); ser_named_type(val, v, out)?; }` -/
def serKvs (f : Json → DR (List Byte)) : List (List Byte × Json) → DR (List Byte)
  | [] => .ok []
  | (k, v) :: rest =>
    match f v with
    | .error e => .error e
    | .ok a =>
      match serKvs f rest with
      | .error e => .error e
      | .ok b => .ok (dynVarint 64 k.length ++ k ++ a ++ b)

/-- string form of an enum value: `nvars.iter().enumerate().find(|(_, v)| *v.name == *s).right()?`,
`if evar.data != OwnedData::Unit {SchemaMismatch}`, `varint_usize(idx)`. -/
def dynSerUnitVariant : List SVariant → Nat → List Byte → DR (List Byte)
  | [], _, _ => .error .schemaMismatch
  | .mk name data :: rest, idx, s =>
    if name = s then
      match data with
      | .unit => .ok (dynVarint 64 idx)
      | _ => .error .schemaMismatch
    else dynSerUnitVariant rest (idx + 1) s

mutual
/-- mirrors ser.rs::ser_named_type (result = the bytes appended to `out`). -/
def dynSer (fo : FloatOps) : Schema → Json → DR (List Byte)
  | .bool, j =>                                              -- arm Bool
    match j.asBool with
    | none => .error .schemaMismatch
    | some b => .ok [if b then 1 else 0]
  | .i8, j =>                                                -- arm I8: `val as u8`
    match getI 8 j with
    | .error e => .error e
    | .ok x => .ok [UInt8.ofNat (toBits 8 x)]
  | .u8, j =>                                                -- arm U8
    match getU 8 j with
    | .error e => .error e
    | .ok n => .ok [UInt8.ofNat n]
  | .i16, j =>                                               -- arm I16
    match getI 16 j with
    | .error e => .error e
    | .ok x => .ok (dynVarint 16 (dynZigzag 16 x))
  | .i32, j =>                                               -- arm I32
    match getI 32 j with
    | .error e => .error e
    | .ok x => .ok (dynVarint 32 (dynZigzag 32 x))
  | .i64, j =>                                               -- arm I64 (no try_from)
    match asI64R j with
    | .error e => .error e
    | .ok x => .ok (dynVarint 64 (dynZigzag 64 x))
  | .i128, j =>                                              -- arm I128: as_i64, else as_u64; `i128::from`
    match j.asI64 with
    | some x => .ok (dynVarint 128 (dynZigzag 128 x))
    | none =>
      match asU64R j with
      | .error e => .error e
      | .ok n => .ok (dynVarint 128 (dynZigzag 128 (n : Int)))
  | .u16, j =>                                               -- arm U16
    match getU 16 j with
    | .error e => .error e
    | .ok n => .ok (dynVarint 16 n)
  | .u32, j =>                                               -- arm U32
    match getU 32 j with
    | .error e => .error e
    | .ok n => .ok (dynVarint 32 n)
  | .u64, j =>                                               -- arm U64
    match asU64R j with
    | .error e => .error e
    | .ok n => .ok (dynVarint 64 n)
  | .u128, j =>                                              -- arm U128: as_u64, `u128::from`
    match asU64R j with
    | .error e => .error e
    | .ok n => .ok (dynVarint 128 n)
  | .usize, j =>                                             -- arm Usize: `usize::try_from(u64)` (64-bit)
    match getU 64 j with
    | .error e => .error e
    | .ok n => .ok (dynVarint 64 n)
  | .isize, j =>                                             -- arm Isize, cfg(target_pointer_width = "64")
    match asI64R j with
    | .error e => .error e
    | .ok x => .ok (dynVarint 64 (dynZigzag 64 x))
  | .f32, j =>                                               -- arm F32: `val as f32`, refused if it overflows
    match j.asF64 fo with
    | none => .error .schemaMismatch
    | some b =>
      if fo.isFinite64 b && !fo.isFinite32 (fo.f64ToF32 b) then .error .schemaMismatch
      else .ok (leBytes 4 (fo.f64ToF32 b))
  | .f64, j =>                                               -- arm F64
    match j.asF64 fo with
    | none => .error .schemaMismatch
    | some b => .ok (leBytes 8 b)
  | .string, j => serStr false j                             -- arm String | Char
  | .char, j => serStr true j
  | .byteArray, j =>                                         -- arm ByteArray
    match j.asArray with
    | none => .error .schemaMismatch
    | some xs =>
      match serByteElems xs with
      | .error e => .error e
      | .ok bs => .ok (dynVarint 64 xs.length ++ bs)
  | .option t, j =>                                          -- arm Option
    if j.isNull then .ok [0]
    else
      match dynSer fo t j with
      | .error e => .error e
      | .ok bs => .ok (1 :: bs)
  | .unit, _ => .ok []                                       -- arm Unit
  | .struct _ .unit, _ => .ok []                             -- arm Struct{data: Unit}
  | .struct _ (.newtype t), j => dynSer fo t j               -- arm Struct{data: Newtype}
  | .seq t, j =>                                             -- arm Seq
    match j.asArray with
    | none => .error .schemaMismatch
    | some xs =>
      match serAll (dynSer fo t) xs with
      | .error e => .error e
      | .ok bs => .ok (dynVarint 64 xs.length ++ bs)
  | .tuple ts, j =>                                          -- arm Tuple | Struct{Tuple}: every arity is an array
    match j.asArray with
    | none => .error .schemaMismatch
    | some xs => if xs.length ≠ ts.length then .error .schemaMismatch else dynSerZip fo ts xs
  | .struct _ (.tuple ts), j =>
    match j.asArray with
    | none => .error .schemaMismatch
    | some xs => if xs.length ≠ ts.length then .error .schemaMismatch else dynSerZip fo ts xs
  | .map key val, j =>                                       -- arm Map
    match key with
    | .string =>
      match j.asObject with
      | none => .error .schemaMismatch
      | some kvs =>
        match serKvs (dynSer fo val) kvs with
        | .error e => .error e
        | .ok bs => .ok (dynVarint 64 kvs.length ++ bs)
    | _ => .error .shouldSupportButDont                      -- `**key != String`
  | .struct _ (.struct fs), j =>                             -- arm Struct{data: Struct}
    match j.asObject with
    | none => .error .schemaMismatch
    | some kvs =>
      if kvs.length ≠ fs.length then .error .schemaMismatch else dynSerFields fo fs kvs
  | .enum _ vs, j =>                                         -- arm Enum
    match j.asStr with
    | some s => dynSerUnitVariant vs 0 s                     -- `if let Some(s) = value.as_str()`
    | none =>
      match j.asObject with
      | some [(k, v)] => dynSerVariant fo vs 0 k v           -- `o.len() == 1`; `o.iter().next()`
      | some _ => .error .schemaMismatch                     -- `o.len() != 1`
      | none => .error .schemaMismatch
  | .schema, j =>                                            -- arm Schema: `serde_json::from_value`, `postcard::to_stdvec`
    match schemaOfJson j with
    | none => .error .schemaMismatch
    | some s => .ok (enc (serOwned s))
/-- `for (ty, val) in tys.iter().zip(val.iter()) { ser_named_type(ty, val, out)?; }` -/
def dynSerZip (fo : FloatOps) : List Schema → List Json → DR (List Byte)
  | [], _ => .ok []
  | _ :: _, [] => .ok []
  | t :: ts, x :: xs =>
    match dynSer fo t x with
    | .error e => .error e
    | .ok a =>
      match dynSerZip fo ts xs with
      | .error e => .error e
      | .ok b => .ok (a ++ b)
/-- `for field in nvs.iter() { let v = val.get(field.name).right()?; ser_named_type(&field.ty, v, out)?; }` -/
def dynSerFields (fo : FloatOps) : List SField → List (List Byte × Json) → DR (List Byte)
  | [], _ => .ok []
  | .mk name ty :: fs, kvs =>
    match objGet name kvs with
    | none => .error .schemaMismatch
    | some v =>
      match dynSer fo ty v with
      | .error e => .error e
      | .ok a =>
        match dynSerFields fo fs kvs with
        | .error e => .error e
        | .ok b => .ok (a ++ b)
/-- object form of an enum value: `nvars.iter().enumerate().find(|(_, v)| *v.name == *k).right()?`,
`varint_usize(idx)`, then `match &evar.data`. -/
def dynSerVariant (fo : FloatOps) : List SVariant → Nat → List Byte → Json → DR (List Byte)
  | [], _, _, _ => .error .schemaMismatch
  | .mk name data :: rest, idx, k, v =>
    if name = k then
      match data with
      | .unit => .ok (dynVarint 64 idx)
      | .newtype t =>
        match dynSer fo t v with
        | .error e => .error e
        | .ok bs => .ok (dynVarint 64 idx ++ bs)
      | .tuple ts =>
        match v.asArray with
        | none => .error .schemaMismatch
        | some xs =>
          if xs.length ≠ ts.length then .error .schemaMismatch
          else
            match dynSerZip fo ts xs with
            | .error e => .error e
            | .ok bs => .ok (dynVarint 64 idx ++ bs)
      | .struct fs =>
        match v.asObject with
        | none => .error .schemaMismatch
        | some kvs =>
          if kvs.length ≠ fs.length then .error .schemaMismatch
          else
            match dynSerFields fo fs kvs with
            | .error e => .error e
            | .ok bs => .ok (dynVarint 64 idx ++ bs)
    else dynSerVariant fo rest (idx + 1) k v
end

/-- mirrors ser.rs::to_stdvec_dyn. -/
def toStdvecDyn (fo : FloatOps) (s : Schema) (j : Json) : DR (List Byte) := dynSer fo s j

/-! ## de.rs::deserialize -/

/-- `for _ in 0..val { let (v, irest) = deserialize(ty, rest)?; rest = irest; vec.push(v); }` -/
def deN (f : List Byte → DR (Json × List Byte)) : Nat → List Byte → DR (List Json × List Byte)
  | 0, bs => .ok ([], bs)
  | n+1, bs =>
    match f bs with
    | .error e => .error e
    | .ok (v, r) =>
      match deN f n r with
      | .error e => .error e
      | .ok (vs, r') => .ok (v :: vs, r')

/-- the Map loop: `str_len = varint_usize; bytes = take_n(str_len); from_utf8; deserialize(val); map.insert(s, v)`. -/
def deKvs (f : List Byte → DR (Json × List Byte)) :
    Nat → List (List Byte × Json) → List Byte → DR (List (List Byte × Json) × List Byte)
  | 0, acc, bs => .ok (acc, bs)
  | n+1, acc, bs =>
    match dynTakeVarint 64 bs with
    | .error e => .error e
    | .ok (len, r) =>
      match dynTakeN len r with
      | .error e => .error e
      | .ok (s, r') =>
        if utf8Valid s then
          match f r' with
          | .error e => .error e
          | .ok (v, r'') => deKvs f n (objInsert s v acc) r''
        else .error .schemaMismatch

/-- `nvars.get(variant)` -/
def variantAt : List SVariant → Nat → Option SVariant
  | [], _ => none
  | v :: _, 0 => some v
  | _ :: vs, k+1 => variantAt vs k

mutual
/-- mirrors de.rs::deserialize. -/
def dynDe (fo : FloatOps) : Schema → List Byte → DR (Json × List Byte)
  | .bool, bs =>                                             -- arm Bool
    match dynTakeOne bs with
    | .error e => .error e
    | .ok (one, rest) =>
      if one = 0 then .ok (.bool false, rest)
      else if one = 1 then .ok (.bool true, rest)
      else .error .schemaMismatch
  | .i8, bs =>                                               -- arm I8: `Number::from(one as i8)`
    match dynTakeOne bs with
    | .error e => .error e
    | .ok (one, rest) => .ok (Json.ofI64 (ofBits 8 one.toNat), rest)
  | .u8, bs =>                                               -- arm U8
    match dynTakeOne bs with
    | .error e => .error e
    | .ok (one, rest) => .ok (.posInt one.toNat, rest)
  | .i16, bs =>                                              -- arm I16
    match dynTakeVarint 16 bs with
    | .error e => .error e
    | .ok (n, rest) => .ok (Json.ofI64 (dynUnzigzag n), rest)
  | .i32, bs =>                                              -- arm I32
    match dynTakeVarint 32 bs with
    | .error e => .error e
    | .ok (n, rest) => .ok (Json.ofI64 (dynUnzigzag n), rest)
  | .i64, bs =>                                              -- arm I64
    match dynTakeVarint 64 bs with
    | .error e => .error e
    | .ok (n, rest) => .ok (Json.ofI64 (dynUnzigzag n), rest)
  | .i128, bs =>                                             -- arm I128: `i64::try_from(val)`, else `u64::try_from(val)`,
    match dynTakeVarint 128 bs with                          --   else ShouldSupportButDont
    | .error e => .error e
    | .ok (n, rest) =>
      let x := dynUnzigzag n
      if -(2 ^ 63 : Int) ≤ x ∧ x < (2 ^ 63 : Int) then .ok (Json.ofI64 x, rest)
      else if 0 ≤ x ∧ x < (2 ^ 64 : Int) then .ok (.posInt x.toNat, rest)
      else .error .shouldSupportButDont
  | .u16, bs =>                                              -- arm U16
    match dynTakeVarint 16 bs with
    | .error e => .error e
    | .ok (n, rest) => .ok (.posInt n, rest)
  | .u32, bs =>                                              -- arm U32
    match dynTakeVarint 32 bs with
    | .error e => .error e
    | .ok (n, rest) => .ok (.posInt n, rest)
  | .u64, bs =>                                              -- arm U64
    match dynTakeVarint 64 bs with
    | .error e => .error e
    | .ok (n, rest) => .ok (.posInt n, rest)
  | .u128, bs =>                                             -- arm U128: `u64::try_from(val)` else ShouldSupportButDont
    match dynTakeVarint 128 bs with
    | .error e => .error e
    | .ok (n, rest) => if n < 2 ^ 64 then .ok (.posInt n, rest) else .error .shouldSupportButDont
  | .usize, bs =>                                            -- arm Usize
    match dynTakeVarint 64 bs with
    | .error e => .error e
    | .ok (n, rest) => .ok (.posInt n, rest)
  | .isize, bs =>                                            -- arm Isize, cfg(target_pointer_width = "64")
    match dynTakeVarint 64 bs with
    | .error e => .error e
    | .ok (n, rest) => .ok (Json.ofI64 (dynUnzigzag n), rest)
  | .f32, bs =>                                              -- arm F32: `Number::from_f64(f.into()).right()?`
    match dynTakeN 4 bs with
    | .error e => .error e
    | .ok (b, rest) =>
      match Json.numFromF64 fo (fo.f32ToF64 (ofLeBytes b)) with
      | none => .error .schemaMismatch
      | some j => .ok (j, rest)
  | .f64, bs =>                                              -- arm F64
    match dynTakeN 8 bs with
    | .error e => .error e
    | .ok (b, rest) =>
      match Json.numFromF64 fo (ofLeBytes b) with
      | none => .error .schemaMismatch
      | some j => .ok (j, rest)
  | .char, bs =>                                             -- arm Char: a string holding exactly one scalar
    match dynTakeVarint 64 bs with
    | .error e => .error e
    | .ok (len, rest) =>
      match dynTakeN len rest with
      | .error e => .error e
      | .ok (s, rest') =>
        if utf8Valid s then
          if oneScalar s then .ok (.str s, rest') else .error .schemaMismatch
        else .error .schemaMismatch
  | .string, bs =>                                           -- arm String
    match dynTakeVarint 64 bs with
    | .error e => .error e
    | .ok (len, rest) =>
      match dynTakeN len rest with
      | .error e => .error e
      | .ok (s, rest') => if utf8Valid s then .ok (.str s, rest') else .error .schemaMismatch
  | .byteArray, bs =>                                        -- arm ByteArray
    match dynTakeVarint 64 bs with
    | .error e => .error e
    | .ok (len, rest) =>
      match dynTakeN len rest with
      | .error e => .error e
      | .ok (s, rest') => .ok (.arr (s.map fun b => Json.posInt b.toNat), rest')
  | .option t, bs =>                                         -- arm Option
    match dynTakeOne bs with
    | .error e => .error e
    | .ok (one, rest) =>
      if one = 0 then .ok (.null, rest)
      else if one = 1 then dynDe fo t rest
      else .error .schemaMismatch
  | .unit, bs => .ok (.null, bs)                             -- arm Unit | Struct{data: Unit}
  | .struct _ .unit, bs => .ok (.null, bs)
  | .struct _ (.newtype t), bs => dynDe fo t bs              -- arm Struct{data: Newtype}
  | .seq t, bs =>                                            -- arm Seq
    match dynTakeVarint 64 bs with
    | .error e => .error e
    | .ok (n, rest) =>
      match deN (dynDe fo t) n rest with
      | .error e => .error e
      | .ok (vs, rest') => .ok (.arr vs, rest')
  | .tuple ts, bs =>                                         -- arm Tuple | Struct{Tuple}: every arity is an array
    match dynDeList fo ts bs with
    | .error e => .error e
    | .ok (vs, rest) => .ok (.arr vs, rest)
  | .struct _ (.tuple ts), bs =>
    match dynDeList fo ts bs with
    | .error e => .error e
    | .ok (vs, rest) => .ok (.arr vs, rest)
  | .map key val, bs =>                                      -- arm Map
    match key with
    | .string =>
      match dynTakeVarint 64 bs with
      | .error e => .error e
      | .ok (n, rest) =>
        match deKvs (dynDe fo val) n [] rest with
        | .error e => .error e
        | .ok (kvs, rest') => .ok (.obj kvs, rest')
    | _ => .error .shouldSupportButDont
  | .struct _ (.struct fs), bs =>                            -- arm Struct{data: Struct}
    match dynDeFields fo fs [] bs with
    | .error e => .error e
    | .ok (kvs, rest) => .ok (.obj kvs, rest)
  | .enum _ vs, bs =>                                        -- arm Enum
    match dynTakeVarint 64 bs with
    | .error e => .error e
    | .ok (variant, rest) => dynDeVariant fo vs variant rest
  | .schema, bs =>                                           -- arm Schema: `postcard::take_from_bytes`, `serde_json::to_value`
    match decOwnedBytes bs with
    | .error .panic => .error .panic                         -- (fuel of the model; unreachable, Props/C18)
    | .error _ => .error .schemaMismatch
    | .ok (s, rest) => .ok (jsonOfSchema s, rest)
/-- `for ty in tys.iter() { let (val, irest) = deserialize(ty, rest)?; rest = irest; vec.push(val); }` -/
def dynDeList (fo : FloatOps) : List Schema → List Byte → DR (List Json × List Byte)
  | [], bs => .ok ([], bs)
  | t :: ts, bs =>
    match dynDe fo t bs with
    | .error e => .error e
    | .ok (v, r) =>
      match dynDeList fo ts r with
      | .error e => .error e
      | .ok (vs, r') => .ok (v :: vs, r')
/-- `for nv in nvs.iter() { let (val, irest) = deserialize(&nv.ty, rest)?; rest = irest; map.insert(nv.name, val); }` -/
def dynDeFields (fo : FloatOps) :
    List SField → List (List Byte × Json) → List Byte → DR (List (List Byte × Json) × List Byte)
  | [], acc, bs => .ok (acc, bs)
  | .mk name ty :: fs, acc, bs =>
    match dynDe fo ty bs with
    | .error e => .error e
    | .ok (v, r) => dynDeFields fo fs (objInsert name v acc) r
/-- `let schema = nvars.get(variant).right()?; match &schema.data { … }`:
walk to the `k`-th variant.  The `Tuple`/`Struct` arms call `deserialize` on a
freshly built `Tuple(vec)` / `Struct{Struct(vec)}` schema, i.e. run those arms. -/
def dynDeVariant (fo : FloatOps) : List SVariant → Nat → List Byte → DR (Json × List Byte)
  | [], _, _ => .error .schemaMismatch
  | .mk name data :: _, 0, bs =>
    match data with
    | .unit => .ok (.str name, bs)
    | .newtype t =>
      match dynDe fo t bs with
      | .error e => .error e
      | .ok (v, r) => .ok (.obj [(name, v)], r)
    | .tuple ts =>
      match dynDeList fo ts bs with
      | .error e => .error e
      | .ok (vs, r) => .ok (.obj [(name, .arr vs)], r)
    | .struct fs =>
      match dynDeFields fo fs [] bs with
      | .error e => .error e
      | .ok (kvs, r) => .ok (.obj [(name, .obj kvs)], r)
  | _ :: rest, k+1, bs => dynDeVariant fo rest k bs
end

/-- mirrors de.rs::from_slice_dyn: the remainder is DISCARDED (trailing bytes
are silently accepted). -/
def fromSliceDyn (fo : FloatOps) (s : Schema) (bs : List Byte) : DR Json :=
  match dynDe fo s bs with
  | .error e => .error e
  | .ok (v, _remain) => .ok v

/-! ## allocation cost of de.rs::deserialize

`allocDyn fo s bs` counts what `deserialize(s, bs)` allocates up to the point
where it returns (successfully or not): 1 per `Value` node created, `n` per
`String` of `n` bytes (`s.to_string()`, `nv.name.to_string()`,
`schema.name.to_string()`), 1 per `Map` entry inserted.  `Vec`s are counted
through their elements: de.rs never calls `Vec::with_capacity(claimed_len)` —
the Seq arm does `vec![]` + `push` per decoded element, the ByteArray arm
collects an exact-size iterator AFTER `take_n` succeeded, the String arm copies
AFTER `take_n` succeeded.  So nothing is pre-allocated from a claimed length;
what is NOT bounded by the input is the Seq loop itself when the element
decoder consumes no input (`for _ in 0..val` with `val` up to 2^64-1).
(Takes `fo` because a non-finite float stops the decoder.) -/

/-- the Seq loop: cost of element `i` plus, if it decoded, the cost of the rest. -/
def allocN (fa : List Byte → Nat) (f : List Byte → DR (Json × List Byte)) : Nat → List Byte → Nat
  | 0, _ => 0
  | n+1, bs =>
    fa bs + (match f bs with
             | .error _ => 0
             | .ok (_, r) => allocN fa f n r)

/-- the Map loop: per entry the key `String` (len bytes), the value, one map entry. -/
def allocKvs (fa : List Byte → Nat) (f : List Byte → DR (Json × List Byte)) : Nat → List Byte → Nat
  | 0, _ => 0
  | n+1, bs =>
    match dynTakeVarint 64 bs with
    | .error _ => 0
    | .ok (len, r) =>
      match dynTakeN len r with
      | .error _ => 0
      | .ok (s, r') =>
        if utf8Valid s then
          fa r' + (match f r' with
                   | .error _ => 0
                   | .ok (_, r'') => len + 1 + allocKvs fa f n r'')
        else 0

/-- 1 if the (leaf) decode produced a `Value`, else 0. -/
def allocLeaf {α : Type} (r : DR α) : Nat :=
  match r with
  | .ok _ => 1
  | .error _ => 0

mutual
def allocDyn (fo : FloatOps) : Schema → List Byte → Nat
  | .char, bs =>                                             -- `s.to_string()`: len bytes + the Value
    match dynDe fo .char bs with
    | .ok (.str s, _) => 1 + s.length
    | _ => 0
  | .schema, bs =>                                           -- the `Value` tree built by `to_value` (the
    match dynDe fo .schema bs with                           --  intermediate OwnedDataModelType has one Box
    | .ok (j, _) => j.cost                                   --  per node, each node ≥ 1 input byte)
    | .error _ => 0
  | .string, bs =>                                           -- `s.to_string()`: len bytes + the Value
    match dynDe fo .string bs with
    | .ok (.str s, _) => 1 + s.length
    | _ => 0
  | .byteArray, bs =>                                        -- Vec of len Values + the Value
    match dynDe fo .byteArray bs with
    | .ok (.arr xs, _) => 1 + xs.length
    | _ => 0
  | .option t, bs =>
    match bs with
    | [] => 0
    | b :: rest => if b = 0 then 1 else if b = 1 then allocDyn fo t rest else 0
  | .struct _ (.newtype t), bs => allocDyn fo t bs
  | .seq t, bs =>                                            -- `vec![]` + push per element: NO pre-allocation
    match dynTakeVarint 64 bs with
    | .error _ => 0
    | .ok (n, rest) =>
      allocN (allocDyn fo t) (dynDe fo t) n rest + allocLeaf (dynDe fo (.seq t) bs)
  | .tuple ts, bs => allocList fo ts bs + allocLeaf (dynDeList fo ts bs)
  | .struct _ (.tuple ts), bs => allocList fo ts bs + allocLeaf (dynDeList fo ts bs)
  | .map key val, bs =>
    match key with
    | .string =>
      match dynTakeVarint 64 bs with
      | .error _ => 0
      | .ok (n, rest) =>
        allocKvs (allocDyn fo val) (dynDe fo val) n rest + allocLeaf (dynDe fo (.map .string val) bs)
    | _ => 0
  | .struct _ (.struct fs), bs => allocFields fo fs bs + allocLeaf (dynDeFields fo fs [] bs)
  | .enum _ vs, bs =>
    match dynTakeVarint 64 bs with
    | .error _ => 0
    | .ok (variant, rest) => allocVariant fo vs variant rest
  | s, bs => allocLeaf (dynDe fo s bs)                       -- Bool, ints, floats, Unit, unit struct: one Value
def allocList (fo : FloatOps) : List Schema → List Byte → Nat
  | [], _ => 0
  | t :: ts, bs =>
    allocDyn fo t bs + (match dynDe fo t bs with
                        | .error _ => 0
                        | .ok (_, r) => allocList fo ts r)
def allocFields (fo : FloatOps) : List SField → List Byte → Nat
  | [], _ => 0
  | .mk name ty :: fs, bs =>
    allocDyn fo ty bs + (match dynDe fo ty bs with
                         | .error _ => 0
                         | .ok (_, r) => name.length + 1 + allocFields fo fs r)
def allocVariant (fo : FloatOps) : List SVariant → Nat → List Byte → Nat
  | [], _, _ => 0
  | .mk name data :: _, 0, bs =>
    match data with
    | .unit => 1 + name.length
    | .newtype t => allocDyn fo t bs + (match dynDe fo t bs with | .error _ => 0 | .ok _ => name.length + 2)
    | .tuple ts => allocList fo ts bs + (match dynDeList fo ts bs with | .error _ => 0 | .ok _ => name.length + 3)
    | .struct fs => allocFields fo fs bs + (match dynDeFields fo fs [] bs with | .error _ => 0 | .ok _ => name.length + 3)
  | _ :: rest, k+1, bs => allocVariant fo rest k bs
end

end Postcard
