import Postcard.Model.Schema
/-
  Postcard.Model.SchemaFmt — mirrors source/postcard-schema/src/schema/fmt.rs
  (`is_prim`, `fmt_owned_dmt_to_buf`, `discover_tys`) and the two entry points
  in schema/owned.rs (`to_pseudocode`, `all_used_types`).

  Strings are UTF-8 byte lists.  All string literals of fmt.rs are ASCII, so
  `ascii` (one byte per char) is their UTF-8 encoding.

  `discoverTys` is parameterised by `leafPanics`: `true` reproduces the tree as
  found (`Usize => unreachable!()`, `Isize => unreachable!()`,
  `Schema => todo!()`), `false` is the repaired code in which these three arms
  are `{}` like every other leaf.
-/
namespace Postcard

/-! ## `PartialEq` on `OwnedDataModelType` (derived, structural) -/

mutual
/-- mirrors `#[derive(PartialEq)]` on `OwnedDataModelType`. -/
def Schema.beq : Schema → Schema → Bool
  | .bool, .bool | .i8, .i8 | .u8, .u8 | .i16, .i16 | .i32, .i32 | .i64, .i64 | .i128, .i128
  | .u16, .u16 | .u32, .u32 | .u64, .u64 | .u128, .u128 | .usize, .usize | .isize, .isize
  | .f32, .f32 | .f64, .f64 | .char, .char | .string, .string | .byteArray, .byteArray
  | .unit, .unit | .schema, .schema => true
  | .option a, .option b => a.beq b
  | .seq a, .seq b => a.beq b
  | .tuple as, .tuple bs => Schema.beqList as bs
  | .map k v, .map k' v' => k.beq k' && v.beq v'
  | .struct n d, .struct n' d' => n == n' && d.beq d'
  | .enum n vs, .enum n' vs' => n == n' && SVariant.beqList vs vs'
  | _, _ => false
termination_by structural a => a
def Schema.beqList : List Schema → List Schema → Bool
  | [], [] => true
  | a :: as, b :: bs => a.beq b && Schema.beqList as bs
  | _, _ => false
termination_by structural a => a
/-- mirrors `#[derive(PartialEq)]` on `OwnedData`. -/
def SData.beq : SData → SData → Bool
  | .unit, .unit => true
  | .newtype a, .newtype b => a.beq b
  | .tuple as, .tuple bs => Schema.beqList as bs
  | .struct fs, .struct gs => SField.beqList fs gs
  | _, _ => false
termination_by structural a => a
def SField.beqList : List SField → List SField → Bool
  | [], [] => true
  | .mk n a :: as, .mk n' b :: bs => n == n' && a.beq b && SField.beqList as bs
  | _, _ => false
termination_by structural a => a
def SVariant.beqList : List SVariant → List SVariant → Bool
  | [], [] => true
  | .mk n a :: as, .mk n' b :: bs => n == n' && a.beq b && SVariant.beqList as bs
  | _, _ => false
termination_by structural a => a
end

instance : BEq Schema := ⟨Schema.beq⟩
instance : BEq SData := ⟨SData.beq⟩

/-! ## `is_prim` -/

/-- mirrors `fmt::is_prim`. -/
def isPrim : Schema → Bool
  | .bool => true
  | .i8 => true
  | .u8 => true
  | .i16 => true
  | .i32 => true
  | .i64 => true
  | .i128 => true
  | .u16 => true
  | .u32 => true
  | .u64 => true
  | .u128 => true
  | .usize => true
  | .isize => true
  | .f32 => true
  | .f64 => true
  | .char => true
  | .string => true
  | .byteArray => true
  | .option ty => isPrim ty
  | .unit => true
  | .seq _ => false
  | .tuple _ => false
  | .map key val => isPrim key && isPrim val
  | .struct _ _ => false
  | .enum _ _ => false
  | .schema => true

/-! ## `fmt_owned_dmt_to_buf` -/

/-- UTF-8 bytes of an ASCII string literal. -/
def ascii (s : String) : List Byte := s.toList.map (fun c => UInt8.ofNat c.toNat)

/-- mirrors `format!("{}", n)` for `n : usize`: decimal digits, no padding. -/
def natDigits (n : Nat) : List Byte := (Nat.toDigits 10 n).map (fun c => UInt8.ofNat c.toNat)

mutual
/-- mirrors `fmt_owned_dmt_to_buf(dmt, buf, top_level)`; the result is what is
appended to `buf`. -/
def fmtDmt (topLevel : Bool) : Schema → List Byte
  | .bool => ascii "bool"
  | .i8 => ascii "i8"
  | .u8 => ascii "u8"
  | .i16 => ascii "i16"
  | .i32 => ascii "i32"
  | .i64 => ascii "i64"
  | .i128 => ascii "i128"
  | .u16 => ascii "u16"
  | .u32 => ascii "u32"
  | .u64 => ascii "u64"
  | .u128 => ascii "u128"
  | .usize => ascii "usize"
  | .isize => ascii "isize"
  | .f32 => ascii "f32"
  | .f64 => ascii "f64"
  | .char => ascii "char"
  | .string => ascii "String"
  | .byteArray => ascii "[u8]"
  | .option ty => ascii "Option<" ++ fmtDmt false ty ++ ascii ">"
  | .unit => ascii "()"
  | .seq ty => ascii "[" ++ fmtDmt false ty ++ ascii "]"
  | .tuple [] => ascii "()"                                   -- `vec.is_empty()`
  | .tuple (first :: rest) =>
    if (first :: rest).all (fun v => Schema.beq first v) then  -- fixed size array
      ascii "[" ++ fmtDmt false first ++ ascii "; " ++ natDigits (first :: rest).length ++ ascii "]"
    else                                                       -- `.map(fmt).join(", ")`
      ascii "(" ++ fmtDmt false first ++ fmtTail rest ++ ascii ")"
  | .map key val =>
    ascii "Map<" ++ fmtDmt false key ++ ascii ", " ++ fmtDmt false val ++ ascii ">"
  | .struct name data =>
    if topLevel then ascii "struct " ++ name ++ fmtData data else name
  | .enum name variants =>
    if topLevel then ascii "enum " ++ name ++ ascii " { " ++ fmtVariants variants ++ ascii " }"
    else name
  | .schema => ascii "Schema"
termination_by structural s => s
/-- `for field in fields { buf += ", "; fmt(field, buf, false) }` — also the
tail of `.join(", ")`. -/
def fmtTail : List Schema → List Byte
  | [] => []
  | t :: ts => ascii ", " ++ fmtDmt false t ++ fmtTail ts
termination_by structural ts => ts
/-- mirrors the `fmt_data` closure. -/
def fmtData : SData → List Byte
  | .unit => []
  | .newtype inner => ascii "(" ++ fmtDmt false inner ++ ascii ")"
  | .tuple [] => ascii "(" ++ ascii ")"
  | .tuple (first :: rest) => ascii "(" ++ fmtDmt false first ++ fmtTail rest ++ ascii ")"
  | .struct [] => ascii " { " ++ ascii " }"
  | .struct (.mk name ty :: rest) =>
    ascii " { " ++ name ++ ascii ": " ++ fmtDmt false ty ++ fmtFieldsTail rest ++ ascii " }"
termination_by structural d => d
/-- `for field in fields { ", " name ": " ty }` -/
def fmtFieldsTail : List SField → List Byte
  | [] => []
  | .mk name ty :: fs => ascii ", " ++ name ++ ascii ": " ++ fmtDmt false ty ++ fmtFieldsTail fs
termination_by structural fs => fs
/-- `variants.iter().map(|v| name ++ fmt_data(v.data)).join(", ")` -/
def fmtVariants : List SVariant → List Byte
  | [] => []
  | .mk name data :: vs => name ++ fmtData data ++ fmtVariantsTail vs
termination_by structural vs => vs
def fmtVariantsTail : List SVariant → List Byte
  | [] => []
  | .mk name data :: vs => ascii ", " ++ name ++ fmtData data ++ fmtVariantsTail vs
termination_by structural vs => vs
end

/-- mirrors `OwnedDataModelType::to_pseudocode` (and `Display`). -/
def toPseudocode (s : Schema) : List Byte := fmtDmt true s

/-! ## `discover_tys` -/

/-- bind for the explicit-outcome monad, written out so that it unfolds by `simp`. -/
@[inline] def andThen {α β : Type} (x : R α) (f : α → R β) : R β :=
  match x with
  | .error e => .error e
  | .ok a => f a

mutual
/-- mirrors `discover_tys(ty, set)`: the result is the sequence of
`set.insert(..)` calls in program order (duplicates kept).  A panic aborts the
walk. -/
def discoverTys (leafPanics : Bool) : Schema → R (List Schema)
  | .bool => .ok [.bool]
  | .i8 => .ok [.i8]
  | .u8 => .ok [.u8]
  | .i16 => .ok [.i16]
  | .i32 => .ok [.i32]
  | .i64 => .ok [.i64]
  | .i128 => .ok [.i128]
  | .u16 => .ok [.u16]
  | .u32 => .ok [.u32]
  | .u64 => .ok [.u64]
  | .u128 => .ok [.u128]
  | .usize => if leafPanics then .error .panic else .ok [.usize]    -- unreachable!() / {}
  | .isize => if leafPanics then .error .panic else .ok [.isize]    -- unreachable!() / {}
  | .f32 => .ok [.f32]
  | .f64 => .ok [.f64]
  | .char => .ok [.char]
  | .string => .ok [.string]
  | .byteArray => .ok [.byteArray]
  | .option inner => andThen (discoverTys leafPanics inner) fun l => .ok (.option inner :: l)
  | .unit => .ok [.unit]
  | .seq elements => andThen (discoverTys leafPanics elements) fun l => .ok (.seq elements :: l)
  | .tuple vec => andThen (discoverList leafPanics vec) fun l => .ok (.tuple vec :: l)
  | .map key val =>
    andThen (discoverTys leafPanics key) fun a =>
    andThen (discoverTys leafPanics val) fun b => .ok (.map key val :: (a ++ b))
  | .struct name data => andThen (discoverData leafPanics data) fun l => .ok (.struct name data :: l)
  | .enum name variants =>
    andThen (discoverVariants leafPanics variants) fun l => .ok (.enum name variants :: l)
  | .schema => if leafPanics then .error .panic else .ok [.schema]  -- todo!() / {}
termination_by structural s => s
/-- `for v in vec.iter() { discover_tys(v, set) }` -/
def discoverList (leafPanics : Bool) : List Schema → R (List Schema)
  | [] => .ok []
  | t :: ts =>
    andThen (discoverTys leafPanics t) fun a =>
    andThen (discoverList leafPanics ts) fun b => .ok (a ++ b)
termination_by structural ts => ts
/-- mirrors the `discover_tys_data` closure. -/
def discoverData (leafPanics : Bool) : SData → R (List Schema)
  | .unit => .ok []
  | .newtype inner => discoverTys leafPanics inner
  | .tuple elements => discoverList leafPanics elements
  | .struct fields => discoverFields leafPanics fields
termination_by structural d => d
/-- `for field in fields { discover_tys(&field.ty, set) }` -/
def discoverFields (leafPanics : Bool) : List SField → R (List Schema)
  | [] => .ok []
  | .mk _ ty :: fs =>
    andThen (discoverTys leafPanics ty) fun a =>
    andThen (discoverFields leafPanics fs) fun b => .ok (a ++ b)
termination_by structural fs => fs
/-- `for variant in variants { discover_tys_data(&variant.data, set) }` -/
def discoverVariants (leafPanics : Bool) : List SVariant → R (List Schema)
  | [] => .ok []
  | .mk _ data :: vs =>
    andThen (discoverData leafPanics data) fun a =>
    andThen (discoverVariants leafPanics vs) fun b => .ok (a ++ b)
termination_by structural vs => vs
end

/-- mirrors `OwnedDataModelType::all_used_types`: the `HashSet` as a
duplicate-free list (first insertion wins). -/
def discoverSet (leafPanics : Bool) (s : Schema) : R (List Schema) :=
  andThen (discoverTys leafPanics s) fun l => .ok l.eraseDups

end Postcard
