import Postcard.Model.Basic
/-
  Postcard.Model.Schema — mirrors source/postcard-schema/src/schema/mod.rs
  (`DataModelType`, `Data`, `NamedField`, `Variant`) and schema/owned.rs
  (`OwnedDataModelType`, `OwnedData`, `OwnedNamedField`, `OwnedVariant`).

  The borrowed (`&'static`) and the owned (`Box`) families have the same tree
  shape; the model uses ONE inductive family for both and keeps what can
  differ between the two Rust declarations — the declaration ORDER of the enum
  variants (= serde variant indices) and the per-arm conversion — as separate
  tables/functions (Model/SchemaSer.lean), so that a swap in one of the two
  declarations is a change of the model's table, not invisible.
  Names are UTF-8 byte strings.
-/
namespace Postcard

abbrev Name := List Byte

mutual
inductive Schema
  | bool | i8 | u8 | i16 | i32 | i64 | i128 | u16 | u32 | u64 | u128
  | usize | isize | f32 | f64 | char | string | byteArray
  | option (t : Schema)
  | unit
  | seq (t : Schema)
  | tuple (ts : List Schema)
  | map (key : Schema) (val : Schema)
  | struct (name : Name) (data : SData)
  | enum (name : Name) (variants : List SVariant)
  | schema
inductive SData
  | unit
  | newtype (t : Schema)
  | tuple (ts : List Schema)
  | struct (fields : List SField)
inductive SField
  | mk (name : Name) (ty : Schema)
inductive SVariant
  | mk (name : Name) (data : SData)
end

mutual
def Schema.size : Schema → Nat
  | .option t => 1 + t.size
  | .seq t => 1 + t.size
  | .tuple ts => 1 + Schema.sizeList ts
  | .map k v => 1 + k.size + v.size
  | .struct _ d => 1 + d.size
  | .enum _ vs => 1 + SVariant.sizeList vs
  | _ => 1
def Schema.sizeList : List Schema → Nat
  | [] => 0
  | t :: ts => t.size + Schema.sizeList ts
def SData.size : SData → Nat
  | .unit => 1
  | .newtype t => 1 + t.size
  | .tuple ts => 1 + Schema.sizeList ts
  | .struct fs => 1 + SField.sizeList fs
def SField.sizeList : List SField → Nat
  | [] => 0
  | .mk _ t :: fs => t.size + SField.sizeList fs
def SVariant.sizeList : List SVariant → Nat
  | [] => 0
  | .mk _ d :: vs => d.size + SVariant.sizeList vs
end

end Postcard
