import Postcard.Model.MaxSize
/-
  Postcard.Model.MaxSizeExact — the EXACT maximum encoded length of a `MaxSize` type,
  independent of how `max_size.rs` / the derive compute their constant.

  `maxSize` (Model/MaxSize.lean) mirrors the code's arithmetic; `encMax` is the
  specification-side quantity: the supremum of `(enc v).length` over the values of the
  type.  The two differ only for derived enums, where the derive sizes the discriminant
  from the variant COUNT (`varint_size_discriminant(n)`) while the longest index actually
  written is `n - 1`, and where the longest payload need not sit at the longest index.

  Property C12 for one type is exactly `encMax m ≤ T::POSTCARD_MAX_SIZE` (and `=` for the
  kinds the property calls tight) — Props/C12Exact.lean — so the run-time check compares
  the real constant with `encMax`, and a change of the code that keeps the constant a
  (possibly tighter or looser) upper bound is not an alarm.
-/
namespace Postcard

mutual
/-- the longest encoding of any value of the type (0 when the type has no value). -/
def encMax : MTy → Nat
  | .bool => 1
  | .int _ w => intMaxSize w
  | .usize => varintMax 64
  | .isize => varintMax 64
  | .nonZero _ w => intMaxSize w
  | .nonZeroUsize => varintMax 64
  | .nonZeroIsize => varintMax 64
  | .f32 => 4
  | .f64 => 8
  | .char => 5
  | .unit => 0
  | .phantom => 0
  | .option t => encMax t + 1
  | .result t e => max (encMax t) (encMax e) + 1
  | .array t n => encMax t * n
  | .tuple ts => encMaxSum ts
  | .range t => encMax t * 2
  | .rangeInclusive t => encMax t * 2
  | .rangeFrom t => encMax t
  | .rangeTo t => encMax t
  | .ref t => encMax t
  | .hvec t n => encMax t * n + varintSize n
  | .hstring n => n + varintSize n
  | .dstruct f => DFields.encMax f
  | .denum vs => enumEncMax 0 vs
/-- fields are written one after the other. -/
def encMaxSum : List MTy → Nat
  | [] => 0
  | t :: ts => encMax t + encMaxSum ts
def DFields.encMax : DFields → Nat
  | .unit => 0
  | .unnamed ts => encMaxSum ts
  | .named ts => encMaxSum ts
/-- variants `k, k+1, …`: the varint of the index actually written plus the payload,
maximised over the variants. -/
def enumEncMax (k : Nat) : List DFields → Nat
  | [] => 0
  | f :: fs => max (varintSize k + DFields.encMax f) (enumEncMax (k + 1) fs)
end

mutual
/-- every component type has a value (no variant-less enum in a mandatory position):
the hypothesis under which `encMax` is attained. -/
def MTy.populated : MTy → Bool
  | .option _ => true                        -- `None`; the payload type may be empty
  | .result t e => t.populated && e.populated
  | .array t n => decide (n = 0) || t.populated
  | .tuple ts => populatedList ts
  | .range t => t.populated
  | .rangeInclusive t => t.populated
  | .rangeFrom t => t.populated
  | .rangeTo t => t.populated
  | .ref t => t.populated
  | .hvec t _ => t.populated
  | .dstruct f => DFields.populated f
  | .denum vs => !vs.isEmpty && populatedVariants vs
  | _ => true
def populatedList : List MTy → Bool
  | [] => true
  | t :: ts => t.populated && populatedList ts
def DFields.populated : DFields → Bool
  | .unit => true
  | .unnamed ts => populatedList ts
  | .named ts => populatedList ts
def populatedVariants : List DFields → Bool
  | [] => true
  | f :: fs => DFields.populated f && populatedVariants fs
end

mutual
/-- the kinds for which property C12 says the maximum is ATTAINED: "integers, floats, bool, char,
arrays, tuples, options and fixed-capacity strings/vectors" (over components of the same kinds).
Narrower than `MTy.tight` (Lemmas/MaxSize.lean), which also covers references, ranges, `Result`
and derived structs: for those the code's constant happens to be exact today, but the property
does not promise it, so the run-time check does not demand it. -/
def MTy.listed : MTy → Bool
  | .bool => true
  | .int _ _ => true
  | .usize => true
  | .isize => true
  | .nonZero _ _ => true
  | .nonZeroUsize => true
  | .nonZeroIsize => true
  | .f32 => true
  | .f64 => true
  | .char => true
  | .option t => t.listed
  | .array t _ => t.listed
  | .tuple ts => listedList ts
  | .hvec t _ => t.listed
  | .hstring _ => true
  | _ => false
def listedList : List MTy → Bool
  | [] => true
  | t :: ts => t.listed && listedList ts
end

end Postcard
