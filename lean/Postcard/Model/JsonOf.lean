import Postcard.Model.Json
import Postcard.Model.Schema
import Postcard.Model.DataModel
import Postcard.Model.SchemaSer
/-
  Postcard.Model.JsonOf — model of `serde_json::to_value(&v)` for a serde value
  (serde_json-1.0.140/src/value/ser.rs, `impl Serializer for value::Serializer`).
  EXTERNAL, MODELLED.

  `NVal` is the serde data model value `Val` (Model/DataModel.lean) decorated
  with what a JSON serializer sees and postcard does not: field names
  (struct, struct variant) and variant names (all four variant kinds).
  `erase` forgets them.  Maps stay flat (`k₀ v₀ k₁ v₁ …`) as in `Val`.
  A value of the `Schema` kind (an `OwnedDataModelType`) is carried as the
  schema itself: `.schema s`, with `erase = serOwned s` (Model/SchemaSer.lean:
  serde-derive's `Serialize`) and `toJson = jsonOfSchema s` (Model/Json.lean).
  Helper names carry an `N` (`conformsNAll`, …) to stay clear of
  Spec/Conforms.lean.
  Core Lean only.
-/
namespace Postcard

inductive NVal
  | bool (b : Bool)
  | u (w : IntW) (n : Nat)
  | i (w : IntW) (x : Int)
  | f32 (bits : Nat)
  | f64 (bits : Nat)
  | char (c : Nat)
  | str (utf8 : List Byte)
  | bytes (bs : List Byte)
  | none
  | some (v : NVal)
  | unit
  | unitStruct
  | unitVariant (idx : Nat) (vname : Name)
  | newtypeStruct (v : NVal)
  | newtypeVariant (idx : Nat) (vname : Name) (v : NVal)
  | seq (vs : List NVal)
  | tuple (vs : List NVal)
  | tupleStruct (vs : List NVal)
  | tupleVariant (idx : Nat) (vname : Name) (vs : List NVal)
  | map (kvs : List NVal)
  | struct (names : List Name) (vs : List NVal)
  | structVariant (idx : Nat) (vname : Name) (names : List Name) (vs : List NVal)
  | schema (s : Schema)
  deriving Inhabited

mutual
/-- forget the names. -/
def erase : NVal → Val
  | .bool b => .bool b
  | .u w n => .u w n
  | .i w x => .i w x
  | .f32 b => .f32 b
  | .f64 b => .f64 b
  | .char c => .char c
  | .str s => .str s
  | .bytes b => .bytes b
  | .none => .none
  | .some v => .some (erase v)
  | .unit => .unit
  | .unitStruct => .unitStruct
  | .unitVariant idx _ => .unitVariant idx
  | .newtypeStruct v => .newtypeStruct (erase v)
  | .newtypeVariant idx _ v => .newtypeVariant idx (erase v)
  | .seq vs => .seq (eraseList vs)
  | .tuple vs => .tuple (eraseList vs)
  | .tupleStruct vs => .tupleStruct (eraseList vs)
  | .tupleVariant idx _ vs => .tupleVariant idx (eraseList vs)
  | .map kvs => .map (eraseList kvs)
  | .struct _ vs => .struct (eraseList vs)
  | .structVariant idx _ _ vs => .structVariant idx (eraseList vs)
  | .schema s => serOwned s
def eraseList : List NVal → List Val
  | [] => []
  | v :: vs => erase v :: eraseList vs
end

/-- mirrors `serialize_i8..i64` (`Value::Number(value.into())`) and
`serialize_i128` (`u64::try_from` → PosInt, else `i64::try_from` → NegInt, else
Err(NumberOutOfRange)).  Out of range: `.null` (and `toJsonOk = false`). -/
def jsonOfInt (x : Int) : Json :=
  if 0 ≤ x then (if x < (2 ^ 64 : Int) then .posInt x.toNat else .null)
  else (if -(2 ^ 63 : Int) ≤ x then .negInt x else .null)

/-- mirrors `serialize_u8..u64`, `serialize_u128` (`u64::try_from` else Err). -/
def jsonOfNat (n : Nat) : Json := if n < 2 ^ 64 then .posInt n else .null

/-- mirrors `MapKeySerializer` restricted to string keys (`serialize_str`).
serde_json also stringifies integer / bool / char / unit-variant keys; those
are outside the scope of the properties (postcard-dyn answers
ShouldSupportButDont for any key schema other than String). -/
def jsonKeyOf : NVal → List Byte
  | .str s => s
  | _ => []

/-- `names.zip(values)` for a struct. -/
def zipNames : List Name → List Json → List (List Byte × Json)
  | n :: ns, j :: js => (n, j) :: zipNames ns js
  | _, _ => []

mutual
/-- mirrors `serde_json::to_value` (value::Serializer).  Where `to_value`
returns `Err` (128-bit integer outside the u64/i64 range, non-string map key)
the model yields `.null` at that position and `toJsonOk` is `false`. -/
def toJson (fo : FloatOps) : NVal → Json
  | .bool b => .bool b                                         -- serialize_bool
  | .u _ n => jsonOfNat n                                      -- serialize_u*
  | .i _ x => jsonOfInt x                                      -- serialize_i*
  | .f32 b => Json.ofF32 fo b                                  -- serialize_f32: Value::from(f32)
  | .f64 b => Json.ofF64 fo b                                  -- serialize_f64: Value::from(f64)
  | .char c => .str (utf8Encode c)                             -- serialize_char: 1-char String
  | .str s => .str s                                           -- serialize_str
  | .bytes bs => .arr (bs.map fun b => Json.posInt b.toNat)    -- serialize_bytes: array of numbers
  | .none => .null                                             -- serialize_none → serialize_unit
  | .some v => toJson fo v                                     -- serialize_some: value.serialize(self)
  | .unit => .null                                             -- serialize_unit
  | .unitStruct => .null                                       -- serialize_unit_struct
  | .unitVariant _ name => .str name                           -- serialize_unit_variant → serialize_str(variant)
  | .newtypeStruct v => toJson fo v                            -- serialize_newtype_struct
  | .newtypeVariant _ name v => .obj [(name, toJson fo v)]     -- serialize_newtype_variant: {variant: value}
  | .seq vs => .arr (toJsonList fo vs)                         -- serialize_seq
  | .tuple vs => .arr (toJsonList fo vs)                       -- serialize_tuple → serialize_seq
  | .tupleStruct vs => .arr (toJsonList fo vs)                 -- serialize_tuple_struct → serialize_seq
  | .tupleVariant _ name vs => .obj [(name, .arr (toJsonList fo vs))]   -- serialize_tuple_variant
  | .map kvs => .obj (objInsertAll [] (toJsonKV fo kvs))       -- serialize_map: map.insert(key, value)
  | .struct names vs => .obj (objInsertAll [] (zipNames names (toJsonList fo vs)))   -- serialize_struct → map
  | .structVariant _ name names vs =>                          -- serialize_struct_variant
    .obj [(name, .obj (objInsertAll [] (zipNames names (toJsonList fo vs))))]
  | .schema s => jsonOfSchema s                                -- derive(Serialize) for OwnedDataModelType
def toJsonList (fo : FloatOps) : List NVal → List Json
  | [] => []
  | v :: vs => toJson fo v :: toJsonList fo vs
def toJsonKV (fo : FloatOps) : List NVal → List (List Byte × Json)
  | k :: v :: rest => (jsonKeyOf k, toJson fo v) :: toJsonKV fo rest
  | _ => []
end

/-- map key accepted by the model of `MapKeySerializer` (strings only). -/
def isStrKey : NVal → Bool
  | .str _ => true
  | _ => false

mutual
/-- `serde_json::to_value(&v)` returns `Ok`. -/
def toJsonOk : NVal → Bool
  | .u _ n => decide (n < 2 ^ 64)
  | .i _ x => decide (-(2 ^ 63 : Int) ≤ x) && decide (x < (2 ^ 64 : Int))
  | .some v => toJsonOk v
  | .newtypeStruct v => toJsonOk v
  | .newtypeVariant _ _ v => toJsonOk v
  | .seq vs => toJsonOkList vs
  | .tuple vs => toJsonOkList vs
  | .tupleStruct vs => toJsonOkList vs
  | .tupleVariant _ _ vs => toJsonOkList vs
  | .map kvs => toJsonOkKV kvs
  | .struct _ vs => toJsonOkList vs
  | .structVariant _ _ _ vs => toJsonOkList vs
  | _ => true
def toJsonOkList : List NVal → Bool
  | [] => true
  | v :: vs => toJsonOk v && toJsonOkList vs
def toJsonOkKV : List NVal → Bool
  | k :: v :: rest => isStrKey k && toJsonOk v && toJsonOkKV rest
  | _ => true
end

/-! ### well-typedness of a named value against a schema -/

/-- `variants.iter().enumerate().find(|v| v.name == name)` starting at index `k`. -/
def findVariant : List SVariant → Name → Nat → Option (Nat × SData)
  | [], _, _ => none
  | .mk n d :: rest, name, k => if n = name then some (k, d) else findVariant rest name (k + 1)

mutual
/-- `conformsN v s`: the value has the shape the schema describes, including
field names and their order, variant name ↔ index, ranges, UTF-8 validity,
lengths representable as usize (64-bit).  A `u64`/`i64` value conforms to
`usize`/`isize` too (serde has no usize). -/
def conformsN : NVal → Schema → Bool
  | .bool _, .bool => true
  | .u .w8 n, .u8 => decide (n < 2 ^ 8)
  | .u .w16 n, .u16 => decide (n < 2 ^ 16)
  | .u .w32 n, .u32 => decide (n < 2 ^ 32)
  | .u .w64 n, .u64 => decide (n < 2 ^ 64)
  | .u .w64 n, .usize => decide (n < 2 ^ 64)
  | .u .w128 n, .u128 => decide (n < 2 ^ 128)
  | .i .w8 x, .i8 => IntW.inRangeI .w8 x
  | .i .w16 x, .i16 => IntW.inRangeI .w16 x
  | .i .w32 x, .i32 => IntW.inRangeI .w32 x
  | .i .w64 x, .i64 => IntW.inRangeI .w64 x
  | .i .w64 x, .isize => IntW.inRangeI .w64 x
  | .i .w128 x, .i128 => IntW.inRangeI .w128 x
  | .f32 b, .f32 => decide (b < 2 ^ 32)
  | .f64 b, .f64 => decide (b < 2 ^ 64)
  | .char c, .char => isScalar c
  | .str s, .string => utf8Valid s && decide (s.length < 2 ^ 64)
  | .bytes b, .byteArray => decide (b.length < 2 ^ 64)
  | .none, .option _ => true
  | .some v, .option t => conformsN v t
  | .unit, .unit => true
  | .unitStruct, .struct _ .unit => true
  | .newtypeStruct v, .struct _ (.newtype t) => conformsN v t
  | .seq vs, .seq t => conformsNAll vs t && decide (vs.length < 2 ^ 64)
  | .tuple vs, .tuple ts => conformsNs vs ts
  | .tupleStruct vs, .struct _ (.tuple ts) => conformsNs vs ts
  | .map kvs, .map k v => conformsNKV kvs k v && decide (kvs.length / 2 < 2 ^ 64)
  | .struct names vs, .struct _ (.struct fs) => conformsNFields names vs fs
  | .unitVariant idx name, .enum _ vars =>
    decide (idx < 2 ^ 32) &&
    (match findVariant vars name 0 with
     | .some (i, .unit) => decide (i = idx)
     | _ => false)
  | .newtypeVariant idx name v, .enum _ vars =>
    decide (idx < 2 ^ 32) &&
    (match findVariant vars name 0 with
     | .some (i, .newtype t) => decide (i = idx) && conformsN v t
     | _ => false)
  | .tupleVariant idx name vs, .enum _ vars =>
    decide (idx < 2 ^ 32) &&
    (match findVariant vars name 0 with
     | .some (i, .tuple ts) => decide (i = idx) && conformsNs vs ts
     | _ => false)
  | .structVariant idx name names vs, .enum _ vars =>
    decide (idx < 2 ^ 32) &&
    (match findVariant vars name 0 with
     | .some (i, .struct fs) => decide (i = idx) && conformsNFields names vs fs
     | _ => false)
  | .schema s, .schema => s.wf                                 -- what an `OwnedDataModelType` can be
  | _, _ => false
def conformsNs : List NVal → List Schema → Bool
  | [], [] => true
  | v :: vs, t :: ts => conformsN v t && conformsNs vs ts
  | _, _ => false
def conformsNAll : List NVal → Schema → Bool
  | [], _ => true
  | v :: vs, t => conformsN v t && conformsNAll vs t
def conformsNKV : List NVal → Schema → Schema → Bool
  | [], _, _ => true
  | k :: v :: rest, kt, vt => conformsN k kt && conformsN v vt && conformsNKV rest kt vt
  | [_], _, _ => false
def conformsNFields : List Name → List NVal → List SField → Bool
  | [], [], [] => true
  | n :: ns, v :: vs, .mk fname ty :: fs => decide (n = fname) && conformsN v ty && conformsNFields ns vs fs
  | _, _, _ => false
end

end Postcard
