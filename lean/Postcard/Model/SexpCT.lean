import Postcard.Model.Sexp
import Postcard.Model.CallTree
/-
  Postcard.Model.SexpCT — line-protocol codec for recorded call trees (driver
  side; trusted glue). Mirrors harness/src/record.rs `Display for Ct`.
-/
namespace Postcard

mutual
partial def ctOfSexp : Sexp → Option CT
  | .atom "none" => some .none
  | .atom "unit" => some .unit
  | .list [.atom "bool", .atom b] => if b == "1" then some (.bool true) else if b == "0" then some (.bool false) else none
  | .list [.atom "f32", .atom h] => (natOfHexChars h.toList).map .f32
  | .list [.atom "f64", .atom h] => (natOfHexChars h.toList).map .f64
  | .list [.atom "char", .atom n] => n.toNat?.map .char
  | .list [.atom "str", .atom h] => (bytesOfHex h).map .str
  | .list [.atom "bytes", .atom h] => (bytesOfHex h).map .bytes
  | .list [.atom "some", c] => (ctOfSexp c).map .some
  | .list [.atom "ustruct", .atom n] => (bytesOfHex n).map .unitStruct
  | .list [.atom "uvar", .atom e, .atom i, .atom v] =>
    match bytesOfHex e, i.toNat?, bytesOfHex v with
    | some e, some i, some v => some (.unitVariant e i v) | _, _, _ => none
  | .list [.atom "nstruct", .atom n, c] =>
    match bytesOfHex n, ctOfSexp c with | some n, some c => some (.newtypeStruct n c) | _, _ => none
  | .list [.atom "nvar", .atom e, .atom i, .atom v, c] =>
    match bytesOfHex e, i.toNat?, bytesOfHex v, ctOfSexp c with
    | some e, some i, some v, some c => some (.newtypeVariant e i v c) | _, _, _, _ => none
  | .list (.atom "seq" :: cs) => (ctsOfSexp cs).map .seq
  | .list (.atom "tuple" :: cs) => (ctsOfSexp cs).map .tuple
  | .list (.atom "map" :: cs) => (ctsOfSexp cs).map .map
  | .list (.atom "tstruct" :: .atom n :: cs) =>
    match bytesOfHex n, ctsOfSexp cs with | some n, some cs => some (.tupleStruct n cs) | _, _ => none
  | .list (.atom "tvar" :: .atom e :: .atom i :: .atom v :: cs) =>
    match bytesOfHex e, i.toNat?, bytesOfHex v, ctsOfSexp cs with
    | some e, some i, some v, some cs => some (.tupleVariant e i v cs) | _, _, _, _ => none
  | .list (.atom "struct" :: .atom n :: fs) =>
    match bytesOfHex n, ctFieldsOfSexp fs with
    | some n, some (ns, cs) => some (.struct n ns cs) | _, _ => none
  | .list (.atom "svar" :: .atom e :: .atom i :: .atom v :: fs) =>
    match bytesOfHex e, i.toNat?, bytesOfHex v, ctFieldsOfSexp fs with
    | some e, some i, some v, some (ns, cs) => some (.structVariant e i v ns cs) | _, _, _, _ => none
  | .list [.atom k, .atom n] =>
    match k.toList with
    | 'u' :: w => match IntW.ofSuffix (String.ofList w), n.toNat? with
      | some w, some n => some (.u w n) | _, _ => none
    | 'i' :: w => match IntW.ofSuffix (String.ofList w), parseInt n with
      | some w, some x => some (.i w x) | _, _ => none
    | _ => none
  | _ => none
partial def ctsOfSexp : List Sexp → Option (List CT)
  | [] => some []
  | x :: xs => match ctOfSexp x, ctsOfSexp xs with
    | some v, some vs => some (v :: vs) | _, _ => none
partial def ctFieldsOfSexp : List Sexp → Option (List Name × List CT)
  | [] => some ([], [])
  | .list [.atom n, c] :: xs =>
    match bytesOfHex n, ctOfSexp c, ctFieldsOfSexp xs with
    | some n, some c, some (ns, cs) => some (n :: ns, c :: cs) | _, _, _ => none
  | _ => none
end

end Postcard
