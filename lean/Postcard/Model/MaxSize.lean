import Postcard.Model.Varint
import Postcard.Model.DataModel
/-
  Postcard.Model.MaxSize — mirrors source/postcard/src/max_size.rs (trait
  `MaxSize`, every built-in impl, the private helpers `varint_size` and `max`)
  and source/postcard-derive/src/max_size.rs (`#[derive(MaxSize)]`:
  `max_size_sum`, `sum_fields`, `varint_size_discriminant`).

  `MTy` is the grammar of Rust types that have a `MaxSize` impl; `maxSize m` is
  the constant `<m as MaxSize>::POSTCARD_MAX_SIZE`.  The arithmetic is on `Nat`:
  in Rust it is `usize` arithmetic in a `const` item, where an overflow is a
  compile error, so every constant that exists equals the `Nat` value.

  MODELLED (serde / serde-derive, not postcard code): how each of these types
  presents itself to the serializer — `tyOf` and `MTy.inhabits`:
    `Option` → none/some; `Result<T,E>` → enum with newtype variants Ok = 0,
    Err = 1; arrays and tuples → serde tuple; `NonZero*` → the integer (≠ 0);
    `PhantomData` → unit struct; `&T`/`&mut T`/`Box`/`Rc`/`Arc` transparent;
    `Range`/`RangeInclusive` → struct {start, end}; `RangeFrom` → struct
    {start}; `RangeTo` → struct {end}; `heapless::Vec<T,N>` → seq with at most
    `N` elements; `heapless::String<N>` → str with at most `N` bytes;
    `usize`/`isize` → `u64`/`i64` (64-bit host); derived struct: unit → unit
    struct, one unnamed field → newtype struct, other unnamed → tuple struct,
    named → struct; derived enum, variant number `i`: unit / newtype / tuple /
    struct variant with index `i`.
-/
namespace Postcard

mutual
/-- Rust types with a `MaxSize` impl. -/
inductive MTy
  | bool
  | int (signed : Bool) (w : IntW)          -- u8..u128 / i8..i128
  | usize
  | isize
  | nonZero (signed : Bool) (w : IntW)      -- NonZeroU8..U128 / NonZeroI8..I128
  | nonZeroUsize
  | nonZeroIsize
  | f32
  | f64
  | char
  | unit                                    -- ()
  | phantom                                 -- PhantomData<T>
  | option (t : MTy)
  | result (t : MTy) (e : MTy)
  | array (t : MTy) (n : Nat)               -- [T; N]
  | tuple (ts : List MTy)                   -- (A,), (A,B), … (arity 1..6 in Rust)
  | range (t : MTy)
  | rangeInclusive (t : MTy)
  | rangeFrom (t : MTy)
  | rangeTo (t : MTy)
  | ref (t : MTy)                           -- &T, &mut T, Box<T>, Rc<T>, Arc<T>
  | hvec (t : MTy) (n : Nat)                -- heapless::Vec<T, N>
  | hstring (n : Nat)                       -- heapless::String<N>
  | dstruct (fields : DFields)              -- #[derive(MaxSize)] struct
  | denum (variants : List DFields)         -- #[derive(MaxSize)] enum
/-- `syn::Fields` of a struct or of an enum variant. -/
inductive DFields
  | unit
  | unnamed (ts : List MTy)
  | named (ts : List MTy)
end

/-! ## the two private size helpers -/

/-- number of significant bits: `N::BITS - n.leading_zeros()` (0 for `n = 0`). -/
def bitLen (n : Nat) : Nat := if n = 0 then 0 else Nat.log2 n + 1

/-- mirrors `max_size.rs::varint_size(max_n: usize)`:
`if max_n == 0 {return 1}; bits = 64 - max_n.leading_zeros(); (bits + 6) / 7`
(faithful for `max_n < 2^64`, i.e. for every `usize`). -/
def varintSize (maxN : Nat) : Nat :=
  if maxN = 0 then 1 else (bitLen maxN + (7 - 1)) / 7

/-- mirrors `postcard-derive/src/max_size.rs::varint_size_discriminant(max_n: u32)`:
`bits = 32 - max_n.leading_zeros(); (bits + 6) / 7` — there is NO special case
for 0, so an enum without variants gets 0 (faithful for `max_n < 2^32`). -/
def varintSizeDiscriminant (maxN : Nat) : Nat := (bitLen maxN + (7 - 1)) / 7

/-- mirrors `const fn max(lhs, rhs)` and the derive's
`{ let lhs = …; let rhs = …; if lhs > rhs { lhs } else { rhs } }`. -/
def rmax (lhs rhs : Nat) : Nat := if lhs > rhs then lhs else rhs

/-- `POSTCARD_MAX_SIZE` of the primitive integer `uN`/`iN`: 1 for the 8-bit
types, `varint_max::<Self>()` otherwise. -/
def intMaxSize : IntW → Nat
  | .w8 => 1
  | w => varintMax w.bits

/-! ## `POSTCARD_MAX_SIZE` -/

mutual
/-- mirrors the associated constant `POSTCARD_MAX_SIZE`, one clause per impl. -/
def maxSize : MTy → Nat
  | .bool => 1
  | .int _ w => intMaxSize w
  | .usize => varintMax 64
  | .isize => varintMax 64
  | .nonZero _ w => intMaxSize w              -- `= uN::POSTCARD_MAX_SIZE`
  | .nonZeroUsize => varintMax 64
  | .nonZeroIsize => varintMax 64
  | .f32 => 4
  | .f64 => 8
  | .char => 5
  | .unit => 0
  | .phantom => 0
  | .option t => maxSize t + 1
  | .result t e => rmax (maxSize t) (maxSize e) + 1
  | .array t n => maxSize t * n
  | .tuple ts => tupleSum ts
  | .range t => maxSize t * 2
  | .rangeInclusive t => maxSize t * 2
  | .rangeFrom t => maxSize t
  | .rangeTo t => maxSize t
  | .ref t => maxSize t
  | .hvec t n => maxSize t * n + varintSize n   -- `<[T; N]>::POSTCARD_MAX_SIZE + varint_size(N)`
  | .hstring n => 1 * n + varintSize n          -- `<[u8; N]>::POSTCARD_MAX_SIZE + varint_size(N)`
  | .dstruct f => DFields.sum f
  | .denum vs => varintSizeDiscriminant vs.length + maxVariants 0 vs
/-- the tuple impls: `A + B + … ` (left-associated, no leading 0). -/
def tupleSum : List MTy → Nat
  | [] => 0
  | t :: ts => sumFrom (maxSize t) ts
/-- `acc + T₁::POSTCARD_MAX_SIZE + T₂::POSTCARD_MAX_SIZE + …`, left-associated. -/
def sumFrom (acc : Nat) : List MTy → Nat
  | [] => acc
  | t :: ts => sumFrom (acc + maxSize t) ts
/-- mirrors `sum_fields`: `0 #(+ #recurse)*` for named and unnamed fields, `0` for unit. -/
def DFields.sum : DFields → Nat
  | .unit => 0
  | .unnamed ts => sumFrom 0 ts
  | .named ts => sumFrom 0 ts
/-- mirrors `recurse.fold(quote!(0), |acc, x| if acc > x {acc} else {x})`. -/
def maxVariants (acc : Nat) : List DFields → Nat
  | [] => acc
  | f :: fs => maxVariants (rmax acc (DFields.sum f)) fs
end

/-! ## the serde shape of each type (MODELLED) -/

/-- `uN`/`iN` as a data-model kind. -/
def intTy (signed : Bool) (w : IntW) : Ty := if signed then .i w else .u w

mutual
def tyOf : MTy → Ty
  | .bool => .bool
  | .int s w => intTy s w
  | .usize => .u .w64
  | .isize => .i .w64
  | .nonZero s w => intTy s w
  | .nonZeroUsize => .u .w64
  | .nonZeroIsize => .i .w64
  | .f32 => .f32
  | .f64 => .f64
  | .char => .char
  | .unit => .unit
  | .phantom => .unitStruct
  | .option t => .option (tyOf t)
  | .result t e => .enum [.newtypeStruct (tyOf t), .newtypeStruct (tyOf e)]
  | .array t n => .tuple (List.replicate n (tyOf t))
  | .tuple ts => .tuple (tyOfList ts)
  | .range t => .struct [tyOf t, tyOf t]
  | .rangeInclusive t => .struct [tyOf t, tyOf t]
  | .rangeFrom t => .struct [tyOf t]
  | .rangeTo t => .struct [tyOf t]
  | .ref t => tyOf t
  | .hvec t _ => .seq (tyOf t)
  | .hstring _ => .str
  | .dstruct f => DFields.structTy f
  | .denum vs => .enum (variantTys vs)
def tyOfList : List MTy → List Ty
  | [] => []
  | t :: ts => tyOf t :: tyOfList ts
/-- serde-derive, struct: unit struct / newtype struct / tuple struct / struct. -/
def DFields.structTy : DFields → Ty
  | .unit => .unitStruct
  | .unnamed ts =>
    match tyOfList ts with
    | [t] => .newtypeStruct t
    | tys => .tupleStruct tys
  | .named ts => .struct (tyOfList ts)
/-- serde-derive, enum variant: unit / newtype / tuple / struct variant
(descriptor convention of `Ty.enum`, see Model/DataModel.lean). -/
def DFields.variantTy : DFields → Ty
  | .unit => .unit
  | .unnamed ts =>
    match tyOfList ts with
    | [t] => .newtypeStruct t
    | tys => .tuple tys
  | .named ts => .struct (tyOfList ts)
def variantTys : List DFields → List Ty
  | [] => []
  | f :: fs => DFields.variantTy f :: variantTys fs
end

/-! ## the values of each type -/

/-- the index carried by an enum-variant value. -/
def Val.variantIdx? : Val → Option Nat
  | .unitVariant idx => Option.some idx
  | .newtypeVariant idx _ => Option.some idx
  | .tupleVariant idx _ => Option.some idx
  | .structVariant idx _ => Option.some idx
  | _ => Option.none

/-- values of `uN`/`iN`. -/
def intInhabits (signed : Bool) (w : IntW) (nonZero : Bool) : Val → Bool
  | .u w' n => !signed && decide (w' = w) && decide (n < 2 ^ w.bits) && (!nonZero || decide (n ≠ 0))
  | .i w' x => signed && decide (w' = w) && w.inRangeI x && (!nonZero || decide (x ≠ 0))
  | _ => false

mutual
/-- `m.inhabits v`: the data-model value `v` is what some Rust value of type `m`
hands to the serializer.  This is `hasTy v (tyOf m)` (theorem
`inhabits_hasTy`) PLUS the restrictions the Rust type imposes on top of its
serde shape: `NonZero*` is not 0, `heapless::Vec<T,N>` holds at most `N`
elements, `heapless::String<N>` at most `N` bytes. -/
def MTy.inhabits : MTy → Val → Bool
  | .bool, .bool _ => true
  | .int s w, v => intInhabits s w false v
  | .usize, v => intInhabits false .w64 false v
  | .isize, v => intInhabits true .w64 false v
  | .nonZero s w, v => intInhabits s w true v
  | .nonZeroUsize, v => intInhabits false .w64 true v
  | .nonZeroIsize, v => intInhabits true .w64 true v
  | .f32, .f32 b => decide (b < 2 ^ 32)
  | .f64, .f64 b => decide (b < 2 ^ 64)
  | .char, .char c => isScalar c
  | .unit, .unit => true
  | .phantom, .unitStruct => true
  | .option _, .none => true
  | .option t, .some v => t.inhabits v
  | .result t _, .newtypeVariant 0 v => t.inhabits v         -- Ok(v)
  | .result _ e, .newtypeVariant 1 v => e.inhabits v         -- Err(v)
  | .array t n, .tuple vs => vs.all (fun v => t.inhabits v) && decide (vs.length = n)
  | .tuple ts, .tuple vs => inhabitsList ts vs
  | .range t, .struct [a, b] => t.inhabits a && t.inhabits b
  | .rangeInclusive t, .struct [a, b] => t.inhabits a && t.inhabits b
  | .rangeFrom t, .struct [a] => t.inhabits a
  | .rangeTo t, .struct [a] => t.inhabits a
  | .ref t, v => t.inhabits v
  | .hvec t n, .seq vs => vs.all (fun v => t.inhabits v) && decide (vs.length ≤ n)
  | .hstring n, .str s => utf8Valid s && decide (s.length ≤ n)
  | .dstruct f, v => DFields.inhabitsStruct f v
  | .denum fs, v =>
    match v.variantIdx? with
    | some idx => decide (idx < 2 ^ 32) && inhabitsEnum fs idx v
    | none => false
  | _, _ => false
/-- field-wise (tuples, struct fields). -/
def inhabitsList : List MTy → List Val → Bool
  | [], [] => true
  | t :: ts, v :: vs => t.inhabits v && inhabitsList ts vs
  | _, _ => false
/-- values of a derived struct. -/
def DFields.inhabitsStruct : DFields → Val → Bool
  | .unit, .unitStruct => true
  | .unnamed ts, .newtypeStruct v => decide (ts.length = 1) && inhabitsList ts [v]
  | .unnamed ts, .tupleStruct vs => decide (ts.length ≠ 1) && inhabitsList ts vs
  | .named ts, .struct vs => inhabitsList ts vs
  | _, _ => false
/-- payload of a derived enum's variant (the index is checked by `inhabitsEnum`). -/
def DFields.inhabitsVariant : DFields → Val → Bool
  | .unit, .unitVariant _ => true
  | .unnamed ts, .newtypeVariant _ v => decide (ts.length = 1) && inhabitsList ts [v]
  | .unnamed ts, .tupleVariant _ vs => decide (ts.length ≠ 1) && inhabitsList ts vs
  | .named ts, .structVariant _ vs => inhabitsList ts vs
  | _, _ => false
/-- walk to variant number `k` of the declaration. -/
def inhabitsEnum : List DFields → Nat → Val → Bool
  | [], _, _ => false
  | f :: _, 0, v => DFields.inhabitsVariant f v
  | _ :: fs, k + 1, v => inhabitsEnum fs k v
end

/-! ## well-formedness: what `rustc` guarantees about the parameters -/

mutual
/-- const-generic capacities are `usize` (`< 2^64`); the derive casts the
variant count to `u32` (`< 2^32`; an enum with more variants is not a real
program). -/
def MTy.wf : MTy → Bool
  | .option t => t.wf
  | .result t e => t.wf && e.wf
  | .array t n => t.wf && decide (n < 2 ^ 64)
  | .tuple ts => wfList ts
  | .range t => t.wf
  | .rangeInclusive t => t.wf
  | .rangeFrom t => t.wf
  | .rangeTo t => t.wf
  | .ref t => t.wf
  | .hvec t n => t.wf && decide (n < 2 ^ 64)
  | .hstring n => decide (n < 2 ^ 64)
  | .dstruct f => DFields.wf f
  | .denum fs => decide (fs.length < 2 ^ 32) && wfVariants fs
  | _ => true
def wfList : List MTy → Bool
  | [] => true
  | t :: ts => t.wf && wfList ts
def DFields.wf : DFields → Bool
  | .unit => true
  | .unnamed ts => wfList ts
  | .named ts => wfList ts
def wfVariants : List DFields → Bool
  | [] => true
  | f :: fs => DFields.wf f && wfVariants fs
end

end Postcard
