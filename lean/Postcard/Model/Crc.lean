import Postcard.Model.Flavor
import Postcard.Model.De
/-
  Postcard.Model.Crc — the CRC framing of `postcard` (feature `use-crc`).

  mirrors source/postcard/src/ser/flavors.rs  `mod crc` (`CrcModifier<'a, B, W>`,
          `to_slice_uN` / `to_vec_uN` / `to_allocvec_uN`)
  mirrors source/postcard/src/de/flavors.rs   `mod crc` (`CrcModifier<'de, B, W>`,
          `from_bytes_uN` / `take_from_bytes_uN`)

  EXTERNAL: the `crc` crate (crc 3.4.0, parameter sets from crc-catalog 2.5.0)
  is not translated.  `Digest::update` / `Digest::finalize` are MODELLED by the
  Rocksoft parametric model (width, poly, init, refin, refout, xorout) computed
  bit by bit (Ross Williams, "A painless guide to CRC error detection
  algorithms", the reference the catalogue itself is defined by).  The
  differential harness compares `crc` below with the real crate; the catalogue
  `check` values are pinned by the `example`s at the end of this file.

  Core Lean only (no Mathlib/Batteries/Std); everything is executable.
-/
namespace Postcard

/-! ### The Rocksoft model -/

/-- A CRC parameter set of width `w` (mirrors `crc_catalog::Algorithm<W>`;
`check` and `residue` are derived data and are not parameters). -/
structure CrcAlg (w : Nat) where
  poly   : BitVec w
  init   : BitVec w
  xorout : BitVec w
  refin  : Bool
  refout : Bool

/-- multiplication by `x` modulo the generator: shift left, reduce when the bit
shifted out is set. -/
def Z {w : Nat} (poly s : BitVec w) : BitVec w :=
  (s <<< 1) ^^^ (if s.msb then poly else 0)

/-- feed one message bit (the register's top bit is compared with the message
bit, the register is shifted, the polynomial is subtracted when they differ). -/
def stepBit {w : Nat} (alg : CrcAlg w) (s : BitVec w) (bit : Bool) : BitVec w :=
  let top := s.msb ^^ bit
  (s <<< 1) ^^^ (if top then alg.poly else 0)

/-- the 8 bits of a byte in the order in which the algorithm consumes them:
most significant first when `refin = false`, least significant first when
`refin = true` (the Rocksoft model reflects each input byte). -/
def byteBits (refin : Bool) (b : Byte) : List Bool :=
  if refin then
    [b.toNat.testBit 0, b.toNat.testBit 1, b.toNat.testBit 2, b.toNat.testBit 3,
     b.toNat.testBit 4, b.toNat.testBit 5, b.toNat.testBit 6, b.toNat.testBit 7]
  else
    [b.toNat.testBit 7, b.toNat.testBit 6, b.toNat.testBit 5, b.toNat.testBit 4,
     b.toNat.testBit 3, b.toNat.testBit 2, b.toNat.testBit 1, b.toNat.testBit 0]

/-- the bit-level state function. -/
def feedBits {w : Nat} (alg : CrcAlg w) (s : BitVec w) (bits : List Bool) : BitVec w :=
  bits.foldl (stepBit alg) s

/-- `Digest::update(&[b])`. -/
def stepByte {w : Nat} (alg : CrcAlg w) (s : BitVec w) (b : Byte) : BitVec w :=
  feedBits alg s (byteBits alg.refin b)

/-- `Digest::update(bytes)` (updating with a slice = updating byte by byte). -/
def crcState {w : Nat} (alg : CrcAlg w) (s : BitVec w) (bytes : List Byte) : BitVec w :=
  bytes.foldl (stepByte alg) s

/-- `Digest::finalize`: optional reflection of the register, then `xorout`. -/
def crcFinal {w : Nat} (alg : CrcAlg w) (s : BitVec w) : BitVec w :=
  (if alg.refout then s.reverse else s) ^^^ alg.xorout

/-- `Crc::checksum(bytes)` = `digest()`, `update(bytes)`, `finalize()`. -/
def crc {w : Nat} (alg : CrcAlg w) (bytes : List Byte) : BitVec w :=
  crcFinal alg (crcState alg alg.init bytes)

/-- the whole message as a bit list, in the algorithm's own bit order. -/
def msgBits {w : Nat} (alg : CrcAlg w) (bytes : List Byte) : List Bool :=
  bytes.flatMap (byteBits alg.refin)

/-! ### Catalogue parameter sets used by the harness
(crc-catalog-2.5.0/src/algorithm.rs).  The only `Algorithm<u128>` of the
catalogue is the 82-bit `CRC_82_DARC`: the crate keeps the 82-bit register in a
`u128`, `finalize()` returns a value `< 2^82`, and postcard writes
`to_le_bytes()` of that `u128`, i.e. 16 bytes (`nbytes = 16` below). -/

def CRC_8_SMBUS : CrcAlg 8 :=
  { poly := 0x07, init := 0x00, xorout := 0x00, refin := false, refout := false }
def CRC_8_MAXIM_DOW : CrcAlg 8 :=
  { poly := 0x31, init := 0x00, xorout := 0x00, refin := true, refout := true }
/-- the one catalogue entry with `refin ≠ refout` (12 bits kept in a `u16`,
`nbytes = 2`); pins `refout` independently of `refin`. -/
def CRC_12_UMTS : CrcAlg 12 :=
  { poly := 0x80f, init := 0x000, xorout := 0x000, refin := false, refout := true }
def CRC_16_IBM_SDLC : CrcAlg 16 :=
  { poly := 0x1021, init := 0xffff, xorout := 0xffff, refin := true, refout := true }
def CRC_16_XMODEM : CrcAlg 16 :=
  { poly := 0x1021, init := 0x0000, xorout := 0x0000, refin := false, refout := false }
def CRC_32_ISO_HDLC : CrcAlg 32 :=
  { poly := 0x04c11db7, init := 0xffffffff, xorout := 0xffffffff, refin := true, refout := true }
def CRC_32_BZIP2 : CrcAlg 32 :=
  { poly := 0x04c11db7, init := 0xffffffff, xorout := 0xffffffff, refin := false, refout := false }
def CRC_64_ECMA_182 : CrcAlg 64 :=
  { poly := 0x42f0e1eba9ea3693, init := 0x0, xorout := 0x0, refin := false, refout := false }
def CRC_64_XZ : CrcAlg 64 :=
  { poly := 0x42f0e1eba9ea3693, init := 0xffffffffffffffff, xorout := 0xffffffffffffffff,
    refin := true, refout := true }
def CRC_82_DARC : CrcAlg 82 :=
  { poly := 0x0308c0111011401440411, init := 0x0, xorout := 0x0, refin := true, refout := true }

/-- ASCII "123456789", the catalogue's `check` input. -/
def checkInput : List Byte := [0x31, 0x32, 0x33, 0x34, 0x35, 0x36, 0x37, 0x38, 0x39]

/-! ### Serialization side: `ser_flavors::crc::CrcModifier` -/

/-- mirrors `impl Flavor for CrcModifier<'a, B, $int>`; state = inner flavour
state × digest register.

* `try_push(data)`: `self.digest.update(&[data]); self.flav.try_push(data)` —
  the digest is updated BEFORE the inner push and also when the push fails.
* `try_extend`: NOT overridden, so the trait default applies: byte-wise
  `try_push`, stopping at the first error.
* `finalize`: `let crc = self.digest.finalize(); for byte in crc.to_le_bytes()
  { self.flav.try_push(byte)?; } self.flav.finalize()`.  `nbytes` is
  `size_of::<$int>()` (1, 2, 4, 8, 16).
* `CrcModifier` has no `IndexMut` impl, so it cannot sit under the COBS
  modifier; `setAt` is never callable and is modelled as the failing `none`. -/
def CrcSer {σ ω : Type} {w : Nat} (alg : CrcAlg w) (nbytes : Nat) (F : Flavor σ ω) :
    Flavor (σ × BitVec w) ω :=
  let push : σ × BitVec w → Byte → (σ × BitVec w) × Option Err := fun s b =>
    let d := stepByte alg s.2 b
    let r := F.tryPush s.1 b
    ((r.1, d), r.2)
  { tryPush := push
    tryExtend := defaultExtend push
    finalize := fun s =>
      let c := leBytes nbytes (crcFinal alg s.2).toNat
      match defaultExtend F.tryPush s.1 c with
      | (s', some e) => ((s', s.2), .error e)
      | (s', none) =>
        let r := F.finalize s'
        ((r.1, s.2), r.2)
    setAt := fun _ _ _ => none }

/-- mirrors `to_allocvec_uN(value, digest)` with `digest = Crc::<uN>::new(&ALG).digest()`:
`serialize_with_flavor(value, CrcModifier::new(AllocVec::new(), digest))`. -/
def toAllocVecCrc {w : Nat} (alg : CrcAlg w) (nbytes : Nat) (v : Val) : R (List Byte) :=
  (serializeWith (CrcSer alg nbytes AllocVec) ([], alg.init) v).2

/-- mirrors `to_vec_uN::<T, B>` (heapless, capacity `cap`). -/
def toHVecCrc {w : Nat} (alg : CrcAlg w) (nbytes : Nat) (cap : Nat) (v : Val) : R (List Byte) :=
  (serializeWith (CrcSer alg nbytes HVec) ({ cap := cap, vec := [] }, alg.init) v).2

/-- mirrors `to_slice_uN(value, buf, digest)`; returns the final buffer too. -/
def toSliceCrc {w : Nat} (alg : CrcAlg w) (nbytes : Nat) (buf : List Byte) (v : Val) :
    List Byte × R (List Byte) :=
  let r := serializeWith (CrcSer alg nbytes Slice) ({ mem := buf, cursor := 0 }, alg.init) v
  (r.1.1.mem, r.2)

/-! ### Deserialization side: `de_flavors::crc::CrcModifier` -/

/-- mirrors `take_from_bytes_uN` over the `Slice` flavour, for a deserializer
`decF` (for postcard proper, `decF = dec ty`).

`pop` / `try_take_n` forward to the inner flavour and `digest.update` exactly
the bytes obtained (nothing on an error).  This is MODELLED as: "the digested
bytes are exactly the bytes the inner flavour handed out", i.e. the prefix of
the input consumed by `decF`, `bs.take (bs.length - r.length)`.  The model relies
on `decF` consuming a prefix of its input (returning a suffix as remainder); the
theorems state that hypothesis explicitly where it is needed, and `dec ty`
satisfies it because the `Slice` flavour only ever advances its cursor.

`finalize`: `self.flav.try_take_n(size_of::<$int>())` from the INNER flavour
(these bytes are not digested; a short read is `DeserializeUnexpectedEnd`), then
`self.flav.finalize()` (the `Slice` remainder, infallible), then
`digest.finalize() == <$int>::from_le_bytes(..)` → `Ok(remainder)` or
`Err(DeserializeBadCrc)`.  (`try_into` of a slice of exactly `size_of` bytes
into the array cannot fail, so `DeserializeBadEncoding` is unreachable.)
A deserialization error is returned before `finalize` is reached. -/
def takeFromBytesCrc {α : Type} {w : Nat} (alg : CrcAlg w) (nbytes : Nat)
    (decF : List Byte → R (α × List Byte)) (bs : List Byte) : R (α × List Byte) :=
  match decF bs with
  | .error e => .error e
  | .ok (v, r) =>
    let consumed := bs.take (bs.length - r.length)
    match takeN nbytes r with
    | .error e => .error e
    | .ok (c, r') =>
      if ofLeBytes c = (crc alg consumed).toNat then .ok (v, r') else .error .badCrc

/-- mirrors `from_bytes_uN`: as above, the remainder is dropped. -/
def fromBytesCrc {α : Type} {w : Nat} (alg : CrcAlg w) (nbytes : Nat)
    (decF : List Byte → R (α × List Byte)) (bs : List Byte) : R α :=
  match takeFromBytesCrc alg nbytes decF bs with
  | .error e => .error e
  | .ok (v, _) => .ok v

/-! ### Catalogue `check` values (CRC of ASCII "123456789")
These pin the bitwise model to crc-catalog's published check values. -/

example : crc CRC_8_SMBUS checkInput = 0xf4#8 := by decide +kernel
example : crc CRC_8_MAXIM_DOW checkInput = 0xa1#8 := by decide +kernel
example : crc CRC_12_UMTS checkInput = 0xdaf#12 := by decide +kernel
example : crc CRC_16_IBM_SDLC checkInput = 0x906e#16 := by decide +kernel
example : crc CRC_16_XMODEM checkInput = 0x31c3#16 := by decide +kernel
example : crc CRC_32_ISO_HDLC checkInput = 0xcbf43926#32 := by decide +kernel
example : crc CRC_32_BZIP2 checkInput = 0xfc891918#32 := by decide +kernel
example : crc CRC_64_ECMA_182 checkInput = 0x6c40df5f0b497347#64 := by decide +kernel
example : crc CRC_64_XZ checkInput = 0x995dc9bbdf1939fa#64 := by decide +kernel
example : crc CRC_82_DARC checkInput = 0x09ea83f625023801fd612#82 := by decide +kernel

end Postcard
