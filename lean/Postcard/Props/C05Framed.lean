import Postcard.Props.EndToEnd
/-
  Postcard.Props.C05Framed — property C05 ("bounded-buffer serialisation: exact
  capacity threshold, never out of bounds") for the FRAMED fixed storages.
  The plain case is `to_slice_threshold` / `to_hvec_threshold` (Props/C05.lean).

    * `Slice.runBytes_threshold`, `HVec.runBytes_threshold`: byte-wise pushing
      into a fixed storage succeeds iff everything fits; otherwise
      `SerializeBufferFull` with the storage filled to the brim.
    * `to_slice_crc_threshold`, `to_hvec_crc_threshold`: `to_slice_uN` /
      `to_vec_uN` succeed exactly when capacity ≥ |enc v| + size_of::<uN>().
    * `to_slice_cobs_threshold`, `to_hvec_cobs_threshold`: `to_slice_cobs` /
      `to_vec_cobs` succeed exactly when capacity ≥ |cobsEncode (enc v)| + 1;
      otherwise `SerializeBufferFull` — never a panic.
    * what the caller's buffer looks like afterwards: `to_slice_crc_buffer`,
      `to_slice_cobs_cases`, `to_slice_cobs_in_bounds`, `to_hvec_cobs_cases`.

  Route for the COBS failure half (`E2E.cobs_run_cases`): over a bounded
  storage (`E2E.Bounded`) every step of the modifier is either refused with
  `SerializeBufferFull` or simulated by the same step over `AllocVec` on the
  same log; a run that is never refused therefore ends with the reference frame
  as its log, so the frame fits the capacity.

  `toSliceCobs` / `toHVecCobs` are defined in Props/EndToEnd.lean.
-/
namespace Postcard.E2E
open Postcard Spec

/-! ## byte-wise pushes into the fixed storages -/

theorem writeAt_cons_set {mem : List Byte} {pos : Nat} (b : Byte) (bs : List Byte)
    (h : pos < mem.length) :
    writeAt (mem.set pos b) (pos + 1) bs = writeAt mem pos (b :: bs) := by
  rw [set_eq_writeAt b h]
  have := writeAt_writeAt (mem := mem) (pos := pos) [b] bs (by omega)
  simpa using this

/-- `Slice`: pushing `bs` one byte at a time from an in-bounds state.  All of
`bs` is written iff it fits; otherwise the pushes stop with
`SerializeBufferFull` exactly when the buffer is full: the bytes that did fit
are written, the cursor is at the end. -/
theorem Slice.defaultExtend_threshold (bs : List Byte) : ∀ (s : SliceSt),
    s.cursor ≤ s.mem.length →
    defaultExtend Slice.tryPush s bs =
      if s.cursor + bs.length ≤ s.mem.length then
        (⟨writeAt s.mem s.cursor bs, s.cursor + bs.length⟩, none)
      else
        (⟨writeAt s.mem s.cursor (bs.take (s.mem.length - s.cursor)), s.mem.length⟩,
          some .bufferFull) := by
  induction bs with
  | nil => intro s hc; simp [defaultExtend, writeAt_nil, hc]
  | cons b bs ih =>
    intro s hc
    simp only [defaultExtend]
    by_cases hfull : s.cursor = s.mem.length
    · have hp : Slice.tryPush s b = (s, some .bufferFull) := by simp [Slice, hfull]
      have hn : ¬ s.cursor + (b :: bs).length ≤ s.mem.length := by
        simp only [List.length_cons]; omega
      rw [hp, if_neg hn]
      simp only [hfull, Nat.sub_self, List.take_zero, writeAt_nil]
      cases s; simp_all
    · have hlt : s.cursor < s.mem.length := by omega
      have hp : Slice.tryPush s b = (⟨s.mem.set s.cursor b, s.cursor + 1⟩, none) := by
        simp [Slice, hfull]
      rw [hp]
      simp only
      rw [ih ⟨s.mem.set s.cursor b, s.cursor + 1⟩ (by simp; omega)]
      simp only [List.length_set, List.length_cons, writeAt_cons_set b _ hlt]
      have e1 : s.cursor + 1 + bs.length = s.cursor + (bs.length + 1) := by omega
      have e2 : s.mem.length - s.cursor = (s.mem.length - (s.cursor + 1)) + 1 := by omega
      rw [e1]
      by_cases hfit : s.cursor + (bs.length + 1) ≤ s.mem.length
      · rw [if_pos hfit, if_pos hfit]
      · rw [if_neg hfit, if_neg hfit, e2, List.take_succ_cons]

/-- `HVec`: likewise. -/
theorem HVec.defaultExtend_threshold (bs : List Byte) : ∀ (s : HVecSt),
    s.vec.length ≤ s.cap →
    defaultExtend HVec.tryPush s bs =
      if s.vec.length + bs.length ≤ s.cap then (⟨s.cap, s.vec ++ bs⟩, none)
      else (⟨s.cap, s.vec ++ bs.take (s.cap - s.vec.length)⟩, some .bufferFull) := by
  induction bs with
  | nil => intro s hc; simp [defaultExtend, hc]
  | cons b bs ih =>
    intro s hc
    simp only [defaultExtend]
    by_cases hfull : s.vec.length < s.cap
    · have hp : HVec.tryPush s b = (⟨s.cap, s.vec ++ [b]⟩, none) := by simp [HVec, hfull]
      rw [hp]
      simp only
      rw [ih ⟨s.cap, s.vec ++ [b]⟩ (by simp; omega)]
      simp only [List.length_append, List.length_cons, List.length_nil, List.append_assoc,
        List.singleton_append]
      have e1 : s.vec.length + (0 + 1) + bs.length = s.vec.length + (bs.length + 1) := by omega
      have e2 : s.cap - s.vec.length = (s.cap - (s.vec.length + (0 + 1))) + 1 := by omega
      rw [e1]
      by_cases hfit : s.vec.length + (bs.length + 1) ≤ s.cap
      · rw [if_pos hfit, if_pos hfit]
      · rw [if_neg hfit, if_neg hfit, e2, List.take_succ_cons]
    · have hp : HVec.tryPush s b = (s, some .bufferFull) := by simp [HVec, hfull]
      have hn : ¬ s.vec.length + (b :: bs).length ≤ s.cap := by
        simp only [List.length_cons]; omega
      have he : s.cap - s.vec.length = 0 := by omega
      rw [hp, if_neg hn, he]
      simp

end Postcard.E2E

namespace Postcard
open Spec

/-- **byte-wise pushes into `Slice`, then `finalize`** (`Flavor.runBytes`, the
way every modifier of the crate drives its inner storage): succeeds iff `bs`
fits behind the cursor; otherwise `SerializeBufferFull`, the buffer keeps its
length and is filled to the end with the bytes that did fit. -/
theorem Slice.runBytes_threshold (s : SliceSt) (bs : List Byte) (hc : s.cursor ≤ s.mem.length) :
    Slice.runBytes s bs =
      if s.cursor + bs.length ≤ s.mem.length then
        (⟨writeAt s.mem s.cursor bs, s.cursor + bs.length⟩,
          .ok ((writeAt s.mem s.cursor bs).take (s.cursor + bs.length)))
      else
        (⟨writeAt s.mem s.cursor (bs.take (s.mem.length - s.cursor)), s.mem.length⟩,
          .error .bufferFull) := by
  simp only [Flavor.runBytes, E2E.Slice.defaultExtend_threshold bs s hc]
  by_cases h : s.cursor + bs.length ≤ s.mem.length
  · simp only [if_pos h]; rfl
  · simp only [if_neg h]

/-- **byte-wise pushes into `HVec`, then `finalize`.** -/
theorem HVec.runBytes_threshold (s : HVecSt) (bs : List Byte) (hc : s.vec.length ≤ s.cap) :
    HVec.runBytes s bs =
      if s.vec.length + bs.length ≤ s.cap then (⟨s.cap, s.vec ++ bs⟩, .ok (s.vec ++ bs))
      else (⟨s.cap, s.vec ++ bs.take (s.cap - s.vec.length)⟩, .error .bufferFull) := by
  simp only [Flavor.runBytes, E2E.HVec.defaultExtend_threshold bs s hc]
  by_cases h : s.vec.length + bs.length ≤ s.cap
  · simp only [if_pos h]; rfl
  · simp only [if_neg h]

end Postcard

namespace Postcard
open Spec

/-! ## CRC-framed fixed storages: `to_slice_uN`, `to_vec_uN` -/

/-- the state and result of `to_slice_uN` are those of pushing
`enc v ++ checksum` byte-wise into the bare `Slice`. -/
theorem toSliceCrc_eq_runBytes {w : Nat} (alg : CrcAlg w) (n : Nat) (buf : List Byte) (v : Val) :
    toSliceCrc alg n buf v =
      ((Slice.runBytes ⟨buf, 0⟩ (enc v ++ leBytes n (crc alg (enc v)).toNat)).1.mem,
       (Slice.runBytes ⟨buf, 0⟩ (enc v ++ leBytes n (crc alg (enc v)).toNat)).2) := by
  obtain ⟨h1, h2⟩ := crcSer_serializeWith alg n Slice ⟨buf, 0⟩ v
  simp only [toSliceCrc, h1, h2]

/-- **C05, `to_slice_uN`.**  Success exactly when the buffer holds the plain
encoding plus the `n = size_of::<uN>()` checksum bytes, and then the returned
slice is `enc v ++ checksum`; otherwise `SerializeBufferFull` (never a panic,
never another error). -/
theorem to_slice_crc_threshold {w : Nat} (alg : CrcAlg w) (n : Nat) (buf : List Byte) (v : Val) :
    (toSliceCrc alg n buf v).2 =
      if (enc v).length + n ≤ buf.length then
        .ok (enc v ++ leBytes n (crc alg (enc v)).toNat)
      else .error .bufferFull := by
  rw [toSliceCrc_eq_runBytes, Slice.runBytes_threshold _ _ (Nat.zero_le _)]
  simp only [Nat.zero_add, List.length_append, leBytes_length]
  by_cases h : (enc v).length + n ≤ buf.length
  · simp only [if_pos h, writeAt_zero]
    rw [List.take_left' (by simp [leBytes_length])]
  · simp only [if_neg h]

/-- **C05, `to_slice_uN`: the caller's buffer afterwards.**  Whatever the
outcome, the buffer keeps its length and holds the first `buf.length` bytes of
the frame `enc v ++ checksum` followed by its own untouched tail: on success
the whole frame then the old tail, on failure it is filled to the brim with the
frame's prefix (the checksum modifier pushes byte by byte). -/
theorem to_slice_crc_buffer {w : Nat} (alg : CrcAlg w) (n : Nat) (buf : List Byte) (v : Val) :
    (toSliceCrc alg n buf v).1 =
        (enc v ++ leBytes n (crc alg (enc v)).toNat).take buf.length
          ++ buf.drop ((enc v).length + n) ∧
    (toSliceCrc alg n buf v).1.length = buf.length := by
  have hmem : (toSliceCrc alg n buf v).1 =
      (enc v ++ leBytes n (crc alg (enc v)).toNat).take buf.length
        ++ buf.drop ((enc v).length + n) := by
    rw [toSliceCrc_eq_runBytes, Slice.runBytes_threshold _ _ (Nat.zero_le _)]
    simp only [Nat.zero_add, List.length_append, leBytes_length, Nat.sub_zero]
    by_cases h : (enc v).length + n ≤ buf.length
    · simp only [if_pos h, writeAt_zero, List.length_append, leBytes_length]
      rw [List.take_of_length_le (by simp [leBytes_length]; omega)]
    · simp only [if_neg h, writeAt_zero]
      have hl : (List.take buf.length (enc v ++ leBytes n (crc alg (enc v)).toNat)).length
          = buf.length := by
        simp [leBytes_length]; omega
      rw [hl, List.drop_of_length_le (Nat.le_refl _), List.drop_of_length_le (by omega)]
  refine ⟨hmem, ?_⟩
  rw [hmem]
  simp only [List.length_append, List.length_take, List.length_drop, leBytes_length]
  omega

/-- **C05, `to_vec_uN::<_, B>`** (`B = cap`): same threshold. -/
theorem to_hvec_crc_threshold {w : Nat} (alg : CrcAlg w) (n : Nat) (cap : Nat) (v : Val) :
    toHVecCrc alg n cap v =
      if (enc v).length + n ≤ cap then .ok (enc v ++ leBytes n (crc alg (enc v)).toNat)
      else .error .bufferFull := by
  have h2 := (crcSer_serializeWith alg n HVec ⟨cap, []⟩ v).2
  simp only [toHVecCrc, h2]
  rw [HVec.runBytes_threshold _ _ (Nat.zero_le _)]
  simp only [List.length_nil, Nat.zero_add, List.length_append, leBytes_length, List.nil_append]
  by_cases h : (enc v).length + n ≤ cap
  · simp only [if_pos h]
  · simp only [if_neg h]

/-- `to_vec_uN`: the vector never exceeds its capacity; it ends up holding the
first `cap` bytes of the frame. -/
theorem to_hvec_crc_within_capacity {w : Nat} (alg : CrcAlg w) (n : Nat) (cap : Nat) (v : Val) :
    (serializeWith (CrcSer alg n HVec) (⟨cap, []⟩, alg.init) v).1.1 =
      ⟨cap, (enc v ++ leBytes n (crc alg (enc v)).toNat).take cap⟩ := by
  rw [(crcSer_serializeWith alg n HVec ⟨cap, []⟩ v).1,
    HVec.runBytes_threshold _ _ (Nat.zero_le _)]
  simp only [List.length_nil, Nat.zero_add, List.length_append, leBytes_length, List.nil_append,
    Nat.sub_zero]
  by_cases h : (enc v).length + n ≤ cap
  · simp only [if_pos h]
    rw [List.take_of_length_le (by simp [leBytes_length]; omega)]
  · simp only [if_neg h]

end Postcard

namespace Postcard.E2E
open Postcard Spec

/-! ## the COBS modifier over a BOUNDED lawful storage

The encoder state `EncSt` evolves independently of the storage, and a bounded
storage either appends a pushed byte to its log or refuses it with
`SerializeBufferFull`, leaving its state unchanged.  Hence, as long as no push
is refused, the run over the bounded storage is simulated step by step by the
run over `AllocVec` started on the same log — whose result is known
(`cobs_extend_fin`): the reference frame.  A successful bounded run therefore
holds the whole frame in its log, which is impossible when the capacity is
smaller than the frame.  `IndexMut` is only ever applied inside the log
(`CobsInv`), so it never panics and never touches anything else. -/
section sim
variable {σ : Type} {F : Flavor σ (List Byte)}

/-- what the threshold theorems need from a fixed-capacity storage, on top of
`LawfulIdx`: an invariant `valid` of the storage state; a push in a valid
state appends to the log (keeping `valid`) or is refused with
`SerializeBufferFull` leaving the state as it was — and then the storage is
`full`; `IndexMut` INSIDE THE LOG keeps `valid`; `finalize` does not change the
state. -/
structure Bounded (L : LawfulIdx F) where
  valid : σ → Prop
  full : σ → Prop
  push_total : ∀ s b, valid s →
    (∃ s', F.tryPush s b = (s', none) ∧ L.log s' = L.log s ++ [b] ∧ valid s') ∨
    (F.tryPush s b = (s, some .bufferFull) ∧ full s)
  setAt_valid : ∀ s i b s', valid s → i < (L.log s).length → F.setAt s i b = some s' → valid s'
  fin_state : ∀ s, (F.finalize s).1 = s

/-- invariant of the COBS flavour state over a bounded storage (cf. `CobsInv`):
the slot of the current code byte lies inside the log. -/
def BInv (L : LawfulIdx F) (B : Bounded L) (st : σ × EncSt) : Prop :=
  B.valid st.1 ∧ st.2.Inv ∧ st.2.codeIdx + st.2.offsetIdx = (L.log st.1).length

theorem allocVec_setAt (l : List Byte) (i : Nat) (b : Byte) (h : i < l.length) :
    AllocVec.setAt l i b = some (l.set i b) := by simp [AllocVec, h]

theorem allocVec_tryPush (l : List Byte) (b : Byte) : AllocVec.tryPush l b = (l ++ [b], none) :=
  rfl

/-- one `try_push` of the COBS modifier: accepted exactly like over `AllocVec`,
or refused with `SerializeBufferFull` in a valid, full storage state. -/
theorem push_sim (L : LawfulIdx F) (B : Bounded L) (st : σ × EncSt) (b : Byte)
    (h : BInv L B st) :
    (∃ st', Cobs.push F st b = (st', none) ∧ BInv L B st' ∧
      Cobs.push AllocVec (L.log st.1, st.2) b = ((L.log st'.1, st'.2), none)) ∨
    (∃ st', Cobs.push F st b = (st', some .bufferFull) ∧ B.valid st'.1 ∧ B.full st'.1) := by
  obtain ⟨s, e⟩ := st
  obtain ⟨hv, ⟨hi1, hi2, hi3⟩, hlen⟩ := h
  simp only [] at hv hi1 hi2 hi3 hlen
  have hidx : e.codeIdx < (L.log s).length := by omega
  by_cases hb : b = 0
  · subst hb
    obtain ⟨s1, h1, hl1, _⟩ := L.setAt_ok s e.codeIdx (UInt8.ofNat e.numBtSent) hidx
    have hv1 := B.setAt_valid _ _ _ _ hv hidx h1
    rcases B.push_total s1 0 hv1 with ⟨s2, h2, hl2, hv2⟩ | ⟨h2, hf2⟩
    · left
      refine ⟨(s2, ⟨e.codeIdx + e.offsetIdx, 1, 1⟩),
        by simp only [Cobs.push, EncSt.push, if_true, h1, h2], ⟨hv2, ?_, ?_⟩, ?_⟩
      · simp [EncSt.Inv]
      · simp only [hl2, hl1, List.length_append, List.length_set, List.length_cons, List.length_nil]
        omega
      · simp only [Cobs.push, EncSt.push, if_true, allocVec_setAt _ _ _ hidx, allocVec_tryPush,
          hl2, hl1]
    · right
      exact ⟨(s1, ⟨e.codeIdx + e.offsetIdx, 1, 1⟩),
        by simp only [Cobs.push, EncSt.push, if_true, h1, h2], hv1, hf2⟩
  · by_cases hff : 0xFF = (e.numBtSent + 1) % 256
    · obtain ⟨s1, h1, hl1, _⟩ := L.setAt_ok s e.codeIdx (UInt8.ofNat ((e.numBtSent + 1) % 256)) hidx
      have hv1 := B.setAt_valid _ _ _ _ hv hidx h1
      rcases B.push_total s1 b hv1 with ⟨s2, h2, hl2, hv2⟩ | ⟨h2, hf2⟩
      · rcases B.push_total s2 0 hv2 with ⟨s3, h3, hl3, hv3⟩ | ⟨h3, hf3⟩
        · left
          refine ⟨(s3, ⟨e.codeIdx + (e.offsetIdx + 1) % 256, 1, 1⟩),
            by simp only [Cobs.push, EncSt.push, if_neg hb, if_pos hff, h1, h2, h3],
            ⟨hv3, ?_, ?_⟩, ?_⟩
          · simp [EncSt.Inv]
          · simp only [hl3, hl2, hl1, List.length_append, List.length_set, List.length_cons,
              List.length_nil]
            omega
          · simp only [Cobs.push, EncSt.push, if_neg hb, if_pos hff, allocVec_setAt _ _ _ hidx,
              allocVec_tryPush, hl3, hl2, hl1]
        · right
          exact ⟨(s2, ⟨e.codeIdx + (e.offsetIdx + 1) % 256, 1, 1⟩),
            by simp only [Cobs.push, EncSt.push, if_neg hb, if_pos hff, h1, h2, h3], hv2, hf3⟩
      · right
        exact ⟨(s1, ⟨e.codeIdx + (e.offsetIdx + 1) % 256, 1, 1⟩),
          by simp only [Cobs.push, EncSt.push, if_neg hb, if_pos hff, h1, h2], hv1, hf2⟩
    · rcases B.push_total s b hv with ⟨s1, h1, hl1, hv1⟩ | ⟨h1, hf1⟩
      · left
        refine ⟨(s1, ⟨e.codeIdx, (e.numBtSent + 1) % 256, (e.offsetIdx + 1) % 256⟩),
          by simp only [Cobs.push, EncSt.push, if_neg hb, if_neg hff, h1], ⟨hv1, ?_, ?_⟩, ?_⟩
        · refine ⟨?_, ?_, ?_⟩ <;> simp only [] <;> omega
        · simp only [hl1, List.length_append, List.length_cons, List.length_nil]
          omega
        · simp only [Cobs.push, EncSt.push, if_neg hb, if_neg hff, allocVec_tryPush, hl1]
      · right
        exact ⟨(s, ⟨e.codeIdx, (e.numBtSent + 1) % 256, (e.offsetIdx + 1) % 256⟩),
          by simp only [Cobs.push, EncSt.push, if_neg hb, if_neg hff, h1], hv, hf1⟩

/-- the default `try_extend` of the COBS modifier (byte-wise pushes). -/
theorem extend_sim (L : LawfulIdx F) (B : Bounded L) (m : List Byte) :
    ∀ st, BInv L B st →
    (∃ st', defaultExtend (Cobs.push F) st m = (st', none) ∧ BInv L B st' ∧
      defaultExtend (Cobs.push AllocVec) (L.log st.1, st.2) m = ((L.log st'.1, st'.2), none)) ∨
    (∃ st', defaultExtend (Cobs.push F) st m = (st', some .bufferFull) ∧
      B.valid st'.1 ∧ B.full st'.1) := by
  induction m with
  | nil => intro st h; exact Or.inl ⟨st, rfl, h, rfl⟩
  | cons b m ih =>
    intro st h
    rcases push_sim L B st b h with ⟨st1, h1, hi1, ha1⟩ | ⟨st1, h1, hx1⟩
    · rcases ih st1 hi1 with ⟨st2, h2, hi2, ha2⟩ | ⟨st2, h2, hx2⟩
      · exact Or.inl ⟨st2, by simp only [defaultExtend, h1, h2], hi2,
          by simp only [defaultExtend, ha1, ha2]⟩
      · exact Or.inr ⟨st2, by simp only [defaultExtend, h1, h2], hx2⟩
    · exact Or.inr ⟨st1, by simp only [defaultExtend, h1], hx1⟩

/-- `finalize` of the COBS modifier: the same output as over `AllocVec`, which
is the final storage's log; or refused with `SerializeBufferFull` in a valid,
full storage state. -/
theorem fin_sim (L : LawfulIdx F) (B : Bounded L) (st : σ × EncSt) (h : BInv L B st) :
    (∃ st', Cobs.fin F st = (st', .ok (L.log st'.1)) ∧ B.valid st'.1 ∧
      (Cobs.fin AllocVec (L.log st.1, st.2)).2 = .ok (L.log st'.1)) ∨
    (∃ st', Cobs.fin F st = (st', .error .bufferFull) ∧ B.valid st'.1 ∧ B.full st'.1) := by
  obtain ⟨s, e⟩ := st
  obtain ⟨hv, ⟨hi1, hi2, hi3⟩, hlen⟩ := h
  simp only [] at hv hi1 hi2 hi3 hlen
  have hidx : e.codeIdx < (L.log s).length := by omega
  obtain ⟨s1, h1, hl1, _⟩ := L.setAt_ok s e.codeIdx (UInt8.ofNat e.numBtSent) hidx
  have hv1 := B.setAt_valid _ _ _ _ hv hidx h1
  rcases B.push_total s1 0 hv1 with ⟨s2, h2, hl2, hv2⟩ | ⟨h2, hf2⟩
  · left
    have hf := L.finalize_ok s2
    have hs := B.fin_state s2
    rcases hfin : F.finalize s2 with ⟨s3, r⟩
    rw [hfin] at hf hs
    simp only at hf hs
    subst hf hs
    refine ⟨(s3, e), by simp only [Cobs.fin, EncSt.finalize, h1, h2, hfin], hv2, ?_⟩
    simp only [Cobs.fin, EncSt.finalize, allocVec_setAt _ _ _ hidx, allocVec_tryPush, hl2, hl1]
    rfl
  · right
    exact ⟨(s1, e), by simp only [Cobs.fin, EncSt.finalize, h1, h2], hv1, hf2⟩

/-- **The whole run over a bounded lawful storage**, started empty and valid:
`try_new` is refused, or the byte-wise run + `finalize` is refused — both with
`SerializeBufferFull`, the storage valid and full — or the run returns the
reference frame, which is then the log of the (valid) final storage state. -/
theorem cobs_run_cases (L : LawfulIdx F) (B : Bounded L) (s0 : σ) (h0 : L.log s0 = [])
    (hv : B.valid s0) (m : List Byte) :
    (∃ st, Cobs.tryNew F s0 = (st, some .bufferFull) ∧ B.valid st.1 ∧ B.full st.1) ∨
    (∃ st1, Cobs.tryNew F s0 = (st1, none) ∧
      ((∃ st2, (Cobs F).runBytes st1 m = (st2, .error .bufferFull) ∧
          B.valid st2.1 ∧ B.full st2.1) ∨
       (∃ st2, (Cobs F).runBytes st1 m = (st2, .ok (cobsEncode m ++ [0])) ∧
          B.valid st2.1 ∧ L.log st2.1 = cobsEncode m ++ [0]))) := by
  have hpush : (Cobs F).tryPush = Cobs.push F := rfl
  have hfinal : (Cobs F).finalize = Cobs.fin F := rfl
  rcases B.push_total s0 0 hv with ⟨s1, h1, hl1, hv1⟩ | ⟨h1, hf1⟩
  · right
    refine ⟨(s1, EncSt.default), by simp [Cobs.tryNew, h1], ?_⟩
    have hinv : BInv L B (s1, EncSt.default) :=
      ⟨hv1, EncSt.inv_default, by simp [hl1, h0, EncSt.default]⟩
    rcases extend_sim L B m _ hinv with ⟨st2, h2, hi2, ha2⟩ | ⟨st2, h2, hx2⟩
    · rcases fin_sim L B st2 hi2 with ⟨st3, h3, hv3, ha3⟩ | ⟨st3, h3, hx3⟩
      · right
        -- the reference run over `AllocVec`
        obtain ⟨sa, sa', hx, hfin⟩ := cobs_extend_fin LawfulIdx.allocVec m [0] EncSt.default
          [] [] 0 (cobsEncode m).length rfl (by simp) rfl rfl rfl (by simp [cobsEncode]) trivial
        simp only [hl1, h0, List.nil_append] at ha2
        rw [ha2] at hx
        simp only [Prod.mk.injEq, and_true] at hx
        subst hx
        rw [hfin] at ha3
        simp only [List.nil_append, Except.ok.injEq] at ha3
        have hlog : L.log st3.1 = cobsEncode m ++ [0] := by rw [← ha3]; rfl
        refine ⟨st3, ?_, hv3, hlog⟩
        simp only [Flavor.runBytes, hpush, hfinal, h2, h3, hlog]
      · left
        exact ⟨st3, by simp only [Flavor.runBytes, hpush, hfinal, h2, h3], hx3⟩
    · left
      exact ⟨st2, by simp only [Flavor.runBytes, hpush, h2], hx2⟩
  · left
    exact ⟨(s0, EncSt.default), by simp [Cobs.tryNew, h1], hv, hf1⟩

end sim

/-! ### the two fixed storages as bounded lawful storages -/

/-- `Slice` over the caller's buffer `buf`: the buffer keeps its length, the
cursor stays inside, and everything at or beyond the cursor is still the
caller's data; `full` = the cursor is at the end. -/
def sliceBounded (buf : List Byte) : Bounded LawfulIdx.slice where
  valid s := s.mem.length = buf.length ∧ s.cursor ≤ buf.length ∧
    s.mem.drop s.cursor = buf.drop s.cursor
  full s := s.cursor = s.mem.length
  push_total s b hv := by
    obtain ⟨hm, hc, ht⟩ := hv
    by_cases h : s.cursor = s.mem.length
    · exact Or.inr ⟨by simp [Slice, h], h⟩
    · have hp : Slice.tryPush s b = (⟨s.mem.set s.cursor b, s.cursor + 1⟩, none) := by
        simp [Slice, h]
      obtain ⟨s', hs, hl, _⟩ := LawfulIdx.slice.push_ok s 0 b
        (by show s.cursor + (0 + 1) ≤ s.mem.length; omega)
      rw [hp] at hs
      simp only [Prod.mk.injEq, and_true] at hs
      subst hs
      refine Or.inl ⟨_, hp, hl, ?_, ?_, ?_⟩
      · simp only [List.length_set]; exact hm
      · show s.cursor + 1 ≤ buf.length; omega
      · show (s.mem.set s.cursor b).drop (s.cursor + 1) = buf.drop (s.cursor + 1)
        rw [List.drop_set_of_lt (by omega), ← List.drop_drop, ht, List.drop_drop]
  setAt_valid s i b s' hv hi h := by
    obtain ⟨hm, hc, ht⟩ := hv
    have hic : i < s.cursor := by
      have : i < (s.mem.take s.cursor).length := hi
      simp only [List.length_take] at this
      omega
    simp only [Slice] at h
    split at h
    · simp only [Option.some.injEq] at h
      subst h
      refine ⟨by simpa using hm, hc, ?_⟩
      show (s.mem.set i b).drop s.cursor = buf.drop s.cursor
      rw [List.drop_set_of_lt hic, ht]
    · simp at h
  fin_state _ := rfl

/-- `HVec<B>` with `B = n`: the capacity is fixed and respected; `full` = the
vector has reached its capacity. -/
def hvecBounded (n : Nat) : Bounded LawfulIdx.hvec where
  valid s := s.cap = n ∧ s.vec.length ≤ n
  full s := s.vec.length = s.cap
  push_total s b hv := by
    obtain ⟨hm, hc⟩ := hv
    by_cases h : s.vec.length < s.cap
    · exact Or.inl ⟨{ s with vec := s.vec ++ [b] }, by simp [HVec, h], rfl,
        ⟨hm, by simp only [List.length_append, List.length_cons, List.length_nil]; omega⟩⟩
    · exact Or.inr ⟨by simp [HVec, h], by omega⟩
  setAt_valid s i b s' hv _ h := by
    simp only [HVec] at h
    split at h
    · simp only [Option.some.injEq] at h
      subst h
      simpa using hv
    · simp at h
  fin_state _ := rfl

/-- a valid `Slice` state whose log is `out`: the state is completely determined. -/
theorem slice_state_of_log {buf out : List Byte} {s : SliceSt}
    (hv : (sliceBounded buf).valid s) (hl : LawfulIdx.slice.log s = out) :
    s = ⟨out ++ buf.drop out.length, out.length⟩ ∧ out.length ≤ buf.length := by
  obtain ⟨hm, hc, ht⟩ := hv
  have hl' : s.mem.take s.cursor = out := hl
  have hlen : out.length = s.cursor := by
    rw [← hl', List.length_take]; omega
  have hmem : s.mem = out ++ buf.drop out.length := by
    rw [hlen, ← ht, ← hl', List.take_append_drop]
  cases s with
  | mk mem cursor =>
    simp only at hlen hmem hc
    subst hlen
    exact ⟨by rw [hmem], hc⟩

end Postcard.E2E

namespace Postcard
open Spec

/-! ## COBS-framed fixed storages: `to_slice_cobs`, `to_vec_cobs` -/

/-- **C05, `to_slice_cobs`, complete description.**  With
`frame = cobsEncode (enc v) ++ [0]`:
* the buffer is at least as long as the frame: `Ok(frame)`, the caller's buffer
  holds the frame followed by its own untouched tail, cursor right after the
  frame;
* otherwise: `SerializeBufferFull` — not a panic (the `IndexMut` back-patch of
  a code byte always lands inside the bytes already written), not another
  error — the buffer keeps its length and has been filled up to its end
  (the modifier pushes byte by byte and gives up exactly when the buffer is
  full). -/
theorem to_slice_cobs_cases (v : Val) (buf : List Byte) :
    ((cobsEncode (enc v)).length + 1 ≤ buf.length ∧
      toSliceCobs v buf =
        (⟨cobsEncode (enc v) ++ [0] ++ buf.drop ((cobsEncode (enc v)).length + 1),
          (cobsEncode (enc v)).length + 1⟩, .ok (cobsEncode (enc v) ++ [0]))) ∨
    (¬ (cobsEncode (enc v)).length + 1 ≤ buf.length ∧
      (toSliceCobs v buf).2 = .error .bufferFull ∧
      (toSliceCobs v buf).1.mem.length = buf.length ∧
      (toSliceCobs v buf).1.cursor = buf.length) := by
  rcases E2E.cobs_run_cases LawfulIdx.slice (E2E.sliceBounded buf) ⟨buf, 0⟩
    (by simp [LawfulIdx.slice]) ⟨rfl, Nat.zero_le _, rfl⟩ (enc v)
    with ⟨st, h1, hv, hf⟩ | ⟨st1, h1, ⟨st2, h2, hv, hf⟩ | ⟨st2, h2, hv, hl⟩⟩
  · -- `Cobs::try_new` refused
    have hfull : st.1.cursor = st.1.mem.length := hf
    have hnot : ¬ (cobsEncode (enc v)).length + 1 ≤ buf.length := by
      -- `try_new` fails only on the empty buffer
      have hm := hv.1
      have hc := hv.2.1
      have h0 : Cobs.tryNew Slice ⟨buf, 0⟩ = (st, some .bufferFull) := h1
      by_cases hb : buf.length = 0
      · omega
      · exfalso
        have hne : ¬ (0 : Nat) = buf.length := fun h => hb h.symm
        simp [Cobs.tryNew, Slice, hne] at h0
    refine Or.inr ⟨hnot, by simp only [toSliceCobs, h1], ?_, ?_⟩
    · simp only [toSliceCobs, h1]; exact hv.1
    · simp only [toSliceCobs, h1]; rw [hfull]; exact hv.1
  · -- a push (or the final sentinel) refused
    have hfull : st2.1.cursor = st2.1.mem.length := hf
    have hres : toSliceCobs v buf = (st2.1, .error .bufferFull) := by
      simp only [toSliceCobs, h1, serializeWith_eq_runBytes (Cobs Slice) (cobs_tryExtend Slice), h2]
    have hnot : ¬ (cobsEncode (enc v)).length + 1 ≤ buf.length := by
      intro hfit
      obtain ⟨st1', h1', h2'⟩ := (cobs_over v).2.2 buf hfit
      rw [h1] at h1'
      simp only [Prod.mk.injEq, and_true] at h1'
      subst h1'
      rw [serializeWith_eq_runBytes (Cobs Slice) (cobs_tryExtend Slice), h2] at h2'
      cases h2'
    refine Or.inr ⟨hnot, by rw [hres], by rw [hres]; exact hv.1, ?_⟩
    rw [hres]; show st2.1.cursor = buf.length; rw [hfull]; exact hv.1
  · -- success
    obtain ⟨hst, hle⟩ := E2E.slice_state_of_log hv hl
    have hlen : (cobsEncode (enc v) ++ [0]).length = (cobsEncode (enc v)).length + 1 := by simp
    rw [hlen] at hst hle
    refine Or.inl ⟨hle, ?_⟩
    simp only [toSliceCobs, h1, serializeWith_eq_runBytes (Cobs Slice) (cobs_tryExtend Slice), h2,
      hst]

/-- **C05, `to_slice_cobs`: exact threshold.**  Success exactly when the buffer
holds the complete frame (COBS body plus the sentinel zero), and then the
returned slice is that frame; otherwise `SerializeBufferFull` — never a panic,
never another error. -/
theorem to_slice_cobs_threshold (v : Val) (buf : List Byte) :
    (toSliceCobs v buf).2 =
      if (cobsEncode (enc v)).length + 1 ≤ buf.length then .ok (cobsEncode (enc v) ++ [0])
      else .error .bufferFull := by
  rcases to_slice_cobs_cases v buf with ⟨h, he⟩ | ⟨h, he, _⟩
  · rw [if_pos h, he]
  · rw [if_neg h, he]

/-- **C05, `to_slice_cobs`: never out of bounds, nothing beyond the cursor is
touched.**  Whatever the outcome, the caller's buffer keeps its length, the
cursor stays inside it, and the cells from the cursor on are the caller's
original bytes. -/
theorem to_slice_cobs_in_bounds (v : Val) (buf : List Byte) :
    (toSliceCobs v buf).1.mem.length = buf.length ∧ (toSliceCobs v buf).1.cursor ≤ buf.length ∧
    (toSliceCobs v buf).1.mem.drop (toSliceCobs v buf).1.cursor
      = buf.drop (toSliceCobs v buf).1.cursor := by
  rcases to_slice_cobs_cases v buf with ⟨h, he⟩ | ⟨h, _, hm, hc⟩
  · rw [he]
    refine ⟨?_, h, ?_⟩
    · simp only [List.length_append, List.length_cons, List.length_nil, List.length_drop]; omega
    · simp only
      rw [List.drop_left' (by simp)]
  · refine ⟨hm, by omega, ?_⟩
    rw [hc, List.drop_of_length_le (by omega), List.drop_of_length_le (Nat.le_refl _)]

/-- **C05, `to_vec_cobs::<_, B>`, complete description** (`B = cap`). -/
theorem to_hvec_cobs_cases (cap : Nat) (v : Val) :
    ((cobsEncode (enc v)).length + 1 ≤ cap ∧
      toHVecCobs cap v = (⟨cap, cobsEncode (enc v) ++ [0]⟩, .ok (cobsEncode (enc v) ++ [0]))) ∨
    (¬ (cobsEncode (enc v)).length + 1 ≤ cap ∧
      (toHVecCobs cap v).2 = .error .bufferFull ∧
      (toHVecCobs cap v).1.cap = cap ∧ (toHVecCobs cap v).1.vec.length = cap) := by
  rcases E2E.cobs_run_cases LawfulIdx.hvec (E2E.hvecBounded cap) ⟨cap, []⟩ rfl
    ⟨rfl, Nat.zero_le _⟩ (enc v)
    with ⟨st, h1, hv, hf⟩ | ⟨st1, h1, ⟨st2, h2, hv, hf⟩ | ⟨st2, h2, hv, hl⟩⟩
  · have hfull : st.1.vec.length = st.1.cap := hf
    have hnot : ¬ (cobsEncode (enc v)).length + 1 ≤ cap := by
      have h0 : Cobs.tryNew HVec ⟨cap, []⟩ = (st, some .bufferFull) := h1
      by_cases hb : cap = 0
      · omega
      · exfalso
        have hpos : 0 < cap := by omega
        simp [Cobs.tryNew, HVec, hpos] at h0
    refine Or.inr ⟨hnot, by simp only [toHVecCobs, h1], ?_, ?_⟩
    · simp only [toHVecCobs, h1]; exact hv.1
    · simp only [toHVecCobs, h1]; rw [hfull]; exact hv.1
  · have hfull : st2.1.vec.length = st2.1.cap := hf
    have hres : toHVecCobs cap v = (st2.1, .error .bufferFull) := by
      simp only [toHVecCobs, h1, serializeWith_eq_runBytes (Cobs HVec) (cobs_tryExtend HVec), h2]
    have hnot : ¬ (cobsEncode (enc v)).length + 1 ≤ cap := by
      intro hfit
      obtain ⟨st1', h1', h2'⟩ := (cobs_over v).2.1 cap hfit
      rw [h1] at h1'
      simp only [Prod.mk.injEq, and_true] at h1'
      subst h1'
      rw [serializeWith_eq_runBytes (Cobs HVec) (cobs_tryExtend HVec), h2] at h2'
      cases h2'
    refine Or.inr ⟨hnot, by rw [hres], by rw [hres]; exact hv.1, ?_⟩
    rw [hres]; show st2.1.vec.length = cap; rw [hfull]; exact hv.1
  · have hvec : st2.1.vec = cobsEncode (enc v) ++ [0] := hl
    have hle : (cobsEncode (enc v)).length + 1 ≤ cap := by
      have := hv.2
      rw [hvec] at this
      simpa using this
    have hst : st2.1 = ⟨cap, cobsEncode (enc v) ++ [0]⟩ := by
      have hc := hv.1
      cases hs : st2.1 with
      | mk c vec =>
        rw [hs] at hc hvec
        simp only at hc hvec
        rw [hc, hvec]
    refine Or.inl ⟨hle, ?_⟩
    simp only [toHVecCobs, h1, serializeWith_eq_runBytes (Cobs HVec) (cobs_tryExtend HVec), h2, hst]

/-- **C05, `to_vec_cobs::<_, B>`: exact threshold** (`B = cap`). -/
theorem to_hvec_cobs_threshold (cap : Nat) (v : Val) :
    (toHVecCobs cap v).2 =
      if (cobsEncode (enc v)).length + 1 ≤ cap then .ok (cobsEncode (enc v) ++ [0])
      else .error .bufferFull := by
  rcases to_hvec_cobs_cases cap v with ⟨h, he⟩ | ⟨h, he, _⟩
  · rw [if_pos h, he]
  · rw [if_neg h, he]

/-- `to_vec_cobs`: the vector keeps its capacity and never exceeds it. -/
theorem to_hvec_cobs_within_capacity (cap : Nat) (v : Val) :
    (toHVecCobs cap v).1.cap = cap ∧ (toHVecCobs cap v).1.vec.length ≤ cap := by
  rcases to_hvec_cobs_cases cap v with ⟨h, he⟩ | ⟨_, _, hc, hl⟩
  · rw [he]; exact ⟨rfl, by simpa using h⟩
  · exact ⟨hc, by omega⟩

/-- the COBS threshold in terms of the plain size `k = |enc v|` (=
`serialized_size`, `size_exact`): `k + k/254 + 2` bytes always suffice, fewer
than `k + 2` never do. -/
theorem to_slice_cobs_size_bounds (v : Val) (buf : List Byte) :
    ((enc v).length + (enc v).length / 254 + 2 ≤ buf.length →
      (toSliceCobs v buf).2 = .ok (cobsEncode (enc v) ++ [0])) ∧
    (buf.length < (enc v).length + 2 → (toSliceCobs v buf).2 = .error .bufferFull) := by
  obtain ⟨h1, h2, _⟩ := frame_length (enc v)
  rw [to_slice_cobs_threshold]
  constructor
  · intro h; rw [if_pos (by omega)]
  · intro h; rw [if_neg (by omega)]

/-- the thresholds in one line: what a failing framed `to_slice_*` / `to_vec_*`
returns is ALWAYS `SerializeBufferFull`, in particular never the modelled
panic. -/
theorem framed_fixed_never_panic {w : Nat} (alg : CrcAlg w) (n : Nat) (v : Val) (buf : List Byte)
    (cap : Nat) :
    (toSliceCobs v buf).2 ≠ .error .panic ∧ (toHVecCobs cap v).2 ≠ .error .panic ∧
    (toSliceCrc alg n buf v).2 ≠ .error .panic ∧ toHVecCrc alg n cap v ≠ .error .panic := by
  rw [to_slice_cobs_threshold, to_hvec_cobs_threshold, to_slice_crc_threshold,
    to_hvec_crc_threshold]
  refine ⟨?_, ?_, ?_, ?_⟩ <;> split <;> simp

end Postcard

/-! ## Non-vacuity

`C01.exV`: `enc` = 8 bytes, COBS frame = 10 bytes, CRC-32 frame = 12 bytes.
Capacities L−1, L, L+1 through the model. -/
namespace Postcard
open Spec

private instance decEqRFramed {α : Type} [DecidableEq α] : DecidableEq (R α)
  | .ok a, .ok b => if h : a = b then isTrue (by rw [h]) else isFalse (by intro h'; cases h'; exact h rfl)
  | .error a, .error b =>
    if h : a = b then isTrue (by rw [h]) else isFalse (by intro h'; cases h'; exact h rfl)
  | .ok _, .error _ => isFalse (by intro h; cases h)
  | .error _, .ok _ => isFalse (by intro h; cases h)

example : (cobsEncode (enc C01.exV)).length + 1 = 10 := by decide

-- `to_slice_cobs`: 9 bytes fail (all nine cells written, the final sentinel does not fit;
-- the code byte has already been back-patched), 10 succeed, 11 keep their last cell.
example : toSliceCobs C01.exV (List.replicate 9 0xFF)
    = (⟨[9, 0xAC, 0x02, 1, 2, 0x68, 0x69, 1, 3], 9⟩, .error .bufferFull) := by rfl
example : toSliceCobs C01.exV (List.replicate 10 0xFF)
    = (⟨[9, 0xAC, 0x02, 1, 2, 0x68, 0x69, 1, 3, 0], 10⟩,
        .ok [9, 0xAC, 0x02, 1, 2, 0x68, 0x69, 1, 3, 0]) := by rfl
example : toSliceCobs C01.exV (List.replicate 11 0xFF)
    = (⟨[9, 0xAC, 0x02, 1, 2, 0x68, 0x69, 1, 3, 0, 0xFF], 10⟩,
        .ok [9, 0xAC, 0x02, 1, 2, 0x68, 0x69, 1, 3, 0]) := by rfl
-- the COBS modifier pushes byte by byte: a 5-byte buffer is filled completely
-- (plain `to_slice` stops after 4 bytes, see Props/C05.lean)
example : toSliceCobs C01.exV (List.replicate 5 0xFF)
    = (⟨[0, 0xAC, 0x02, 1, 2], 5⟩, .error .bufferFull) := by rfl
-- the empty buffer: `Cobs::try_new` itself fails
example : toSliceCobs C01.exV [] = (⟨[], 0⟩, .error .bufferFull) := by rfl
example : toHVecCobs 9 C01.exV
    = (⟨9, [9, 0xAC, 0x02, 1, 2, 0x68, 0x69, 1, 3]⟩, .error .bufferFull) := by rfl
example : toHVecCobs 10 C01.exV
    = (⟨10, [9, 0xAC, 0x02, 1, 2, 0x68, 0x69, 1, 3, 0]⟩,
        .ok [9, 0xAC, 0x02, 1, 2, 0x68, 0x69, 1, 3, 0]) := by rfl
example : (toHVecCobs 11 C01.exV).2 = .ok [9, 0xAC, 0x02, 1, 2, 0x68, 0x69, 1, 3, 0] := by rfl
-- the theorem, instantiated on both sides of the threshold
example : (toSliceCobs C01.exV (List.replicate 9 0xFF)).2 = .error .bufferFull := by
  rw [to_slice_cobs_threshold]; decide
example : (toSliceCobs C01.exV (List.replicate 10 0xFF)).2
    = .ok (cobsEncode (enc C01.exV) ++ [0]) := by
  rw [to_slice_cobs_threshold]; decide

-- `to_slice_u32` / `to_vec_u32` with CRC-32/ISO-HDLC: 11 fail, 12 succeed, 13 keep the last cell
example : (enc C01.exV).length + 4 = 12 := by decide
example : toSliceCrc CRC_32_ISO_HDLC 4 (List.replicate 11 0xFF) C01.exV
    = ([0xAC, 0x02, 1, 2, 0x68, 0x69, 1, 3, 254, 243, 69], .error .bufferFull) := by
  decide +kernel
example : toSliceCrc CRC_32_ISO_HDLC 4 (List.replicate 12 0xFF) C01.exV
    = ([0xAC, 0x02, 1, 2, 0x68, 0x69, 1, 3, 254, 243, 69, 135],
       .ok [0xAC, 0x02, 1, 2, 0x68, 0x69, 1, 3, 254, 243, 69, 135]) := by decide +kernel
example : toSliceCrc CRC_32_ISO_HDLC 4 (List.replicate 13 0xFF) C01.exV
    = ([0xAC, 0x02, 1, 2, 0x68, 0x69, 1, 3, 254, 243, 69, 135, 0xFF],
       .ok [0xAC, 0x02, 1, 2, 0x68, 0x69, 1, 3, 254, 243, 69, 135]) := by decide +kernel
example : toHVecCrc CRC_32_ISO_HDLC 4 11 C01.exV = .error .bufferFull := by decide +kernel
example : toHVecCrc CRC_32_ISO_HDLC 4 12 C01.exV
    = .ok [0xAC, 0x02, 1, 2, 0x68, 0x69, 1, 3, 254, 243, 69, 135] := by decide +kernel
example : toHVecCrc CRC_32_ISO_HDLC 4 13 C01.exV
    = .ok [0xAC, 0x02, 1, 2, 0x68, 0x69, 1, 3, 254, 243, 69, 135] := by decide +kernel
-- byte-wise pushes into the bare storages
example : Slice.runBytes ⟨[7, 7, 7, 7], 1⟩ [1, 2, 3] = (⟨[7, 1, 2, 3], 4⟩, .ok [7, 1, 2, 3]) := by
  rfl
example : Slice.runBytes ⟨[7, 7, 7, 7], 1⟩ [1, 2, 3, 4] = (⟨[7, 1, 2, 3], 4⟩, .error .bufferFull) := by
  rfl
example : HVec.runBytes ⟨3, [9]⟩ [1, 2, 3] = (⟨3, [9, 1, 2]⟩, .error .bufferFull) := by rfl

end Postcard

/- TODO: nothing left open in this file.  (Not attempted: the exact CONTENT of the
caller's buffer after a FAILED `to_slice_cobs` — it is a partial frame whose
pending code byte is still the placeholder or already back-patched, see the
9-byte and 5-byte examples above; only its length, the cursor position
`= buf.length` and the no-panic result are proved.) -/
