import Postcard.Model.SlidingBuffer
/-
  Postcard.Props.C04Scratch — C04 / C11, reader-based decoding: "never writes outside the supplied scratch
  buffer ... borrowed data placed in disjoint parts of the caller's scratch buffer and the unused scratch
  returned" — for EVERY history of `try_take_n` calls on one flavour object, whatever mixture of successes,
  scratch-exhaustion failures and reader faults (so also for a `Deserializer::from_flavor` that is used again
  after a value failed).
-/
namespace Postcard

theorem slotsBelow_append : ∀ (xs : List (Nat × Nat)) (lo c ct : Nat),
    slotsBelow xs lo c → slotsBelow (xs ++ [(c, ct)]) lo (c + ct)
  | [], lo, c, ct, h => by
    simp only [List.nil_append, slotsBelow]
    exact ⟨h, Nat.le_refl _⟩
  | (o, l) :: rest, lo, c, ct, h => by
    simp only [List.cons_append, slotsBelow] at h ⊢
    exact ⟨h.1, slotsBelow_append rest (o + l) c ct h.2⟩

/-- the invariant: the cursor is inside the buffer and the carved-off slots tile `[0, cursor)` in order. -/
def SBuf.Inv (s : SBuf) : Prop := s.cursor ≤ s.cap ∧ slotsBelow s.slots 0 s.cursor

theorem SBuf.inv_new (cap : Nat) : (SBuf.new cap).Inv := ⟨Nat.zero_le _, Nat.le_refl _⟩

theorem SBuf.inv_step (s : SBuf) (ct : Nat) (ok : Bool) (h : s.Inv) : (s.tryTakeN ct ok).1.Inv := by
  unfold SBuf.tryTakeN
  split
  · exact h
  · rename_i hfit
    obtain ⟨hc, hs⟩ := h
    refine ⟨?_, slotsBelow_append s.slots 0 s.cursor ct hs⟩
    simp only
    omega

/-- **C04.S1** the invariant holds after ANY history. -/
theorem SBuf.inv_run : ∀ (ops : List (Nat × Bool)) (s : SBuf), s.Inv → (s.run ops).Inv
  | [], _, h => h
  | (ct, ok) :: rest, s, h => SBuf.inv_run rest _ (SBuf.inv_step s ct ok h)

theorem SBuf.cap_step (s : SBuf) (ct : Nat) (ok : Bool) : (s.tryTakeN ct ok).1.cap = s.cap := by
  unfold SBuf.tryTakeN; split <;> rfl

theorem SBuf.cap_run : ∀ (ops : List (Nat × Bool)) (s : SBuf), (s.run ops).cap = s.cap
  | [], _ => rfl
  | (ct, ok) :: rest, s => by
    simp only [SBuf.run]
    rw [SBuf.cap_run rest, SBuf.cap_step]

/-- members of an ordered tiling lie inside `[lo, bound)` -/
theorem slotsBelow_mem : ∀ (xs : List (Nat × Nat)) (lo bound : Nat), slotsBelow xs lo bound →
    ∀ sl ∈ xs, lo ≤ sl.1 ∧ sl.1 + sl.2 ≤ bound
  | [], _, _, _, _, hm => by cases hm
  | (o, l) :: rest, lo, bound, h, sl, hm => by
    simp only [slotsBelow] at h
    have hb : o + l ≤ bound := by
      have := slotsBelow_le rest (o + l) bound h.2
      exact this
    cases hm with
    | head => exact ⟨h.1, hb⟩
    | tail _ hm' =>
      obtain ⟨h1, h2⟩ := slotsBelow_mem rest (o + l) bound h.2 sl hm'
      exact ⟨by omega, h2⟩
where
  slotsBelow_le : ∀ (xs : List (Nat × Nat)) (lo bound : Nat), slotsBelow xs lo bound → lo ≤ bound
    | [], _, _, h => h
    | (o, l) :: rest, lo, bound, h => by
      simp only [slotsBelow] at h
      have := slotsBelow_le rest (o + l) bound h.2
      omega

/-- two different positions of an ordered tiling do not overlap -/
theorem slotsBelow_pairwise : ∀ (xs : List (Nat × Nat)) (lo bound : Nat), slotsBelow xs lo bound →
    xs.Pairwise (fun a b => a.1 + a.2 ≤ b.1)
  | [], _, _, _ => List.Pairwise.nil
  | (o, l) :: rest, lo, bound, h => by
    simp only [slotsBelow] at h
    refine List.Pairwise.cons ?_ (slotsBelow_pairwise rest (o + l) bound h.2)
    intro b hb
    exact (slotsBelow_mem rest (o + l) bound h.2 b hb).1

/-- **C04.S2 (every history, failures included)** from a fresh `SlidingBuffer` over a scratch buffer of
`cap` bytes, after ANY sequence of `try_take_n` calls:
* every slot ever carved off — handed to the caller or abandoned after a reader fault — lies inside the
  scratch buffer (so no write lands outside it),
* the slots are pairwise disjoint and in increasing order (no borrowed `&str` / `&[u8]` is ever overwritten
  by a later take),
* the region `complete()` hands back lies inside the buffer and starts at or after the end of every slot. -/
theorem scratch_history_safe (cap : Nat) (ops : List (Nat × Bool)) :
    let s := (SBuf.new cap).run ops
    (∀ sl ∈ s.slots, sl.1 + sl.2 ≤ cap) ∧
    s.slots.Pairwise (fun a b => a.1 + a.2 ≤ b.1) ∧
    (s.complete.1 + s.complete.2 = cap ∧ ∀ sl ∈ s.slots, sl.1 + sl.2 ≤ s.complete.1) := by
  intro s
  obtain ⟨hc, hs⟩ := SBuf.inv_run ops (SBuf.new cap) (SBuf.inv_new cap)
  have hcap : s.cap = cap := SBuf.cap_run ops (SBuf.new cap)
  change s.cursor ≤ s.cap at hc
  change slotsBelow s.slots 0 s.cursor at hs
  rw [hcap] at hc
  refine ⟨fun sl hm => ?_, slotsBelow_pairwise _ _ _ hs, ?_, fun sl hm => ?_⟩
  · have := (slotsBelow_mem _ _ _ hs sl hm).2
    exact Nat.le_trans this hc
  · simp only [SBuf.complete, hcap]; omega
  · exact (slotsBelow_mem _ _ _ hs sl hm).2

/-- a refused `take_n` claims nothing; a take whose read fails keeps its slot (it is never handed out again) -/
theorem take_refused_unchanged (s : SBuf) (ct : Nat) (ok : Bool) (h : s.cap - s.cursor < ct) :
    s.tryTakeN ct ok = (s, none) := by simp [SBuf.tryTakeN, h]

theorem take_read_failed_keeps_slot (s : SBuf) (ct : Nat) (h : ¬ s.cap - s.cursor < ct) :
    (s.tryTakeN ct false).1.cursor = s.cursor + ct ∧ (s.tryTakeN ct false).2 = none := by
  simp [SBuf.tryTakeN, h]

/-- the seeded "hand the slot back on any error" variant (C04-e) is NOT safe: after a refused take of `ct`
bytes its cursor has moved BACK, so the next take overlaps an earlier slot.  Concrete history, checked by
evaluation: cap 8, take 6 (ok), take 5 (refused; cursor 6 → 1), take 4 → slot (1,4) overlaps (0,6). -/
def SBuf.tryTakeNUnclaim (s : SBuf) (ct : Nat) (readOk : Bool) : SBuf × Option (Nat × Nat) :=
  if s.cap - s.cursor < ct then ({ s with cursor := s.cursor - ct }, none)
  else
    let s' : SBuf := { s with cursor := s.cursor + ct, slots := s.slots ++ [(s.cursor, ct)] }
    if readOk then (s', some (s.cursor, ct)) else ({ s' with cursor := s.cursor }, none)
example :
    let s1 := ((SBuf.new 8).tryTakeNUnclaim 6 true).1
    let s2 := (s1.tryTakeNUnclaim 5 true).1
    let s3 := (s2.tryTakeNUnclaim 4 true).1
    s3.slots = [(0, 6), (1, 4)] := by decide

-- non-vacuity: a history with a success, a refusal, a reader fault and another success
example : ((SBuf.new 10).run [(4, true), (9, true), (3, false), (2, true)]).slots = [(0, 4), (4, 3), (7, 2)] := by decide

end Postcard
