import Postcard.Props.C03
import Postcard.Model.SizeHint
/-
  Postcard.Props.C04 — the logic part of "Decoding untrusted bytes is total,
  in-bounds and resource-bounded".
-/
namespace Postcard

/-! ## 1. totality: no input makes the decoder panic -/

/-- **C04.1** `dec` never ends in a panic … -/
theorem dec_total (t : Ty) (bs : List Byte) : dec t bs ≠ .error .panic := by
  intro h
  have := dec_error_kinds t bs _ h
  simp [DecErr] at this

/-- … nor in an error kind that belongs to the serializer or to a framing layer. -/
theorem dec_no_foreign_error (t : Ty) (bs : List Byte) :
    dec t bs ≠ .error .bufferFull ∧ dec t bs ≠ .error .seqLengthUnknown ∧
    dec t bs ≠ .error .collectStr ∧ dec t bs ≠ .error .badEncoding ∧
    dec t bs ≠ .error .badCrc := by
  refine ⟨?_, ?_, ?_, ?_, ?_⟩ <;>
  · intro h
    have := dec_error_kinds t bs _ h
    simp [DecErr] at this

/-- every input yields a value with a remainder, or one of the eight decoder errors. -/
theorem dec_outcome (t : Ty) (bs : List Byte) :
    (∃ v r, dec t bs = .ok (v, r)) ∨ (∃ e, dec t bs = .error e ∧ DecErr e) := by
  cases h : dec t bs with
  | ok x => exact .inl ⟨x.1, x.2, rfl⟩
  | error e => exact .inr ⟨e, rfl, dec_error_kinds t bs e h⟩

/-! ## 2. reads are in bounds: the cursor only moves forward, never past the end -/

/-- **C04.2** what is handed back is a suffix of the input … -/
theorem dec_consumes_prefix {t : Ty} {bs r : List Byte} {v : Val}
    (h : dec t bs = .ok (v, r)) : ∃ p, bs = p ++ r := by
  obtain ⟨p, hb, _⟩ := dec_sound t bs v r h
  exact ⟨p, hb⟩

theorem dec_rest_suffix {t : Ty} {bs r : List Byte} {v : Val}
    (h : dec t bs = .ok (v, r)) : r <:+ bs := by
  obtain ⟨p, hb⟩ := dec_consumes_prefix h
  exact ⟨p, hb.symm⟩

/-- … so the cursor never passes the end. -/
theorem dec_rest_length_le {t : Ty} {bs r : List Byte} {v : Val}
    (h : dec t bs = .ok (v, r)) : r.length ≤ bs.length := by
  obtain ⟨p, rfl⟩ := dec_consumes_prefix h
  simp

theorem decTuple_consumes_prefix {ts : List Ty} {bs r : List Byte} {vs : List Val}
    (h : decTuple ts bs = .ok (vs, r)) : ∃ p, bs = p ++ r := by
  obtain ⟨p, hb, _⟩ := decTuple_sound ts bs vs r h
  exact ⟨p, hb⟩

/-- the decoder's verdict depends only on the bytes it consumed. -/
theorem dec_reads_only_prefix {t : Ty} {bs r : List Byte} {v : Val}
    (h : dec t bs = .ok (v, r)) :
    ∃ p, bs = p ++ r ∧ ∀ r', dec t (p ++ r') = .ok (v, r') := by
  obtain ⟨p, rfl⟩ := dec_consumes_prefix h
  exact ⟨p, rfl, rest_irrelevant h⟩

/-! ## 3. borrowed leaves lie inside the input, where they were encoded -/

/-- **C04.3** a decoded string is the sub-range of the input that follows its
length varint; nothing is copied or re-assembled. -/
theorem borrow_position_str {bs r s : List Byte} (h : dec .str bs = .ok (.str s, r)) :
    ∃ pre, bs = pre ++ s ++ r ∧ PermittedVarint 64 s.length pre ∧
      decVarint 64 bs = .ok (s.length, s ++ r) := by
  obtain ⟨p, rfl, hp⟩ := dec_sound _ _ _ _ h
  cases hp with
  | str s pre hpre hu =>
    refine ⟨pre, rfl, hpre, ?_⟩
    rw [List.append_assoc]
    exact decVarint_permitted widthOk64 hpre _

theorem borrow_position_bytes {bs r s : List Byte} (h : dec .bytes bs = .ok (.bytes s, r)) :
    ∃ pre, bs = pre ++ s ++ r ∧ PermittedVarint 64 s.length pre ∧
      decVarint 64 bs = .ok (s.length, s ++ r) := by
  obtain ⟨p, rfl, hp⟩ := dec_sound _ _ _ _ h
  cases hp with
  | bytes s pre hpre =>
    refine ⟨pre, rfl, hpre, ?_⟩
    rw [List.append_assoc]
    exact decVarint_permitted widthOk64 hpre _

/-- `dec .str` / `dec .bytes` produce nothing but `.str` / `.bytes` values. -/
theorem dec_str_shape {bs r : List Byte} {v : Val} (h : dec .str bs = .ok (v, r)) :
    ∃ s, v = .str s := by
  obtain ⟨p, rfl, hp⟩ := dec_sound _ _ _ _ h
  cases hp with
  | str s pre hpre hu => exact ⟨s, rfl⟩

theorem dec_bytes_shape {bs r : List Byte} {v : Val} (h : dec .bytes bs = .ok (v, r)) :
    ∃ s, v = .bytes s := by
  obtain ⟨p, rfl, hp⟩ := dec_sound _ _ _ _ h
  cases hp with
  | bytes s pre hpre => exact ⟨s, rfl⟩

/-- compositional version: component `i` of a tuple occupies a contiguous
sub-range; the components before it occupy exactly the bytes before it, the
components after it the bytes after it, in order. -/
theorem permittedTuple_split : ∀ (i : Nat) {ts : List Ty} {vs : List Val} {p : List Byte} {t : Ty}
    {v : Val}, PermittedTuple ts vs p → ts[i]? = some t → vs[i]? = some v →
    ∃ pre pi post, p = pre ++ pi ++ post ∧ PermittedTuple (ts.take i) (vs.take i) pre ∧
      Permitted t v pi ∧ PermittedTuple (ts.drop (i+1)) (vs.drop (i+1)) post
  | i, _, _, _, t, v, .nil, ht, _ => by simp at ht
  | 0, _, _, _, t, v, .cons t' ts v' vs p q h1 h2, ht, hv => by
    simp at ht hv; subst ht; subst hv
    exact ⟨[], p, q, by simp, .nil, h1, by simpa using h2⟩
  | i+1, _, _, _, t, v, .cons t' ts v' vs p q h1 h2, ht, hv => by
    obtain ⟨pre, pi, post, rfl, h3, h4, h5⟩ :=
      permittedTuple_split i h2 (by simpa using ht) (by simpa using hv)
    exact ⟨p ++ pre, pi, post, by simp, by simpa using .cons _ _ _ _ _ _ h1 h3, h4,
      by simpa using h5⟩

theorem tuple_component_position {ts : List Ty} {bs r : List Byte} {vs : List Val}
    (h : decTuple ts bs = .ok (vs, r)) {i : Nat} {t : Ty} {v : Val}
    (ht : ts[i]? = some t) (hv : vs[i]? = some v) :
    ∃ pre p post, bs = pre ++ p ++ post ++ r ∧ Permitted t v p ∧
      decTuple (ts.take i) bs = .ok (vs.take i, p ++ post ++ r) ∧
      dec t (p ++ post ++ r) = .ok (v, post ++ r) ∧
      decTuple (ts.drop (i+1)) (post ++ r) = .ok (vs.drop (i+1), r) := by
  obtain ⟨q, rfl, hq⟩ := decTuple_sound _ _ _ _ h
  obtain ⟨pre, p, post, rfl, h1, h2, h3⟩ := permittedTuple_split i hq ht hv
  refine ⟨pre, p, post, rfl, h2, ?_, ?_, decTuple_complete h3 r⟩
  · have := decTuple_complete h1 (p ++ post ++ r)
    simpa using this
  · have := dec_complete h2 (post ++ r)
    simpa using this

/-- a string field of a tuple / struct is the sub-range of the input right after
the preceding fields and its own length varint. -/
theorem borrow_position_tuple {ts : List Ty} {bs r : List Byte} {vs : List Val}
    (h : dec (.tuple ts) bs = .ok (.tuple vs, r)) {i : Nat} {s : List Byte}
    (ht : ts[i]? = some .str) (hv : vs[i]? = some (.str s)) :
    ∃ pre len post, bs = pre ++ len ++ s ++ post ++ r ∧ PermittedVarint 64 s.length len ∧
      decTuple (ts.take i) bs = .ok (vs.take i, len ++ s ++ post ++ r) := by
  have h' : decTuple ts bs = .ok (vs, r) := by
    simp only [dec] at h
    split at h
    · cases h
    · rename_i vs' r' hd
      simp only [Except.ok.injEq, Prod.mk.injEq, Val.tuple.injEq] at h
      obtain ⟨rfl, rfl⟩ := h
      exact hd
  obtain ⟨pre, p, post, rfl, hp, h1, _, _⟩ := tuple_component_position h' ht hv
  cases hp with
  | str s len hlen hu =>
    exact ⟨pre, len, post, by simp, hlen, by simpa using h1⟩

/-! ## 4. the self-describing entry points are refused -/

/-- **C04.4** -/
theorem wont_implement (bs : List Byte) :
    dec .any bs = .error .wontImplement ∧ dec .identifier bs = .error .wontImplement ∧
    dec .ignoredAny bs = .error .wontImplement := by
  simp [dec]

/-! ## 5. size hints and allocation -/

theorem seqSizeHint_eq (rem len : Nat) : seqSizeHint rem len = seqSizeHintF (some rem) len := rfl

/-- **C04.5a** whatever length the input claims, the hint a `Vec<T>` visitor
sees is at most the number of remaining input bytes (and is the claimed
length). -/
theorem hint_le_remaining {rem len n : Nat} (h : seqSizeHint rem len = some n) :
    n ≤ rem ∧ n = len := by
  unfold seqSizeHint at h
  split at h
  · cases h
  · cases h; omega

/-- **C04.5b** the pre-allocation (in elements) is at most the number of
remaining input bytes … -/
theorem prealloc_le_remaining (sz rem len : Nat) : cautious sz (seqSizeHint rem len) ≤ rem := by
  unfold cautious seqSizeHint
  split
  · omega
  · split
    · simp
    · simp only [Option.getD_some]; omega

/-- … and at most 1 MiB worth of elements, for any hint (sequences and maps,
any flavour). -/
theorem prealloc_le_cap (sz : Nat) (hint : Option Nat) : cautious sz hint ≤ 1048576 / sz := by
  unfold cautious
  split
  · exact Nat.zero_le _
  · exact Nat.min_le_right _ _

theorem prealloc_bound (sz rem len : Nat) :
    cautious sz (seqSizeHint rem len) ≤ rem ∧ cautious sz (seqSizeHint rem len) ≤ 1048576 / sz :=
  ⟨prealloc_le_remaining sz rem len, prealloc_le_cap sz _⟩

/-- in bytes: never more than 1 MiB is reserved up front. -/
theorem prealloc_bytes_le (sz : Nat) (hint : Option Nat) : cautious sz hint * sz ≤ 1048576 :=
  Nat.le_trans (Nat.mul_le_mul_right sz (prealloc_le_cap sz hint)) (Nat.div_mul_le_self _ _)

/-- the map hint is the claimed pair count unchecked against the input, so only
the 1 MiB cap applies to map pre-allocation (`prealloc_le_cap`); e.g. 10 input
bytes can reserve 65536 sixteen-byte slots. -/
example : cautious 16 (mapSizeHint (2 ^ 64 - 1)) = 65536 := by decide

/-- conservative lower bound on the number of bytes any value of a type
occupies on the wire. -/
def minBytes : Ty → Nat
  | .bool => 1
  | .u _ => 1
  | .i _ => 1
  | .f32 => 4
  | .f64 => 8
  | .char => 2
  | .str => 1
  | .bytes => 1
  | .option _ => 1
  | .unit => 0
  | .unitStruct => 0
  | .newtypeStruct t => minBytes t
  | .seq _ => 1
  | .tuple ts => minBytesSum ts
  | .tupleStruct ts => minBytesSum ts
  | .map _ _ => 1
  | .struct ts => minBytesSum ts
  | .enum _ => 1
  | .any => 0
  | .identifier => 0
  | .ignoredAny => 0
where
  minBytesSum : List Ty → Nat
    | [] => 0
    | t :: ts => minBytes t + minBytesSum ts

theorem PermittedVarint.length_pos {bits n : Nat} {p : List Byte} (h : PermittedVarint bits n p) :
    1 ≤ p.length := by
  have := h.1
  cases p with
  | nil => exact absurd rfl this
  | cons b t => simp

mutual
theorem permitted_minBytes : ∀ {t : Ty} {v : Val} {p : List Byte}, Permitted t v p →
    minBytes t ≤ p.length
  | _, _, _, .boolFalse => by simp [minBytes]
  | _, _, _, .boolTrue => by simp [minBytes]
  | _, _, _, .u8 b => by simp [minBytes]
  | _, _, _, .uN w n p hw hp => by simpa [minBytes] using hp.length_pos
  | _, _, _, .i8 b => by simp [minBytes]
  | _, _, _, .iN w n p hw hp => by simpa [minBytes] using hp.length_pos
  | _, _, _, .f32 bs hl => by simp [minBytes, hl]
  | _, _, _, .f64 bs hl => by simp [minBytes, hl]
  | _, _, _, .char c p hs hp => by
    have := hp.length_pos
    have := utf8Encode_length_pos c
    simp only [minBytes, List.length_append]; omega
  | _, _, _, .str s p hp hu => by
    have := hp.length_pos
    simp only [minBytes, List.length_append]; omega
  | _, _, _, .bytes s p hp => by
    have := hp.length_pos
    simp only [minBytes, List.length_append]; omega
  | _, _, _, .none t => by simp [minBytes]
  | _, _, _, .some t v p h => by simp [minBytes]
  | _, _, _, .unit => by simp [minBytes]
  | _, _, _, .unitStruct => by simp [minBytes]
  | _, _, _, .newtypeStruct t v p h => by simpa [minBytes] using permitted_minBytes h
  | _, _, _, .seq t vs p q hp hq => by
    have := hp.length_pos
    simp only [minBytes, List.length_append]; omega
  | _, _, _, .tuple ts vs p h => by simpa [minBytes] using permittedTuple_minBytes h
  | _, _, _, .tupleStruct ts vs p h => by simpa [minBytes] using permittedTuple_minBytes h
  | _, _, _, .struct ts vs p h => by simpa [minBytes] using permittedTuple_minBytes h
  | _, _, _, .map k v kvs p q hp hq => by
    have := hp.length_pos
    simp only [minBytes, List.length_append]; omega
  | _, _, _, .enum vts idx vt v p q hp hvt hq => by
    have := hp.length_pos
    simp only [minBytes, List.length_append]; omega
theorem permittedTuple_minBytes : ∀ {ts : List Ty} {vs : List Val} {p : List Byte},
    PermittedTuple ts vs p → minBytes.minBytesSum ts ≤ p.length
  | _, _, _, .nil => by simp [minBytes.minBytesSum]
  | _, _, _, .cons t ts v vs p q h1 h2 => by
    have := permitted_minBytes h1
    have := permittedTuple_minBytes h2
    simp only [minBytes.minBytesSum, List.length_append]; omega
end

theorem permittedAll_minBytes : ∀ {t : Ty} {vs : List Val} {p : List Byte},
    PermittedAll t vs p → vs.length * minBytes t ≤ p.length
  | _, _, _, .nil t => by simp
  | _, _, _, .cons t v vs p q h1 h2 => by
    have := permitted_minBytes h1
    have := permittedAll_minBytes h2
    simp only [List.length_cons, List.length_append, Nat.succ_mul]; omega

theorem permittedKV_minBytes : ∀ {k v : Ty} {kvs : List Val} {p : List Byte},
    PermittedKV k v kvs p → kvs.length / 2 * (minBytes k + minBytes v) ≤ p.length
  | _, _, _, _, .nil k v => by simp
  | _, _, _, _, .cons k v x y kvs p q s h1 h2 h3 => by
    have := permitted_minBytes h1
    have := permitted_minBytes h2
    have := permittedKV_minBytes h3
    have hl : (x :: y :: kvs).length / 2 = kvs.length / 2 + 1 := by
      simp only [List.length_cons]; omega
    rw [hl]
    simp only [List.length_append, Nat.succ_mul]; omega

/-- every successful decode consumes at least `minBytes t` bytes. -/
theorem dec_minBytes {t : Ty} {bs r : List Byte} {v : Val} (h : dec t bs = .ok (v, r)) :
    minBytes t ≤ bs.length - r.length := by
  obtain ⟨p, rfl, hp⟩ := dec_sound _ _ _ _ h
  have := permitted_minBytes hp
  simp only [List.length_append]; omega

/-- the elements of a decoded sequence, at `minBytes t` each, plus the length
prefix fit in the bytes it consumed — whatever length the input claimed. -/
theorem elements_lt_consumed {t : Ty} {bs r : List Byte} {vs : List Val}
    (h : dec (.seq t) bs = .ok (.seq vs, r)) :
    vs.length * minBytes t + 1 ≤ bs.length - r.length := by
  obtain ⟨p, rfl, hp⟩ := dec_sound _ _ _ _ h
  cases hp with
  | seq t vs pre q hpre hq =>
    have := hpre.length_pos
    have := permittedAll_minBytes hq
    simp only [List.length_append]; omega

/-- **C04.5c** a decoded sequence whose element type occupies at least one byte
has no more elements than the input has bytes; so element count (and memory
for the elements) is bounded by the input length. -/
theorem elements_le_bytes {t : Ty} {bs r : List Byte} {vs : List Val}
    (hmin : 1 ≤ minBytes t) (h : dec (.seq t) bs = .ok (.seq vs, r)) :
    vs.length ≤ bs.length := by
  have h1 := elements_lt_consumed h
  have h2 : vs.length * 1 ≤ vs.length * minBytes t := Nat.mul_le_mul_left _ hmin
  omega

/-- the same for maps: pairs ≤ bytes when a pair occupies at least one byte. -/
theorem pairs_le_bytes {k v : Ty} {bs r : List Byte} {kvs : List Val}
    (hmin : 1 ≤ minBytes k + minBytes v) (h : dec (.map k v) bs = .ok (.map kvs, r)) :
    kvs.length / 2 ≤ bs.length := by
  obtain ⟨p, rfl, hp⟩ := dec_sound _ _ _ _ h
  cases hp with
  | map k v kvs pre q hpre hq =>
    have := permittedKV_minBytes hq
    have h2 : kvs.length / 2 * 1 ≤ kvs.length / 2 * (minBytes k + minBytes v) :=
      Nat.mul_le_mul_left _ hmin
    simp only [List.length_append]; omega

/-- a decoded string / byte buffer is shorter than the input. -/
theorem str_payload_lt {bs r s : List Byte} (h : dec .str bs = .ok (.str s, r)) :
    s.length < bs.length - r.length := by
  obtain ⟨pre, rfl, hpre, _⟩ := borrow_position_str h
  have := hpre.length_pos
  simp only [List.length_append]; omega

theorem bytes_payload_lt {bs r s : List Byte} (h : dec .bytes bs = .ok (.bytes s, r)) :
    s.length < bs.length - r.length := by
  obtain ⟨pre, rfl, hpre, _⟩ := borrow_position_bytes h
  have := hpre.length_pos
  simp only [List.length_append]; omega

theorem str_payload_le {bs r s : List Byte} (h : dec .str bs = .ok (.str s, r)) :
    s.length ≤ bs.length := by
  have := str_payload_lt h; omega

theorem bytes_payload_le {bs r s : List Byte} (h : dec .bytes bs = .ok (.bytes s, r)) :
    s.length ≤ bs.length := by
  have := bytes_payload_lt h; omega

/-- the hypothesis `1 ≤ minBytes t` cannot be dropped: elements that occupy no
bytes (`()`, unit structs, empty tuples) are produced `claimed length` times
from a constant number of input bytes — no memory is needed for them, but the
visitor loop runs that many times. -/
example : ∃ vs, dec (.seq .unit) [0x7F] = .ok (.seq vs, []) ∧ vs.length = 127 :=
  ⟨List.replicate 127 .unit, by rfl, by simp⟩

-- TODO: nothing left open in this file.  Not covered here (needs the index-level flavour
-- model, Model/DeFlavor.lean): pointer arithmetic of `Slice::try_take_n` / `pop`.

end Postcard
