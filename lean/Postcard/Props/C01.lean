import Postcard.Model.Entry
import Postcard.Lemmas.RoundTrip
import Postcard.Lemmas.Flavor
/-
  Postcard.Props.C01 — "Encode/decode round-trip is the identity for every
  serde data-model value."

  * `roundtrip` (+ companions for tuples, sequences, maps and enum variants):
    `dec t (enc v ++ rest) = .ok (v, rest)` for every `v` with `hasTy v t`.
  * `emit_flatten` (Lemmas/Flavor.lean): the call sequence handed to a flavour
    flattens to `enc v`.
  * `toAllocVec_eq`, `roundtrip_all_pairs`: every public encode entry point
    composed with every public decode entry point.
-/
namespace Postcard

/-! ## the running example (non-vacuity) -/

/-- `(300u16, Some("hi"), E::B(-2i32))` with `enum E { A, B(i32) }`. -/
def C01.exV : Val :=
  .tuple [.u .w16 300, .some (.str [0x68, 0x69]), .newtypeVariant 1 (.i .w32 (-2))]
def C01.exT : Ty :=
  .tuple [.u .w16, .option .str, .enum [.unit, .newtypeStruct (.i .w32)]]

theorem C01.ex_hasTy : hasTy C01.exV C01.exT = true := by decide
theorem C01.ex_enc : enc C01.exV = [0xAC, 0x02, 1, 2, 0x68, 0x69, 1, 3] := by decide

/-! ## 1. the round trip -/

/-- C01 (core): decoding the encoding of a well-typed value, followed by any
bytes, yields the value and exactly those bytes. -/
theorem roundtrip (v : Val) (t : Ty) (h : hasTy v t = true) (rest : List Byte) :
    dec t (enc v ++ rest) = .ok (v, rest) := rt_val v t h rest

theorem roundtrip_tuple (vs : List Val) (ts : List Ty) (h : hasTys vs ts = true)
    (rest : List Byte) : decTuple ts (encList vs ++ rest) = .ok (vs, rest) := rt_tuple vs ts h rest

theorem roundtrip_all (vs : List Val) (t : Ty) (h : hasTyAll vs t = true) (rest : List Byte) :
    decN (dec t) vs.length (encList vs ++ rest) = .ok (vs, rest) := rt_all vs t h rest

theorem roundtrip_kv (kvs : List Val) (k v : Ty) (h : hasTyKV true kvs k v = true)
    (rest : List Byte) :
    decKV (dec k) (dec v) (kvs.length / 2) (encList kvs ++ rest) = .ok (kvs, rest) :=
  rt_kv kvs k v h rest

/-- the enum walk: an enum value is its `u32` varint index followed by a payload,
and `decVariant` started at that index gives the value back. -/
theorem roundtrip_variant (v : Val) (vts : List Ty) (h : hasTy v (.enum vts) = true)
    (rest : List Byte) :
    ∃ idx payload, idx < 2 ^ 32 ∧ enc v = encVarint 32 idx ++ payload ∧
      decVariant vts idx idx (payload ++ rest) = .ok (v, rest) := by
  have hr := rt_val v (.enum vts) h rest
  cases v <;> simp [hasTy] at h
  case unitVariant idx =>
    simp only [enc, dec, decVarint_encVarint widthOk32 h.1] at hr
    exact ⟨idx, [], h.1, by simp [enc], hr⟩
  case newtypeVariant idx v =>
    simp only [enc, dec, List.append_assoc, decVarint_encVarint widthOk32 h.1] at hr
    exact ⟨idx, enc v, h.1, by simp [enc], hr⟩
  case tupleVariant idx vs =>
    simp only [enc, dec, List.append_assoc, decVarint_encVarint widthOk32 h.1] at hr
    exact ⟨idx, encList vs, h.1, by simp [enc], hr⟩
  case structVariant idx vs =>
    simp only [enc, dec, List.append_assoc, decVarint_encVarint widthOk32 h.1] at hr
    exact ⟨idx, encList vs, h.1, by simp [enc], hr⟩

/-- `vts[idx]?` is where the `decVariant vts idx idx` walk ends. -/
theorem decVariant_walk (vts : List Ty) (idx : Nat) (vt : Ty) (h : vts[idx]? = some vt)
    (bs : List Byte) : decVariant vts idx idx bs = decVariant [vt] 0 idx bs :=
  decVariant_getElem vt idx bs vts idx h

example : dec C01.exT (enc C01.exV ++ [7, 8]) = .ok (C01.exV, [7, 8]) :=
  roundtrip _ _ C01.ex_hasTy _
example : dec C01.exT ([0xAC, 0x02, 1, 2, 0x68, 0x69, 1, 3] ++ [7, 8]) = .ok (C01.exV, [7, 8]) := by
  rfl
example : hasTys [.bool true, .unit] [.bool, .unit] = true := by decide
example : hasTyAll [.u .w8 1, .u .w8 255] (.u .w8) = true := by decide
example : hasTyKV true [.u .w8 1, .str [0x61], .u .w8 2, .str []] (.u .w8) .str = true := by decide
example : hasTy (.map [.u .w8 1, .str [0x61], .u .w8 2, .str []]) (.map (.u .w8) .str) = true := by
  decide
example : hasTy (.structVariant 2 [.char 0x20AC, .i .w8 (-128)])
    (.enum [.unit, .tuple [], .struct [.char, .i .w8]]) = true := by decide

/-! ## 2. entry points -/

/-- `to_allocvec` / `to_stdvec` never fail and return `enc v`. -/
theorem toAllocVec_eq (v : Val) : toAllocVec v = .ok (enc v) := toAllocVec_ok v

/-- what each encode entry point returns when it succeeds is `enc v`. -/
theorem encode_entry_out (v : Val) :
    (∀ out, toAllocVec v = .ok out → out = enc v) ∧
    (∀ buf out, (toSlice v buf).2 = .ok out → out = enc v) ∧
    (∀ cap out, (toHVec cap v).2 = .ok out → out = enc v) := by
  refine ⟨?_, ?_, ?_⟩
  · intro out h
    rw [toAllocVec_ok] at h
    injection h with h; exact h.symm
  · intro buf out h
    by_cases hf : (enc v).length ≤ buf.length
    · rw [toSlice_fits v buf hf] at h
      injection h with h; exact h.symm
    · obtain ⟨p, _, _, he⟩ := toSlice_overflow v buf hf
      rw [he] at h; cases h
  · intro cap out h
    by_cases hf : (enc v).length ≤ cap
    · rw [toHVec_fits cap v hf] at h
      injection h with h; exact h.symm
    · obtain ⟨p, _, _, he⟩ := toHVec_overflow cap v hf
      rw [he] at h; cases h

/-- the encode entry points do succeed: always (`to_allocvec`), resp. whenever
the buffer / capacity is large enough (`to_slice`, `to_vec`). -/
theorem encode_entry_succeeds (v : Val) :
    toAllocVec v = .ok (enc v) ∧
    (∀ buf, (enc v).length ≤ buf.length → (toSlice v buf).2 = .ok (enc v)) ∧
    (∀ cap, (enc v).length ≤ cap → (toHVec cap v).2 = .ok (enc v)) :=
  ⟨toAllocVec_ok v, fun buf h => by rw [toSlice_fits v buf h],
    fun cap h => by rw [toHVec_fits cap v h]⟩

theorem decode_entries (v : Val) (t : Ty) (h : hasTy v t = true) (rest : List Byte) :
    takeFromBytes t (enc v ++ rest) = .ok (v, rest) ∧ fromBytes t (enc v ++ rest) = .ok v := by
  simp only [takeFromBytes, fromBytes, rt_val v t h rest]
  exact ⟨trivial, rfl⟩

/-- C01 (all pairs): whichever encode entry point produced `out`, both decode
entry points recover `v` from `out ++ rest` (`take_from_bytes` also returns
`rest` untouched). -/
theorem roundtrip_all_pairs (v : Val) (t : Ty) (h : hasTy v t = true) (rest : List Byte) :
    (∀ out, toAllocVec v = .ok out →
      takeFromBytes t (out ++ rest) = .ok (v, rest) ∧ fromBytes t (out ++ rest) = .ok v) ∧
    (∀ buf out, (toSlice v buf).2 = .ok out →
      takeFromBytes t (out ++ rest) = .ok (v, rest) ∧ fromBytes t (out ++ rest) = .ok v) ∧
    (∀ cap out, (toHVec cap v).2 = .ok out →
      takeFromBytes t (out ++ rest) = .ok (v, rest) ∧ fromBytes t (out ++ rest) = .ok v) := by
  obtain ⟨h1, h2, h3⟩ := encode_entry_out v
  refine ⟨?_, ?_, ?_⟩
  · intro out ho; rw [h1 out ho]; exact decode_entries v t h rest
  · intro buf out ho; rw [h2 buf out ho]; exact decode_entries v t h rest
  · intro cap out ho; rw [h3 cap out ho]; exact decode_entries v t h rest

-- the hypotheses of `roundtrip_all_pairs` are satisfiable, and the conclusion computes
example : toAllocVec C01.exV = .ok [0xAC, 0x02, 1, 2, 0x68, 0x69, 1, 3] := by rfl
example : (toSlice C01.exV (List.replicate 8 0)).2 = .ok [0xAC, 0x02, 1, 2, 0x68, 0x69, 1, 3] := by rfl
example : (toHVec 8 C01.exV).2 = .ok [0xAC, 0x02, 1, 2, 0x68, 0x69, 1, 3] := by rfl
example : fromBytes C01.exT ([0xAC, 0x02, 1, 2, 0x68, 0x69, 1, 3] ++ [9]) = .ok C01.exV := by rfl
example : takeFromBytes C01.exT ([0xAC, 0x02, 1, 2, 0x68, 0x69, 1, 3] ++ [9]) = .ok (C01.exV, [9]) :=
  ((roundtrip_all_pairs _ _ C01.ex_hasTy [9]).1 _ (by rfl)).1
example : emit C01.exV =
    [.extend [0xAC, 0x02], .push 1, .extend [2], .extend [0x68, 0x69], .extend [1], .extend [3]] := by
  rfl
example : (emit C01.exV).flatMap Chunk.bytes = enc C01.exV := emit_flatten _

end Postcard
