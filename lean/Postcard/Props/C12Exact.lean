import Postcard.Model.MaxSizeExact
import Postcard.Lemmas.MaxSize
import Postcard.Props.C12
/-
  Postcard.Props.C12Exact — `encMax` (Model/MaxSizeExact.lean) is the exact maximum of
  the encoded length over the values of a `MaxSize` type, and the code's constant
  `maxSize` is an upper bound of it (equal for the tight kinds).

  * `enc_le_encMax`            — every value's encoding is at most `encMax`.
  * `encMax_attained`          — `encMax` is attained (explicit witness `exactWitness`).
  * `encMax_le_maxSize`        — `encMax m ≤ POSTCARD_MAX_SIZE`.
  * `encMax_eq_maxSize_of_tight`
  * `bound_iff_encMax_le`      — `N` bounds every encoding  iff  `encMax m ≤ N`.

  NOTE on `encMax_attained` / `bound_iff_encMax_le`: with `MTy.populated` alone they are
  FALSE (`populated (.option t) = true` whatever `t` is, but `encMax (.option t) =
  encMax t + 1` is only reached through `Some`): see
  `encMax_not_attained_option_empty_payload` below.  They are proved with the extra
  hypothesis `hopt : m.optionsPopulated = true` ("the payload type of every `Option`
  that has to be filled is itself populated").
-/
namespace Postcard

/-! ## 1. upper bound: every value's encoding is at most `encMax` -/

mutual
theorem le_ty : (m : MTy) → (v : Val) → m.wf = true → m.inhabits v = true →
    (enc v).length ≤ encMax m
  | .bool, v, _, h => by
    cases v <;> simp [MTy.inhabits] at h
    simp [enc, encMax]
  | .int s w, v, _, h => by
    simp only [MTy.inhabits] at h
    simpa [encMax] using int_sound s w false v h
  | .usize, v, _, h => by
    simp only [MTy.inhabits] at h
    simpa [encMax, intMaxSize, IntW.bits] using int_sound _ _ _ v h
  | .isize, v, _, h => by
    simp only [MTy.inhabits] at h
    simpa [encMax, intMaxSize, IntW.bits] using int_sound _ _ _ v h
  | .nonZero s w, v, _, h => by
    simp only [MTy.inhabits] at h
    simpa [encMax] using int_sound s w true v h
  | .nonZeroUsize, v, _, h => by
    simp only [MTy.inhabits] at h
    simpa [encMax, intMaxSize, IntW.bits] using int_sound _ _ _ v h
  | .nonZeroIsize, v, _, h => by
    simp only [MTy.inhabits] at h
    simpa [encMax, intMaxSize, IntW.bits] using int_sound _ _ _ v h
  | .f32, v, _, h => by
    cases v <;> simp [MTy.inhabits] at h
    simp [enc, encMax, leBytes_length]
  | .f64, v, _, h => by
    cases v <;> simp [MTy.inhabits] at h
    simp [enc, encMax, leBytes_length]
  | .char, v, _, h => by
    cases v <;> simp [MTy.inhabits] at h
    simpa [encMax] using char_sound _
  | .unit, v, _, h => by
    cases v <;> simp [MTy.inhabits] at h
    simp [enc]
  | .phantom, v, _, h => by
    cases v <;> simp [MTy.inhabits] at h
    simp [enc]
  | .option t, v, hw, h => by
    simp only [MTy.wf] at hw
    cases v <;> simp [MTy.inhabits] at h
    case none => simp [enc, encMax]
    case some v =>
      have := le_ty t v hw h
      simp only [enc, encMax, List.length_cons]; omega
  | .result t e, v, hw, h => by
    simp [MTy.wf] at hw
    match v, h with
    | .newtypeVariant 0 v, h =>
      simp only [MTy.inhabits] at h
      have := le_ty t v hw.1 h
      have h1 := encVarint_small (bits := 32) (n := 0) (by decide) (by decide)
      simp only [enc, encMax, List.length_append]; omega
    | .newtypeVariant 1 v, h =>
      simp only [MTy.inhabits] at h
      have := le_ty e v hw.2 h
      have h1 := encVarint_small (bits := 32) (n := 1) (by decide) (by decide)
      simp only [enc, encMax, List.length_append]; omega
  | .array t n, v, hw, h => by
    simp [MTy.wf] at hw
    cases v <;> simp [MTy.inhabits] at h
    case tuple vs =>
      obtain ⟨hall, rfl⟩ := h
      have := encList_length_le_mul (encMax t) vs (fun v hv => le_ty t v hw.1 (hall v hv))
      simpa [enc, encMax] using this
  | .tuple ts, v, hw, h => by
    simp only [MTy.wf] at hw
    cases v <;> simp [MTy.inhabits] at h
    case tuple vs =>
      have := le_list ts vs hw h
      simpa [enc, encMax] using this
  | .range t, v, hw, h => by
    simp only [MTy.wf] at hw
    match v, h with
    | .struct [a, b], h =>
      simp [MTy.inhabits] at h
      have h1 := le_ty t a hw h.1
      have h2 := le_ty t b hw h.2
      simp only [enc, encList, encMax, List.length_append, List.length_nil]; omega
  | .rangeInclusive t, v, hw, h => by
    simp only [MTy.wf] at hw
    match v, h with
    | .struct [a, b], h =>
      simp [MTy.inhabits] at h
      have h1 := le_ty t a hw h.1
      have h2 := le_ty t b hw h.2
      simp only [enc, encList, encMax, List.length_append, List.length_nil]; omega
  | .rangeFrom t, v, hw, h => by
    simp only [MTy.wf] at hw
    match v, h with
    | .struct [a], h =>
      simp only [MTy.inhabits] at h
      have h1 := le_ty t a hw h
      simp only [enc, encList, encMax, List.length_append, List.length_nil]; omega
  | .rangeTo t, v, hw, h => by
    simp only [MTy.wf] at hw
    match v, h with
    | .struct [a], h =>
      simp only [MTy.inhabits] at h
      have h1 := le_ty t a hw h
      simp only [enc, encList, encMax, List.length_append, List.length_nil]; omega
  | .ref t, v, hw, h => by
    simp only [MTy.wf] at hw
    simp only [MTy.inhabits] at h
    simpa [encMax] using le_ty t v hw h
  | .hvec t n, v, hw, h => by
    simp [MTy.wf] at hw
    cases v <;> simp [MTy.inhabits] at h
    case seq vs =>
      obtain ⟨hall, hlen⟩ := h
      have h1 := encList_length_le_mul (encMax t) vs (fun v hv => le_ty t v hw.1 (hall v hv))
      have h2 := encVarint64_length_le_varintSize hlen hw.2
      have h3 : encMax t * vs.length ≤ encMax t * n := Nat.mul_le_mul_left _ hlen
      simp only [enc, encMax, List.length_append]; omega
  | .hstring n, v, hw, h => by
    simp [MTy.wf] at hw
    cases v <;> simp [MTy.inhabits] at h
    case str s =>
      have h2 := encVarint64_length_le_varintSize h.2 hw
      simp only [enc, encMax, List.length_append]; omega
  | .dstruct f, v, hw, h => by
    simp only [MTy.wf] at hw
    simp only [MTy.inhabits] at h
    simpa [encMax] using le_struct f v hw h
  | .denum fs, v, hw, h => by
    simp [MTy.wf] at hw
    simp only [MTy.inhabits] at h
    split at h
    · rename_i idx hidx
      simp at h
      have := le_enum fs idx v 0 hw.2 h.2 (by simpa using hidx) (by omega)
      simpa [encMax] using this
    · simp at h
theorem le_list : (ts : List MTy) → (vs : List Val) → wfList ts = true →
    inhabitsList ts vs = true → (encList vs).length ≤ encMaxSum ts
  | [], vs, _, h => by
    cases vs <;> simp [inhabitsList] at h
    simp [encList]
  | t :: ts, vs, hw, h => by
    simp [wfList] at hw
    cases vs <;> simp [inhabitsList] at h
    case cons v vs =>
      have h1 := le_ty t v hw.1 h.1
      have h2 := le_list ts vs hw.2 h.2
      simp only [encList, encMaxSum, List.length_append]; omega
theorem le_struct : (f : DFields) → (v : Val) → DFields.wf f = true →
    DFields.inhabitsStruct f v = true → (enc v).length ≤ DFields.encMax f
  | .unit, v, _, h => by
    cases v <;> simp [DFields.inhabitsStruct] at h
    simp [enc]
  | .unnamed ts, v, hw, h => by
    simp only [DFields.wf] at hw
    cases v <;> simp [DFields.inhabitsStruct] at h
    case newtypeStruct v =>
      have := le_list ts [v] hw h.2
      simpa [enc, encList, DFields.encMax] using this
    case tupleStruct vs =>
      have := le_list ts vs hw h.2
      simpa [enc, DFields.encMax] using this
  | .named ts, v, hw, h => by
    simp only [DFields.wf] at hw
    cases v <;> simp [DFields.inhabitsStruct] at h
    case struct vs =>
      have := le_list ts vs hw h
      simpa [enc, DFields.encMax] using this
theorem le_variant : (f : DFields) → (v : Val) → DFields.wf f = true →
    DFields.inhabitsVariant f v = true →
    ∃ idx, v.variantIdx? = some idx ∧
      (enc v).length ≤ (encVarint 32 idx).length + DFields.encMax f
  | .unit, v, _, h => by
    cases v <;> simp [DFields.inhabitsVariant] at h
    case unitVariant idx => exact ⟨idx, rfl, by simp [enc]⟩
  | .unnamed ts, v, hw, h => by
    simp only [DFields.wf] at hw
    cases v <;> simp [DFields.inhabitsVariant] at h
    case newtypeVariant idx v =>
      have := le_list ts [v] hw h.2
      refine ⟨idx, rfl, ?_⟩
      simp only [encList, List.append_nil] at this
      simp only [enc, DFields.encMax, List.length_append]; omega
    case tupleVariant idx vs =>
      have := le_list ts vs hw h.2
      refine ⟨idx, rfl, ?_⟩
      simp only [enc, DFields.encMax, List.length_append]; omega
  | .named ts, v, hw, h => by
    simp only [DFields.wf] at hw
    cases v <;> simp [DFields.inhabitsVariant] at h
    case structVariant idx vs =>
      have := le_list ts vs hw h
      refine ⟨idx, rfl, ?_⟩
      simp only [enc, DFields.encMax, List.length_append]; omega
-- the variant list `fs` starts at index `k0` of the declaration
theorem le_enum : (fs : List DFields) → (k : Nat) → (v : Val) → (k0 : Nat) →
    wfVariants fs = true → inhabitsEnum fs k v = true →
    v.variantIdx? = some (k0 + k) → k0 + k < 2 ^ 32 →
    (enc v).length ≤ enumEncMax k0 fs
  | [], k, v, _, _, h, _, _ => by simp [inhabitsEnum] at h
  | f :: fs, 0, v, k0, hw, h, hidx, hlt => by
    simp [wfVariants] at hw
    simp only [inhabitsEnum] at h
    simp only [Nat.add_zero] at hidx hlt
    obtain ⟨idx, hi, hb⟩ := le_variant f v hw.1 h
    rw [hidx] at hi
    cases hi
    have h1 := encVarint32_length hlt
    have h2 := varintSize_eq k0
    have h3 := Nat.le_max_left (varintSize k0 + DFields.encMax f) (enumEncMax (k0 + 1) fs)
    simp only [enumEncMax]; omega
  | f :: fs, k + 1, v, k0, hw, h, hidx, hlt => by
    simp [wfVariants] at hw
    simp only [inhabitsEnum] at h
    have := le_enum fs k v (k0 + 1) hw.2 h (by rw [hidx]; congr 1; omega) (by omega)
    have h3 := Nat.le_max_right (varintSize k0 + DFields.encMax f) (enumEncMax (k0 + 1) fs)
    simp only [enumEncMax]; omega
end

/-- every value's encoding is at most encMax -/
theorem enc_le_encMax (m : MTy) (v : Val) (hw : m.wf = true) (h : m.inhabits v = true) :
    (enc v).length ≤ encMax m :=
  le_ty m v hw h

/-! ## 2. the code's constant bounds the exact maximum -/

theorem varintSize_le_discriminant {k n : Nat} (h : k < n) :
    varintSize k ≤ varintSizeDiscriminant n := by
  rw [varintSize_eq, varintSizeDiscriminant_eq (by omega)]
  have := log2_mono (Nat.le_of_lt h)
  have := Nat.div_le_div_right (c := 7) this
  omega

mutual
theorem ems_ty : (m : MTy) → encMax m ≤ maxSize m
  | .bool => by simp [encMax, maxSize]
  | .int _ _ => by simp [encMax, maxSize]
  | .usize => by simp [encMax, maxSize]
  | .isize => by simp [encMax, maxSize]
  | .nonZero _ _ => by simp [encMax, maxSize]
  | .nonZeroUsize => by simp [encMax, maxSize]
  | .nonZeroIsize => by simp [encMax, maxSize]
  | .f32 => by simp [encMax, maxSize]
  | .f64 => by simp [encMax, maxSize]
  | .char => by simp [encMax, maxSize]
  | .unit => by simp [encMax, maxSize]
  | .phantom => by simp [encMax, maxSize]
  | .option t => by
    have := ems_ty t
    simp only [encMax, maxSize]; omega
  | .result t e => by
    have h1 := ems_ty t
    have h2 := ems_ty e
    simp only [encMax, maxSize, rmax_eq]; omega
  | .array t n => by
    simp only [encMax, maxSize]
    exact Nat.mul_le_mul_right _ (ems_ty t)
  | .tuple ts => by
    simp only [encMax, maxSize, tupleSum_eq]
    exact ems_list ts
  | .range t => by
    have := ems_ty t
    simp only [encMax, maxSize]; omega
  | .rangeInclusive t => by
    have := ems_ty t
    simp only [encMax, maxSize]; omega
  | .rangeFrom t => by simpa [encMax, maxSize] using ems_ty t
  | .rangeTo t => by simpa [encMax, maxSize] using ems_ty t
  | .ref t => by simpa [encMax, maxSize] using ems_ty t
  | .hvec t n => by
    have : encMax t * n ≤ maxSize t * n := Nat.mul_le_mul_right _ (ems_ty t)
    simp only [encMax, maxSize]; omega
  | .hstring n => by
    simp only [encMax, maxSize]; omega
  | .dstruct f => by simpa [encMax, maxSize] using ems_fields f
  | .denum vs => by
    simp only [encMax, maxSize]
    exact ems_enum vs 0 _ 0 (fun k hk => varintSize_le_discriminant (by omega))
theorem ems_list : (ts : List MTy) → encMaxSum ts ≤ sumFrom 0 ts
  | [] => by simp [encMaxSum, sumFrom]
  | t :: ts => by
    have h1 := ems_ty t
    have h2 := ems_list ts
    rw [sumFrom_cons]
    simp only [encMaxSum]; omega
theorem ems_fields : (f : DFields) → DFields.encMax f ≤ DFields.sum f
  | .unit => by simp [DFields.encMax, DFields.sum]
  | .unnamed ts => by simpa [DFields.encMax, DFields.sum] using ems_list ts
  | .named ts => by simpa [DFields.encMax, DFields.sum] using ems_list ts
theorem ems_enum : (fs : List DFields) → (k0 D acc : Nat) →
    (∀ k, k < k0 + fs.length → varintSize k ≤ D) →
    enumEncMax k0 fs ≤ D + maxVariants acc fs
  | [], _, _, _, _ => by simp [enumEncMax]
  | f :: fs, k0, D, acc, hD => by
    have h1 := hD k0 (by simp)
    have h2 := ems_fields f
    have h3 := maxVariants_ge_head acc f fs
    have h4 := ems_enum fs (k0 + 1) D (rmax acc (DFields.sum f))
      (fun k hk => hD k (by simp only [List.length_cons]; omega))
    simp only [maxVariants] at h3
    simp only [enumEncMax, maxVariants]
    exact Nat.max_le.2 ⟨by omega, h4⟩
end

/-- the code's constant is an upper bound of the exact maximum -/
theorem encMax_le_maxSize (m : MTy) (_hw : m.wf = true) : encMax m ≤ maxSize m :=
  ems_ty m

/-- for the kinds the property calls tight the code's constant IS the exact maximum -/
theorem encMax_eq_maxSize_of_tight (m : MTy) (ht : m.tight = true) (hw : m.wf = true) :
    encMax m = maxSize m := by
  obtain ⟨v, hv, hl⟩ := max_size_tight m ht hw
  have h1 := enc_le_encMax m v hw hv
  have h2 := encMax_le_maxSize m hw
  omega

/-! ## 3. the exact maximum is attained -/

mutual
/-- the EXTRA hypothesis of `encMax_attained`: the payload type of every `Option` that
a value has to fill is populated (and so on inside it).  `MTy.populated (.option t)` is
`true` for every `t` (there is `None`), but `encMax (.option t) = encMax t + 1` is only
reached by a `Some`. -/
def MTy.optionsPopulated : MTy → Bool
  | .option t => t.populated && t.optionsPopulated
  | .result t e => t.optionsPopulated && e.optionsPopulated
  | .array t n => decide (n = 0) || t.optionsPopulated
  | .tuple ts => optionsPopulatedList ts
  | .range t => t.optionsPopulated
  | .rangeInclusive t => t.optionsPopulated
  | .rangeFrom t => t.optionsPopulated
  | .rangeTo t => t.optionsPopulated
  | .ref t => t.optionsPopulated
  | .hvec t _ => t.optionsPopulated
  | .dstruct f => DFields.optionsPopulated f
  | .denum vs => optionsPopulatedVariants vs
  | _ => true
def optionsPopulatedList : List MTy → Bool
  | [] => true
  | t :: ts => t.optionsPopulated && optionsPopulatedList ts
def DFields.optionsPopulated : DFields → Bool
  | .unit => true
  | .unnamed ts => optionsPopulatedList ts
  | .named ts => optionsPopulatedList ts
def optionsPopulatedVariants : List DFields → Bool
  | [] => true
  | f :: fs => DFields.optionsPopulated f && optionsPopulatedVariants fs
end

mutual
/-- a value of type `m` whose encoding has `encMax m` bytes (every kind, incl. enums). -/
def exactWitness : MTy → Val
  | .bool => .bool true
  | .int s w => intWitness s w
  | .usize => intWitness false .w64
  | .isize => intWitness true .w64
  | .nonZero s w => intWitness s w
  | .nonZeroUsize => intWitness false .w64
  | .nonZeroIsize => intWitness true .w64
  | .f32 => .f32 0
  | .f64 => .f64 0
  | .char => .char 0x10000
  | .unit => .unit
  | .phantom => .unitStruct
  | .option t => .some (exactWitness t)
  | .result t e =>
    if encMax e ≤ encMax t then .newtypeVariant 0 (exactWitness t)
    else .newtypeVariant 1 (exactWitness e)
  | .array t n => .tuple (List.replicate n (exactWitness t))
  | .tuple ts => .tuple (exactWitnessList ts)
  | .range t => .struct [exactWitness t, exactWitness t]
  | .rangeInclusive t => .struct [exactWitness t, exactWitness t]
  | .rangeFrom t => .struct [exactWitness t]
  | .rangeTo t => .struct [exactWitness t]
  | .ref t => exactWitness t
  | .hvec t n => .seq (List.replicate n (exactWitness t))
  | .hstring n => .str (List.replicate n 0x41)
  | .dstruct f => DFields.exactStructWitness f
  | .denum vs => enumWitness 0 vs
def exactWitnessList : List MTy → List Val
  | [] => []
  | t :: ts => exactWitness t :: exactWitnessList ts
def DFields.exactStructWitness : DFields → Val
  | .unit => .unitStruct
  | .unnamed ts =>
    if ts.length = 1 then .newtypeStruct ((exactWitnessList ts).headD .unit)
    else .tupleStruct (exactWitnessList ts)
  | .named ts => .struct (exactWitnessList ts)
/-- the longest value of the variant with these fields, carrying index `idx`. -/
def DFields.exactVariantWitness (idx : Nat) : DFields → Val
  | .unit => .unitVariant idx
  | .unnamed ts =>
    if ts.length = 1 then .newtypeVariant idx ((exactWitnessList ts).headD .unit)
    else .tupleVariant idx (exactWitnessList ts)
  | .named ts => .structVariant idx (exactWitnessList ts)
/-- variants `k, k+1, …`: the (first) variant that realises `enumEncMax k`. -/
def enumWitness (k : Nat) : List DFields → Val
  | [] => .unit
  | f :: fs =>
    if enumEncMax (k + 1) fs ≤ varintSize k + DFields.encMax f
    then DFields.exactVariantWitness k f
    else enumWitness (k + 1) fs
end

mutual
theorem at_ty : (m : MTy) → m.wf = true → m.populated = true → m.optionsPopulated = true →
    m.inhabits (exactWitness m) = true ∧ (enc (exactWitness m)).length = encMax m
  | .bool, _, _, _ => by decide
  | .int s w, _, _, _ => by
    simpa [MTy.inhabits, exactWitness, encMax] using intWitness_spec s w false
  | .usize, _, _, _ => by decide
  | .isize, _, _, _ => by decide
  | .nonZero s w, _, _, _ => by
    simpa [MTy.inhabits, exactWitness, encMax] using intWitness_spec s w true
  | .nonZeroUsize, _, _, _ => by decide
  | .nonZeroIsize, _, _, _ => by decide
  | .f32, _, _, _ => by decide
  | .f64, _, _, _ => by decide
  | .char, _, _, _ => by decide
  | .unit, _, _, _ => by decide
  | .phantom, _, _, _ => by decide
  | .option t, hw, _, ho => by
    simp only [MTy.wf] at hw
    simp [MTy.optionsPopulated] at ho
    obtain ⟨h1, h2⟩ := at_ty t hw ho.1 ho.2
    simp [MTy.inhabits, exactWitness, encMax, enc, h1, h2]
  | .result t e, hw, hp, ho => by
    simp [MTy.wf] at hw
    simp [MTy.populated] at hp
    simp [MTy.optionsPopulated] at ho
    obtain ⟨h1, h2⟩ := at_ty t hw.1 hp.1 ho.1
    obtain ⟨h3, h4⟩ := at_ty e hw.2 hp.2 ho.2
    have e0 := encVarint_small (bits := 32) (n := 0) (by decide) (by decide)
    have e1 := encVarint_small (bits := 32) (n := 1) (by decide) (by decide)
    simp only [exactWitness, encMax]
    split
    · exact ⟨by simp only [MTy.inhabits, h1],
        by simp only [enc, List.length_append, h2, e0]; omega⟩
    · exact ⟨by simp only [MTy.inhabits, h3],
        by simp only [enc, List.length_append, h4, e1]; omega⟩
  | .array t n, hw, hp, ho => by
    simp [MTy.wf] at hw
    simp [MTy.populated] at hp
    simp [MTy.optionsPopulated] at ho
    by_cases hn : n = 0
    · subst hn
      simp [MTy.inhabits, exactWitness, encMax, enc, encList]
    · obtain ⟨h1, h2⟩ := at_ty t hw.1 (by simpa [hn] using hp) (by simpa [hn] using ho)
      simp [MTy.inhabits, exactWitness, encMax, enc, encList_replicate_length, h1, h2]
  | .tuple ts, hw, hp, ho => by
    simp only [MTy.wf] at hw
    simp only [MTy.populated] at hp
    simp only [MTy.optionsPopulated] at ho
    obtain ⟨h1, h2⟩ := at_list ts hw hp ho
    simp [MTy.inhabits, exactWitness, encMax, enc, h1, h2]
  | .range t, hw, hp, ho => by
    simp only [MTy.wf] at hw
    simp only [MTy.populated] at hp
    simp only [MTy.optionsPopulated] at ho
    obtain ⟨h1, h2⟩ := at_ty t hw hp ho
    simp [MTy.inhabits, exactWitness, encMax, enc, encList, h1, h2]; omega
  | .rangeInclusive t, hw, hp, ho => by
    simp only [MTy.wf] at hw
    simp only [MTy.populated] at hp
    simp only [MTy.optionsPopulated] at ho
    obtain ⟨h1, h2⟩ := at_ty t hw hp ho
    simp [MTy.inhabits, exactWitness, encMax, enc, encList, h1, h2]; omega
  | .rangeFrom t, hw, hp, ho => by
    simp only [MTy.wf] at hw
    simp only [MTy.populated] at hp
    simp only [MTy.optionsPopulated] at ho
    obtain ⟨h1, h2⟩ := at_ty t hw hp ho
    simp [MTy.inhabits, exactWitness, encMax, enc, encList, h1, h2]
  | .rangeTo t, hw, hp, ho => by
    simp only [MTy.wf] at hw
    simp only [MTy.populated] at hp
    simp only [MTy.optionsPopulated] at ho
    obtain ⟨h1, h2⟩ := at_ty t hw hp ho
    simp [MTy.inhabits, exactWitness, encMax, enc, encList, h1, h2]
  | .ref t, hw, hp, ho => by
    simp only [MTy.wf] at hw
    simp only [MTy.populated] at hp
    simp only [MTy.optionsPopulated] at ho
    simpa [MTy.inhabits, exactWitness, encMax] using at_ty t hw hp ho
  | .hvec t n, hw, hp, ho => by
    simp [MTy.wf] at hw
    simp only [MTy.populated] at hp
    simp only [MTy.optionsPopulated] at ho
    obtain ⟨h1, h2⟩ := at_ty t hw.1 hp ho
    have h3 := encVarint64_length_eq_varintSize hw.2
    simp [MTy.inhabits, exactWitness, encMax, enc, encList_replicate_length, h1, h2, h3]
    omega
  | .hstring n, hw, _, _ => by
    simp [MTy.wf] at hw
    have h3 := encVarint64_length_eq_varintSize hw
    simp [MTy.inhabits, exactWitness, encMax, enc, utf8Valid_replicate_ascii, h3]
    omega
  | .dstruct f, hw, hp, ho => by
    simp only [MTy.wf] at hw
    simp only [MTy.populated] at hp
    simp only [MTy.optionsPopulated] at ho
    simpa [MTy.inhabits, exactWitness, encMax] using at_struct f hw hp ho
  | .denum fs, hw, hp, ho => by
    simp [MTy.wf] at hw
    simp [MTy.populated] at hp
    simp only [MTy.optionsPopulated] at ho
    obtain ⟨k, g1, g2, g3, g4⟩ := at_enum fs 0 hw.2 hp.2 ho (by simpa using hp.1) (by omega)
    simp only [Nat.zero_add] at g2 g3
    simp only [MTy.inhabits, exactWitness, encMax, g2]
    exact ⟨by simp [g1, g3], g4⟩
theorem at_list : (ts : List MTy) → wfList ts = true → populatedList ts = true →
    optionsPopulatedList ts = true →
    inhabitsList ts (exactWitnessList ts) = true ∧
    (encList (exactWitnessList ts)).length = encMaxSum ts
  | [], _, _, _ => by simp [inhabitsList, exactWitnessList, encList, encMaxSum]
  | t :: ts, hw, hp, ho => by
    simp [wfList] at hw
    simp [populatedList] at hp
    simp [optionsPopulatedList] at ho
    obtain ⟨h1, h2⟩ := at_ty t hw.1 hp.1 ho.1
    obtain ⟨h3, h4⟩ := at_list ts hw.2 hp.2 ho.2
    simp [inhabitsList, exactWitnessList, encList, encMaxSum, h1, h2, h3, h4]
theorem at_struct : (f : DFields) → DFields.wf f = true → DFields.populated f = true →
    DFields.optionsPopulated f = true →
    DFields.inhabitsStruct f (DFields.exactStructWitness f) = true ∧
    (enc (DFields.exactStructWitness f)).length = DFields.encMax f
  | .unit, _, _, _ => by decide
  | .unnamed ts, hw, hp, ho => by
    simp only [DFields.wf] at hw
    simp only [DFields.populated] at hp
    simp only [DFields.optionsPopulated] at ho
    obtain ⟨h1, h2⟩ := at_list ts hw hp ho
    simp only [DFields.exactStructWitness, DFields.encMax]
    split
    · rename_i hlen
      match ts, hlen, h1, h2 with
      | [t], _, h1, h2 =>
        simp only [exactWitnessList, encList_singleton] at h1 h2
        simp [exactWitnessList, DFields.inhabitsStruct, enc, h1, h2]
    · rename_i hlen
      simp [DFields.inhabitsStruct, enc, h1, h2, hlen]
  | .named ts, hw, hp, ho => by
    simp only [DFields.wf] at hw
    simp only [DFields.populated] at hp
    simp only [DFields.optionsPopulated] at ho
    obtain ⟨h1, h2⟩ := at_list ts hw hp ho
    simp [DFields.exactStructWitness, DFields.encMax, DFields.inhabitsStruct, enc, h1, h2]
theorem at_variant : (f : DFields) → (idx : Nat) → DFields.wf f = true →
    DFields.populated f = true → DFields.optionsPopulated f = true →
    DFields.inhabitsVariant f (DFields.exactVariantWitness idx f) = true ∧
    (DFields.exactVariantWitness idx f).variantIdx? = some idx ∧
    (enc (DFields.exactVariantWitness idx f)).length =
      (encVarint 32 idx).length + DFields.encMax f
  | .unit, idx, _, _, _ => by
    simp [DFields.exactVariantWitness, DFields.inhabitsVariant, Val.variantIdx?, enc,
      DFields.encMax]
  | .unnamed ts, idx, hw, hp, ho => by
    simp only [DFields.wf] at hw
    simp only [DFields.populated] at hp
    simp only [DFields.optionsPopulated] at ho
    obtain ⟨h1, h2⟩ := at_list ts hw hp ho
    simp only [DFields.exactVariantWitness, DFields.encMax]
    split
    · rename_i hlen
      match ts, hlen, h1, h2 with
      | [t], _, h1, h2 =>
        simp only [exactWitnessList, encList_singleton] at h1 h2
        simp [exactWitnessList, DFields.inhabitsVariant, Val.variantIdx?, enc, h1, h2]
    · rename_i hlen
      simp [DFields.inhabitsVariant, Val.variantIdx?, enc, h1, h2, hlen]
  | .named ts, idx, hw, hp, ho => by
    simp only [DFields.wf] at hw
    simp only [DFields.populated] at hp
    simp only [DFields.optionsPopulated] at ho
    obtain ⟨h1, h2⟩ := at_list ts hw hp ho
    simp [DFields.exactVariantWitness, DFields.encMax, DFields.inhabitsVariant,
      Val.variantIdx?, enc, h1, h2]
-- the variant list `fs` starts at index `k0` of the declaration
theorem at_enum : (fs : List DFields) → (k0 : Nat) → wfVariants fs = true →
    populatedVariants fs = true → optionsPopulatedVariants fs = true → fs ≠ [] →
    k0 + fs.length ≤ 2 ^ 32 →
    ∃ k, inhabitsEnum fs k (enumWitness k0 fs) = true ∧
      (enumWitness k0 fs).variantIdx? = some (k0 + k) ∧ k0 + k < 2 ^ 32 ∧
      (enc (enumWitness k0 fs)).length = enumEncMax k0 fs
  | [], _, _, _, _, hne, _ => absurd rfl hne
  | f :: fs, k0, hw, hp, ho, _, hlen => by
    simp [wfVariants] at hw
    simp [populatedVariants] at hp
    simp [optionsPopulatedVariants] at ho
    simp only [List.length_cons] at hlen
    obtain ⟨h1, h2, h3⟩ := at_variant f k0 hw.1 hp.1 ho.1
    have hv := encVarint32_length (n := k0) (by omega)
    rw [← varintSize_eq] at hv
    simp only [enumWitness, enumEncMax]
    split
    · rename_i hc
      refine ⟨0, by simpa [inhabitsEnum] using h1, by simpa using h2, by omega, ?_⟩
      rw [h3, hv]; omega
    · rename_i hc
      have hne : fs ≠ [] := by
        intro h
        subst h
        simp [enumEncMax] at hc
      obtain ⟨k, g1, g2, g3, g4⟩ := at_enum fs (k0 + 1) hw.2 hp.2 ho.2 hne (by omega)
      refine ⟨k + 1, by simpa [inhabitsEnum] using g1, ?_, by omega, ?_⟩
      · rw [g2]; congr 1; omega
      · rw [g4]; omega
end

/-- encMax is attained whenever the type is populated (and so are its `Option` payloads:
`hopt` is the extra hypothesis, see `encMax_not_attained_option_empty_payload`). -/
theorem encMax_attained (m : MTy) (hw : m.wf = true) (hp : m.populated = true)
    (hopt : m.optionsPopulated = true) :
    ∃ v, m.inhabits v = true ∧ (enc v).length = encMax m :=
  ⟨exactWitness m, at_ty m hw hp hopt⟩

/-- … by the explicit value `exactWitness m`. -/
theorem encMax_attained_witness (m : MTy) (hw : m.wf = true) (hp : m.populated = true)
    (hopt : m.optionsPopulated = true) :
    m.inhabits (exactWitness m) = true ∧ (enc (exactWitness m)).length = encMax m :=
  at_ty m hw hp hopt

/-- C12 for one type, decided by comparing the real constant N with encMax:
N bounds every value's encoding  iff  encMax m ≤ N  (for populated types whose `Option`
payloads are populated).  The direction `encMax m ≤ N → N bounds every value` needs
neither `hp` nor `hopt` (`bound_of_encMax_le`). -/
theorem bound_iff_encMax_le (m : MTy) (hw : m.wf = true) (hp : m.populated = true)
    (hopt : m.optionsPopulated = true) (N : Nat) :
    (∀ v, m.inhabits v = true → (enc v).length ≤ N) ↔ encMax m ≤ N := by
  constructor
  · intro h
    obtain ⟨v, hv, hl⟩ := encMax_attained m hw hp hopt
    have := h v hv
    omega
  · intro h v hv
    exact Nat.le_trans (enc_le_encMax m v hw hv) h

theorem bound_of_encMax_le (m : MTy) (hw : m.wf = true) (N : Nat) (h : encMax m ≤ N) :
    ∀ v, m.inhabits v = true → (enc v).length ≤ N :=
  fun v hv => Nat.le_trans (enc_le_encMax m v hw hv) h

/-! ## 4. why `hopt` is needed, and non-vacuity -/

/-- `Option<(u32, Empty)>` with `enum Empty {}`: well-formed, `populated` (there is
`None`), `encMax = 6`, but `None` is the ONLY value and it takes one byte.  So
`encMax_attained` and `bound_iff_encMax_le` are false with `populated` alone. -/
theorem encMax_not_attained_option_empty_payload :
    (MTy.option (.tuple [.int false .w32, .denum []])).wf = true ∧
    (MTy.option (.tuple [.int false .w32, .denum []])).populated = true ∧
    (MTy.option (.tuple [.int false .w32, .denum []])).optionsPopulated = false ∧
    encMax (.option (.tuple [.int false .w32, .denum []])) = 6 ∧
    ∀ v, (MTy.option (.tuple [.int false .w32, .denum []])).inhabits v = true →
      (enc v).length = 1 := by
  refine ⟨by decide, by decide, by decide, by decide, ?_⟩
  intro v h
  cases v <;> simp [MTy.inhabits] at h
  case none => simp [enc]
  case some v =>
    exfalso
    cases v <;> simp [MTy.inhabits] at h
    case tuple vs =>
      rcases vs with _ | ⟨a, _ | ⟨b, _ | ⟨c, r⟩⟩⟩ <;> simp [inhabitsList] at h
      have hb := h.2
      simp only [MTy.inhabits] at hb
      split at hb <;> simp [inhabitsEnum] at hb

section Examples
-- 128 unit variants: the longest index written is 127 (one byte); the derive's constant is 2
example : encMax (.denum (List.replicate 128 .unit)) = 1
    ∧ maxSize (.denum (List.replicate 128 .unit)) = 2 := by decide +kernel
-- 129 unit variants: index 128 takes two bytes; both are 2
example : encMax (.denum (List.replicate 129 .unit)) = 2
    ∧ maxSize (.denum (List.replicate 129 .unit)) = 2 := by decide +kernel
-- the longest payload need not sit at the longest index: `enum { A(u16), B(u8) }`
example : encMax (.denum [.unnamed [.int false .w16], .unnamed [.int false .w8]]) = 4
    ∧ enc (exactWitness (.denum [.unnamed [.int false .w16], .unnamed [.int false .w8]]))
      = [0, 0xFF, 0xFF, 0x03] := by decide
-- an instance of `encMax_attained_witness` on the 128-variant enum
example : (enc (exactWitness (.denum (List.replicate 128 .unit)))).length = 1 := by
  decide +kernel
end Examples

/-! ## the kinds the property lists as tight -/

mutual
theorem listed_tight : (m : MTy) → m.listed = true → m.tight = true
  | .bool, _ => rfl
  | .int _ _, _ => rfl
  | .usize, _ => rfl
  | .isize, _ => rfl
  | .nonZero _ _, _ => rfl
  | .nonZeroUsize, _ => rfl
  | .nonZeroIsize, _ => rfl
  | .f32, _ => rfl
  | .f64, _ => rfl
  | .char, _ => rfl
  | .hstring _, _ => rfl
  | .option t, h => by
    simp only [MTy.listed] at h
    simp only [MTy.tight]; exact listed_tight t h
  | .array t _, h => by
    simp only [MTy.listed] at h
    simp only [MTy.tight]; exact listed_tight t h
  | .hvec t _, h => by
    simp only [MTy.listed] at h
    simp only [MTy.tight]; exact listed_tight t h
  | .tuple ts, h => by
    simp only [MTy.listed] at h
    simp only [MTy.tight]; exact listed_tightList ts h
  | .unit, h => by simp [MTy.listed] at h
  | .phantom, h => by simp [MTy.listed] at h
  | .result _ _, h => by simp [MTy.listed] at h
  | .range _, h => by simp [MTy.listed] at h
  | .rangeInclusive _, h => by simp [MTy.listed] at h
  | .rangeFrom _, h => by simp [MTy.listed] at h
  | .rangeTo _, h => by simp [MTy.listed] at h
  | .ref _, h => by simp [MTy.listed] at h
  | .dstruct _, h => by simp [MTy.listed] at h
  | .denum _, h => by simp [MTy.listed] at h
theorem listed_tightList : (ts : List MTy) → listedList ts = true → tightList ts = true
  | [], _ => rfl
  | t :: ts, h => by
    simp only [listedList, Bool.and_eq_true] at h
    simp only [tightList, Bool.and_eq_true]
    exact ⟨listed_tight t h.1, listed_tightList ts h.2⟩
end

/-- **C12, as decided per type by the run-time check.**  For a well-formed type `m` and the real
constant `N = T::POSTCARD_MAX_SIZE`:
* `encMax m ≤ N` gives the bound for EVERY value (no further hypothesis);
* for the kinds the property lists as tight, `N = encMax m` means the bound is attained
  (the witness is `maxWitness m`, of length `maxSize m = encMax m`). -/
theorem c12_decided_by_encMax (m : MTy) (hw : m.wf = true) (N : Nat) :
    (encMax m ≤ N → ∀ v, m.inhabits v = true → (enc v).length ≤ N) ∧
    (m.listed = true → N = encMax m →
      ∃ v, m.inhabits v = true ∧ (enc v).length = N) := by
  refine ⟨fun h v hv => bound_of_encMax_le m hw N h v hv, fun hl hN => ?_⟩
  have ht := listed_tight m hl
  obtain ⟨v, hv, hlen⟩ := max_size_tight m ht hw
  exact ⟨v, hv, by rw [hlen, hN, encMax_eq_maxSize_of_tight m ht hw]⟩

/-! ## the listed tight kinds need no side condition -/

mutual
theorem listed_populated : (m : MTy) → m.listed = true → m.populated = true ∧ m.optionsPopulated = true
  | .bool, _ => ⟨rfl, rfl⟩
  | .int _ _, _ => ⟨rfl, rfl⟩
  | .usize, _ => ⟨rfl, rfl⟩
  | .isize, _ => ⟨rfl, rfl⟩
  | .nonZero _ _, _ => ⟨rfl, rfl⟩
  | .nonZeroUsize, _ => ⟨rfl, rfl⟩
  | .nonZeroIsize, _ => ⟨rfl, rfl⟩
  | .f32, _ => ⟨rfl, rfl⟩
  | .f64, _ => ⟨rfl, rfl⟩
  | .char, _ => ⟨rfl, rfl⟩
  | .hstring _, _ => ⟨rfl, rfl⟩
  | .option t, h => by
    simp only [MTy.listed] at h
    obtain ⟨h1, h2⟩ := listed_populated t h
    simp [MTy.populated, MTy.optionsPopulated, h1, h2]
  | .array t _, h => by
    simp only [MTy.listed] at h
    obtain ⟨h1, h2⟩ := listed_populated t h
    simp [MTy.populated, MTy.optionsPopulated, h1, h2]
  | .hvec t _, h => by
    simp only [MTy.listed] at h
    obtain ⟨h1, h2⟩ := listed_populated t h
    simp [MTy.populated, MTy.optionsPopulated, h1, h2]
  | .tuple ts, h => by
    simp only [MTy.listed] at h
    obtain ⟨h1, h2⟩ := listed_populatedList ts h
    simp [MTy.populated, MTy.optionsPopulated, h1, h2]
  | .unit, h => by simp [MTy.listed] at h
  | .phantom, h => by simp [MTy.listed] at h
  | .result _ _, h => by simp [MTy.listed] at h
  | .range _, h => by simp [MTy.listed] at h
  | .rangeInclusive _, h => by simp [MTy.listed] at h
  | .rangeFrom _, h => by simp [MTy.listed] at h
  | .rangeTo _, h => by simp [MTy.listed] at h
  | .ref _, h => by simp [MTy.listed] at h
  | .dstruct _, h => by simp [MTy.listed] at h
  | .denum _, h => by simp [MTy.listed] at h
theorem listed_populatedList : (ts : List MTy) → listedList ts = true →
    populatedList ts = true ∧ optionsPopulatedList ts = true
  | [], _ => ⟨rfl, rfl⟩
  | t :: ts, h => by
    simp only [listedList, Bool.and_eq_true] at h
    obtain ⟨h1, h2⟩ := listed_populated t h.1
    obtain ⟨h3, h4⟩ := listed_populatedList ts h.2
    simp [populatedList, optionsPopulatedList, h1, h2, h3, h4]
end

/-- **C12 for the kinds the property calls tight, with no side condition**: a constant `N` is "an upper bound
that some value attains" exactly when `N = encMax m`. -/
theorem c12_listed_iff (m : MTy) (hw : m.wf = true) (hl : m.listed = true) (N : Nat) :
    ((∀ v, m.inhabits v = true → (enc v).length ≤ N) ∧ (∃ v, m.inhabits v = true ∧ (enc v).length = N))
      ↔ N = encMax m := by
  obtain ⟨hp, ho⟩ := listed_populated m hl
  constructor
  · rintro ⟨hb, v, hv, hlen⟩
    have h1 : encMax m ≤ N := (bound_iff_encMax_le m hw hp ho N).mp hb
    have h2 : N ≤ encMax m := by rw [← hlen]; exact enc_le_encMax m v hw hv
    omega
  · intro hN
    subst hN
    exact ⟨(bound_iff_encMax_le m hw hp ho _).mpr (Nat.le_refl _), encMax_attained m hw hp ho⟩

end Postcard
