import Postcard.Props.C05
import Postcard.Props.C02
/-
  Postcard.Props.C05Collect — `Serializer::collect_str` over the bounded storage
  flavours (property C05, Display-collected strings).

  `collectStrWith F s0 pieces` (Model/Entry.lean) runs `collect_str` for a value whose
  `Display` implementation issues one `write_str` per element of `pieces`: the byte total
  as a `usize` varint (failure ⇒ `SerializeBufferFull`), then ONE `try_extend` PER PIECE
  (failure ⇒ `CollectStrError`), then `finalize`.

  * `collect_alloc`, `collect_pieces_irrelevant` — growable storage: the result is the
    encoding of the string the pieces spell, whatever the piece boundaries.
  * `collect_slice_threshold`, `collect_slice_buffer` — `Slice`: exact threshold, the
    error discriminates "header did not fit" from "a piece did not fit", and the buffer
    afterwards is header ++ the longest run of WHOLE pieces that fits ++ untouched tail.
  * `collect_hvec_threshold`, `collect_hvec_within_capacity` — the same for `HVec`.
  * `collect_never_ok_truncated` — no truncated success.
-/
namespace Postcard

/-- the length header `collect_str` writes: `varint(usize)` of the total text length. -/
abbrev collectHdr (pieces : List (List Byte)) : List Byte := encVarint 64 pieces.flatten.length

/-- the complete output: header, then the text. -/
abbrev collectFull (pieces : List (List Byte)) : List Byte := collectHdr pieces ++ pieces.flatten

theorem sum_map_length_eq_flatten (l : List (List Byte)) :
    (l.map List.length).sum = l.flatten.length := List.length_flatten.symm

/-! ## 0. whole pieces: the byte count of the first `j` pieces is monotone in `j` -/

theorem take_flatten_length_mono (ps : List (List Byte)) {i j : Nat} (h : i ≤ j) :
    (ps.take i).flatten.length ≤ (ps.take j).flatten.length := by
  induction ps generalizing i j with
  | nil => simp
  | cons p ps ih =>
    cases i with
    | zero => simp
    | succ i =>
      cases j with
      | zero => omega
      | succ j =>
        simp only [List.take_succ_cons, List.flatten_cons, List.length_append]
        have := ih (i := i) (j := j) (by omega)
        omega

theorem take_flatten_prefix (ps : List (List Byte)) (k : Nat) :
    (ps.take k).flatten <+: ps.flatten :=
  ⟨(ps.drop k).flatten, by rw [← List.flatten_append, List.take_append_drop]⟩

theorem take_flatten_length_le (ps : List (List Byte)) (j : Nat) :
    (ps.take j).flatten.length ≤ ps.flatten.length := by
  have := take_flatten_length_mono ps (i := j) (j := max j ps.length) (Nat.le_max_left _ _)
  rwa [List.take_of_length_le (Nat.le_max_right _ _)] at this

/-! ## 1. one `try_extend` -/

theorem Slice.tryExtend_eq (s : SliceSt) (bs : List Byte) (hc : s.cursor ≤ s.mem.length) :
    Slice.tryExtend s bs =
      if s.cursor + bs.length ≤ s.mem.length then
        (⟨writeAt s.mem s.cursor bs, s.cursor + bs.length⟩, none)
      else (s, some .bufferFull) :=
  Slice.step_eq s (.extend bs) hc

theorem HVec.tryExtend_eq (s : HVecSt) (bs : List Byte) :
    HVec.tryExtend s bs =
      if s.vec.length + bs.length ≤ s.cap then (⟨s.cap, s.vec ++ bs⟩, none)
      else (s, some .bufferFull) :=
  HVec.step_eq s (.extend bs)

/-! ## 2. pass 2 (`collectPieces`) over each storage -/

theorem AllocVec.collectPieces_eq (ps : List (List Byte)) (s : List Byte) :
    collectPieces AllocVec s ps = (s ++ ps.flatten, none) := by
  induction ps generalizing s with
  | nil => simp [collectPieces]
  | cons p ps ih =>
    have : AllocVec.tryExtend s p = (s ++ p, none) := rfl
    simp only [collectPieces, this, ih, List.flatten_cons, List.append_assoc]

/-- all pieces fit ⇒ every `write_str` succeeds. -/
theorem Slice.collectPieces_fits (ps : List (List Byte)) (s : SliceSt)
    (hc : s.cursor ≤ s.mem.length) (h : s.cursor + ps.flatten.length ≤ s.mem.length) :
    collectPieces Slice s ps =
      (⟨writeAt s.mem s.cursor ps.flatten, s.cursor + ps.flatten.length⟩, none) := by
  induction ps generalizing s with
  | nil => simp [collectPieces, writeAt_nil]
  | cons p ps ih =>
    simp only [List.flatten_cons, List.length_append] at h ⊢
    simp only [collectPieces]
    rw [Slice.tryExtend_eq s p hc, if_pos (by omega)]
    simp only
    have hlen := writeAt_length (show s.cursor + p.length ≤ s.mem.length by omega)
    rw [ih]
    · simp only [writeAt_writeAt _ _ hc, Nat.add_assoc]
    · simp only [hlen]; omega
    · simp only [hlen]; omega

/-- some piece does not fit ⇒ `CollectStrError`; exactly the first `k` pieces were written,
where piece `k` is the FIRST one that does not fit (pieces are all-or-nothing, and a
later, shorter piece is never tried). -/
theorem Slice.collectPieces_overflow (ps : List (List Byte)) (s : SliceSt)
    (hc : s.cursor ≤ s.mem.length) (h : ¬ s.cursor + ps.flatten.length ≤ s.mem.length) :
    ∃ k, k < ps.length ∧
      s.cursor + (ps.take k).flatten.length ≤ s.mem.length ∧
      ¬ s.cursor + (ps.take (k + 1)).flatten.length ≤ s.mem.length ∧
      collectPieces Slice s ps =
        (⟨writeAt s.mem s.cursor (ps.take k).flatten, s.cursor + (ps.take k).flatten.length⟩,
          some .collectStr) := by
  induction ps generalizing s with
  | nil => simp at h; omega
  | cons p ps ih =>
    simp only [List.flatten_cons, List.length_append] at h
    simp only [collectPieces]
    rw [Slice.tryExtend_eq s p hc]
    by_cases hfit : s.cursor + p.length ≤ s.mem.length
    · rw [if_pos hfit]
      simp only
      have hlen := writeAt_length hfit
      obtain ⟨k, hk, hb, hn, he⟩ := ih ⟨writeAt s.mem s.cursor p, s.cursor + p.length⟩
        (by simp only [hlen]; omega) (by simp only [hlen]; omega)
      simp only [hlen] at hb hn
      refine ⟨k + 1, by simp only [List.length_cons]; omega, ?_, ?_, ?_⟩
      · simp only [List.take_succ_cons, List.flatten_cons, List.length_append]; omega
      · simp only [List.take_succ_cons, List.flatten_cons, List.length_append]; omega
      · rw [he]
        simp only [List.take_succ_cons, List.flatten_cons, writeAt_writeAt _ _ hc,
          List.length_append, Nat.add_assoc]
    · rw [if_neg hfit]
      refine ⟨0, by simp, by simpa using hc, ?_, by simp [writeAt_nil]⟩
      simp only [Nat.zero_add, List.take_succ_cons, List.take_zero, List.flatten_cons,
        List.flatten_nil, List.append_nil]
      exact hfit

theorem HVec.collectPieces_fits (ps : List (List Byte)) (s : HVecSt)
    (h : s.vec.length + ps.flatten.length ≤ s.cap) :
    collectPieces HVec s ps = (⟨s.cap, s.vec ++ ps.flatten⟩, none) := by
  induction ps generalizing s with
  | nil => simp [collectPieces]
  | cons p ps ih =>
    simp only [List.flatten_cons, List.length_append] at h ⊢
    simp only [collectPieces]
    rw [HVec.tryExtend_eq, if_pos (by omega)]
    simp only
    rw [ih]
    · simp only [List.append_assoc]
    · simp only [List.length_append]; omega

/-- `heapless::Vec::extend_from_slice` is all-or-nothing too: the vector holds exactly the
first `k` whole pieces, piece `k` being the first that does not fit. -/
theorem HVec.collectPieces_overflow (ps : List (List Byte)) (s : HVecSt)
    (hc : s.vec.length ≤ s.cap) (h : ¬ s.vec.length + ps.flatten.length ≤ s.cap) :
    ∃ k, k < ps.length ∧
      s.vec.length + (ps.take k).flatten.length ≤ s.cap ∧
      ¬ s.vec.length + (ps.take (k + 1)).flatten.length ≤ s.cap ∧
      collectPieces HVec s ps = (⟨s.cap, s.vec ++ (ps.take k).flatten⟩, some .collectStr) := by
  induction ps generalizing s with
  | nil => simp at h; omega
  | cons p ps ih =>
    simp only [List.flatten_cons, List.length_append] at h
    simp only [collectPieces]
    rw [HVec.tryExtend_eq]
    by_cases hfit : s.vec.length + p.length ≤ s.cap
    · rw [if_pos hfit]
      simp only
      obtain ⟨k, hk, hb, hn, he⟩ := ih ⟨s.cap, s.vec ++ p⟩
        (by simp only [List.length_append]; omega) (by simp only [List.length_append]; omega)
      simp only [List.length_append] at hb hn
      refine ⟨k + 1, by simp only [List.length_cons]; omega, ?_, ?_, ?_⟩
      · simp only [List.take_succ_cons, List.flatten_cons, List.length_append]; omega
      · simp only [List.take_succ_cons, List.flatten_cons, List.length_append]; omega
      · rw [he]
        simp only [List.take_succ_cons, List.flatten_cons, List.append_assoc]
    · rw [if_neg hfit]
      refine ⟨0, by simp, by simp; omega, ?_, by simp⟩
      simp only [Nat.zero_add, List.take_succ_cons, List.take_zero, List.flatten_cons,
        List.flatten_nil, List.append_nil]
      exact hfit

/-! ## 3. the entry point `collectStrWith`, case by case -/

theorem collectStrWith_alloc (pieces : List (List Byte)) :
    collectStrWith AllocVec [] pieces = (collectFull pieces, .ok (collectFull pieces)) := by
  have hx : ∀ bs, AllocVec.tryExtend [] bs = (bs, none) := fun _ => rfl
  have hf : ∀ s, AllocVec.finalize s = (s, .ok s) := fun _ => rfl
  simp only [collectStrWith, sum_map_length_eq_flatten, hx, AllocVec.collectPieces_eq, hf]

theorem writeAt_after (buf a b : List Byte) :
    writeAt (a ++ buf.drop a.length) a.length b = (a ++ b) ++ buf.drop (a ++ b).length := by
  have := writeAt_writeAt (mem := buf) (pos := 0) a b (Nat.zero_le _)
  simpa only [writeAt_zero, Nat.zero_add] using this

theorem Slice.hdr_fits (buf hdr : List Byte) (h : hdr.length ≤ buf.length) :
    Slice.tryExtend ⟨buf, 0⟩ hdr = (⟨hdr ++ buf.drop hdr.length, hdr.length⟩, none) := by
  rw [Slice.tryExtend_eq _ _ (Nat.zero_le _)]
  simp only [Nat.zero_add, writeAt_zero]
  rw [if_pos h]

theorem Slice.hdr_overflow (buf hdr : List Byte) (h : ¬ hdr.length ≤ buf.length) :
    Slice.tryExtend ⟨buf, 0⟩ hdr = (⟨buf, 0⟩, some .bufferFull) := by
  rw [Slice.tryExtend_eq _ _ (Nat.zero_le _)]
  simp only [Nat.zero_add]
  rw [if_neg h]

theorem after_hdr_length (buf hdr : List Byte) (h : hdr.length ≤ buf.length) :
    (hdr ++ buf.drop hdr.length).length = buf.length := by
  simp only [List.length_append, List.length_drop]; omega

/-- everything fits: the slice holds header ++ text ++ untouched tail. -/
theorem collectStrWith_slice_fits (buf : List Byte) (pieces : List (List Byte))
    (h : (collectFull pieces).length ≤ buf.length) :
    collectStrWith Slice ⟨buf, 0⟩ pieces =
      (⟨collectFull pieces ++ buf.drop (collectFull pieces).length, (collectFull pieces).length⟩,
        .ok (collectFull pieces)) := by
  have hh : (collectHdr pieces).length ≤ buf.length := by
    simp only [List.length_append] at h; omega
  have hl := after_hdr_length buf _ hh
  have hp := Slice.collectPieces_fits pieces
    ⟨collectHdr pieces ++ buf.drop (collectHdr pieces).length, (collectHdr pieces).length⟩
    (by simp only [hl]; exact hh)
    (by simp only [hl]; simpa only [List.length_append] using h)
  simp only [writeAt_after] at hp
  have hf : ∀ s : SliceSt, Slice.finalize s = (s, .ok (s.mem.take s.cursor)) := fun _ => rfl
  simp only [collectStrWith, sum_map_length_eq_flatten, Slice.hdr_fits buf _ hh, hp, hf,
    ← List.length_append, List.take_left']

/-- the header does not fit: nothing is written, `SerializeBufferFull`. -/
theorem collectStrWith_slice_hdr_overflow (buf : List Byte) (pieces : List (List Byte))
    (h : ¬ (collectHdr pieces).length ≤ buf.length) :
    collectStrWith Slice ⟨buf, 0⟩ pieces = (⟨buf, 0⟩, .error .bufferFull) := by
  simp only [collectStrWith, sum_map_length_eq_flatten, Slice.hdr_overflow buf _ h]

/-- the header fits, the text does not: `CollectStrError`; header and the first `k` WHOLE
pieces are in the buffer, piece `k` being the first that does not fit. -/
theorem collectStrWith_slice_piece_overflow (buf : List Byte) (pieces : List (List Byte))
    (hh : (collectHdr pieces).length ≤ buf.length)
    (h : ¬ (collectFull pieces).length ≤ buf.length) :
    ∃ k, k < pieces.length ∧
      (collectHdr pieces ++ (pieces.take k).flatten).length ≤ buf.length ∧
      ¬ (collectHdr pieces ++ (pieces.take (k + 1)).flatten).length ≤ buf.length ∧
      collectStrWith Slice ⟨buf, 0⟩ pieces =
        (⟨(collectHdr pieces ++ (pieces.take k).flatten) ++
            buf.drop (collectHdr pieces ++ (pieces.take k).flatten).length,
          (collectHdr pieces ++ (pieces.take k).flatten).length⟩, .error .collectStr) := by
  have hl := after_hdr_length buf _ hh
  obtain ⟨k, hk, hb, hn, he⟩ := Slice.collectPieces_overflow pieces
    ⟨collectHdr pieces ++ buf.drop (collectHdr pieces).length, (collectHdr pieces).length⟩
    (by simp only [hl]; exact hh)
    (by simp only [hl]; simpa only [List.length_append] using h)
  simp only [hl, writeAt_after, ← List.length_append] at hb hn he
  refine ⟨k, hk, hb, hn, ?_⟩
  simp only [collectStrWith, sum_map_length_eq_flatten, Slice.hdr_fits buf _ hh, he]

theorem collectStrWith_hvec_fits (cap : Nat) (pieces : List (List Byte))
    (h : (collectFull pieces).length ≤ cap) :
    collectStrWith HVec ⟨cap, []⟩ pieces = (⟨cap, collectFull pieces⟩, .ok (collectFull pieces)) := by
  have hh : (collectHdr pieces).length ≤ cap := by
    simp only [List.length_append] at h; omega
  have hx : HVec.tryExtend ⟨cap, []⟩ (collectHdr pieces) = (⟨cap, collectHdr pieces⟩, none) := by
    rw [HVec.tryExtend_eq]
    simp only [List.length_nil, Nat.zero_add, List.nil_append]
    rw [if_pos hh]
  have hp := HVec.collectPieces_fits pieces ⟨cap, collectHdr pieces⟩
    (by simpa only [List.length_append] using h)
  have hf : ∀ s : HVecSt, HVec.finalize s = (s, .ok s.vec) := fun _ => rfl
  simp only [collectStrWith, sum_map_length_eq_flatten, hx, hp, hf]

theorem collectStrWith_hvec_hdr_overflow (cap : Nat) (pieces : List (List Byte))
    (h : ¬ (collectHdr pieces).length ≤ cap) :
    collectStrWith HVec ⟨cap, []⟩ pieces = (⟨cap, []⟩, .error .bufferFull) := by
  have hx : HVec.tryExtend ⟨cap, []⟩ (collectHdr pieces) = (⟨cap, []⟩, some .bufferFull) := by
    rw [HVec.tryExtend_eq]
    simp only [List.length_nil, Nat.zero_add]
    rw [if_neg h]
  simp only [collectStrWith, sum_map_length_eq_flatten, hx]

theorem collectStrWith_hvec_piece_overflow (cap : Nat) (pieces : List (List Byte))
    (hh : (collectHdr pieces).length ≤ cap) (h : ¬ (collectFull pieces).length ≤ cap) :
    ∃ k, k < pieces.length ∧
      (collectHdr pieces ++ (pieces.take k).flatten).length ≤ cap ∧
      ¬ (collectHdr pieces ++ (pieces.take (k + 1)).flatten).length ≤ cap ∧
      collectStrWith HVec ⟨cap, []⟩ pieces =
        (⟨cap, collectHdr pieces ++ (pieces.take k).flatten⟩, .error .collectStr) := by
  have hx : HVec.tryExtend ⟨cap, []⟩ (collectHdr pieces) = (⟨cap, collectHdr pieces⟩, none) := by
    rw [HVec.tryExtend_eq]
    simp only [List.length_nil, Nat.zero_add, List.nil_append]
    rw [if_pos hh]
  obtain ⟨k, hk, hb, hn, he⟩ := HVec.collectPieces_overflow pieces ⟨cap, collectHdr pieces⟩ hh
    (by simpa only [List.length_append] using h)
  simp only [← List.length_append] at hb hn
  refine ⟨k, hk, hb, hn, ?_⟩
  simp only [collectStrWith, sum_map_length_eq_flatten, hx, he]

/-- "the first `k` pieces" really is the LONGEST run of whole pieces that fits: with piece
`k` the first that does not fit, the first `j` pieces fit iff `j ≤ k`. -/
theorem longest_fitting_run (pieces : List (List Byte)) (hdr : List Byte) (n k : Nat)
    (hb : (hdr ++ (pieces.take k).flatten).length ≤ n)
    (hn : ¬ (hdr ++ (pieces.take (k + 1)).flatten).length ≤ n) (j : Nat) :
    (hdr ++ (pieces.take j).flatten).length ≤ n ↔ j ≤ k := by
  simp only [List.length_append] at hb hn ⊢
  constructor
  · intro hj
    by_cases hjk : j ≤ k
    · exact hjk
    · have := take_flatten_length_mono pieces (i := k + 1) (j := j) (by omega)
      omega
  · intro hjk
    have := take_flatten_length_mono pieces hjk
    omega

/-! ## 4. the properties -/

/-- 1. growable storage: a Display-collected string is encoded exactly like the string it
spells (`serialize_str`), whatever the piece boundaries. -/
theorem collect_alloc (pieces : List (List Byte)) :
    (collectStrWith AllocVec [] pieces).2
        = .ok (encVarint 64 pieces.flatten.length ++ pieces.flatten) ∧
    encVarint 64 pieces.flatten.length ++ pieces.flatten = enc (.str pieces.flatten) := by
  rw [collectStrWith_alloc]
  exact ⟨rfl, by simp only [enc]⟩

/-- 6. only the text matters, not how `Display` chops it into `write_str` pieces. -/
theorem collect_pieces_irrelevant (p q : List (List Byte)) (h : p.flatten = q.flatten) :
    collectStrWith AllocVec [] p = collectStrWith AllocVec [] q := by
  simp only [collectStrWith_alloc, collectFull, collectHdr, h]

/-- 2. `Slice`: success iff header ++ text fits; otherwise `CollectStrError` if at least the
header fits, `SerializeBufferFull` if not even that. -/
theorem collect_slice_threshold (buf : List Byte) (pieces : List (List Byte)) :
    (collectStrWith Slice ⟨buf, 0⟩ pieces).2 =
      if (collectFull pieces).length ≤ buf.length then .ok (collectFull pieces)
      else if (collectHdr pieces).length ≤ buf.length then .error .collectStr
      else .error .bufferFull := by
  by_cases h : (collectFull pieces).length ≤ buf.length
  · rw [if_pos h, collectStrWith_slice_fits buf pieces h]
  · rw [if_neg h]
    by_cases hh : (collectHdr pieces).length ≤ buf.length
    · obtain ⟨k, _, _, _, he⟩ := collectStrWith_slice_piece_overflow buf pieces hh h
      rw [if_pos hh, he]
    · rw [if_neg hh, collectStrWith_slice_hdr_overflow buf pieces hh]

/-- 3. what the caller's buffer holds afterwards.
* success: header ++ text, then the untouched tail;
* header does not fit: the buffer is untouched, cursor 0;
* a piece does not fit: header ++ the first `k` WHOLE pieces, then the untouched tail, where
  `k` is the longest run of whole pieces that fits (`j` pieces fit iff `j ≤ k`) — the
  failing piece leaves no partial bytes, and later (shorter) pieces are not tried;
* always: same length, cursor in bounds, nothing at or beyond the cursor modified. -/
theorem collect_slice_buffer (buf : List Byte) (pieces : List (List Byte)) :
    ((collectFull pieces).length ≤ buf.length →
      (collectStrWith Slice ⟨buf, 0⟩ pieces).1 =
        ⟨collectFull pieces ++ buf.drop (collectFull pieces).length,
          (collectFull pieces).length⟩) ∧
    (¬ (collectHdr pieces).length ≤ buf.length →
      (collectStrWith Slice ⟨buf, 0⟩ pieces).1 = ⟨buf, 0⟩) ∧
    ((collectHdr pieces).length ≤ buf.length → ¬ (collectFull pieces).length ≤ buf.length →
      ∃ k written, k < pieces.length ∧
        written = collectHdr pieces ++ (pieces.take k).flatten ∧
        (∀ j, (collectHdr pieces ++ (pieces.take j).flatten).length ≤ buf.length ↔ j ≤ k) ∧
        written <+: collectFull pieces ∧
        (collectStrWith Slice ⟨buf, 0⟩ pieces).1 =
          ⟨written ++ buf.drop written.length, written.length⟩) ∧
    (collectStrWith Slice ⟨buf, 0⟩ pieces).1.mem.length = buf.length ∧
    (collectStrWith Slice ⟨buf, 0⟩ pieces).1.cursor ≤ buf.length ∧
    (∀ i, (collectStrWith Slice ⟨buf, 0⟩ pieces).1.cursor ≤ i →
      (collectStrWith Slice ⟨buf, 0⟩ pieces).1.mem[i]? = buf[i]?) := by
  have tail : ∀ w : List Byte, w.length ≤ buf.length →
      (w ++ buf.drop w.length).length = buf.length ∧ w.length ≤ buf.length ∧
      ∀ i, w.length ≤ i → (w ++ buf.drop w.length)[i]? = buf[i]? := by
    intro w hw
    refine ⟨after_hdr_length buf w hw, hw, fun i hi => ?_⟩
    rw [List.getElem?_append_right hi, List.getElem?_drop]
    congr 1; omega
  refine ⟨fun h => by rw [collectStrWith_slice_fits buf pieces h],
    fun h => by rw [collectStrWith_slice_hdr_overflow buf pieces h], ?_, ?_⟩
  · intro hh h
    obtain ⟨k, hk, hb, hn, he⟩ := collectStrWith_slice_piece_overflow buf pieces hh h
    refine ⟨k, _, hk, rfl, longest_fitting_run pieces _ _ k hb hn, ?_, by rw [he]⟩
    refine (List.prefix_append_right_inj _).2 ?_
    exact take_flatten_prefix pieces k
  · by_cases h : (collectFull pieces).length ≤ buf.length
    · rw [collectStrWith_slice_fits buf pieces h]; exact tail _ h
    · by_cases hh : (collectHdr pieces).length ≤ buf.length
      · obtain ⟨k, _, hb, _, he⟩ := collectStrWith_slice_piece_overflow buf pieces hh h
        rw [he]; exact tail _ hb
      · rw [collectStrWith_slice_hdr_overflow buf pieces hh]
        exact ⟨rfl, Nat.zero_le _, fun _ _ => rfl⟩

/-- 4a. `HVec` (`heapless::Vec<u8, cap>`): the same threshold. -/
theorem collect_hvec_threshold (cap : Nat) (pieces : List (List Byte)) :
    (collectStrWith HVec ⟨cap, []⟩ pieces).2 =
      if (collectFull pieces).length ≤ cap then .ok (collectFull pieces)
      else if (collectHdr pieces).length ≤ cap then .error .collectStr
      else .error .bufferFull := by
  by_cases h : (collectFull pieces).length ≤ cap
  · rw [if_pos h, collectStrWith_hvec_fits cap pieces h]
  · rw [if_neg h]
    by_cases hh : (collectHdr pieces).length ≤ cap
    · obtain ⟨k, _, _, _, he⟩ := collectStrWith_hvec_piece_overflow cap pieces hh h
      rw [if_pos hh, he]
    · rw [if_neg hh, collectStrWith_hvec_hdr_overflow cap pieces hh]

/-- 4b. the vector never exceeds its capacity; it holds nothing (header did not fit), or
header ++ the longest run of whole pieces that fits (`extend_from_slice` writes nothing of a
block that does not fit), or everything. -/
theorem collect_hvec_within_capacity (cap : Nat) (pieces : List (List Byte)) :
    (collectStrWith HVec ⟨cap, []⟩ pieces).1.cap = cap ∧
    (collectStrWith HVec ⟨cap, []⟩ pieces).1.vec.length ≤ cap ∧
    (collectStrWith HVec ⟨cap, []⟩ pieces).1.vec <+: collectFull pieces ∧
    ((collectFull pieces).length ≤ cap →
      (collectStrWith HVec ⟨cap, []⟩ pieces).1.vec = collectFull pieces) ∧
    (¬ (collectHdr pieces).length ≤ cap → (collectStrWith HVec ⟨cap, []⟩ pieces).1.vec = []) ∧
    ((collectHdr pieces).length ≤ cap → ¬ (collectFull pieces).length ≤ cap →
      ∃ k, k < pieces.length ∧
        (∀ j, (collectHdr pieces ++ (pieces.take j).flatten).length ≤ cap ↔ j ≤ k) ∧
        (collectStrWith HVec ⟨cap, []⟩ pieces).1.vec
          = collectHdr pieces ++ (pieces.take k).flatten) := by
  by_cases h : (collectFull pieces).length ≤ cap
  · have hh : (collectHdr pieces).length ≤ cap := by
      simp only [List.length_append] at h; omega
    rw [collectStrWith_hvec_fits cap pieces h]
    exact ⟨rfl, h, List.prefix_refl _, fun _ => rfl, fun n => absurd hh n, fun _ n => absurd h n⟩
  · by_cases hh : (collectHdr pieces).length ≤ cap
    · obtain ⟨k, hk, hb, hn, he⟩ := collectStrWith_hvec_piece_overflow cap pieces hh h
      rw [he]
      refine ⟨rfl, hb, ?_, fun n => absurd n h, fun n => absurd hh n,
        fun _ _ => ⟨k, hk, longest_fitting_run pieces _ _ k hb hn, rfl⟩⟩
      exact (List.prefix_append_right_inj _).2 (take_flatten_prefix pieces k)
    · rw [collectStrWith_hvec_hdr_overflow cap pieces hh]
      exact ⟨rfl, Nat.zero_le _, List.nil_prefix, fun n => absurd n h, fun _ => rfl,
        fun n => absurd n hh⟩

/-- 5. no truncated success: whatever a bounded storage returns as `Ok` is the complete
encoding of the string. -/
theorem collect_never_ok_truncated (pieces : List (List Byte)) (out : List Byte) :
    (∀ buf, (collectStrWith Slice ⟨buf, 0⟩ pieces).2 = .ok out →
      out = enc (.str pieces.flatten) ∧ out.length ≤ buf.length) ∧
    (∀ cap, (collectStrWith HVec ⟨cap, []⟩ pieces).2 = .ok out →
      out = enc (.str pieces.flatten) ∧ out.length ≤ cap) := by
  have henc : enc (.str pieces.flatten) = collectFull pieces := by simp only [enc]
  constructor
  · intro buf h
    rw [collect_slice_threshold] at h
    split at h
    · next hf => injection h with h; subst h; exact ⟨henc.symm, hf⟩
    · split at h <;> cases h
  · intro cap h
    rw [collect_hvec_threshold] at h
    split at h
    · next hf => injection h with h; subst h; exact ⟨henc.symm, hf⟩
    · split at h <;> cases h

/-! ## 5. non-vacuity: `format_args!("{}:{}", host, port)`-style pieces
`"printer.example"`, `":"`, `"80"` — 15 + 1 + 2 = 18 text bytes, 1 header byte, 19 in all. -/
namespace C05Collect

def exPieces : List (List Byte) :=
  [[0x70, 0x72, 0x69, 0x6E, 0x74, 0x65, 0x72, 0x2E, 0x65, 0x78, 0x61, 0x6D, 0x70, 0x6C, 0x65],
   [0x3A], [0x38, 0x30]]

def exFull : List Byte :=
  [0x12, 0x70, 0x72, 0x69, 0x6E, 0x74, 0x65, 0x72, 0x2E, 0x65, 0x78, 0x61, 0x6D, 0x70, 0x6C, 0x65, 0x3A, 0x38, 0x30]

example : collectFull exPieces = exFull := by decide
example : (collectFull exPieces).length = 19 ∧ (collectHdr exPieces).length = 1 := by decide
example : (collectStrWith AllocVec [] exPieces).2 = .ok exFull := by rfl
example : exFull = enc (.str exPieces.flatten) := by rfl
-- capacity 20: fits, the last cell is untouched
example : collectStrWith Slice ⟨List.replicate 20 0xFF, 0⟩ exPieces
    = (⟨exFull ++ [0xFF], 19⟩, .ok exFull) := by rfl
-- capacity 19: the exact threshold
example : collectStrWith Slice ⟨List.replicate 19 0xFF, 0⟩ exPieces
    = (⟨exFull, 19⟩, .ok exFull) := by rfl
-- capacity 18: header, host and ":" are in, "80" does not fit as a whole — not even its "8"
example : collectStrWith Slice ⟨List.replicate 18 0xFF, 0⟩ exPieces
    = (⟨exFull.take 17 ++ [0xFF], 17⟩, .error .collectStr) := by rfl
-- capacity 16: header and host fill the buffer, ":" fails
example : collectStrWith Slice ⟨List.replicate 16 0xFF, 0⟩ exPieces
    = (⟨exFull.take 16, 16⟩, .error .collectStr) := by rfl
-- capacity 4: only the header is written; the 15-byte host is all-or-nothing
example : collectStrWith Slice ⟨List.replicate 4 0xFF, 0⟩ exPieces
    = (⟨[0x12, 0xFF, 0xFF, 0xFF], 1⟩, .error .collectStr) := by rfl
-- capacity 0: not even the header — a different error, nothing written
example : collectStrWith Slice ⟨[], 0⟩ exPieces = (⟨[], 0⟩, .error .bufferFull) := by rfl
-- the first piece that does not fit decides: `[4]` would fit after the header, but it is
-- never tried once `[1, 2, 3]` has failed
example : collectStrWith Slice ⟨[0xFF, 0xFF, 0xFF], 0⟩ [[1, 2, 3], [4]]
    = (⟨[4, 0xFF, 0xFF], 1⟩, .error .collectStr) := by rfl
-- an EMPTY piece after a full buffer is not an error (`try_extend(&[])` succeeds)
example : collectStrWith Slice ⟨[0xFF, 0xFF, 0xFF], 0⟩ [[1, 2], []]
    = (⟨[2, 1, 2], 3⟩, .ok [2, 1, 2]) := by rfl
-- no pieces at all: the empty string, one header byte
example : collectStrWith Slice ⟨[0xFF, 0xFF], 0⟩ [] = (⟨[0, 0xFF], 1⟩, .ok [0]) := by rfl
example : collectStrWith Slice ⟨[], 0⟩ [] = (⟨[], 0⟩, .error .bufferFull) := by rfl
example : collectStrWith AllocVec [] [] = ([0], .ok [0]) := by rfl
-- `HVec`
example : collectStrWith HVec ⟨19, []⟩ exPieces = (⟨19, exFull⟩, .ok exFull) := by rfl
example : collectStrWith HVec ⟨18, []⟩ exPieces = (⟨18, exFull.take 17⟩, .error .collectStr) := by
  rfl
example : collectStrWith HVec ⟨4, []⟩ exPieces = (⟨4, [0x12]⟩, .error .collectStr) := by rfl
example : collectStrWith HVec ⟨0, []⟩ exPieces = (⟨0, []⟩, .error .bufferFull) := by rfl
-- piece boundaries are irrelevant for growable storage
example : collectStrWith AllocVec [] exPieces = collectStrWith AllocVec [] [exPieces.flatten] :=
  collect_pieces_irrelevant _ _ (by decide)
-- … but not for bounded storage: the same text in one piece leaves only the header at 18
example : collectStrWith Slice ⟨List.replicate 18 0xFF, 0⟩ [exPieces.flatten]
    = (⟨0x12 :: List.replicate 17 0xFF, 1⟩, .error .collectStr) := by rfl

end C05Collect

end Postcard
